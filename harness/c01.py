"""C01 — charge is conserved in every cell at every recorded step.

(a) operator level: `TDGLSolver.solve_for_observables` on random ψ / link exponents / boundary densities vs the
    Float model (superEdge, poissonRhs, normalEdge) and the Poisson residual of the real LU solve;
(b) run level: short real runs (fixed/adaptive, static/ramped field, constant/time-dependent balanced currents,
    screening on/off, 2-4 terminals, hole, unit choices): per-cell continuity on every saved frame against the
    injection computed independently from the *requested* currents in SI units;
(c) acceptance of balanced current assignments (2-4 terminals, integers and non-representable decimals).
"""
from __future__ import annotations

import os

import numpy as np
import scipy.constants as sc

import runs
import vcommon as V
import zoo
import tdgl

LEVEL = "proof"
RULE = (
    "operator level: zoo devices x random psi, A, mu_b; run level: devices x drives x options, every saved frame is a "
    "case; acceptance: balanced dicts over 2-4 terminals with integer / decimal / time-dependent currents; "
    "non-trivial = a frame with non-zero injected current, or a dict with >= 3 terminals or decimals"
)
EXPLANATION = (
    "Lean theorems C01_* (cell continuity for ANY mu solving the Poisson equation handed to the LU solver, the share "
    "of each cell, zero outflow away from terminals, balanced terminal density, unit conversion); Float model vs "
    "solve_for_observables; continuity oracle on saved frames from the requested currents in SI."
)
ASSUMPTIONS = [
    "SuperLU solves L mu = rhs (residual checked each call: <= 1e-9 relative)",
    "continuity tolerance 1e-9 * max|injection| + 1e-11 (observed 1e-13)",
]
EPS = np.finfo(float).eps


def K0_SI(dev):
    """K0 = 4 xi Bc2 / (mu0 Lambda), computed independently in SI (A/m)"""
    to_m = dev.ureg(dev.length_units).to("m").magnitude
    xi = dev.layer.coherence_length * to_m
    lam = dev.layer.london_lambda * to_m
    d = dev.layer.thickness * to_m
    Phi0 = sc.h / (2 * sc.e)
    Bc2 = Phi0 / (2 * np.pi * xi**2)
    return 4 * xi * Bc2 / (sc.mu_0 * lam**2 / d), xi, to_m


def expected_injection(dev, currents, current_units):
    """a_r (B mu_b)_r expected from the requested currents: cell r gets (l_b/2) * J_t for each terminal boundary
    edge b touching it, J_t = I_t * J_scale / L_t (dimensionless), all computed here from SI constants."""
    K0, xi, to_m = K0_SI(dev)
    cu = dev.ureg(current_units).to("A").magnitude
    mesh = dev.mesh
    em = mesh.edge_mesh
    inj = np.zeros(len(mesh.sites))
    totals = {}
    for name, t in zoo.independent_terminals(dev).items():
        I = float(currents.get(name, 0.0))
        bidx = t["boundary_edges"]
        ell = em.edge_lengths[bidx]  # dimensionless
        L_phys_m = ell.sum() * xi  # metres
        J_t = 4.0 * (I * cu) / (L_phys_m * K0)  # dimensionless sheet current density
        for b, l in zip(bidx, ell):
            i, j = em.edges[b]
            inj[i] += l / 2 * J_t
            inj[j] += l / 2 * J_t
        totals[name] = (I, ell.sum() * J_t)
    return inj, totals


def check_frame(ctx, dev, D, Js, Jn, currents, current_units, tag, fail):
    mesh = dev.mesh
    a = mesh.areas
    out = a * (D @ (Js + Jn))
    inj, totals = expected_injection(dev, currents, current_units)
    scale = max(np.abs(inj).max(), np.abs(a * (np.abs(D) @ (np.abs(Js) + np.abs(Jn)))).max() * 1e-3, 1e-30)
    err = np.abs(out - inj)
    tol = 1e-9 * scale + 1e-11
    ctx.tol("cell_continuity(rel to max injection)", float(err.max() / scale), 1e-9)
    if (err > tol).any():
        r = int(np.argmax(err))
        on_term = bool(inj[r] != 0)
        fail("cell-continuity", f"cell {r} ({'terminal' if on_term else 'non-terminal'} cell): outflow {out[r]:.6e}, injected {inj[r]:.6e}", cell=r, outflow=float(out[r]), injected=float(inj[r]), **tag)
        return False
    # terminal totals in the user's units
    K0, xi, to_m = K0_SI(dev)
    cu = dev.ureg(current_units).to("A").magnitude
    for name, t in zoo.independent_terminals(dev).items():
        sites = np.zeros(len(a), dtype=bool)
        sites[mesh.edge_mesh.edges[t["boundary_edges"]].ravel()] = True
        I_meas = out[sites].sum() * xi * K0 / 4 / cu
        I_req = float(currents.get(name, 0.0))
        sc_ = max(abs(I_req), max(abs(float(v)) for v in currents.values()) if currents else 0.0, 1e-30)
        if abs(I_meas - I_req) > 1e-8 * sc_ + 1e-12:
            fail("terminal-total", f"terminal {name}: {I_meas:.9g} {current_units} enters, {I_req:.9g} requested", terminal=name, measured=float(I_meas), requested=I_req, **tag)
            return False
    return True


# ----------------------------------------------------------------------------------------------
def operator_level(ctx, with_model=True):
    from tdgl.solver.solver import TDGLSolver

    first = None
    kinds = ["bar", "bar_hole", "cross4"] if ctx.quick else ["bar", "bar_hole", "bar3", "cross4", "union", "ring"]
    for kind in kinds:
        dev = zoo.make_device(kind, ctx.rng, smooth=int(ctx.rng.choice([0, 3])))
        mesh = dev.mesh
        em = mesh.edge_mesh
        n, E, nb = len(mesh.sites), len(em.edges), len(em.boundary_edge_indices)
        solver = TDGLSolver(device=dev, options=runs.options(), applied_vector_potential=0.0)
        for rep in range(2 if ctx.quick else 6):
            A = ctx.rng.normal(size=(E, 2)) * ctx.rng.choice([0.0, 0.5, 3.0])
            solver.operators.set_link_exponents(A)
            psi = ctx.rng.normal(size=n) + 1j * ctx.rng.normal(size=n)
            dAdt = ctx.rng.normal(size=E) * ctx.rng.choice([0.0, 1.0])
            mb = ctx.rng.normal(size=nb) * ctx.rng.choice([0.0, 1.0, 1.0])
            # the pure-Neumann problem is solvable only for zero total injected flux (balanced currents)
            lb = em.edge_lengths[em.boundary_edge_indices]
            mb = mb - (lb @ mb) / lb.sum()
            solver.mu_boundary = mb
            mu, js, jn = solver.solve_for_observables(psi, dAdt)
            ops = solver.operators
            rhs = ops.divergence @ (js - dAdt) - ops.mu_boundary_laplacian @ solver.mu_boundary
            res = ops.mu_laplacian @ mu - rhs
            rel = float(np.abs(res).max() / max(np.abs(rhs).max(), 1e-300))
            ctx.tol("poisson_residual(rel)", rel, 1e-9)
            ctx.case((kind, rep, float(psi[0].real)))
            ctx.count("operator_level_cases")
            if rel > 1e-9:
                rp = dict(device=kind, rep=rep, residual=rel)
                ctx.fail("poisson-residual", f"LU solve residual {rel:.2e}", rp)
                first = first or dict(key="poisson-residual", what="LU residual", **rp)
            # continuity with the implementation's own matrices
            out = mesh.areas * (ops.divergence @ (js + jn))
            inj = mesh.areas * (ops.mu_boundary_laplacian @ solver.mu_boundary)
            sc_ = max(np.abs(inj).max(), float((mesh.areas * (np.abs(ops.divergence) @ (np.abs(js) + np.abs(jn)))).max()), 1e-30)
            if np.abs(out - inj).max() > 1e-9 * sc_:
                rp = dict(device=kind, rep=rep, err=float(np.abs(out - inj).max()))
                ctx.fail("operator-continuity", "a D(Js+Jn) != a B mu_b", rp)
                first = first or dict(key="operator-continuity", what="a D(Js+Jn) != a B mu_b", **rp)
            if with_model:
                theta = np.einsum("ij, ij -> i", A, em.directions)
                lines = [zoo.mesh_line(mesh), f"js | {zoo.fl(theta)} | {zoo.cfl(psi)}", f"rhs | {zoo.fl(js)} | {zoo.fl(dAdt)} | {zoo.fl(solver.mu_boundary)}",
                         f"jn | {zoo.fl(mu)} | {zoo.fl(dAdt)}"]
                o = V.driver(lines)
                ctx.traces += 1
                mjs, mrhs, mjn = zoo.parse_f(o[1]), zoo.parse_f(o[2]), zoo.parse_f(o[3])
                G = np.abs(ops.psi_gradient)
                s_js = np.abs(psi[em.edges[:, 0]]) * (G @ np.abs(psi)) + 1e-300
                ctx.corr(bool((np.abs(mjs - js) <= 64 * EPS * s_js).all()), "superEdge vs get_supercurrent", dict(device=kind))
                s_rhs = np.abs(ops.divergence) @ (np.abs(js) + np.abs(dAdt)) + np.abs(ops.mu_boundary_laplacian) @ np.abs(solver.mu_boundary) + 1e-300
                ctx.corr(bool((np.abs(mrhs - rhs) <= 64 * EPS * s_rhs).all()), "poissonRhs vs implementation rhs", dict(device=kind, worst=float((np.abs(mrhs - rhs) / s_rhs).max())))
                s_jn = np.abs(ops.mu_gradient) @ np.abs(mu) + np.abs(dAdt) + 1e-300
                ctx.corr(bool((np.abs(mjn - jn) <= 64 * EPS * s_jn).all()), "normalEdge vs implementation Jn", dict(device=kind))
    return first


def drives(quick):
    from tdgl.sources import ConstantField, LinearRamp

    ramp = LinearRamp(tmin=0.0, tmax=0.08) * ConstantField(0.8, field_units="mT", length_units="um")
    d = [
        dict(name="2term_int", dev="bar", cur={"source": 5.0, "drain": -5.0}, A=0.3, opts=dict(dt_init=1e-2, adaptive=False)),
        dict(name="3term_decimals", dev="bar3", cur={"source": 0.1, "drain": 0.2, "top": -0.3}, A=0.0, opts=dict(dt_init=1e-3, dt_max=2e-2, adaptive=True, adaptive_window=2)),
        dict(name="4term", dev="cross4", cur={"source": 5.0, "drain": -2.0, "top": -3.5, "bottom": 0.5}, A=0.5, opts=dict(dt_init=1e-2, adaptive=False)),
        dict(name="hole_ramp_timedep", dev="bar_hole", cur="timedep", A=ramp, opts=dict(dt_init=5e-3, adaptive=False)),
        dict(name="screening", dev="bar", cur={"source": 3.0, "drain": -3.0}, A=0.2, opts=dict(dt_init=1e-2, adaptive=False, include_screening=True, screening_tolerance=1e-2)),
        # terminals that carry no current / are not named at all / keep a constant current while others vary
        dict(name="3term_one_idle", dev="bar3", cur={"source": 3.0, "drain": -3.0, "top": 0.0}, A=0.2, opts=dict(dt_init=1e-2, adaptive=False)),
        dict(name="3term_one_unnamed", dev="bar3", cur={"source": 2.0, "drain": -2.0}, A=0.0, opts=dict(dt_init=1e-2, adaptive=False)),
        dict(name="4term_two_idle", dev="cross4", cur={"top": 1.5, "bottom": -1.5, "source": 0.0, "drain": 0.0}, A=0.3, opts=dict(dt_init=1e-2, adaptive=False)),
        dict(name="4term_timedep_partial", dev="cross4", cur="timedep4", A=0.1, opts=dict(dt_init=5e-3, adaptive=False)),
    ]
    # the same triangulation with other site positions (smoothing moves the interior sites only) and another
    # coherence length (the mesh is stored in units of xi), solved in the same process as the plain ones
    d += [
        dict(name="2term_smoothed_same_triangles", dev="bar", dev_kw=dict(smooth=40), cur={"source": 4.0, "drain": -4.0}, A=0.3, opts=dict(dt_init=1e-2, adaptive=False)),
        dict(name="3term_other_xi", dev="bar3", dev_kw=dict(xi=0.4, max_edge_length=1.25), cur={"source": 3.0, "drain": -1.0, "top": -2.0}, A=0.2, opts=dict(dt_init=1e-2, adaptive=False)),
    ]
    # contact pads overlapping the film (interior edges inside the terminal polygons)
    d += [dict(name="2term_thick_pads", dev="bar_thick", dev_kw=dict(max_edge_length=0.6), cur={"source": 3.0, "drain": -3.0}, A=0.2, opts=dict(dt_init=1e-2, adaptive=False))]
    # a mesh of several thousand sites (whatever the library does differently above a size threshold, the balance is exact)
    d += [dict(name="2term_6000_sites", dev="bar", dev_kw=dict(max_edge_length=0.09), T=2.5e-3, cur={"source": 3.0, "drain": -3.0}, A=0.3, opts=dict(dt_init=1e-4, dt_max=5e-4, adaptive=True, adaptive_window=2))]
    # a mesh whose pure-Neumann matrix for mu is EXACTLY singular (SuperLU refuses it; repaired as 86941f9: one site is
    # grounded): the balance holds in every cell, the grounded one included
    d += [dict(name="exactly_singular_neumann_matrix", dev="union", dev_kw=dict(smooth=5), cur=None, A=0.6, opts=dict(dt_init=5e-3, adaptive=False))]
    # the device object of the earlier drives meshed again, finer (Triangle inserts new boundary vertices, so sites and
    # boundary edges are renumbered): terminal bookkeeping must be that of the mesh in use
    d += [dict(name="2term_after_remesh", dev="bar", remesh=0.5, cur={"source": 4.0, "drain": -4.0}, A=0.3, opts=dict(dt_init=5e-3, adaptive=False))]
    # a bias so small that its dimensionless density is below 1e-8, and a bias swept in steps of 1e-6 of its value:
    # the requested current is the requested current, however small it or its change is
    d += [dict(name="2term_tiny_bias", dev="bar", cur={"source": 2e-8, "drain": -2e-8}, A=0.0, opts=dict(dt_init=1e-2, adaptive=False)),
          dict(name="2term_fine_sweep", dev="bar", cur="fine", A=0.1, opts=dict(dt_init=1e-2, adaptive=False))]
    d += [dict(name="3term_same_solver_solved_twice", dev="bar3", twice=True, cur={"source": 3.0, "drain": -1.0, "top": -2.0}, A=0.2, opts=dict(dt_init=1e-2, adaptive=False))]
    # "converted from the user's units": prefixes of the current unit and of the device's length unit that do not cancel
    d += [
        dict(name="units_nA_uT", dev="bar3", cur={"source": 700.0, "drain": -300.0, "top": -400.0}, A=300.0, opts=dict(dt_init=1e-2, adaptive=False, current_units="nA", field_units="uT")),
        dict(name="units_mA_um", dev="bar", cur={"source": 0.004, "drain": -0.004}, A=0.2, opts=dict(dt_init=1e-2, adaptive=False, current_units="mA")),
        dict(name="units_uA_nm_device", dev="bar3", dev_kw=dict(length_units="nm", scale=1000.0), cur={"source": 3.0, "drain": -1.0, "top": -2.0}, A=0.0, opts=dict(dt_init=1e-2, adaptive=False)),
    ]
    # a device moved IN PLACE after it was meshed (a sample shifted under a fixed source): the terminals are where the terminal
    # polygons are now -- along their film edge by more than one boundary edge, across it by less than the pad thickness
    d += [dict(name="2term_translated_in_place_after_meshing", dev="bar", dev_kw=dict(max_edge_length=0.8), moved=(0.03, 0.6), cur={"source": 4.0, "drain": -4.0}, A=0.2, opts=dict(dt_init=1e-2, adaptive=False)),
          dict(name="4term_translated_in_place_after_meshing", dev="cross4", dev_kw=dict(max_edge_length=0.9), moved=(0.55, -0.4), cur={"source": 2.0, "drain": -1.0, "top": -3.0, "bottom": 2.0}, A=0.3,
               opts=dict(dt_init=1e-2, adaptive=False))]
    if not quick:
        d += [
            dict(name="no_current_ring", dev="ring", cur=None, A=0.6, opts=dict(dt_init=1e-2, adaptive=False)),
            dict(name="union_unbiased", dev="union", cur=None, A=0.4, opts=dict(dt_init=5e-3, dt_max=3e-2, adaptive=True, adaptive_window=3)),
        ]
    return d


def timedep_currents(t):
    i = 4.0 * np.sin(7.0 * t) + 1.3
    return {"source": i, "drain": -i}


def fine_sweep_currents(t):
    i = 5.0 * (1.0 + 1e-4 * t)
    return {"source": i, "drain": -i}


def timedep4_currents(t):
    i = 3.0 * np.cos(9.0 * t)
    return {"source": i, "drain": -i, "top": 1.0, "bottom": -1.0}


def run_level(ctx, stop_first=False):
    from tdgl.finite_volume.operators import build_divergence

    first = None
    devs = {}  # one device object per kind: successive solves share it (nothing may carry over from an earlier solve)
    for dr in drives(ctx.quick):
        dkey = (dr["dev"], repr(sorted(dr.get("dev_kw", {}).items())), repr(dr.get("moved")))
        if dkey not in devs:
            devs[dkey] = zoo.make_device(dr["dev"], ctx.rng, **dict(dict(max_edge_length=1.0), **dr.get("dev_kw", {})))
            if dr.get("moved"):
                devs[dkey].translate(dx=dr["moved"][0], dy=dr["moved"][1], inplace=True)
                ctx.count("drives_on_a_device_translated_in_place_after_meshing")
        else:
            ctx.count("solves_on_a_reused_device")
        dev = devs[dkey]
        if dr.get("remesh"):
            dev.terminal_info()  # (the device has been used: whatever it remembers of the old mesh is in place)
            for fac in (1.0, 0.93, 1.07, 0.85):
                try:
                    dev.make_mesh(max_edge_length=dr["remesh"] * dev.layer.coherence_length * 2 * fac)
                    break
                except ValueError:
                    continue
            ctx.count("drives_after_remeshing_a_used_device")
        if dr["name"] == "exactly_singular_neumann_matrix":
            import scipy.sparse.linalg as spla
            from tdgl.finite_volume.operators import build_laplacian

            em_ = dev.mesh.edge_mesh
            try:
                spla.factorized(build_laplacian(dev.mesh, weights=em_.dual_edge_lengths / em_.edge_lengths)[0])
                ctx.count("exactly_singular_drive_was_factorisable_after_all")
            except RuntimeError:
                ctx.count("drives_on_the_grounded_solve_path")
        D = build_divergence(dev.mesh)
        cur = timedep_currents if dr["cur"] == "timedep" else (timedep4_currents if dr["cur"] == "timedep4" else (fine_sweep_currents if dr["cur"] == "fine" else dr["cur"]))
        cu = dr["opts"].get("current_units", "uA")
        out = os.path.join(str(ctx.work), f"{dr['name']}.h5")
        opts = runs.options(solve_time=dr.get("T", 0.12), save_every=3, output_file=out, progress_interval=10**9, **dr["opts"])
        try:
            if dr.get("twice"):
                # the same TDGLSolver object solved a second time: the frames of the SECOND run are checked
                from tdgl.solver.solver import TDGLSolver

                sv = TDGLSolver(device=dev, options=opts, applied_vector_potential=dr["A"], terminal_currents=cur)
                sv.solve()
                if os.path.exists(out):
                    os.remove(out)
                sol = sv.solve()
                ctx.count("second_solve_of_one_solver")
            else:
                sol = tdgl.solve(dev, opts, applied_vector_potential=dr["A"], terminal_currents=cur)
        except RuntimeError as e:
            # a well-posed problem of the zoo that runs on the unchanged tree: a run that dies leaves no recorded
            # step at which the balance could hold
            rp = dict(drive=dr["name"], error=f"{type(e).__name__}: {str(e)[:160]}")
            ctx.fail("run-raised", f"drive {dr['name']}: the run raised {rp['error']}", rp)
            first = first or dict(key="run-raised", what=rp["error"], **rp)
            ctx.case((dr["name"], "raised"))
            continue
        except ValueError as e:
            rp = dict(drive=dr["name"], currents=(dr["cur"] if isinstance(dr["cur"], dict) else str(dr["cur"])), error=str(e)[:160])
            ctx.fail("balanced-rejected", f"balanced terminal currents rejected: {e}", rp)
            first = first or dict(key="balanced-rejected", what=str(e)[:160], **rp)
            ctx.case((dr["name"], "rejected"))
            continue
        frames, _ = runs.parse_h5(sol.path)

        def fail(key, what, **extra):
            nonlocal first
            rp = dict(drive=dr["name"], **extra)
            ctx.fail(key, what, rp)
            if first is None:
                first = dict(key=key, what=what, **rp)

        for fr in frames:
            if fr["step"] == 0:
                continue  # initial condition: currents are zero by construction, mu not yet solved
            # the frame at (step s, time t) was produced by the update called at clock t - dt_{s-1}
            t_call = fr["time"] - fr["dt"]
            c = cur(t_call) if callable(cur) else (cur or {})
            ok = check_frame(ctx, dev, D, fr["data"]["supercurrent"], fr["data"]["normal_current"], c, cu, dict(step=fr["step"]), fail)
            nz = bool(c and any(v != 0 for v in c.values()))
            ctx.case((dr["name"], fr["step"]), nontrivial=nz)
            ctx.count("frames_checked")
            ctx.count("frames_with_injection" if nz else "frames_without_injection")
            if not ok and stop_first:
                return first
        if len(ctx.samples) < 4:
            ctx.samples.append(dict(drive=dr["name"], device=dr["dev"], currents=(dr["cur"] if isinstance(dr["cur"], dict) else str(dr["cur"])), frames=len(frames), sites=len(dev.mesh.sites)))
    return first


def cancelled_level(ctx, stop_first=False):
    """"at every recorded step" includes the last frame of a run the user cancels: Ctrl-C arrives in the middle of an
    update (just after the new supercurrent has been evaluated, before the Poisson solve), the run writes its final
    frame and returns -- that frame, like every other, must hold a balanced pair (J_s, J_n)"""
    from tdgl.finite_volume.operators import MeshOperators, build_divergence
    from tdgl.solver.solver import TDGLSolver

    first = None
    for kind, cur, A, o in (("bar", {"source": 3.0, "drain": -3.0}, 0.4, dict()), ("bar_hole", {"source": 2.0, "drain": -2.0}, 0.5, dict(include_screening=True, screening_tolerance=1e-3))):
        dev = zoo.make_device(kind, ctx.rng, max_edge_length=1.0, lam=(0.5 if o else 2.0))
        D = build_divergence(dev.mesh)
        for at_step in (5, 6):
            o_upd, o_js = TDGLSolver.update, MeshOperators.get_supercurrent
            st = dict(step=-1, fired=False)

            def upd(self, state, *a, **kw):
                st["step"] = int(state["step"])
                return o_upd(self, state, *a, **kw)

            def js(self, psi):
                r = o_js(self, psi)
                if st["step"] == at_step and not st["fired"]:
                    st["fired"] = True
                    raise KeyboardInterrupt()
                return r

            out = os.path.join(str(ctx.work), f"cancel_{kind}_{at_step}.h5")
            if os.path.exists(out):
                os.remove(out)
            TDGLSolver.update, MeshOperators.get_supercurrent = upd, js
            try:
                sol = tdgl.solve(dev, runs.options(solve_time=0.2, dt_init=1e-2, adaptive=False, save_every=4, output_file=out, progress_interval=10**9, pause_on_interrupt=False, **o),
                                 applied_vector_potential=A, terminal_currents=cur)
            except KeyboardInterrupt:
                sol = None
            finally:
                TDGLSolver.update, MeshOperators.get_supercurrent = o_upd, o_js
            ctx.case(("cancelled", kind, at_step), nontrivial=st["fired"])
            ctx.count("cancelled_runs" if st["fired"] else "cancel_injection_not_reached")
            if not os.path.exists(out):
                continue

            def fail(key, what, **extra):
                nonlocal first
                rp = dict(drive=f"cancelled:{kind}", cancelled_in_step=at_step, **extra)
                ctx.fail(key + ":cancelled-run", what, rp)
                if first is None:
                    first = dict(key=key + ":cancelled-run", what=what, **rp)

            for fr in runs.parse_h5(out)[0]:
                if fr["step"] == 0:
                    continue
                check_frame(ctx, dev, D, fr["data"]["supercurrent"], fr["data"]["normal_current"], cur, "uA", dict(step=fr["step"]), fail)
                ctx.count("frames_checked_in_cancelled_runs")
            if sol is not None and int(sol.tdgl_data.state["step"]) > 0:
                check_frame(ctx, dev, D, np.asarray(sol.tdgl_data.supercurrent), np.asarray(sol.tdgl_data.normal_current), cur, "uA", dict(step="returned"), fail)
            if first and stop_first:
                return first
    return first


def acceptance(ctx):
    """every balanced assignment is accepted by the real validator (through the real constructor)"""
    from tdgl.solver.solver import TDGLSolver

    first = None
    cases = [
        ("bar", {"source": 1.0, "drain": -1.0}),
        ("bar", {"source": 0.1, "drain": -0.1}),
        ("bar3", {"source": 5.0, "drain": -2.0, "top": -3.0}),
        ("bar3", {"source": 0.1, "drain": 0.2, "top": -0.3}),
        ("bar3", {"source": 4.0, "drain": -2.0, "top": -2.0}),
        ("cross4", {"source": 0.7, "drain": 0.1, "top": -0.5, "bottom": -0.3}),
        ("cross4", {"source": 1e-3, "drain": 2e-3, "top": 3e-3, "bottom": -6e-3}),
    ]
    # decimal assignments whose float sum is a few ulp of the largest current away from 0
    cases += [("bar3", {"source": 19.9, "drain": 8.7, "top": -28.6}), ("cross4", {"source": 19.9, "drain": 8.7, "top": -28.6, "bottom": 0.0}),
              ("bar3", {"source": 0.7, "drain": 0.1, "top": -0.8}), ("cross4", {"source": 3.3, "drain": 4.4, "top": -5.5, "bottom": -2.2})]
    rng = ctx.rng
    for _ in range(120 if ctx.quick else 600):
        kind = str(rng.choice(["bar3", "cross4"]))
        names = ["source", "drain", "top"] + (["bottom"] if kind == "cross4" else [])
        vals = np.round(rng.uniform(-9, 9, size=len(names) - 1), int(rng.integers(1, 4)))
        last = -float(np.sum(vals))  # decimal strings summed exactly would be 0; floats need not be
        from fractions import Fraction

        exact = -sum(Fraction(str(v)) for v in vals)
        last = float(exact)
        cases.append((kind, dict(zip(names, list(map(float, vals)) + [last]))))
    devs = {}
    for kind, cur in cases:
        if kind not in devs:
            devs[kind] = zoo.make_device(kind, ctx.rng, max_edge_length=1.4)
        for units in (("uA",),) if ctx.quick else (("uA",), ("nA",), ("mA",)):
            ctx.case((kind, tuple(sorted(cur.items())), units[0]), nontrivial=(len(cur) >= 3))
            ctx.count(f"acceptance_{len(cur)}_terminals")
            try:
                TDGLSolver(device=devs[kind], options=runs.options(current_units=units[0]), terminal_currents=cur)
            except ValueError as e:
                if "sum of all terminal currents" not in str(e):
                    raise
                rp = dict(device=kind, currents=cur, current_units=units[0], error=str(e)[:120])
                ctx.fail("balanced-rejected", f"balanced terminal currents {cur} rejected: {e}", rp)
                first = first or dict(key="balanced-rejected", what=str(e)[:120], **rp)
    # a balanced time-dependent assignment with decimal amplitudes (validated by the library at many sampled times)
    for kind in ("bar3", "cross4"):
        names = ["source", "drain", "top"] + (["bottom"] if kind == "cross4" else [])
        amps = [0.1, 0.2, -0.3] + ([0.0] if kind == "cross4" else [])

        def ramped(t, names=names, amps=amps):
            return {n_: a_ * (1.0 + t) for n_, a_ in zip(names, amps)}

        ctx.case((kind, "time-dependent-decimal-ramp"), nontrivial=True)
        ctx.count("acceptance_time_dependent")
        if kind not in devs:
            devs[kind] = zoo.make_device(kind, ctx.rng, max_edge_length=1.4)
        try:
            TDGLSolver(device=devs[kind], options=runs.options(solve_time=1.0), terminal_currents=ramped)
        except ValueError as e:
            if "sum of all terminal currents" not in str(e):
                raise
            rp = dict(device=kind, currents="0.1(1+t), 0.2(1+t), -0.3(1+t)", error=str(e)[:120])
            ctx.fail("balanced-rejected", f"balanced time-dependent terminal currents 0.1(1+t), 0.2(1+t), -0.3(1+t) rejected: {e}", rp)
            first = first or dict(key="balanced-rejected", what=str(e)[:120], **rp)
    # model: terminal density of balanced currents equals I_t / L_t
    cur = np.array([5.0, -2.0, -3.0])
    tl = np.array([1.3, 2.1, 0.7])
    (o,) = V.driver([f"tdens | {zoo.fl(cur)} | {zoo.fl(tl)}"])
    m = zoo.parse_f(o)
    ctx.corr(bool(np.allclose(m, cur / tl, rtol=1e-15, atol=0)), "terminalDensity(Float) = I_t/L_t for balanced currents", dict(model=m.tolist()))
    return first


def boundary_level(ctx, with_model=True):
    """`update_mu_boundary` under arbitrary request histories: after every call the boundary edges of every terminal hold
    the density requested by that call (constant stretches, tiny values, changes of 1e-9 of the value, zero, sign flips);
    the same history through the Lean model `muBoundaryWith` (Float, `!=`) gives the same bits."""
    from tdgl.solver.solver import TDGLSolver

    first = None
    dev = zoo.make_device("bar3", ctx.rng, max_edge_length=1.4)
    names = ["source", "drain", "top"]
    for rep in range(3 if ctx.quick else 12):
        rng = ctx.rng
        n = int(rng.integers(12, 30))
        table = []
        a, b_ = 3.0, -1.0
        for k in range(n):
            kind = rng.choice(["same", "tiny_rel", "tiny_abs", "zero", "big", "flip", "new"], p=[0.2, 0.25, 0.15, 0.08, 0.08, 0.08, 0.16])
            if kind == "tiny_rel":
                a, b_ = a * (1 + float(rng.choice([1e-9, -1e-9, 3e-7, 1e-12]))), b_
            elif kind == "tiny_abs":
                a, b_ = float(rng.choice([1e-9, 2e-8, -1e-11, 1e-13])), float(rng.choice([1e-9, -3e-10, 0.0]))
            elif kind == "zero":
                a, b_ = 0.0, 0.0
            elif kind == "big":
                a, b_ = float(rng.normal() * 1e3), float(rng.normal() * 1e3)
            elif kind == "flip":
                a, b_ = -a, -b_
            elif kind == "new":
                a, b_ = float(rng.normal() * 4), float(rng.normal() * 4)
            table.append((a, b_, -(a + b_)))
            ctx.count(f"boundary_request:{kind}")

        def cur(t, _tb=table):
            i = min(max(int(t), 0), len(_tb) - 1)
            return dict(zip(names, _tb[i]))

        sv = TDGLSolver(device=dev, options=runs.options(solve_time=float(n), dt_init=1e-2, adaptive=False), terminal_currents=cur)
        K0, xi, to_m = K0_SI(dev)
        terms = zoo.independent_terminals(dev)
        em = dev.mesh.edge_mesh
        got, req_lib, want = [], [], []
        for k in range(n):
            sv.update_mu_boundary(float(k))
            cs = sv.current_func(float(k))
            row_g, row_r, row_w = [], [], []
            for ti in sv.terminal_info:
                vals = np.asarray(sv.mu_boundary[ti.boundary_edge_indices], dtype=float)
                if vals.size == 0 or not np.all(vals == vals[0]):
                    rp = dict(call=k, terminal=ti.name)
                    ctx.fail("boundary-not-uniform", f"call {k}: the boundary edges of terminal {ti.name} do not all hold one value", rp)
                    first = first or dict(key="boundary-not-uniform", what=ti.name, **rp)
                row_g.append(float(vals[0]) if vals.size else float("nan"))
                row_r.append(float((-1 / ti.length) * sum(cs.get(nm, 0) for nm in sv.terminal_names if nm != ti.name)))
                # independent: I_t (balanced) over the terminal's length measured on the mesh, in units of K0 / 4
                L_m = em.edge_lengths[terms[ti.name]["boundary_edges"]].sum() * xi
                row_w.append(4.0 * (table[k][names.index(ti.name)] * 1e-6) / (L_m * K0))
            got.append(row_g), req_lib.append(row_r), want.append(row_w)
        got, req_lib, want = np.array(got), np.array(req_lib), np.array(want)
        sc = np.abs(want).max(axis=1, keepdims=True)
        err = np.abs(got - want)
        ctx.tol("boundary value vs requested density (rel to the call's largest density)", float((err / np.maximum(sc, 1e-300)).max()), 1e-11)
        ctx.case(("boundary", rep, n), nontrivial=True)
        ctx.count("boundary_calls", n)
        bad = np.argwhere(err > 1e-11 * sc + 1e-300 * 0)
        if len(bad):
            k, t = map(int, bad[0])
            rp = dict(call=k, terminal=names[t] if t < len(names) else t, held=float(got[k, t]), requested=float(want[k, t]), currents=list(table[k]), previous_currents=list(table[k - 1]) if k else None)
            ctx.fail("boundary-not-requested", f"after call {k} of update_mu_boundary terminal {rp['terminal']} holds the density {got[k, t]:.12e}, requested {want[k, t]:.12e} (previous request: {rp['previous_currents']})", rp)
            first = first or dict(key="boundary-not-requested", what=f"call {k}", **rp)
        if with_model:
            T = got.shape[1]
            (o,) = V.driver([f"mub {T} | {zoo.fl(req_lib)}"])
            ctx.traces += 1
            mo = zoo.parse_f(o).reshape(n, T)
            same = bool(np.array_equal(mo, got))
            ctx.corr(same, "muBoundaryWith (Lean, Float, !=) vs TDGLSolver.update_mu_boundary over a request history", dict(calls=n, first_difference=(np.argwhere(mo != got)[0].tolist() if not same else None)))
    return first


def run(ctx):
    operator_level(ctx)
    run_level(ctx)
    cancelled_level(ctx)
    acceptance(ctx)
    boundary_level(ctx)


def search(ctx):
    ctx.rng = np.random.default_rng(ctx.seed + 2718)
    return operator_level(ctx, with_model=False) or run_level(ctx, stop_first=True) or cancelled_level(ctx, stop_first=True) or acceptance(ctx) or boundary_level(ctx, with_model=False)


def replay(payload):
    ctx = V.Ctx("C01", "quick", int(payload.get("seed", 0)))
    try:
        if payload.get("key") == "balanced-rejected" and "currents" in payload and isinstance(payload["currents"], dict):
            from tdgl.solver.solver import TDGLSolver

            dev = zoo.make_device(payload.get("device", "bar3"), ctx.rng, max_edge_length=1.4)
            try:
                TDGLSolver(device=dev, options=runs.options(current_units=payload.get("current_units", "uA")), terminal_currents=payload["currents"])
                return True
            except ValueError:
                return False
        search(ctx)
        return not any(f["key"] == payload.get("key") for f in ctx.oracle_fails)
    finally:
        ctx.cleanup()
