"""C20 — fields and potentials computed from currents are linear and correct.

`biot_savart_2d` (z and vector modes), `Solution.field_at_position`, `Solution.vector_potential_at_position`,
`convert_field`, `distance.cdist` and `current_loop_vector_potential` are compared with the Float folds of the Lean
model (`bsZ`, `bsVec`) and with an independent SI double sum in extended precision, on random current distributions,
evaluation points off the film plane, several unit choices and loop geometries.  The closed-form loop potential
(complete elliptic integrals — not available in Mathlib) is checked against numerical quadrature only.
"""
from __future__ import annotations

import os

import numpy as np
import scipy.constants as sc

import runs
import vcommon as V
import zoo
import tdgl
from tdgl import distance, em

LEVEL = "proof"
RULE = (
    "random sheet-current distributions (20-200 cells, mixed magnitudes) x evaluation points off the plane x unit "
    "choices (um/nm/mm, uA/nA/mA) x scalar/vector mode; solutions from real runs for the assembly of parts; loop "
    "radii / positions; a case = one kernel evaluation or one assembled field; non-trivial = non-zero currents"
)
EXPLANATION = (
    "Lean theorems C20_* (linearity of the z and vector kernels and of the Coulomb potential for any weights, z of the "
    "vector form = scalar form, sum of parts, H<->B round trip, squared distance = distance squared); the numba "
    "kernels are compared with the model's folds and an independent SI double sum."
)
ASSUMPTIONS = [
    "kernel agreement to 1e-12 * sum|terms| (numba fastmath)",
    "closed-form loop potential vs quadrature: 1e-6 relative (numerical check only; elliptic integrals are outside Mathlib)",
]
MU0 = sc.mu_0


def si_biot_savart(ev, pos, J, areas):
    """(mu0/4pi) sum_k a_k J_k x r / r^3, extended precision; all SI"""
    L = np.longdouble
    d = ev[:, None, :].astype(L) - pos[None, :, :].astype(L)
    r3 = (d**2).sum(axis=2) ** L(1.5)
    pref = (L(MU0) / (4 * L(np.pi))) * areas[None, :].astype(L) / r3
    Jx, Jy = J[:, 0].astype(L), J[:, 1].astype(L)
    Bx = (pref * Jy[None, :] * d[:, :, 2]).sum(axis=1)
    By = -(pref * Jx[None, :] * d[:, :, 2]).sum(axis=1)
    Bz = (pref * (Jx[None, :] * d[:, :, 1] - Jy[None, :] * d[:, :, 0])).sum(axis=1)
    scale = (np.abs(pref) * (np.abs(Jx)[None, :] + np.abs(Jy)[None, :]) * np.abs(d).max(axis=2)).sum(axis=1)
    return np.stack([Bx, By, Bz], axis=1).astype(float), scale.astype(float)


def kernel_cases(ctx, with_model=True):
    rng = ctx.rng
    first = None

    def fail(key, what, **rp):
        nonlocal first
        ctx.fail(key, what, rp)
        if first is None:
            first = dict(key=key, what=what, **rp)

    for rep in range(4 if ctx.quick else 40):
        n = int(rng.integers(20, 200))
        m = int(rng.integers(3, 25))
        lu, cu = str(rng.choice(["um", "nm", "mm"])), str(rng.choice(["uA", "nA", "mA"]))
        pos = rng.uniform(-3, 3, size=(n, 2))
        J = rng.normal(size=(n, 2)) * rng.choice([1e-3, 1.0, 40.0])
        areas = rng.uniform(0.01, 0.4, size=n)
        x, y = rng.uniform(-4, 4, size=m), rng.uniform(-4, 4, size=m)
        z = rng.uniform(0.3, 2.0, size=m) * rng.choice([-1, 1])
        z0 = float(rng.uniform(-0.2, 0.2))
        kw = dict(positions=pos, current_densities=J, z0=z0, areas=areas, length_units=lu, current_units=cu)
        Bv = em.biot_savart_2d(x, y, z, vector=True, **kw).to("tesla").magnitude
        Bz = em.biot_savart_2d(x, y, z, vector=False, **kw).to("tesla").magnitude
        to_m = em.ureg(lu).to("m").magnitude
        to_apm = em.ureg(f"{cu}/{lu}").to("A/m").magnitude
        ev = np.stack([x, y, z], axis=1) * to_m
        p3 = np.concatenate([pos, np.full((n, 1), z0)], axis=1) * to_m
        ref, scale = si_biot_savart(ev, p3, J * to_apm, areas * to_m**2)
        ctx.case(("bs", n, m, lu, cu, float(J[0, 0])), nontrivial=True)
        ctx.count("kernel_cases")
        ctx.count(f"units:{lu}/{cu}")
        e = np.abs(Bv - ref).max(axis=1) / scale
        ctx.tol("biot_savart_2d(vector) vs SI double sum (rel to sum|terms|)", float(e.max()), 1e-11)
        if e.max() > 1e-11:
            fail("biot-savart-wrong", f"biot_savart_2d (vector) differs from the SI double sum by {e.max():.2e} (units {lu}, {cu})", units=[lu, cu], err=float(e.max()))
        ez = np.abs(Bz - Bv[:, 2]) / scale
        ctx.tol("scalar mode vs z of vector mode", float(ez.max()), 1e-12)
        if ez.max() > 1e-12:
            fail("scalar-vs-vector", f"z-only mode differs from the z component of the vector mode by {ez.max():.2e}", err=float(ez.max()))
        # linearity
        J2 = rng.normal(size=(n, 2))
        a, b = rng.normal(size=2)
        lhs = em.biot_savart_2d(x, y, z, vector=True, **dict(kw, current_densities=a * J + b * J2)).magnitude
        rhs = a * Bv + b * em.biot_savart_2d(x, y, z, vector=True, **dict(kw, current_densities=J2)).magnitude
        el = np.abs(lhs - rhs).max() / (np.abs(lhs).max() + 1e-300)
        ctx.tol("linearity", float(el), 1e-10)
        if el > 1e-10:
            fail("not-linear", f"biot_savart_2d is not linear in the currents (rel {el:.2e})", err=float(el))
        if with_model:
            # model folds on the SI inputs of the first evaluation point
            d = ev[0][None, :] - p3
            pref = (MU0 / (4 * np.pi)) * (areas * to_m**2) * (d**2).sum(axis=1) ** (-1.5)
            Js = J * to_apm
            o = V.driver([f"bsz | {zoo.fl(pref)} | {zoo.fl(d[:, 0])} | {zoo.fl(d[:, 1])} | {zoo.fl(Js[:, 0])} | {zoo.fl(Js[:, 1])}",
                          f"bsvec | {zoo.fl(pref)} | {zoo.fl(d[:, 0])} | {zoo.fl(d[:, 1])} | {zoo.fl(d[:, 2])} | {zoo.fl(Js[:, 0])} | {zoo.fl(Js[:, 1])}"])
            ctx.traces += 1
            mz = V.unbits(o[0])
            mv = np.array([V.unbits(t) for t in o[1].split()])
            ctx.corr(abs(mz - Bz[0]) <= 1e-12 * scale[0], "bsZ (Lean, Float) vs _biot_savart_2d_z", dict(model=mz, impl=float(Bz[0])))
            ctx.corr(bool((np.abs(mv - Bv[0]) <= 1e-12 * scale[0]).all()), "bsVec (Lean, Float) vs _biot_savart_2d_vector", dict(model=mv.tolist(), impl=Bv[0].tolist()))
    # edge -> site reconstruction (every field of a solution starts from it): linear, and equal to the Lean `onSite`
    for kind in (("bar_hole", "ring") if ctx.quick else ("bar_hole", "ring", "union", "cross4")):
        dev_ = zoo.make_device(kind, rng, max_edge_length=1.0)
        m_ = dev_.mesh
        em_ = m_.edge_mesh
        q1, q2 = rng.normal(size=len(em_.edges)), rng.normal(size=len(em_.edges))
        a_, b_ = rng.normal(size=2)
        S1, S2, S12 = m_.get_quantity_on_site(q1), m_.get_quantity_on_site(q2), m_.get_quantity_on_site(a_ * q1 + b_ * q2)
        el = float(np.abs(S12 - (a_ * S1 + b_ * S2)).max() / (np.abs(S12).max() + 1e-300))
        ctx.case(("onsite", kind, len(em_.edges)), nontrivial=True)
        ctx.count("onsite_meshes")
        ctx.tol("get_quantity_on_site linearity", el, 1e-12)
        if el > 1e-12:
            fail("onsite-not-linear", f"get_quantity_on_site is not linear in the edge quantity (rel {el:.2e})", err=el, device=kind)
        if np.abs(m_.get_quantity_on_site(np.zeros(len(em_.edges)))).max() != 0.0:
            fail("onsite-zero", "get_quantity_on_site of a zero current is not zero", device=kind)
        if with_model:
            sites_ = rng.choice(len(m_.sites), size=min(40, len(m_.sites)), replace=False)
            nd = em_.normalized_directions
            outl = V.driver([f"onsite | {' '.join(str(int(x)) for x in em_.edges[:, 0])} | {' '.join(str(int(x)) for x in em_.edges[:, 1])} | {zoo.fl(nd[:, k])} | {zoo.fl(q1)} | {' '.join(str(int(x)) for x in sites_)}" for k in (0, 1)])
            ctx.traces += 1
            mod = np.array([[V.unbits(t) for t in line.split()] for line in outl]).T
            worst_ = float(np.abs(mod - S1[sites_]).max() / (np.abs(S1).max() + 1e-300))
            ctx.tol("onSite (Lean, Float) vs get_quantity_on_site (rel)", worst_, 1e-13)
            ctx.corr(worst_ <= 1e-13, "onSite (Lean, Float) vs Mesh.get_quantity_on_site", dict(device=kind, worst=worst_))
    # distance kernels
    for dim in (2, 3):
        XA, XB = rng.normal(size=(17, dim)), rng.normal(size=(23, dim))
        de, ds = distance.cdist(XA, XB, metric="euclidean"), distance.cdist(XA, XB, metric="sqeuclidean")
        ref = ((XA[:, None, :] - XB[None, :, :]) ** 2).sum(axis=2)
        ctx.case(("cdist", dim), nontrivial=True)
        if np.abs(ds - ref).max() > 1e-13 * ref.max() or np.abs(de**2 - ds).max() > 1e-13 * ref.max():
            fail("distance-kernels", "cdist: squared-euclidean is not the square of euclidean / not the direct formula", dim=dim)
    # field conversions
    for val in rng.uniform(0.1, 10, size=4):
        H = em.convert_field(val, "A/m", old_units="mT", ureg=em.ureg, with_units=False)
        Bb = em.convert_field(H, "mT", old_units="A/m", ureg=em.ureg, with_units=False)
        ctx.case(("convert", float(val)), nontrivial=True)
        if abs(Bb - val) > 1e-12 * val or abs(H - val * 1e-3 / em.ureg("mu_0").to_base_units().magnitude) > 1e-9 * abs(H):
            fail("convert-field", f"H<->B conversion does not round-trip ({val} -> {H} -> {Bb})", value=float(val))
    return first


def loop_cases(ctx):
    rng = ctx.rng
    first = None
    for rep in range(3 if ctx.quick else 20):
        R = float(rng.uniform(0.3, 3.0))
        center = rng.uniform(-1, 1, size=3)
        I = float(rng.uniform(0.5, 5.0))
        pts = rng.uniform(-4, 4, size=(6, 3))
        pts[:, 2] = center[2] + rng.uniform(0.3, 2.0, size=6) * rng.choice([-1, 1], size=6)
        A = em.current_loop_vector_potential(pts, loop_center=center, loop_radius=R, current=I, length_units="um", current_units="uA").to("tesla * meter").magnitude
        # quadrature of (mu0 I / 4 pi) \oint dl / |r - r'|
        N = 20000
        th = (np.arange(N) + 0.5) * 2 * np.pi / N
        src = np.stack([center[0] + R * np.cos(th), center[1] + R * np.sin(th), np.full(N, center[2])], axis=1) * 1e-6
        dl = np.stack([-R * np.sin(th), R * np.cos(th), np.zeros(N)], axis=1) * (2 * np.pi / N) * 1e-6
        ref = np.array([(MU0 * I * 1e-6 / (4 * np.pi)) * (dl / np.linalg.norm(p * 1e-6 - src, axis=1)[:, None]).sum(axis=0) for p in pts])
        err = np.abs(A - ref).max() / (np.abs(ref).max() + 1e-300)
        ctx.tol("closed-form loop potential vs quadrature (rel)", float(err), 1e-6)
        ctx.case(("loop", R, float(center[0])), nontrivial=True)
        ctx.count("loop_cases")
        if err > 1e-6:
            rp = dict(radius=R, center=center.tolist(), err=float(err))
            ctx.fail("loop-formula", f"closed-form loop vector potential differs from quadrature by {err:.2e}", rp)
            first = first or dict(key="loop-formula", what="loop", **rp)
    # the same for the CurrentLoop SOURCE (tdgl.sources), on shells from 0.4 to 35 loop radii around the loop: "for all loop
    # radii / positions" includes evaluation points far from a small loop
    from tdgl.sources import CurrentLoop

    for rep in range(2 if ctx.quick else 8):
        R = float(rng.uniform(0.2, 1.5))
        center = rng.uniform(-1, 1, size=3)
        I = float(rng.uniform(0.5, 5.0))
        src_p = CurrentLoop(current=I, radius=R, center=tuple(center), current_units="uA", field_units="mT", length_units="um")
        N = 20000
        th = (np.arange(N) + 0.5) * 2 * np.pi / N
        src = np.stack([center[0] + R * np.cos(th), center[1] + R * np.sin(th), np.full(N, center[2])], axis=1) * 1e-6
        dl = np.stack([-R * np.sin(th), R * np.cos(th), np.zeros(N)], axis=1) * (2 * np.pi / N) * 1e-6
        for shell in (0.4, 3.0, 9.0, 12.0, 20.0, 35.0):
            d_ = rng.normal(size=(5, 3))
            d_[:, 2] = np.abs(d_[:, 2]) + 0.2
            pts = center + shell * R * d_ / np.linalg.norm(d_, axis=1)[:, None]
            got = np.asarray(src_p(pts[:, 0], pts[:, 1], pts[:, 2]), dtype=float) * 1e-3 * 1e-6  # mT um -> T m
            ref = np.array([(MU0 * I * 1e-6 / (4 * np.pi)) * (dl / np.linalg.norm(p_ * 1e-6 - src, axis=1)[:, None]).sum(axis=0) for p_ in pts])
            err = float(np.abs(got - ref).max() / (np.abs(ref).max() + 1e-300))
            ctx.tol("CurrentLoop source vs quadrature (rel, per shell)", err, 1e-6)
            ctx.case(("loop-source", R, shell), nontrivial=True)
            ctx.count("loop_source_shells")
            if err > 1e-6:
                rp = dict(radius=R, center=center.tolist(), distance_in_radii=shell, err=err)
                ctx.fail("loop-formula:source", f"CurrentLoop vector potential at {shell} loop radii differs from quadrature by {err:.2e}", rp)
                first = first or dict(key="loop-formula:source", what="loop source", **rp)
                break
    return first


def ramp(x, y, z, *, t, rate=10.0):
    return min(1.0, rate * t)


def vecA(x, y, z, *, B=0.4):
    return np.stack([-B * y / 2, B * x / 2, np.zeros_like(x)], axis=1)


def assembly_cases(ctx):
    """parts and sums assembled by the Solution methods, for static and time-dependent applied potentials"""
    first = None

    def fail(key, what, **rp):
        nonlocal first
        ctx.fail(key, what, rp)
        if first is None:
            first = dict(key=key, what=what, **rp)

    # the same problem stated in the usual units and in units in which the numbers are tiny / huge (a site must
    # contribute whatever its current density looks like in the chosen units)
    cases = [("static", 0.4, "um", "uA"), ("timedep", tdgl.Parameter(ramp, rate=10.0, time_dependent=True) * tdgl.Parameter(vecA, B=0.4), "um", "uA"),
             ("static_nm_A", 0.4, "nm", "A")]
    if not ctx.quick:
        cases += [("static_mm_nA", 0.4, "mm", "nA"), ("timedep_nm_mA", tdgl.Parameter(ramp, rate=10.0, time_dependent=True) * tdgl.Parameter(vecA, B=0.4), "nm", "mA")]
    for name, A, lu_, cu_ in cases:
        LU = {"um": 1e-6, "nm": 1e-9, "mm": 1e-3}[lu_]
        CU = {"uA": 1e-6, "A": 1.0, "mA": 1e-3, "nA": 1e-9}[cu_]
        sc_ = 1e-6 / LU
        dev = zoo.make_device("bar", ctx.rng, max_edge_length=1.0, length_units=lu_, scale=sc_)
        out = os.path.join(str(ctx.work), f"c20_{name}.h5")
        I_ = 3e-6 / CU
        sol = tdgl.solve(dev, runs.options(solve_time=0.08, dt_init=1e-2, save_every=3, output_file=out, current_units=cu_), applied_vector_potential=A, terminal_currents={"source": I_, "drain": -I_})
        pos = np.array([[0.3, 0.2], [-1.0, 0.5], [1.5, -0.4]]) * sc_
        zq = 0.6 * sc_
        for step in range(sol.data_range[0], sol.data_range[1] + 1):
            sol.solve_step = step
            ctx.case(("assembly", name, step), nontrivial=step > 0)
            ctx.count("assembly_cases")
            for vector in (False, True):
                parts = sol.field_at_position(pos, zs=zq, vector=vector, return_sum=False, with_units=False)
                total = sol.field_at_position(pos, zs=zq, vector=vector, return_sum=True, with_units=False)
                if not np.allclose(total, parts.supercurrent + parts.normal_current, rtol=1e-13, atol=0):
                    fail("field-sum-of-parts", f"field_at_position total != supercurrent + normal parts (step {step})", step=step)
                # independent SI sum from the stored site currents
                Kt = sol.current_density.to("A/m").magnitude
                ev = np.concatenate([pos, np.full((len(pos), 1), zq)], axis=1) * LU
                p3 = np.concatenate([dev.points, np.zeros((len(dev.points), 1))], axis=1) * LU
                ref, scale = si_biot_savart(ev, p3, Kt, dev.areas * LU**2)
                got = np.asarray(total) * 1e-3  # mT -> T
                want = ref if vector else ref[:, 2]
                if np.abs(got - want).max() > 1e-9 * scale.max():
                    fail("field-vs-si", f"field_at_position differs from the SI Biot-Savart sum (step {step}, vector={vector})", step=step)
            # unit handling of the assembled quantities: other field units, positions given as (m, 3), quantities with units
            f_mT = np.asarray(sol.field_at_position(pos, zs=zq, with_units=False))
            f_uT = np.asarray(sol.field_at_position(np.concatenate([pos, np.full((3, 1), zq)], axis=1), units="uT", with_units=False))
            f_q = sol.field_at_position(pos, zs=np.full(3, zq), units="tesla", with_units=True)
            f_H = np.asarray(sol.field_at_position(pos, zs=zq, units="A/m", with_units=False))
            mu0 = em.ureg("mu_0").to_base_units().magnitude
            sc_f = np.abs(f_mT).max() + 1e-300
            if (np.abs(f_uT - 1e3 * f_mT).max() > 1e-9 * 1e3 * sc_f or np.abs(np.asarray(f_q.to("mT").magnitude) - f_mT).max() > 1e-9 * sc_f
                    or np.abs(f_H * mu0 * 1e3 - f_mT).max() > 1e-9 * sc_f):
                fail("field-units", f"field_at_position is inconsistent between unit choices / input forms (step {step})", step=step)
            ap = sol.vector_potential_at_position(pos, zs=zq, return_sum=False, with_units=False)
            a_nm = np.asarray(sol.vector_potential_at_position(pos, zs=zq, units="uT * nm", with_units=False))
            a_def = np.asarray(sol.vector_potential_at_position(pos, zs=zq, with_units=False))  # mT * length_units
            fac_ = 1e3 * (LU / 1e-9)
            if np.abs(a_nm - fac_ * a_def).max() > 1e-9 * fac_ * (np.abs(a_def).max() + 1e-300):
                fail("potential-units", f"vector_potential_at_position is inconsistent between unit choices (step {step})", step=step)
            at = sol.vector_potential_at_position(pos, zs=zq, return_sum=True, with_units=False)
            if not np.allclose(at, ap["applied"] + ap["supercurrent_density"] + ap["normal_current_density"], rtol=1e-13, atol=0):
                fail("potential-sum-of-parts", f"vector_potential_at_position total != applied + supercurrent + normal (step {step})", step=step)
            # Coulomb kernel in SI: (mu0/4pi) sum K a / r  -> mT*um
            Kt = sol.supercurrent_density.to("A/m").magnitude
            r = np.sqrt(((pos[:, None, :] - dev.points[None, :, :]) ** 2).sum(axis=2) + zq**2) * LU
            ref = MU0 / (4 * np.pi) * np.einsum("jk,j,ij->ik", Kt, dev.areas * LU**2, 1 / r) / (1e-3 * LU)
            if np.abs(ap["supercurrent_density"][:, :2] - ref).max() > 1e-9 * np.abs(ref).max() + 1e-30:
                fail("potential-vs-si", f"vector potential of the supercurrent differs from (mu0/4pi) sum K a / r (step {step})", step=step)
            # evaluation points very close to (but off) the film, right above mesh sites: the kernel is 1/|r - r_j| there too
            near = dev.points[[3, len(dev.points) // 2, len(dev.points) - 5]] + 1e-4 * sc_
            for zn in (0.004 * sc_, -0.02 * sc_):
                apn = sol.vector_potential_at_position(near, zs=zn, return_sum=False, with_units=False)
                rn = np.sqrt(((near[:, None, :] - dev.points[None, :, :]) ** 2).sum(axis=2) + zn**2) * LU
                refn = MU0 / (4 * np.pi) * np.einsum("jk,j,ij->ik", Kt, dev.areas * LU**2, 1 / rn) / (1e-3 * LU)
                if np.abs(apn["supercurrent_density"][:, :2] - refn).max() > 1e-9 * np.abs(refn).max() + 1e-30:
                    fail("potential-vs-si:near-film", f"vector potential of the supercurrent at height {zn / sc_:.3g} um above mesh sites differs from (mu0/4pi) sum K a / r (step {step})", step=step, height=float(zn / sc_))
            # a sensor scanned across the film: ONE positions array, moved in place between the calls
            scan = near.copy()
            for k_ in range(3):
                if k_:
                    scan[:, 0] += 0.35 * sc_
                    scan[:, 1] -= 0.2 * sc_
                aps = sol.vector_potential_at_position(scan, zs=0.3 * sc_, return_sum=False, with_units=False)
                rs = np.sqrt(((scan[:, None, :] - dev.points[None, :, :]) ** 2).sum(axis=2) + (0.3 * sc_) ** 2) * LU
                refs = MU0 / (4 * np.pi) * np.einsum("jk,j,ij->ik", Kt, dev.areas * LU**2, 1 / rs) / (1e-3 * LU)
                if np.abs(aps["supercurrent_density"][:, :2] - refs).max() > 1e-9 * np.abs(refs).max() + 1e-30:
                    fail("potential-vs-si:positions-moved-in-place", f"after the positions array was moved in place (scan step {k_}) the vector potential of the supercurrent is not (mu0/4pi) sum K a / r at the new points (step {step})", step=step, scan_step=k_)
                    break
            # the applied part is evaluated at the time of the frame
            if name.startswith("timedep"):
                t_frame = float(sol.tdgl_data.state["time"])
                want = ramp(0, 0, 0, t=t_frame) * vecA(pos[:, 0], pos[:, 1], np.full(3, zq))
                if not np.allclose(ap["applied"], want, rtol=1e-12, atol=1e-15):
                    fail("applied-wrong-time", f"applied vector potential of frame {step} (time {t_frame}) evaluated at another time", step=step)
        # evaluation points on an INTEGER grid (pixel indices, a list of Python ints) at a fractional height: the same
        # numbers as with the grid given in floating point
        for grid in (np.array([[0, 0], [1, -1], [2, 1]], dtype=int), [[0, 0], [1, 1]], np.array([[0, 0], [1, -1]], dtype=np.int32)):
            gf = np.asarray(grid, dtype=float)
            for zfrac in (0.6 * sc_, 1.37 * sc_):
                for what_, fn_ in (("field", lambda p_, z_: np.asarray(sol.field_at_position(p_, zs=z_, with_units=False), dtype=float)),
                                   ("potential", lambda p_, z_: np.asarray(sol.vector_potential_at_position(p_, zs=z_, with_units=False), dtype=float))):
                    try:
                        gi_, gf_ = fn_(grid, zfrac), fn_(gf, zfrac)
                    except Exception as e:  # noqa
                        fail("integer-positions-raise", f"{what_} at integer-typed positions raised {type(e).__name__}: {e}")
                        continue
                    ctx.count("integer_grid_evaluations")
                    if gi_.shape != gf_.shape or not np.allclose(gi_, gf_, rtol=1e-12, atol=0, equal_nan=False):
                        fail("integer-positions", f"{what_} at integer-typed positions and height {zfrac / sc_:.3g} um differs from the same positions given as floats "
                             f"({np.asarray(gi_).ravel()[:3]} vs {np.asarray(gf_).ravel()[:3]})", height=float(zfrac / sc_), output=what_)
        # a single position is allowed by the documentation
        try:
            one = sol.vector_potential_at_position([0.3, 0.2], zs=0.6, with_units=False)
            if np.shape(one) != (1, 3):
                fail("single-position-shape", f"vector_potential_at_position([x, y]) has shape {np.shape(one)}")
        except Exception as e:  # noqa
            fail("single-position-raises", f"vector_potential_at_position with a single position raised {type(e).__name__}: {e}")
        try:
            one = sol.field_at_position([0.3, 0.2], zs=0.6, with_units=False)
        except Exception as e:  # noqa
            fail("single-position-field-raises", f"field_at_position with a single position raised {type(e).__name__}: {e}")
    return first


def run(ctx):
    kernel_cases(ctx)
    loop_cases(ctx)
    assembly_cases(ctx)
    if len(ctx.samples) < 2:
        ctx.samples.append(dict(note="kernel cases: n cells, m points, units", distribution=ctx.dist))


def search(ctx):
    ctx.rng = np.random.default_rng(ctx.seed + 5150)
    return kernel_cases(ctx, with_model=False) or loop_cases(ctx) or assembly_cases(ctx)


def replay(payload):
    ctx = V.Ctx("C20", "quick", int(payload.get("seed", 0)))
    try:
        search(ctx)
        return not any(f["key"] == payload.get("key") for f in ctx.oracle_fails)
    finally:
        ctx.cleanup()
