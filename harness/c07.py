"""C07 — mesh geometry is the Delaunay/Voronoi dual of the device domain.

For devices from the documented primitives (boxes, ellipses, unions, resampled outlines, 0-2 holes, 2-4 terminals,
max_edge_length / min_points / smoothing settings, several coherence lengths):
 * run-time validation of the external mesher (Triangle via meshpy): positively oriented non-degenerate triangles,
   sum of triangle areas = area(film) - area(holes), boundary sites/edges on the outlines, V - E + T = 1 - holes;
 * cell areas and dual edge lengths against an INDEPENDENT construction of the Voronoi diagram clipped to the domain
   (half-plane intersection with shapely), on the sites/edges where the triangulation is locally Delaunay with
   unencroached boundary edges (decided from signed dual lengths); the excluded count is reported;
 * edge vectors / lengths / centres against the site pairs; terminal lengths against the covered boundary length;
 * the Lean geometry model (circumcentre, kites) per triangle against `dual_sites` and the cell areas.
"""
from __future__ import annotations

import os

import numpy as np
from shapely.geometry import Point
from shapely.geometry import Polygon as SPolygon

import vcommon as V
import zoo
import tdgl
from tdgl.geometry import box, circle, ellipse

LEVEL = "proof"
RULE = (
    "devices (bar, bar with hole, ring, union with two holes, ellipse, 4-terminal cross) x max_edge_length x "
    "smoothing in {0,3,10} x min_points x coherence length; every site, edge and triangle of each mesh is a case "
    "element; a case = one mesh; non-trivial = mesh with >= 50 sites"
)
EXPLANATION = (
    "Lean theorems C07_* (coded circumcentre is equidistant from the vertices and independent of labelling, the three "
    "kites tile the triangle so cell areas sum to the domain area, dual edges lie on perpendicular bisectors, edge "
    "geometry is that of the site pair, kite = two right triangles on the half edges); partial: the triangulation "
    "itself comes from Triangle/qhull/shapely and is validated on every mesh, not proved."
)
ASSUMPTIONS = [
    "Triangle (meshpy), qhull (ConvexHull) and shapely are external: their outputs are validated per mesh",
    "areas/lengths compared to 1e-9 relative on locally-Delaunay, unencroached cells; other cells only counted",
]
EPS = np.finfo(float).eps


def mesh_configs(quick):
    c = [
        dict(kind="bar", mel=1.0, smooth=0), dict(kind="bar_hole", mel=0.8, smooth=3), dict(kind="ring", mel=1.0, smooth=0),
        dict(kind="union", mel=1.0, smooth=0), dict(kind="cross4", mel=1.2, smooth=10),
    ]
    # a coherence length of exactly 1 length unit (the dimensionless mesh and the device coordinates coincide numerically)
    c += [dict(kind="bar_hole", mel=1.1, smooth=0, xi=1.0)]
    # a non-convex hole whose vertex mean lies outside it (the mesher needs a point INSIDE each hole)
    c += [dict(kind="Lhole", mel=0.9, smooth=0)]
    # contact pads that reach well into the film (centres of interior edges lie inside the terminal polygons)
    c += [dict(kind="bar_thick", mel=0.5, smooth=0)]
    # holes whose polygons carry mesh = False (one of them because it has been a terminal elsewhere)
    c += [dict(kind="hole_from_terminal", mel=0.9, smooth=0)]
    # a film stated in METRES (coordinates ~1e-6) whose hole outline is sampled every 0.2 nm: every vertex of the outline is a
    # boundary site, the mesh tiles film minus hole
    c += [dict(kind="dense_hole", mel=1.2e-6, smooth=0, units="m", scale=1e-6, light=True)]
    # geometry away from the origin; meshes made without refinement (outline point density only), with min_points only
    c += [dict(kind="bar_hole", mel=0.0, smooth=0, offset=(20.0, 12.0)), dict(kind="ring", mel=1.0, smooth=2, offset=(0.4, -0.3)),
          dict(kind="bar", mel=None, smooth=0, min_points=150, offset=(-7.0, 3.0))]
    if not quick:
        c += [dict(kind="ellipse", mel=0.7, smooth=0), dict(kind="bar3", mel=0.6, smooth=3, xi=0.3), dict(kind="ring", mel=0.5, smooth=10, min_points=400),
              dict(kind="union", mel=0.7, smooth=3, xi=0.8), dict(kind="bar_hole", mel=1.4, smooth=0, xi=1.0)]
    return c


def tri_areas(P, T):
    a, b, c = P[T[:, 0]], P[T[:, 1]], P[T[:, 2]]
    return 0.5 * ((b[:, 0] - a[:, 0]) * (c[:, 1] - a[:, 1]) - (c[:, 0] - a[:, 0]) * (b[:, 1] - a[:, 1]))


def signed_duals(mesh):
    """signed dual length per edge: for an interior edge the sum of the signed distances of the two circumcentres from
    the edge (>= 0 iff locally Delaunay); for a boundary edge the signed distance of the circumcentre to the edge
    (>= 0 iff the boundary edge is not encroached)"""
    P, T, O = mesh.sites, mesh.elements, mesh.dual_sites
    em = mesh.edge_mesh
    emap = {(int(a), int(b)): i for i, (a, b) in enumerate(em.edges)}
    sd = np.zeros(len(em.edges))
    cnt = np.zeros(len(em.edges), dtype=int)
    for t, tri in enumerate(T):
        for k in range(3):
            a, b, c = int(tri[k]), int(tri[(k + 1) % 3]), int(tri[(k + 2) % 3])
            e = emap[(min(a, b), max(a, b))]
            d = P[b] - P[a]
            nrm = np.array([-d[1], d[0]]) / np.linalg.norm(d)  # points to the left of a->b = towards c for ccw triangles
            m = (P[a] + P[b]) / 2
            sd[e] += float((O[t] - m) @ nrm)
            cnt[e] += 1
    return sd, cnt


def voronoi_cells(mesh, domain, radius):
    """independent construction: domain ∩ half-planes of all sites within `radius`"""
    from scipy.spatial import cKDTree

    P = mesh.sites
    tree = cKDTree(P)
    big = 1e3
    cells = []
    for i, p in enumerate(P):
        cell = domain
        for j in tree.query_ball_point(p, radius):
            if j == i:
                continue
            q = P[j]
            m = (p + q) / 2
            d = q - p
            d = d / np.linalg.norm(d)
            n = np.array([-d[1], d[0]])
            # half-plane { x : (x - m).d <= 0 } as a big rectangle
            hp = SPolygon([m + big * n, m - big * n, m - big * n - big * d, m + big * n - big * d])
            cell = cell.intersection(hp)
            if cell.is_empty:
                break
        cells.append(cell)
    return cells


def check_mesh(ctx, cfg, with_model=True):
    if cfg.get("offset") is not None:
        dev = zoo.make_device(cfg["kind"], ctx.rng, xi=cfg.get("xi", 0.5), mesh=False).translate(dx=cfg["offset"][0], dy=cfg["offset"][1])
        dev.make_mesh(max_edge_length=cfg["mel"], min_points=cfg.get("min_points"), smooth=cfg["smooth"])
        ctx.count("meshes_of_off_centre_geometry")
        if not cfg["mel"]:
            ctx.count("meshes_without_refinement")
    elif cfg.get("units"):
        dev = zoo.make_device(cfg["kind"], ctx.rng, max_edge_length=cfg["mel"] / cfg["scale"], smooth=cfg["smooth"], length_units=cfg["units"], scale=cfg["scale"])
        ctx.count("meshes_of_devices_stated_in_" + cfg["units"])
    else:
        dev = zoo.make_device(cfg["kind"], ctx.rng, max_edge_length=cfg["mel"], smooth=cfg["smooth"], xi=cfg.get("xi", 0.5), min_points=cfg.get("min_points"))
    if cfg.get("light"):
        return check_outline_fidelity(ctx, cfg, dev)
    first = check_device_mesh(ctx, cfg, dev, with_model=with_model)
    # ... and for the device read back from a file (the mesh is restored from stored arrays, not re-derived)
    import h5py
    path_ = os.path.join(str(ctx.work), "c07_dev.h5")
    if os.path.exists(path_):
        os.remove(path_)
    with h5py.File(path_, "x") as f_:
        dev.to_hdf5(f_.create_group("device"))
    with h5py.File(path_, "r") as f_:
        back_ = tdgl.Device.from_hdf5(f_["device"])
    ctx.count("meshes_checked_after_reload")
    first = first or check_device_mesh(ctx, dict(cfg, moved="reloaded-from-hdf5"), back_, with_model=False)
    # a library copy that carries the mesh is moved in place: the ORIGINAL was not touched, its mesh is still the dual of its
    # own (unmoved) domain; and the copy's mesh is the dual of the moved domain
    if cfg.get("xi") == 1.0 or ctx.dist.get("meshed_copies_translated_in_place", 0) < (2 if ctx.quick else 10**9):
        twin = dev.copy(with_mesh=True)
        sites_before = dev.mesh.sites.copy()
        twin.translate(dx=3.0 * dev.layer.coherence_length, dy=-1.0 * dev.layer.coherence_length, inplace=True)
        ctx.count("meshed_copies_translated_in_place")
        if not np.array_equal(sites_before, dev.mesh.sites):
            rp = dict(cfg, max_site_shift=float(np.abs(sites_before - dev.mesh.sites).max()))
            ctx.fail("translating-a-meshed-copy-moves-the-original-mesh", f"translating a copy of a meshed device in place moved the mesh sites of the ORIGINAL device by up to "
                     f"{rp['max_site_shift']:.3g} (its film, holes and terminals are where they were)", rp)
            first = first or dict(key="translating-a-meshed-copy-moves-the-original-mesh", what="original mesh moved", **rp)
        else:
            first = first or check_device_mesh(ctx, dict(cfg, moved="after-its-meshed-copy-was-translated-in-place"), dev, with_model=False)
        if cfg.get("xi") == 1.0:
            first = first or check_device_mesh(ctx, dict(cfg, moved="meshed-copy-translated-in-place"), twin, with_model=False)
    # the same relations hold for the mesh a device carries after it has been moved: in place, and inside the
    # `translation` context manager (and again after leaving it)
    moved = dict(cfg, moved="translate-inplace")
    dev.translate(dx=7.0 * dev.layer.coherence_length, dy=-2.0 * dev.layer.coherence_length, inplace=True)
    first = first or check_device_mesh(ctx, moved, dev, with_model=False)
    with dev.translation(-3.0 * dev.layer.coherence_length, 1.5 * dev.layer.coherence_length):
        first = first or check_device_mesh(ctx, dict(cfg, moved="translation-context"), dev, with_model=False)
    first = first or check_device_mesh(ctx, dict(cfg, moved="after-translation-context"), dev, with_model=False)
    # asking a mesh for a smoothed copy leaves the mesh itself the dual of the device domain it was
    pts_before = dev.mesh.sites.copy()
    smoothed = dev.mesh.smooth(4)
    if not np.array_equal(pts_before, dev.mesh.sites) or np.shares_memory(smoothed.sites, dev.mesh.sites):
        rp = dict(cfg, max_site_shift=float(np.abs(pts_before - dev.mesh.sites).max()))
        ctx.fail("smooth-moves-the-mesh-it-was-called-on", f"Mesh.smooth moved the sites of the mesh it was called on by up to {rp['max_site_shift']:.3g} (its edges, areas and dual are those of the old positions)", rp)
        first = first or dict(key="smooth-moves-the-mesh-it-was-called-on", what="smooth mutates its input", **rp)
    else:
        first = first or check_device_mesh(ctx, dict(cfg, moved="after-smooth-was-called-on-its-mesh"), dev, with_model=False)
    # the material is changed on the SAME device object (another coherence length) and the device meshed again with the
    # very same explicit settings as before: the mesh it carries is again the dual of ITS domain, in its length units
    if not cfg.get("units") and ctx.dist.get("remeshed_after_material_change", 0) < (3 if ctx.quick else 10**9):
        M_ = float(cfg["mel"]) if cfg["mel"] else 0.0
        kw_ = dict(max_edge_length=M_, min_points=cfg.get("min_points"), smooth=cfg["smooth"])
        try:
            dev.make_mesh(**kw_)
            dev.layer.coherence_length = 0.8 * float(dev.layer.coherence_length)
            dev.make_mesh(**kw_)
        except ValueError:
            ctx.count("remesh_after_material_change_refused")
            return first
        ctx.count("remeshed_after_material_change")
        first = first or check_device_mesh(ctx, dict(cfg, moved="re-meshed-with-the-same-settings-after-the-coherence-length-changed"), dev, with_model=False)
    return first


def check_outline_fidelity(ctx, cfg, dev):
    """the global part of the relations on a mesh too large for the per-cell checks: triangles and cells tile film minus holes,
    every vertex of the film / hole outlines is a boundary site, every boundary site lies on an outline"""
    from scipy.spatial import cKDTree

    mesh, xi = dev.mesh, dev.layer.coherence_length
    P, T = mesh.sites * xi, mesh.elements
    tag = dict(kind=cfg["kind"], units=cfg.get("units"), sites=len(P))
    first = None

    def fail(key, what, **extra):
        nonlocal first
        rp = dict(tag, **extra)
        ctx.fail(key, what, rp)
        if first is None:
            first = dict(key=key, what=what, **rp)

    domain = SPolygon(dev.film.points, holes=[h.points for h in dev.holes])
    size = float(np.sqrt(domain.area))
    ta = float(np.abs(tri_areas(P, T)).sum())
    ca = float(np.sum(mesh.areas) * xi**2)
    ctx.case((cfg["kind"], "outline-fidelity", len(P)), nontrivial=True)
    ctx.count("large_meshes_checked_globally")
    for nm_, a_ in (("triangles", ta), ("cells", ca)):
        rel = abs(a_ - domain.area) / domain.area
        ctx.tol(f"tiling area of {nm_} vs film minus holes (large mesh, relative)", rel, 1e-9)
        if rel > 1e-9:
            fail("tiling-area", f"{nm_} cover area {a_:.12g}, film minus holes has {domain.area:.12g} (relative difference {rel:.2e})", which=nm_)
    bsites = P[np.asarray(mesh.boundary_indices)]
    tree = cKDTree(bsites)
    for poly in [dev.film] + list(dev.holes):
        d_, _ = tree.query(np.asarray(poly.points))
        missing = int((d_ > 1e-9 * size).sum())
        if missing:
            fail("outline-vertex-not-a-boundary-site", f"{missing} of {len(poly.points)} vertices of the outline of {poly.name!r} are not boundary sites of the mesh (farthest: {d_.max() / size:.2e} of the device size)", polygon=poly.name, missing=missing)
    rings = [domain.exterior] + list(domain.interiors)
    off = [i for i, q in enumerate(bsites) if min(r_.distance(Point(q)) for r_ in rings) > 1e-9 * size]
    if off:
        fail("boundary-site-off-outline", f"{len(off)} boundary sites do not lie on the film / hole outlines", count=len(off))
    return first


def check_device_mesh(ctx, cfg, dev, with_model=True):
    mesh = dev.mesh
    xi = dev.layer.coherence_length
    P, T = mesh.sites, mesh.elements
    em = mesh.edge_mesh
    n, E, nt = len(P), len(em.edges), len(T)
    tag = dict(cfg, sites=n)
    first = None

    def fail(key, what, **extra):
        nonlocal first
        rp = dict(tag, **extra)
        ctx.fail(key, what, rp)
        if first is None:
            first = dict(key=key, what=what, **rp)

    ctx.case((cfg["kind"], cfg["mel"], cfg["smooth"], cfg.get("moved", ""), str(cfg.get("offset")), n), nontrivial=n >= 50)
    ctx.count("meshes")
    ctx.count("sites", n)
    ctx.count("edges", E)
    ctx.count("triangles", nt)
    # ---- the triangulation tiles the domain -------------------------------------------------------------
    film = SPolygon(dev.film.points / xi)
    holes = [SPolygon(h.points / xi) for h in dev.holes]
    domain = film
    for h in holes:
        domain = domain.difference(h)
    ta = tri_areas(P, T)
    if (ta <= 0).any():
        fail("triangle-orientation", f"{int((ta <= 0).sum())} triangles are degenerate or negatively oriented")
    rel = abs(ta.sum() - domain.area) / domain.area
    ctx.tol("sum of triangle areas vs area(film) - area(holes) (rel)", rel, 1e-9)
    if rel > 1e-9:
        fail("tiling-area", f"triangles cover area {ta.sum():.9g}, domain has {domain.area:.9g}")
    euler = n - E + nt
    if euler != 1 - len(holes):
        fail("euler", f"V - E + T = {euler}, expected {1 - len(holes)}")
    bsites = mesh.boundary_indices
    outline = domain.boundary
    dist = np.array([outline.distance(Point(P[i])) for i in bsites])
    if dist.max() > 1e-9 * max(1.0, np.abs(P).max()):
        fail("boundary-sites-off-outline", f"a boundary site is {dist.max():.2e} away from the film/hole outlines")
    interior = np.setdiff1d(np.arange(n), bsites)
    if len(interior) and min(outline.distance(Point(P[i])) for i in interior[:: max(1, len(interior) // 40)]) <= 0:
        fail("interior-site-on-outline", "an interior site lies on the outline")
    sd, cnt = signed_duals(mesh)
    if not np.array_equal(np.flatnonzero(cnt == 1), em.boundary_edge_indices):
        fail("boundary-edges", "boundary edges are not exactly the edges with one incident triangle")
    # ---- edge geometry is that of the site pairs -----------------------------------------------------------
    d = P[em.edges[:, 1]] - P[em.edges[:, 0]]
    if not (np.array_equal(em.directions, d) and np.allclose(em.edge_lengths, np.linalg.norm(d, axis=1), rtol=4 * EPS, atol=0)
            and np.allclose(em.centers, (P[em.edges[:, 0]] + P[em.edges[:, 1]]) / 2, rtol=4 * EPS, atol=1e-300)):
        fail("edge-geometry", "edge vectors / lengths / centres are not those of the site pairs")
    # ---- cells vs the independently clipped Voronoi diagram --------------------------------------------------
    good_edge = sd >= -1e-12
    emap = {(int(a), int(b)): i for i, (a, b) in enumerate(em.edges)}
    tri_ok = np.array([all(good_edge[emap[(min(int(t[k]), int(t[(k + 1) % 3])), max(int(t[k]), int(t[(k + 1) % 3])))]] for k in range(3)) for t in T])
    site_ok = np.ones(n, dtype=bool)
    for t, ok in zip(T, tri_ok):
        if not ok:
            site_ok[t] = False
    # how many boundary sites sit at reentrant corners (their completed cell is non-convex: the branch of
    # compute_voronoi_polygon_areas that subtracts the concave triangle)
    ang = np.zeros(n)
    for t in T:
        for k_ in range(3):
            a0, b0, c0 = P[t[k_]], P[t[(k_ + 1) % 3]], P[t[(k_ + 2) % 3]]
            u_, v_ = b0 - a0, c0 - a0
            ang[t[k_]] += np.arccos(np.clip(u_ @ v_ / (np.linalg.norm(u_) * np.linalg.norm(v_)), -1, 1))
    ctx.count("boundary_sites_at_reentrant_corners", int((ang[bsites] > np.pi + 1e-6).sum()))
    ctx.count("sites_locally_delaunay", int(site_ok.sum()))
    ctx.count("sites_excluded", int((~site_ok).sum()))
    cells = voronoi_cells(mesh, domain, radius=3.5 * em.edge_lengths.max())
    va = np.array([c.area for c in cells])
    rel = np.abs(va - mesh.areas) / mesh.areas
    if site_ok.any():
        ctx.tol("cell area vs clipped Voronoi region (rel, locally Delaunay cells)", float(rel[site_ok].max()), 1e-9)
        if rel[site_ok].max() > 1e-9:
            i = int(np.flatnonzero(site_ok)[np.argmax(rel[site_ok])])
            fail("cell-area", f"site {i}: cell area {mesh.areas[i]:.9g} but its clipped Voronoi region has area {va[i]:.9g}", site=i, boundary=bool(i in set(bsites.tolist())))
    rel_tot = abs(mesh.areas.sum() - domain.area) / domain.area
    ctx.tol("sum of cell areas vs domain area (rel)", rel_tot, 1e-9)
    if rel_tot > 1e-9 and site_ok.all():
        fail("cell-area-total", f"cell areas sum to {mesh.areas.sum():.9g}, domain area {domain.area:.9g}")
    # dual edge lengths vs clipped Voronoi faces
    edge_ok = good_edge & site_ok[em.edges[:, 0]] & site_ok[em.edges[:, 1]]
    worst = 0.0
    for e in np.flatnonzero(edge_ok)[:: max(1, int(edge_ok.sum()) // 150)]:
        i, j = em.edges[e]
        # the face between i and j: the part of cell i's boundary that lies on the bisector of (i, j)
        L = 0.0
        polys = [cells[i]] if cells[i].geom_type == "Polygon" else list(getattr(cells[i], "geoms", []))
        for pg in polys:
            xy = np.asarray(pg.exterior.coords)
            for a, b in zip(xy[:-1], xy[1:]):
                on = [abs(np.linalg.norm(q - P[i]) - np.linalg.norm(q - P[j])) < 1e-9 for q in (a, b)]
                if all(on):
                    L += float(np.linalg.norm(b - a))
        err = abs(L - em.dual_edge_lengths[e]) / max(em.edge_lengths.mean(), 1e-300)
        worst = max(worst, err)
        if err > 1e-8:
            fail("dual-edge-length", f"edge {int(e)}: dual length {em.dual_edge_lengths[e]:.9g} but the clipped Voronoi face has length {L:.9g}", edge=int(e))
            break
    ctx.tol("dual edge length vs clipped Voronoi face (rel to mean edge)", worst, 1e-8)
    # ---- terminals ----------------------------------------------------------------------------------------
    for t in dev.terminal_info():
        poly = [p for p in dev.terminals if p.name == t.name][0]
        covered = outline.intersection(SPolygon(poly.points / xi)).length * xi
        slack = 2 * em.edge_lengths[em.boundary_edge_indices].max() * xi
        if abs(t.length - covered) > slack + 1e-12:
            fail("terminal-length", f"terminal {t.name}: length {t.length:.6g} but it covers {covered:.6g} of boundary (slack {slack:.3g})", terminal=t.name)
    # ---- Lean geometry model ---------------------------------------------------------------------------------
    if with_model:
        lines = [f"tri | {zoo.fl(np.concatenate([P[t[0]], P[t[1]], P[t[2]]]))}" for t in T]
        out = V.driver(lines)
        ctx.traces += 1
        kites = np.zeros(n)
        okO = True
        worstO = 0.0
        for t, o in zip(T, out):
            v = [V.unbits(x) for x in o.split()]
            O = np.array(v[:2])
            ti = np.flatnonzero((T == t).all(axis=1))[0]
            dd = np.abs(O - mesh.dual_sites[ti]).max() / (np.abs(P[t]).max() + 1e-300)
            worstO = max(worstO, dd)
            kites[t[0]] += v[3] / 2
            kites[t[1]] += v[4] / 2
            kites[t[2]] += v[5] / 2
        ctx.tol("circumcentre (Lean, Float) vs dual_sites (rel)", worstO, 1e-9)
        ctx.corr(worstO <= 1e-9, "circumcentre (Lean, Float) vs generate_voronoi_vertices", dict(tag, worst=worstO))
        relk = np.abs(kites - mesh.areas) / mesh.areas
        if site_ok.any():
            ctx.tol("kite sums (Lean, Float) vs mesh.areas (rel, locally Delaunay cells)", float(relk[site_ok].max()), 1e-9)
            ctx.corr(bool(relk[site_ok].max() <= 1e-9), "sum of kites (Lean, Float) vs the hull-based cell areas", dict(tag, worst=float(relk[site_ok].max())))
        ctx.corr(abs(kites.sum() - ta.sum()) <= 1e-9 * ta.sum(), "kites tile the triangulation (Float)", dict(tag))
        # connectivity (Tdgl/Topology.lean: getEdges, boundaryEdgeIndices, boundarySites, sideCount) vs the mesh in use
        from tdgl.finite_volume.mesh import Mesh as _Mesh
        out = V.driver(["topo | " + " ".join(str(int(x)) for x in T.ravel())])
        ctx.traces += 1
        secs = [np.array([int(x) for x in sec.split()], dtype=int) for sec in out[0].split("|")]
        m_edges = secs[0].reshape(-1, 2)
        same_edges = m_edges.shape == em.edges.shape and bool((m_edges == em.edges).all())
        ctx.corr(same_edges, "edge list (Lean getEdges) vs mesh.edge_mesh.edges", dict(tag))
        ctx.corr(np.array_equal(secs[1], np.asarray(em.boundary_edge_indices)), "boundary edge indices (Lean) vs edge_mesh.boundary_edge_indices", dict(tag))
        ctx.corr(np.array_equal(secs[2], np.asarray(_Mesh.find_boundary_indices(T))) and np.array_equal(secs[2], np.sort(np.asarray(mesh.boundary_indices))),
                 "boundary sites (Lean) vs Mesh.find_boundary_indices / mesh.boundary_indices", dict(tag))
        # the model's count of adjacent triangles selects the dual-length formula: 1 -> circumcentre to edge midpoint, 2 -> between circumcentres
        if same_edges:
            cnt = secs[3]
            bad_cnt = int(((cnt < 1) | (cnt > 2)).sum())
            if bad_cnt:
                fail("edge-in-more-than-two-triangles", f"{bad_cnt} edges belong to 0 or more than 2 triangles", count=bad_cnt)
        # dual edges from the site coordinates alone (Tdgl/Geometry.lean ccOffset / inCircle / dualInner2 / dualBoundary2; theorems
        # C07_dual_inner_sq, C07_dual_boundary_sq, C07_delaunay_iff, C07_unencroached_iff): the model's length against the stored
        # dual_edge_lengths, its signed face against the one measured from the code's dual_sites, and the sign of the signed face
        # against the in-circle / diametral-circle predicate evaluated here
        if same_edges:
            adj = {}
            for tri in T:
                for k_ in range(3):
                    a_, b_, c_ = int(tri[k_]), int(tri[(k_ + 1) % 3]), int(tri[(k_ + 2) % 3])
                    adj[(a_, b_)] = c_  # triangle on the left of a -> b has the opposite vertex c
            lines, meta = [], []
            for e, (i, j) in enumerate(em.edges):
                i, j = int(i), int(j)
                left, right = adj.get((i, j)), adj.get((j, i))
                if left is not None and right is not None:
                    lines.append("dual | " + zoo.fl(np.concatenate([P[i], P[j], P[left], P[right]])))
                    meta.append((e, i, j, left, right))
                elif left is not None:
                    lines.append("dual | " + zoo.fl(np.concatenate([P[i], P[j], P[left]])))
                    meta.append((e, i, j, left, None))
                elif right is not None:
                    lines.append("dual | " + zoo.fl(np.concatenate([P[j], P[i], P[right]])))
                    meta.append((e, j, i, right, None))
            out = V.driver(lines)
            ctx.traces += 1
            Lm = em.edge_lengths.mean()
            wlen = wsig = 0.0
            area_fv = np.zeros(n)
            sign_bad = []
            n_nd = 0
            for (e, i, j, c_, d_), o in zip(meta, out):
                v = [V.unbits(x) for x in o.split()]
                lab = float(np.linalg.norm(P[j] - P[i]))
                if d_ is not None:
                    s_sum, inc, d2 = v[0] + v[1], v[2], v[3]
                    # independent predicate: is d strictly inside the circumcircle of (i, j, c)?  (|d - O|^2 - R^2, O from three bisector equations)
                    M_ = np.array([P[j] - P[i], P[c_] - P[i]]) * 2
                    O_ = np.linalg.solve(M_, np.array([P[j] @ P[j] - P[i] @ P[i], P[c_] @ P[c_] - P[i] @ P[i]]))
                    pw = float((P[d_] - O_) @ (P[d_] - O_) - (P[i] - O_) @ (P[i] - O_))  # < 0: inside
                    scale = float((P[i] - O_) @ (P[i] - O_))
                    if abs(pw) > 1e-9 * scale and ((s_sum >= 0) != (pw > 0) or (inc <= 0) != (pw > 0)):
                        sign_bad.append(dict(edge=int(e), signed_face=s_sum * lab, in_circle=inc, power=pw))
                    n_nd += int(pw < -1e-9 * scale)
                else:
                    s_sum, d2 = v[0], v[1]
                    m_ = (P[i] + P[j]) / 2
                    pw = float((P[c_] - m_) @ (P[c_] - m_) - (P[i] - m_) @ (P[i] - m_))  # < 0: c encroaches the boundary edge
                    if abs(pw) > 1e-9 * lab * lab and (s_sum >= 0) != (pw > 0):
                        sign_bad.append(dict(edge=int(e), signed_half_face=s_sum * lab, power=pw))
                area_fv[i] += 0.25 * lab * lab * s_sum
                area_fv[j] += 0.25 * lab * lab * s_sum
                wlen = max(wlen, abs(np.sqrt(d2) - em.dual_edge_lengths[e]) / Lm)
                wsig = max(wsig, abs(s_sum * lab - sd[e]) / Lm)
            ctx.count("dual_edges_through_model", len(meta))
            ctx.count("non_delaunay_inner_edges", n_nd)
            ctx.tol("dual edge length (Lean, Float, from site coordinates) vs edge_mesh.dual_edge_lengths (rel to mean edge)", wlen, 1e-8)
            ctx.corr(wlen <= 1e-8, "dual edge length (Lean dualInner2 / dualBoundary2) vs get_dual_edge_lengths", dict(tag, worst=wlen))
            ctx.corr(wsig <= 1e-8, "signed dual face (Lean ccOffset sum) vs the one measured from dual_sites", dict(tag, worst=wsig))
            # the finite-volume area identity (C07_kite_from_offsets summed over the triangles at a site): cell area = 1/4 * sum over
            # the edges at the site of |edge|^2 * signed offset sum, against the hull-based areas of the code (locally Delaunay cells)
            if site_ok.any() and len(meta) == E:
                rel_fv = float((np.abs(area_fv - mesh.areas) / mesh.areas)[site_ok].max())
                ctx.tol("cell area = 1/4 sum |e| * signed dual (Lean ccOffset, Float) vs mesh.areas (rel, locally Delaunay cells)", rel_fv, 1e-8)
                ctx.corr(rel_fv <= 1e-8, "finite-volume area identity (Lean ccOffset sums) vs the hull-based cell areas", dict(tag, worst=rel_fv))
            ctx.corr(not sign_bad, "sign of the signed face vs in-circle / diametral-circle predicate (C07_delaunay_iff, C07_unencroached_iff instances)",
                     dict(tag, first=sign_bad[:1]))
    if len(ctx.samples) < 4:
        ctx.samples.append(dict(tag, edges=E, triangles=nt, holes=len(holes), excluded_sites=int((~site_ok).sum()), euler=euler))
    return first


def run(ctx):
    for cfg in mesh_configs(ctx.quick):
        check_mesh(ctx, cfg)


def search(ctx):
    ctx.rng = np.random.default_rng(ctx.seed + 606)
    for cfg in mesh_configs(False):
        f = check_mesh(ctx, cfg, with_model=False)
        if f:
            return f
    return None


def replay(payload):
    ctx = V.Ctx("C07", "quick", int(payload.get("seed", 0)))
    try:
        cfg = {k: payload[k] for k in ("kind", "mel", "smooth", "xi", "min_points") if k in payload}
        return check_mesh(ctx, cfg, with_model=False) is None
    finally:
        ctx.cleanup()
