"""C03 — finite-volume operators obey the discrete calculus identities.

Correspondence: the four builders of tdgl/finite_volume/operators.py (+ get_supercurrent) against the
Float interpretation of Tdgl.Operators (divRow, gradEdge, lapRow, neuRow, cgradEdge, clapRow, superEdge).
Oracle: each identity of the C03_* theorems evaluated on the implementation's own matrices.
"""
from __future__ import annotations

import os

import numpy as np
import scipy.sparse as sp
from scipy.sparse.csgraph import connected_components

import vcommon as V
import zoo

LEVEL = "proof"
RULE = (
    "mesh zoo (generated devices with/without holes and terminals, smoothed, random Delaunay, structured+jitter, "
    "arbitrary positive weights) x random real/complex fields, random link exponents, unit vectors; a case = one "
    "(mesh, operator, vector) comparison; non-trivial = vector not identically zero"
)
EXPLANATION = (
    "Lean theorems C03_* over an arbitrary (ordered) field for every well-formed mesh; the Float interpretation of "
    "the same row functions is compared with scipy's assembled matrices; identities are also evaluated on the "
    "implementation matrices."
)
ASSUMPTIONS = [
    "scipy.sparse sums duplicate COO entries (validated: assembled matrices equal the model's row sums)",
    "model-vs-implementation tolerance 64*eps*sum|terms| per row; identity residual tolerance 1e-9 relative",
]

EPS = np.finfo(float).eps


def ops_impl():
    from tdgl.finite_volume import operators as O

    return O


def theta_of(mesh, A):
    return np.einsum("ij, ij -> i", A, mesh.edge_mesh.directions)


def compare(ctx, name, impl_vec, model_vec, absM, absv, sample=None):
    """entrywise comparison, tolerance 64 eps * (|M| |v|)"""
    impl_vec = np.asarray(impl_vec)
    model_vec = np.asarray(model_vec)
    if impl_vec.shape != model_vec.shape:
        ctx.corr(False, f"{name}: shape", dict(impl=impl_vec.shape, model=model_vec.shape))
        return
    bound = 64 * EPS * (absM @ absv) + 1e-300
    d = np.abs(impl_vec - model_vec)
    worst = float((d / bound).max()) if len(d) else 0.0
    ctx.tol(f"{name}_model_vs_impl(units of 64eps*sum|terms|)", worst, 1.0)
    ok = bool((d <= bound).all())
    ctx.corr(ok, f"{name}: Float model vs scipy matrix action", None if ok else dict(sample=sample, worst_ratio=worst, index=int(np.argmax(d / bound))))


def vectors(rng, n, complex_=False, k=3):
    vs = []
    for _ in range(k):
        v = rng.normal(size=n)
        if complex_:
            v = v + 1j * rng.normal(size=n)
        vs.append(v)
    e = np.zeros(n, dtype=complex if complex_ else float)
    e[int(rng.integers(n))] = 1.0
    vs.append(e)
    return vs


def built_operators(ctx, mesh, fixed_sites, fix_psi, solver=None):
    """MeshOperators with its matrices built. The constructor also LU-factorises the (by design singular) scalar
    Laplacian, which SuperLU survives only thanks to rounding; on a mesh whose row sums vanish exactly it raises
    'Factor is exactly singular' (seen on the structured zoo mesh). The identities do not need the factorisation, so
    in that case the matrices are built with the factorisation step stubbed out."""
    import scipy.sparse.linalg as spl
    from tdgl.finite_volume.operators import MeshOperators
    from tdgl.solver.options import SparseSolver

    solver = solver or SparseSolver.SUPERLU
    mo = MeshOperators(mesh, solver, fixed_sites=fixed_sites, fix_psi=fix_psi)
    try:
        mo.build_operators()
    except RuntimeError as e:
        if "singular" not in str(e):
            raise
        ctx.count("mu_laplacian_factorisation_exactly_singular")
        orig = spl.factorized
        spl.factorized = lambda A: None
        try:
            mo = MeshOperators(mesh, solver, fixed_sites=fixed_sites, fix_psi=fix_psi)
            mo.build_operators()
        finally:
            spl.factorized = orig
    return mo


def check_mesh(ctx, name, mesh, fixed, with_model=True):
    O = ops_impl()
    rng = ctx.rng
    em = mesh.edge_mesh
    n, E, nb = len(mesh.sites), len(em.edges), len(em.boundary_edge_indices)
    bad = zoo.wf_mesh(mesh)
    if bad:
        raise V.Infra(f"zoo mesh {name} violates the mesh hypotheses: {bad}")
    ctx.count(f"mesh:{name}")
    ctx.count("sites", n)
    ctx.count("edges", E)
    A = rng.normal(size=(E, 2)) * rng.choice([0.0, 0.3, 3.0])
    theta = theta_of(mesh, A)
    D = O.build_divergence(mesh)
    G = O.build_gradient(mesh)
    GA = O.build_gradient(mesh, link_exponents=A)
    Lmu, _ = O.build_laplacian(mesh)
    LA, _ = O.build_laplacian(mesh, link_exponents=A)
    LAf, _ = O.build_laplacian(mesh, link_exponents=A, fixed_sites=fixed) if fixed is not None else (None, None)
    Bn = O.build_neumann_boundary_laplacian(mesh)
    a = mesh.areas
    first_fail = None

    def fail(what, detail):
        nonlocal first_fail
        rp = dict(mesh=name, seed=ctx.seed, detail=detail)
        ctx.fail(f"identity:{what}", f"{what} fails on {name}", rp)
        if first_fail is None:
            first_fail = dict(key=f"identity:{what}", what=what, **rp)

    # ---------------- oracle: identities on the implementation matrices ----------------------
    def relerr(x, scale):
        return float(np.abs(x).max() / max(scale, 1e-300)) if np.size(x) else 0.0

    # L = D G
    r = relerr((Lmu - D @ G).toarray(), np.abs(Lmu).max())
    ctx.tol("L=DG", r, 1e-9)
    if r > 1e-9:
        fail("laplacian_eq_div_grad", r)
    for F in vectors(rng, E):
        s = float(a @ (D @ F))
        sc = float(np.abs(a) @ (np.abs(D) @ np.abs(F)))
        ctx.tol("sum a divF", abs(s) / max(sc, 1e-300), 1e-9)
        if abs(s) > 1e-9 * sc:
            fail("div_sum_zero", s)
        ctx.case((name, "div_sum", float(F[0])), nontrivial=bool(np.any(F)))
    for mb in vectors(rng, nb):
        lhs = float(a @ (Bn @ mb))
        rhs = float(em.edge_lengths[em.boundary_edge_indices] @ mb)
        sc = float(em.edge_lengths[em.boundary_edge_indices] @ np.abs(mb))
        ctx.tol("boundary flux", abs(lhs - rhs) / max(sc, 1e-300), 1e-9)
        if abs(lhs - rhs) > 1e-9 * max(sc, 1e-300):
            fail("boundary_flux", lhs - rhs)
        ctx.case((name, "bflux", float(mb[0]) if nb else 0.0), nontrivial=bool(np.any(mb)))
    S = (sp.diags(a) @ Lmu).toarray()
    r = relerr(S - S.T, np.abs(S).max())
    ctx.tol("aL symmetric", r, 1e-9)
    if r > 1e-9:
        fail("weighted_lap_symm", r)
    ev = np.linalg.eigvalsh((S + S.T) / 2)
    if ev.max() > 1e-9 * np.abs(ev).max():
        fail("neg_semidef", float(ev.max()))
    adj = sp.csr_array((np.ones(E), (em.edges[:, 0], em.edges[:, 1])), shape=(n, n))
    ncomp, _ = connected_components(adj, directed=False)
    # kernel: generalized eigenproblem L g = lam g  <=>  a^{-1/2} S a^{-1/2}
    Sn = S / np.sqrt(np.outer(a, a))
    evn = np.linalg.eigvalsh((Sn + Sn.T) / 2)
    nullity = int((np.abs(evn) < 1e-9 * np.abs(evn).max()).sum())
    if nullity != ncomp:
        fail("kernel", dict(nullity=nullity, components=int(ncomp)))
    r = relerr(Lmu @ np.ones(n), np.abs(Lmu).max())
    if r > 1e-9:
        fail("kernel_contains_constants", r)
    for g in vectors(rng, n):
        en = float(g @ (a * (Lmu @ g)))
        w = em.dual_edge_lengths / em.edge_lengths
        dg = g[em.edges[:, 1]] - g[em.edges[:, 0]]
        ref = -float(w @ dg**2)
        sc = float(np.abs(w) @ dg**2) + 1e-300
        ctx.tol("energy identity", abs(en - ref) / sc, 1e-9)
        if abs(en - ref) > 1e-9 * sc:
            fail("energy_identity", en - ref)
    H = (sp.diags(a) @ LA).toarray()
    r = relerr(H - H.conj().T, np.abs(H).max())
    ctx.tol("aL^A hermitian", r, 1e-9)
    if r > 1e-9:
        fail("cov_hermitian", r)
    al, be, c0 = rng.normal(size=3)
    c0 = c0 * float(np.abs(mesh.sites).max())  # an offset of the size of the function's variation over the mesh (whatever the units)
    glin = al * mesh.sites[:, 0] + be * mesh.sites[:, 1] + c0
    ref = (al * em.directions[:, 0] + be * em.directions[:, 1]) / em.edge_lengths
    r = relerr(G @ glin - ref, np.abs(ref).max() + 1e-300)
    if not name.startswith("weighted"):
        # on geometric meshes (every mesh except the one with arbitrary positive weights): the same from the site
        # coordinates alone, (f_j - f_i) / |r_j - r_i|, and the boundary flux with edge lengths measured between sites
        Pe = mesh.sites[em.edges[:, 1]] - mesh.sites[em.edges[:, 0]]
        le = np.linalg.norm(Pe, axis=1)
        ref_geo = (al * Pe[:, 0] + be * Pe[:, 1]) / le
        r = max(r, relerr(G @ glin - ref_geo, np.abs(ref_geo).max() + 1e-300))
        for mb in vectors(rng, nb, k=1):
            lhs = float(a @ (Bn @ mb))
            rhs_geo = float(le[em.boundary_edge_indices] @ mb)
            if abs(lhs - rhs_geo) > 1e-9 * max(float(le[em.boundary_edge_indices] @ np.abs(mb)), 1e-300):
                fail("boundary_flux_geometric", lhs - rhs_geo)
    ctx.tol("grad linear exact", r, 1e-9)
    if r > 1e-9:
        fail("grad_linear_exact", r)

    # ---------------- the operators IN USE after in-place updates obey the identities too -----------------
    from tdgl.finite_volume.operators import MeshOperators
    from tdgl.solver.options import SparseSolver

    mo = built_operators(ctx, mesh, None, False)
    for k_ in range(3):
        Ak = rng.normal(size=(E, 2)) * (0.0 if k_ == 0 else 1.5)
        mo.set_link_exponents(Ak)
        Hk = (sp.diags(a) @ mo.psi_laplacian).toarray()
        r = relerr(Hk - Hk.conj().T, np.abs(Hk).max())
        ctx.tol("aL^A hermitian (operators in use after updates)", r, 1e-9)
        if r > 1e-9:
            fail("cov_hermitian_in_use", dict(update=k_, defect=r))
        ctx.case((name, "in_use", k_), nontrivial=k_ > 0)

    # ... and when the caller keeps ONE array for the vector potential and overwrites it in place between updates
    # (a preallocated work buffer; the field switched off at the end): at A = 0 the operators in use are the scalar
    # ones -- Laplacian = divergence o gradient, constants annihilated, gradient exact on linear functions
    buf = rng.normal(size=(E, 2)) * 1.5
    mo.set_link_exponents(buf)
    buf[:] = rng.normal(size=(E, 2)) * 0.7
    mo.set_link_exponents(buf)
    buf[:] = 0.0
    mo.set_link_exponents(buf)
    Lk = sp.csr_matrix(mo.psi_laplacian)
    Gk = sp.csr_matrix(mo.psi_gradient)
    scL = float(np.abs(Lmu).max())
    r = max(relerr((Lk - sp.csr_matrix(D @ G)).toarray(), scL), relerr(Lk @ np.ones(n), scL),
            relerr(Gk @ glin - ref, np.abs(ref).max() + 1e-300))
    ctx.tol("operators in use at A = 0 after the caller's buffer was overwritten in place: scalar identities", r, 1e-9)
    if r > 1e-9:
        fail("in_use_after_buffer_overwritten_in_place", dict(defect=r))
    ctx.case((name, "in_use_reused_buffer"), nontrivial=True)

    # terminal sites present but psi left free there (terminal_psi=None): every row of the covariant Laplacian is a
    # Laplacian row -- the operator in use is the very operator of the terminal-free mesh, Hermitian included
    if fixed is not None:
        mof = built_operators(ctx, mesh, fixed, False)
        for k_ in range(3):
            Ak = rng.normal(size=(E, 2)) * (0.0 if k_ == 0 else 1.5)
            mof.set_link_exponents(Ak)
            mo.set_link_exponents(Ak)
            Hk = (sp.diags(a) @ mof.psi_laplacian).toarray()
            r = max(relerr(Hk - Hk.conj().T, np.abs(Hk).max()), relerr((sp.csr_matrix(mof.psi_laplacian) - sp.csr_matrix(mo.psi_laplacian)).toarray(), np.abs(Hk).max()),
                    relerr((sp.csr_matrix(mof.psi_gradient) - sp.csr_matrix(mo.psi_gradient)).toarray(), 1.0))
            ctx.tol("aL^A hermitian / equal to the terminal-free operator (free terminals, operators in use)", r, 1e-9)
            if r > 1e-9:
                fail("cov_hermitian_in_use:free_terminals", dict(update=k_, defect=r))
            ctx.case((name, "in_use_free_terminals", k_), nontrivial=k_ > 0)

    # the scalar operators in use (with and without terminal sites): Laplacian = divergence o gradient,
    # area-weighted symmetric, annihilates the constants
    # ... whichever linear solver the operators are prepared for (building them for PARDISO needs no optional package;
    # UMFPACK is left out: selecting it switches a process-wide scipy setting and needs scikits.umfpack)
    for fx_, slv_ in [(f_, s_) for f_ in ((None, fixed) if fixed is not None else (None,)) for s_ in (SparseSolver.SUPERLU, SparseSolver.PARDISO)]:
        if slv_ is not SparseSolver.SUPERLU and fx_ is None and fixed is not None:
            continue  # the other solvers: once per mesh is enough
        try:
            mo2 = built_operators(ctx, mesh, fx_, True, solver=slv_)
        except (ImportError, ModuleNotFoundError):
            ctx.count(f"solver_not_constructible:{slv_.value}")
            continue
        ctx.count(f"operators_built_for:{slv_.value}")
        mo2.set_link_exponents(rng.normal(size=(E, 2)))
        Lu = sp.csr_matrix(mo2.mu_laplacian)
        DG = sp.csr_matrix(mo2.divergence) @ sp.csr_matrix(mo2.mu_gradient)
        sc_ = float(np.abs(DG).max())
        r1 = float(np.abs(Lu - DG).max()) / sc_
        aL = (sp.diags(a) @ Lu).toarray()
        r2 = float(np.abs(aL - aL.T).max()) / float(np.abs(aL).max())
        r3 = float(np.abs(Lu @ np.ones(n)).max()) / sc_
        ctx.tol("operators in use: mu_laplacian = divergence o mu_gradient / symmetric / constants", max(r1, r2, r3), 1e-9)
        ctx.case((name, "scalar_in_use", fx_ is not None, slv_.value), nontrivial=True)
        if max(r1, r2, r3) > 1e-9:
            fail("scalar_laplacian_in_use", dict(with_terminal_sites=fx_ is not None, sparse_solver=slv_.value, lap_minus_divgrad=r1, asymmetry=r2, constants=r3))

    # ---------------- correspondence with the Lean model --------------------------------------
    if with_model:
        lines = [zoo.mesh_line(mesh)]
        plan = []
        for F in vectors(rng, E):
            lines.append("div | " + zoo.fl(F)); plan.append(("div", D, F, False))
        for g in vectors(rng, n):
            lines.append("grad | " + zoo.fl(g)); plan.append(("grad", G, g, False))
            lines.append("lap | " + zoo.fl(g)); plan.append(("lap", Lmu, g, False))
        for mb in vectors(rng, nb):
            lines.append("neu | " + zoo.fl(mb)); plan.append(("neu", Bn, mb, False))
        fx0 = " ".join("0" for _ in range(n))
        fx1 = fx0
        if fixed is not None:
            mask = np.zeros(n, dtype=int); mask[fixed] = 1
            fx1 = " ".join(str(int(t)) for t in mask)
        for psi in vectors(rng, n, complex_=True):
            lines.append(f"cgrad | {zoo.fl(theta)} | {zoo.cfl(psi)}"); plan.append(("cgrad", GA, psi, True))
            lines.append(f"clap | {fx0} | {zoo.fl(theta)} | {zoo.cfl(psi)}"); plan.append(("clap", LA, psi, True))
            if LAf is not None:
                lines.append(f"clap | {fx1} | {zoo.fl(theta)} | {zoo.cfl(psi)}"); plan.append(("clap_fixed", LAf, psi, True))
            lines.append(f"js | {zoo.fl(theta)} | {zoo.cfl(psi)}"); plan.append(("js", None, psi, False))
        out = V.driver(lines)
        if out[0] != "ok":
            raise V.Infra("driver rejected the mesh line")
        ctx.traces += 1
        for (nm, M, v, cplx), line in zip(plan, out[1:]):
            ctx.case((name, nm, complex(v[0]).real if len(v) else 0.0), nontrivial=bool(np.any(v)))
            if nm == "js":
                from tdgl.finite_volume.operators import MeshOperators
                from tdgl.solver.options import SparseSolver

                mo = MeshOperators(mesh, SparseSolver.SUPERLU, fixed_sites=None, fix_psi=False)
                mo.psi_gradient = GA
                impl = mo.get_supercurrent(v)
                absM = np.abs(GA)
                bound_v = np.abs(v)
                # |Im(conj psi_i * grad)| <= |psi_i| * (|G||psi|)
                scale = np.abs(v[em.edges[:, 0]]) * (absM @ bound_v)
                model = zoo.parse_f(line)
                d = np.abs(impl - model)
                worst = float((d / (64 * EPS * scale + 1e-300)).max())
                ctx.tol("js_model_vs_impl(units of 64eps*sum|terms|)", worst, 1.0)
                ctx.corr(worst <= 1.0, "superEdge vs get_supercurrent", None if worst <= 1 else dict(mesh=name))
                continue
            model = zoo.parse_c(line) if cplx else zoo.parse_f(line)
            compare(ctx, nm, M @ v, model, np.abs(M), np.abs(v), sample=name)
        if len(ctx.samples) < 5:
            ctx.samples.append(dict(mesh=name, sites=n, edges=E, boundary_edges=nb, fixed=(0 if fixed is None else len(fixed)), ops=sorted({p[0] for p in plan})))
    return first_fail


def after_smoothing(ctx, name, mesh, fixed, with_model=True):
    """"smoothed" meshes of the quantifier, made from a mesh that stays in use: the smoothed mesh obeys the identities,
    and so does the mesh `smooth` was called on (it is the same mesh as before: same sites, same geometry)"""
    before = {k: np.array(v, copy=True) for k, v in dict(sites=mesh.sites, areas=mesh.areas, lengths=mesh.edge_mesh.edge_lengths, centers=mesh.edge_mesh.centers).items()}
    try:
        sm = mesh.smooth(3)
    except ValueError as e:
        # the library's own refusal ("Malformed Voronoi cell ..."): Laplacian smoothing can push a boundary cell of a
        # coarse synthetic mesh inside out; nothing is produced, so there is nothing to check
        if "Malformed Voronoi cell" not in str(e):
            raise
        ctx.count("smoothing_refused_by_the_library")
        ctx.case((name, "smooth-refused"))
        return None
    first = None
    now = dict(sites=mesh.sites, areas=mesh.areas, lengths=mesh.edge_mesh.edge_lengths, centers=mesh.edge_mesh.centers)
    moved = [k for k in before if not np.array_equal(before[k], now[k])]
    ctx.case((name, "smooth-leaves-original"), nontrivial=True)
    if moved or np.shares_memory(sm.sites, mesh.sites):
        rp = dict(mesh=name, changed=moved, max_site_shift=float(np.abs(before["sites"] - mesh.sites).max()))
        ctx.fail("identity:smooth_mutates_mesh", f"Mesh.smooth changed the mesh it was called on ({moved or 'shared memory'}); its gradient is no longer exact on linear functions", rp)
        first = dict(key="identity:smooth_mutates_mesh", what="smooth mutates", **rp)
    f2 = check_mesh(ctx, name + ":smoothed", sm, fixed, with_model=with_model)
    f3 = check_mesh(ctx, name + ":after-smooth-was-called-on-it", mesh, fixed, with_model=False) if not moved else None
    return first or f2 or f3


def after_reload(ctx, name, mesh, fixed):
    """the identities hold on a mesh read back from a file (stored in full and stored compressed)"""
    import h5py
    from tdgl.finite_volume.mesh import Mesh

    first = None
    for compress in (False, True):
        p = os.path.join(str(ctx.work), f"mesh_{name}_{int(compress)}.h5")
        with h5py.File(p, "w") as f:
            mesh.to_hdf5(f.create_group("m"), compress=compress)
        with h5py.File(p, "r") as f:
            back = Mesh.from_hdf5(f["m"])
        ctx.count("reloaded_meshes")
        first = first or check_mesh(ctx, f"{name}:reloaded{'-compressed' if compress else ''}", back, fixed, with_model=False)
    return first


def run(ctx):
    zoo_ = zoo.mesh_zoo(ctx.rng, quick=ctx.quick)
    for name, mesh, fixed in zoo_:
        check_mesh(ctx, name, mesh, fixed)
    for name, mesh, fixed in [z for z in zoo_ if z[0] in ("bar_hole", "random_delaunay", "ring")][: (2 if ctx.quick else 3)]:
        after_smoothing(ctx, name, mesh, fixed)
    for name, mesh, fixed in [z for z in zoo_ if z[0] in ("bar_hole", "cross4")]:
        after_reload(ctx, name, mesh, fixed)
    if not ctx.quick:
        for rep in range(6):
            for name, mesh, fixed in zoo.mesh_zoo(ctx.rng, quick=False):
                check_mesh(ctx, f"{name}#{rep}", mesh, fixed)


def search(ctx):
    rng_saved = ctx.rng
    ctx.rng = np.random.default_rng(ctx.seed + 104729)
    try:
        for rep in range(2 if ctx.quick else 10):
            for name, mesh, fixed in zoo.mesh_zoo(ctx.rng, quick=ctx.quick):
                f = check_mesh(ctx, name, mesh, fixed, with_model=False)
                if f is not None:
                    return f
    finally:
        ctx.rng = rng_saved
    return None


def replay(payload):
    ctx = V.Ctx("C03", "quick", int(payload.get("seed", 0)))
    try:
        for name, mesh, fixed in zoo.mesh_zoo(ctx.rng, quick=True):
            check_mesh(ctx, name, mesh, fixed, with_model=False)
        return not any(f["key"] == payload.get("key") for f in ctx.oracle_fails)
    finally:
        ctx.cleanup()
