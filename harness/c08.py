"""C08 — results do not depend on the unit system used to state the problem.

(a) scale factors of the real constructor (Bc2, A0, K0, A_scale, J_scale, screening areas, terminal densities) vs the
    Lean `Units` model (Float) for unit triples over {um,nm,mm} x {mT,uT,T} x {uA,nA,mA};
(b) flux per mesh triangle: theta_12 + theta_23 + theta_31 = 2 pi B area / Phi0 on every triangle;
(c) paired real runs in different unit systems ON THE SAME DIMENSIONLESS MESH (the second device is built from the
    rescaled polygons and handed the first device's triangulation): |psi|, Js, Jn, mu - mean agree at every frame;
    physical outputs (current density in fixed units) agree;
(d) whole pipeline including `make_mesh` in two length units: compared through mesh-independent outputs; a literal
    "same dimensionless solution" there is the known finding F13 (Triangle's floating-point refinement).
"""
from __future__ import annotations

import itertools
import os

import numpy as np

import runs
import vcommon as V
import zoo
import tdgl
from tdgl.em import ureg

LEVEL = "proof"
RULE = (
    "unit triples from {um,nm,mm} x {mT,uT,T} x {uA,nA,mA} (all 27 for the scale factors; pairs for real runs) x "
    "devices x drives (field, bias, screening on/off); a case = one unit system (scale factors) or one frame pair "
    "(runs); non-trivial = the unit system differs from the reference in at least one unit"
)
EXPLANATION = (
    "Lean theorems C08_* over any field (Bc2, A0, K0 and all dimensionless solver inputs — link exponents, terminal "
    "densities, screening weights — are functions of the SI values only; flux per triangle = 2 pi B area / Phi0 "
    "independent of the re-centring); the real constructor's scale factors are compared with the model for all 27 "
    "unit triples and paired real runs are compared on a shared dimensionless mesh."
)
ASSUMPTIONS = [
    "pint's conversion tables are trusted (spot-validated through the SI model values)",
    "paired runs compared in |psi|, Js, Jn, mu - mean to 1e-9 (raw mu/psi differ by the Poisson null space)",
]

LENGTHS = {"um": 1e-6, "nm": 1e-9, "mm": 1e-3}
FIELDS = {"mT": 1e-3, "uT": 1e-6, "T": 1.0}
CURRENTS = {"uA": 1e-6, "nA": 1e-9, "mA": 1e-3}


def consts():
    return float(np.pi), float(ureg("mu_0").to_base_units().magnitude), float(ureg("Phi_0").to_base_units().magnitude)


def device_in_units(kind, lu, rng_seed, mesh_from=None, **kw):
    """the same physical device (reference numbers are in um) expressed in length unit `lu`"""
    s = LENGTHS["um"] / LENGTHS[lu]
    rng = np.random.default_rng(rng_seed)
    dev = zoo.make_device(kind, rng, length_units=lu, scale=s, mesh=(mesh_from is None), max_edge_length=1.0, **kw)
    if mesh_from is not None:
        xi = dev.layer.coherence_length
        dev._create_dimensionless_mesh(mesh_from.mesh.sites * xi, mesh_from.mesh.elements)
    return dev


def scale_factors(ctx, with_model=True):
    from tdgl.solver.solver import TDGLSolver

    first = None
    pi, mu0, phi0 = consts()
    ref_dev = device_in_units("bar", "um", 7)
    refvals = None
    lines, impls, tags = [], [], []
    for lu, fu, cu in itertools.product(LENGTHS, FIELDS, CURRENTS):
        dev = device_in_units("bar", lu, 7, mesh_from=ref_dev)
        B_SI, I_SI = 0.4e-3, 3e-6
        Bn, In = B_SI / FIELDS[fu], I_SI / CURRENTS[cu]
        opts = runs.options(field_units=fu, current_units=cu, include_screening=True)
        s = TDGLSolver(device=dev, options=opts, applied_vector_potential=Bn, terminal_currents={"source": In, "drain": -In})
        ti = [t for t in s.terminal_info if t.name == "source"][0]
        s.update_mu_boundary(0.0)
        mb = s.terminal_current_densities["source"]
        impl = dict(Bc2=dev.Bc2.magnitude, A0=dev.A0.magnitude, K0=dev.K0.magnitude, A_scale=s.A_scale, J_scale=s.current_func(0)["source"] / In,
                    screen=float(s.areas[0] / (dev.mesh.areas[0] * dev.layer.coherence_length**2)), mb=mb, theta=np.asarray(s.operators.link_exponents @ np.ones(2)) * 0 + np.einsum("ij,ij->i", s.operators.link_exponents, dev.mesh.edge_mesh.directions))
        n = dict(xi=dev.layer.coherence_length, lam=dev.layer.london_lambda, d=dev.layer.thickness, B=Bn, I=In, Lt=ti.length)
        lines.append(f"units {V.bits(pi)} {V.bits(mu0)} {V.bits(phi0)} {V.bits(LENGTHS[lu])} {V.bits(FIELDS[fu])} {V.bits(CURRENTS[cu])} "
                     f"{V.bits(n['xi'])} {V.bits(n['lam'])} {V.bits(n['d'])} {V.bits(n['B'])} {V.bits(n['I'])} {V.bits(n['Lt'])}")
        impls.append(impl)
        tags.append((lu, fu, cu))
        ctx.case(("scales", lu, fu, cu), nontrivial=(lu, fu, cu) != ("um", "mT", "uA"))
        ctx.count("unit_triples")
        # invariance of the dimensionless solver inputs across unit systems (oracle on the implementation)
        inv = dict(theta=impl["theta"], mb=impl["mb"], screen_w=float(s.areas[0] / dev.layer.coherence_length), Bc2=impl["Bc2"], K0=impl["K0"])
        if refvals is None:
            refvals = inv
        else:
            for k, v in inv.items():
                r = refvals[k]
                err = float(np.abs(np.asarray(v) - np.asarray(r)).max() / (np.abs(np.asarray(r)).max() + 1e-300))
                ctx.tol(f"invariance of {k} across unit systems (rel)", err, 1e-9)
                if err > 1e-9:
                    rp = dict(units=[lu, fu, cu], quantity=k, rel_err=err)
                    ctx.fail(f"unit-dependent:{k}", f"dimensionless {k} differs by {err:.2e} between (um,mT,uA) and ({lu},{fu},{cu})", rp)
                    first = first or dict(key=f"unit-dependent:{k}", what=k, **rp)
    if with_model:
        out = V.driver(lines)
        ctx.traces += 1
        for o, impl, tg in zip(out, impls, tags):
            m = [V.unbits(t) for t in o.split()]
            names = ["Bc2", "A0", "K0", "A_scale", "J_scale", "screen", "mb"]
            ok = True
            detail = {}
            for nm, mv in zip(names, m):
                iv = impl[nm]
                rel = abs(mv - iv) / (abs(iv) + 1e-300)
                ctx.tol(f"Units model vs constructor: {nm} (rel)", rel, 1e-9)
                if rel > 1e-9:
                    ok = False
                    detail[nm] = dict(model=mv, impl=float(iv))
            ctx.corr(ok, "Units model (Lean, Float) vs the real constructor's scale factors", dict(units=tg, differs=detail))
    return first


def flux_per_triangle(ctx, with_model=True):
    from tdgl.solver.solver import TDGLSolver

    first = None
    pi, mu0, phi0 = consts()
    for kind, lu, fu in (("bar_hole", "um", "mT"), ("ring", "nm", "uT")) if ctx.quick else (("bar_hole", "um", "mT"), ("ring", "nm", "uT"), ("union", "mm", "T"), ("bar", "um", "uT")):
        dev = device_in_units(kind, lu, 11)
        B_SI = 0.7e-3
        Bn = B_SI / FIELDS[fu]
        s = TDGLSolver(device=dev, options=runs.options(field_units=fu), applied_vector_potential=Bn)
        mesh = dev.mesh
        theta_e = np.einsum("ij,ij->i", s.operators.link_exponents, mesh.edge_mesh.directions)
        emap = {(int(a), int(b)): i for i, (a, b) in enumerate(mesh.edge_mesh.edges)}
        xi_SI = dev.layer.coherence_length * LENGTHS[lu]
        worst = 0.0
        for tri in mesh.elements:
            tot = 0.0
            for a, b in ((tri[0], tri[1]), (tri[1], tri[2]), (tri[2], tri[0])):
                a, b = int(a), int(b)
                tot += theta_e[emap[(a, b)]] if a < b else -theta_e[emap[(b, a)]]
            P = mesh.sites[tri] * xi_SI
            area = 0.5 * ((P[1, 0] - P[0, 0]) * (P[2, 1] - P[0, 1]) - (P[2, 0] - P[0, 0]) * (P[1, 1] - P[0, 1]))
            want = 2 * np.pi * B_SI * area / phi0
            worst = max(worst, abs(tot - want) / (abs(want) + 1e-300))
        ctx.tol("flux per triangle vs 2 pi B area / Phi0 (rel)", worst, 1e-9)
        ctx.case(("flux", kind, lu, fu), nontrivial=True)
        ctx.count("flux_meshes")
        if worst > 1e-9:
            rp = dict(device=kind, units=[lu, fu], rel_err=worst)
            ctx.fail("flux-per-triangle", f"gauge phase around a triangle differs from 2 pi Phi/Phi0 by {worst:.2e}", rp)
            first = first or dict(key="flux-per-triangle", what="flux", **rp)
        if with_model:
            tri = mesh.elements[0]
            xi_n = dev.layer.coherence_length
            Pn = mesh.sites[tri] * xi_n
            centers = mesh.edge_mesh.centers * xi_n
            xc = centers[:, 0].min() + np.ptp(centers[:, 0]) / 2
            yc = centers[:, 1].min() + np.ptp(centers[:, 1]) / 2
            lines = []
            for a, b in ((0, 1), (1, 2), (2, 0)):
                lines.append(f"theta {V.bits(pi)} {V.bits(mu0)} {V.bits(phi0)} {V.bits(LENGTHS[lu])} {V.bits(FIELDS[fu])} {V.bits(1e-6)} {V.bits(xi_n)} {V.bits(dev.layer.london_lambda)} {V.bits(dev.layer.thickness)} {V.bits(Bn)} | "
                             + zoo.fl([Pn[a, 0], Pn[a, 1], Pn[b, 0], Pn[b, 1], xc, yc]))
            o = V.driver(lines)
            ctx.traces += 1
            ok = True
            for (a, b), t in zip(((0, 1), (1, 2), (2, 0)), o):
                ia, ib = int(tri[a]), int(tri[b])
                impl = theta_e[emap[(ia, ib)]] if ia < ib else -theta_e[emap[(ib, ia)]]
                ok = ok and abs(V.unbits(t) - impl) <= 1e-9 * (abs(impl) + 1e-12)
            ctx.corr(ok, "linkTheta (Lean, Float) vs the real link exponents of one triangle", dict(device=kind, units=[lu, fu]))
    return first


def paired_runs(ctx, stop_first=False):
    first = None
    # (the last quick triple has a current/length ratio that is NOT numerically A/m)
    combos = [("um", "mT", "uA"), ("nm", "uT", "nA"), ("mm", "T", "mA"), ("nm", "mT", "mA")] if ctx.quick else [("um", "mT", "uA"), ("nm", "uT", "nA"), ("mm", "T", "mA"), ("nm", "T", "uA"), ("um", "uT", "mA")]
    cfgs = [dict(kind="bar", B=0.4e-3, I=3e-6, screening=False), dict(kind="ring", B=0.6e-3, I=None, screening=True),
            # the applied field is re-evaluated (and re-scaled from the user's units) at every step
            dict(kind="ring", B=0.6e-3, I=None, screening=True, td=True), dict(kind="bar", B=0.5e-3, I=2e-6, screening=False, td=True),
            # a non-uniform drive stated with its own current unit: the field of a 5 mA loop above the film
            dict(kind="ring", B=None, I=None, screening=False, loop=dict(I=5e-3, R=1.5e-6, center=(0.3e-6, -0.2e-6, 1.0e-6))),
            # ... and the same with the film itself off the z = 0 plane (the height is a length in the user's units too)
            # the devices of all unit systems built on ONE dimensionless Mesh object (it is dimensionless: sharing it is legitimate)
            dict(kind="bar", B=0.3e-3, I=2.5e-6, screening=False, share=True),
            dict(kind="ring", B=None, I=None, screening=False, z0=0.4e-6, loop=dict(I=5e-3, R=1.5e-6, center=(0.3e-6, -0.2e-6, 1.2e-6)))]
    for cfg in cfgs:
        ref_dev = device_in_units(cfg["kind"], "um", 5, lam=(0.5 if cfg["screening"] else 2.0))
        results = []
        for lu, fu, cu in combos:
            dev = device_in_units(cfg["kind"], lu, 5, mesh_from=ref_dev, lam=(0.5 if cfg["screening"] else 2.0))
            if cfg.get("z0"):
                dev.layer.z0 = cfg["z0"] / LENGTHS[lu]
            if cfg.get("share"):
                dev.mesh = ref_dev.mesh
            out = os.path.join(str(ctx.work), f"c08_{int(bool(cfg.get('share')))}{cfg['kind']}_{int(bool(cfg.get('td')))}_{int(bool(cfg.get('loop')))}_{int(bool(cfg.get('z0')))}_{int(cfg['screening'])}_{lu}_{fu}_{cu}.h5")
            if os.path.exists(out):
                os.remove(out)
            opts = runs.options(solve_time=0.1, dt_init=5e-3, save_every=4, output_file=out, field_units=fu, current_units=cu,
                                include_screening=cfg["screening"], screening_tolerance=1e-4)
            cur = None if cfg["I"] is None else {"source": cfg["I"] / CURRENTS[cu], "drain": -cfg["I"] / CURRENTS[cu]}
            if cfg.get("loop"):
                from tdgl.sources import CurrentLoop

                lp = cfg["loop"]
                Aapp = CurrentLoop(current=lp["I"] / CURRENTS[cu], radius=lp["R"] / LENGTHS[lu], center=tuple(c_ / LENGTHS[lu] for c_ in lp["center"]),
                                   current_units=cu, field_units=fu, length_units=lu)
            elif cfg.get("td"):
                from tdgl.sources import ConstantField, LinearRamp

                Aapp = ConstantField(cfg["B"] / FIELDS[fu], field_units=fu, length_units=lu) * LinearRamp(tmin=0.0, tmax=0.08)
            else:
                Aapp = cfg["B"] / FIELDS[fu]
            try:
                sol = tdgl.solve(dev, opts, applied_vector_potential=Aapp, terminal_currents=cur)
            except RuntimeError as e:  # the run itself fails in this unit system
                results.append((None, f"{type(e).__name__}: {str(e)[:120]}"))
                continue
            frames = runs.parse_h5(sol.path)[0]
            Kphys = sol.current_density.to("A/m").magnitude
            # physical outputs asked for repeatedly: the field above the film (twice), then the current density again
            pos_ = np.array([[0.3e-6, 0.2e-6], [-0.8e-6, 0.5e-6], [1.1e-6, -0.4e-6]]) / LENGTHS[lu]
            B1 = np.asarray(sol.field_at_position(pos_, zs=0.7e-6 / LENGTHS[lu], units="mT", with_units=False))
            B2 = np.asarray(sol.field_at_position(pos_, zs=0.7e-6 / LENGTHS[lu], units="mT", with_units=False))
            Kphys = np.concatenate([Kphys.ravel(), sol.current_density.to("A/m").magnitude.ravel()])
            # the same output through the interpolating accessor, in explicit units, as bare numbers and as quantities
            Ki1 = np.asarray(sol.interp_current_density(pos_, units="A / m", with_units=False), dtype=float)
            Ki2 = np.asarray(sol.interp_current_density(pos_, units="A / m", with_units=True).to("A / m").magnitude, dtype=float)
            Kphys = np.concatenate([Kphys, Ki1.ravel(), Ki2.ravel()])
            results.append((frames, Kphys, np.concatenate([B1.ravel(), B2.ravel()])))
        failed = [(c, r[1]) for c, r in zip(combos, results) if r[0] is None]
        results = [r if r[0] is None else r for r in results]
        if failed:
            if len(failed) == len(results):
                raise V.Infra(f"C08 configuration {cfg} does not run in any unit system: {failed[0][1]}")
            tag = dict(device=cfg["kind"], screening=cfg["screening"], time_dependent_field=bool(cfg.get("td")), units=list(failed[0][0]))
            ctx.fail("unit-dependent-failure", f"the same physical problem runs in {len(results) - len(failed)} unit system(s) but fails in {failed[0][0]}: {failed[0][1]}", dict(tag, error=failed[0][1]))
            first = first or dict(key="unit-dependent-failure", what=failed[0][1], **tag)
            if stop_first:
                return first
            continue
        base, Kb, Bb = results[0]
        for (lu, fu, cu), (fr, Kp, Bp) in zip(combos[1:], results[1:]):
            tag = dict(device=cfg["kind"], units=[lu, fu, cu], screening=cfg["screening"], time_dependent_field=bool(cfg.get("td")), current_loop_drive=bool(cfg.get("loop")), shared_mesh_object=bool(cfg.get("share")))
            for fa, fb in zip(base, fr):
                da, db = fa["data"], fb["data"]
                errs = dict(abs_psi=float(np.abs(np.abs(da["psi"]) - np.abs(db["psi"])).max()), Js=float(np.abs(da["supercurrent"] - db["supercurrent"]).max()),
                            Jn=float(np.abs(da["normal_current"] - db["normal_current"]).max()), mu=float(np.abs((da["mu"] - da["mu"].mean()) - (db["mu"] - db["mu"].mean())).max()),
                            A_ind=float(np.abs(da["induced_vector_potential"] - db["induced_vector_potential"]).max()))
                w = max(errs.values())
                tolr = 1e-9 if not cfg["screening"] else 1e-6  # the screening loop stops on a tolerance: iteration counts may differ by rounding
                ctx.tol(f"paired runs, screening={cfg['screening']}", w, tolr)
                ctx.case((cfg["kind"], bool(cfg.get("td")), bool(cfg.get("loop")), bool(cfg.get("share")), cfg["screening"], lu, fu, cu, fa["step"]), nontrivial=True)
                ctx.count("frame_pairs")
                if fa["step"] != fb["step"] or w > tolr:
                    ctx.fail("unit-dependent-solution", f"step {fa['step']}: dimensionless solution differs between unit systems: {errs}", dict(tag, step=fa["step"], errs=errs))
                    first = first or dict(key="unit-dependent-solution", what=str(errs), **tag)
                    if stop_first:
                        return first
                    break
            relB = float(np.abs(Bp - Bb).max() / (np.abs(Bb).max() + 1e-300))
            ctx.tol("field above the film in mT, asked twice (rel)", relB, 1e-6 if cfg["screening"] else 1e-8)
            if relB > (1e-6 if cfg["screening"] else 1e-8):
                ctx.fail("unit-dependent-output:field", f"the field above the film (asked twice) differs between unit systems (rel {relB:.2e})", dict(tag, rel=relB))
                first = first or dict(key="unit-dependent-output:field", what="B", **tag)
            relK = float(np.abs(Kp - Kb).max() / (np.abs(Kb).max() + 1e-300))
            ctx.tol("physical current density in A/m (rel)", relK, 1e-6 if cfg["screening"] else 1e-9)
            if relK > (1e-6 if cfg["screening"] else 1e-9):
                ctx.fail("unit-dependent-output", f"physical current density differs between unit systems (rel {relK:.2e})", dict(tag, rel=relK))
                first = first or dict(key="unit-dependent-output", what="K", **tag)
        if len(ctx.samples) < 3:
            ctx.samples.append(dict(device=cfg["kind"], unit_systems=combos, frames=len(base), screening=cfg["screening"]))
    return first


def whole_pipeline(ctx):
    """make_mesh in um and in nm: the literal property (same dimensionless solution) vs what Triangle delivers"""
    a = device_in_units("bar_hole", "um", 3)
    b = device_in_units("bar_hole", "nm", 3)
    same = a.mesh.sites.shape == b.mesh.sites.shape and np.allclose(a.mesh.sites, b.mesh.sites, atol=1e-9)
    ctx.case(("pipeline", "um-vs-nm"), nontrivial=True)
    ctx.extra["whole_pipeline_meshes_equal"] = bool(same)
    if not same:
        rp = dict(device="bar_hole", units=["um", "nm"], sites=[int(len(a.mesh.sites)), int(len(b.mesh.sites))])
        ctx.fail("mesher-unit-dependent:bar_hole:um-nm", "Device.make_mesh gives different dimensionless meshes for the same shape stated in um and in nm", rp)
        return dict(key="mesher-unit-dependent:bar_hole:um-nm", what="make_mesh", **rp)
    return None


def reused_options(ctx):
    """one SolverOptions object used for the same problem in a second unit system (as a script that loops over unit systems
    does): the physical outputs of the FIRST solution must not move when the options it was solved with are edited"""
    first = None
    dev = device_in_units("ring", "um", 5)
    opts = runs.options(solve_time=0.05, dt_init=5e-3, save_every=5, field_units="mT", current_units="uA")
    sol = tdgl.solve(dev, opts, applied_vector_potential=0.4)
    pts = np.array([[0.3, 0.2], [-0.9, 0.4], [0.1, -1.1]])

    def outputs():
        A = sol.vector_potential_at_position(pts, zs=0.5, units="T * m", with_units=False, return_sum=False)
        return dict(applied_A=np.asarray(A["applied"] if isinstance(A, dict) else A, dtype=float),
                    K=np.asarray(sol.current_density.to("A / m").magnitude, dtype=float),
                    units=(str(sol.field_units), str(sol.current_units)))

    before = outputs()
    opts.field_units, opts.current_units = "uT", "nA"  # the next run of the script
    after = outputs()
    opts.field_units, opts.current_units = "mT", "uA"
    ctx.case(("reused-options", "mT->uT"), nontrivial=True)
    ctx.count("solutions_re_read_after_their_options_were_edited")
    bad = [k for k in ("applied_A", "K") if not np.allclose(before[k], after[k], rtol=1e-12, atol=0)]
    if before["units"] != after["units"]:
        bad.append(f"units {before['units']} -> {after['units']}")
    if bad:
        rp = dict(changed=[str(b) for b in bad], before=before["applied_A"][0].tolist(), after=after["applied_A"][0].tolist())
        ctx.fail("outputs-follow-edited-options", f"physical outputs of an existing solution changed when the options object it was solved with was edited for the next run: {bad}", rp)
        first = dict(key="outputs-follow-edited-options", what=str(bad), **rp)
    return first


def run(ctx):
    scale_factors(ctx)
    flux_per_triangle(ctx)
    paired_runs(ctx)
    reused_options(ctx)
    whole_pipeline(ctx)


def search(ctx):
    return scale_factors(ctx, with_model=False) or flux_per_triangle(ctx, with_model=False) or paired_runs(ctx, stop_first=True) or reused_options(ctx)


def replay(payload):
    ctx = V.Ctx("C08", "quick", int(payload.get("seed", 0)))
    try:
        if str(payload.get("key", "")).startswith("mesher-unit-dependent"):
            return whole_pipeline(ctx) is None
        search(ctx)
        return not any(f["key"] == payload.get("key") for f in ctx.oracle_fails)
    finally:
        ctx.cleanup()
