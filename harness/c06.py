"""C06 — the order parameter is pinned on current terminals and nowhere else.

Real runs with terminal_psi in {0, None, 0.5, 1, 0.6j}, bias on/off, screening on/off, static and time-dependent
fields: ψ on `Device.terminal_info()` sites in every frame, identity rows of the operators in use, free evolution of
all other sites.  Model correspondence: `eulerSite` (Float) on every site of one real update, pinned rows included.
"""
from __future__ import annotations

import os

import numpy as np

import runs
import vcommon as V
import zoo
import tdgl

LEVEL = "proof"
RULE = (
    "devices with 2-4 terminals x terminal_psi in {0, None, 0.5, 1, 0.6j} x drives (bias on/off, field static/ramped, "
    "screening on/off); a case = one saved frame; non-trivial = frame at step > 0"
)
EXPLANATION = (
    "Lean theorems C06_* (identity rows for every vector potential and after every refresh, unpinned rows untouched, "
    "None = free operators, psi = 0 held exactly by the update); real runs checked on every frame; eulerSite(Float) "
    "compared with the implementation's Euler step on every site."
)
ASSUMPTIONS = ["exact equality demanded on pinned sites", "frame 0 of a run that continues a seed solution is the seed's own state: the configured terminal value is demanded from step 1 on"]


def configs(quick):
    from tdgl.sources import ConstantField, LinearRamp

    ramp = LinearRamp(tmin=0.0, tmax=0.05) * ConstantField(0.9, field_units="mT", length_units="um")
    out = []
    for tp in (0.0, None, 0.5, 1.0, 0.6j):
        out.append(dict(dev="bar", tp=tp, cur={"source": 4.0, "drain": -4.0}, A=0.4, opts=dict(dt_init=1e-2, adaptive=False)))
    # a non-zero terminal value with the adaptive rule on and updates that are refused and retried (strong drive,
    # large dt_max): the value must be held after a retried step too
    out.append(dict(dev="bar", tp=0.5, cur={"source": 25.0, "drain": -25.0}, A=1.5, T=0.3, k=1, refusals=True, opts=dict(dt_init=1e-3, dt_max=0.5, adaptive=True, adaptive_window=2, max_solve_retries=12)))
    # the same device object meshed again, finer (Triangle inserts new boundary vertices, some inside the terminals),
    # after it has been used for the runs above
    out.append(dict(dev="bar", tp=0.0, remesh=0.55, cur={"source": 4.0, "drain": -4.0}, A=0.4, opts=dict(dt_init=5e-3, adaptive=False)))
    out.append(dict(dev="bar", tp=0.5, remesh=1.3, cur={"source": 4.0, "drain": -4.0}, A=0.4, opts=dict(dt_init=1e-2, adaptive=False)))
    # ... and the finely re-meshed device written to a file and read back: the run is made on the LOADED device
    out.append(dict(dev="bar", tp=0.0, remesh=0.5, reload=True, cur={"source": 4.0, "drain": -4.0}, A=0.4, opts=dict(dt_init=5e-3, adaptive=False)))
    out.append(dict(dev="bar", tp=0.5 + 0.25j, remesh=0.6, reload=True, cur={"source": 4.0, "drain": -4.0}, A=0.4, opts=dict(dt_init=5e-3, adaptive=False)))
    # runs that continue an earlier solution computed with ANOTHER terminal value: the value configured for this run
    # counts (unset -> the terminal sites, which start at the seed's pinned value, evolve freely)
    out.append(dict(dev="bar", tp=None, seed_tp=0.0, cur={"source": 4.0, "drain": -4.0}, A=0.4, opts=dict(dt_init=1e-2, adaptive=False)))
    out.append(dict(dev="bar", tp=0.0, seed_tp=None, cur={"source": 4.0, "drain": -4.0}, A=0.4, opts=dict(dt_init=1e-2, adaptive=False)))
    # unset terminal value with a field that changes in time: "evolve freely like any other site" -- every recorded step on
    # EVERY site is the free site update with the covariant Laplacian of that step's potential
    out.append(dict(dev="bar", tp=None, cur={"source": 3.0, "drain": -3.0}, A=ramp, k=1, free=True, T=0.06, opts=dict(dt_init=5e-3, adaptive=False)))
    out.append(dict(dev="cross4", tp=0.0, cur={"source": 5.0, "drain": -2.0, "top": -3.5, "bottom": 0.5}, A=ramp, opts=dict(dt_init=2e-3, dt_max=2e-2, adaptive=True, adaptive_window=2)))
    out.append(dict(dev="bar3", tp=0.5, cur=None, A=0.6, opts=dict(dt_init=1e-2, adaptive=False, include_screening=True, screening_tolerance=1e-2)))
    if not quick:
        out.append(dict(dev="bar_hole", tp=0.0, cur={"source": 3.0, "drain": -3.0}, A=0.3, opts=dict(dt_init=1e-2, adaptive=False, include_screening=True, screening_tolerance=1e-2)))
        out.append(dict(dev="bar3", tp=None, cur={"source": 1.0, "drain": 1.0, "top": -2.0}, A=ramp, opts=dict(dt_init=5e-3, adaptive=False)))
        out.append(dict(dev="cross4", tp=1.0, cur=None, A=0.8, opts=dict(dt_init=2e-3, dt_max=3e-2, adaptive=True, adaptive_window=3)))
    return out


def eval_config(ctx, cfg, with_model=True):
    from tdgl.solver.solver import TDGLSolver

    # one device object per kind: successive configurations (other terminal_psi, screening, drives) share it
    cache = ctx.__dict__.setdefault("_c06_devices", {})
    if cfg["dev"] not in cache:
        cache[cfg["dev"]] = zoo.make_device(cfg["dev"], ctx.rng, max_edge_length=1.0)
    else:
        ctx.count("solves_on_a_reused_device")
    dev = cache[cfg["dev"]]
    if cfg.get("remesh"):
        for fac in (1.0, 0.93, 1.07, 0.85):
            try:
                dev.make_mesh(max_edge_length=cfg["remesh"] * dev.layer.coherence_length * fac)
                break
            except ValueError:
                continue
        ctx.count("runs_after_remeshing_a_used_device")
    if cfg.get("reload"):
        pth_ = os.path.join(str(ctx.work), "c06_dev.h5")
        if os.path.exists(pth_):
            os.remove(pth_)
        dev.to_hdf5(pth_)
        dev = tdgl.Device.from_hdf5(pth_)  # (the cached object stays the original)
        ctx.count("runs_on_a_device_loaded_from_hdf5")
    tp = cfg["tp"]
    tag = dict(device=cfg["dev"], terminal_psi=(None if tp is None else [complex(tp).real, complex(tp).imag]), screening=bool(cfg["opts"].get("include_screening")), remeshed=cfg.get("remesh"), sites=len(dev.mesh.sites))
    first = None

    def fail(key, what, **extra):
        nonlocal first
        rp = dict(tag, **extra)
        ctx.fail(key, what, rp)
        if first is None:
            first = dict(key=key, what=what, **rp)

    out = os.path.join(str(ctx.work), "c06.h5")
    if os.path.exists(out):
        os.remove(out)
    opts = runs.options(solve_time=cfg.get("T", 0.15), save_every=cfg.get("k", 3), output_file=out, terminal_psi=tp, progress_interval=10**9, **cfg["opts"])
    import c05

    seed = None
    if "seed_tp" in cfg:
        seed = tdgl.solve(dev, runs.options(solve_time=0.1, save_every=100, terminal_psi=cfg["seed_tp"], progress_interval=10**9, **cfg["opts"]), applied_vector_potential=cfg["A"], terminal_currents=cfg["cur"])
        tag["seeded_from_terminal_psi"] = repr(cfg["seed_tp"])
        ctx.count("runs_seeded_from_another_terminal_value")
    with c05.ScheduledRefusals(bool(cfg.get("refusals"))):  # every fourth evaluation of the site update is refused -> retried
        sol = tdgl.solve(dev, opts, applied_vector_potential=cfg["A"], terminal_currents=cfg["cur"], seed_solution=seed)
    if opts.terminal_psi != tp and not (opts.terminal_psi is None and tp is None):
        fail("options-changed-by-run", f"the run changed the caller's terminal_psi option from {tp!r} to {opts.terminal_psi!r}")
    if cfg.get("refusals"):
        ctx.count("runs_with_scheduled_refusals")
    frames, _ = runs.parse_h5(sol.path)
    tsites = np.unique(np.concatenate([t["sites"] for t in zoo.independent_terminals(dev).values()]))  # not via terminal_info()
    others = np.setdiff1d(np.arange(len(dev.mesh.sites)), tsites)
    psi0 = frames[0]["data"]["psi"]
    moved = np.zeros(len(psi0), dtype=bool)
    for fr in frames:
        psi = fr["data"]["psi"]
        ctx.case((cfg["dev"], str(tp), repr(cfg.get("seed_tp", "-")), cfg.get("remesh"), bool(cfg["opts"].get("include_screening")), fr["step"]), nontrivial=fr["step"] > 0)
        ctx.count(f"terminal_psi={tp}")
        if tp is not None and not (seed is not None and fr["step"] == 0):  # step 0 of a seeded run is the seed's own state
            if not np.all(psi[tsites] == tp):
                k = "zero" if tp == 0 else "nonzero"
                dev_ = float(np.abs(psi[tsites] - tp).max())
                if first is None or not first["key"].startswith("terminal-value-not-held"):
                    fail(f"terminal-value-not-held:{k}", f"step {fr['step']}: psi on terminal sites deviates from terminal_psi={tp} by {dev_:.3e}", step=fr["step"], deviation=dev_)
        moved |= psi != psi0
    if tp is None:
        # unset terminal value: terminal sites evolve freely like any other site
        if not moved[tsites].all():
            fail("unset-terminal-still-pinned", f"terminal_psi=None but {int((~moved[tsites]).sum())} terminal sites never moved")
    if cfg.get("free") and tp is None:
        from tdgl.finite_volume.operators import MeshOperators
        from tdgl.solver.options import SparseSolver

        sv_ = TDGLSolver(device=dev, options=opts, applied_vector_potential=cfg["A"], terminal_currents=cfg["cur"])
        worst_t, worst_o = 0.0, 0.0
        for fa, fb in zip(frames[:-1], frames[1:]):
            if "applied_vector_potential" not in fb["data"] or fb["step"] != fa["step"] + 1:
                continue
            mo_ = MeshOperators(dev.mesh, SparseSolver.SUPERLU, fixed_sites=tsites, fix_psi=False)
            mo_.build_operators()
            mo_.set_link_exponents(np.asarray(fb["data"]["applied_vector_potential"]))
            pa = np.asarray(fa["data"]["psi"])
            res_ = TDGLSolver.solve_for_psi_squared(psi=pa, abs_sq_psi=np.abs(pa) ** 2, mu=np.asarray(fa["data"]["mu"]), epsilon=np.asarray(sv_.epsilon) * np.ones(len(pa)),
                                                     gamma=sv_.gamma, u=sv_.u, dt=float(fb["dt"]), psi_laplacian=mo_.psi_laplacian)
            if res_ is None:
                continue
            d_ = np.abs(np.asarray(res_[0]) - np.asarray(fb["data"]["psi"]))
            worst_t, worst_o = max(worst_t, float(d_[tsites].max())), max(worst_o, float(d_[others].max()))
            ctx.count("steps_recomputed_with_fresh_operators")
        ctx.tol("recorded step vs free site update with fresh operators (terminal sites, unset terminal value)", worst_t, 1e-12)
        if worst_t > 1e-12 or worst_o > 1e-12:
            fail("unset-terminal-not-free", f"terminal_psi=None, time-dependent field: the recorded steps differ from the free site update with the covariant Laplacian of the step's own "
                 f"potential by {worst_t:.3e} on terminal sites ({worst_o:.3e} on the other sites)", terminal_sites=worst_t, other_sites=worst_o)
    if not moved[others].all():
        fail("non-terminal-site-pinned", f"{int((~moved[others]).sum())} sites outside terminals never changed in a driven run", sites=others[~moved[others]][:5].tolist())
    # operators in use: identity rows exactly on terminal sites (when pinning), nowhere else
    solver = TDGLSolver(device=dev, options=opts, applied_vector_potential=cfg["A"], terminal_currents=cfg["cur"])
    Lm = solver.operators.psi_laplacian.toarray()
    n = len(Lm)
    ident = np.array([np.array_equal(Lm[r], np.eye(n)[r]) for r in range(n)])
    want = np.zeros(n, dtype=bool)
    if tp is not None:
        want[tsites] = True
    if not np.array_equal(ident, want):
        fail("identity-rows", f"identity rows of the covariant Laplacian are {np.flatnonzero(ident)[:8].tolist()}, terminal sites are {tsites[:8].tolist()} (terminal_psi={tp})")
    # ---- model correspondence: one Euler step on all sites -------------------------------------------
    if with_model:
        rng = ctx.rng
        mesh = dev.mesh
        psi = frames[-1]["data"]["psi"].copy()
        mu = frames[-1]["data"]["mu"].copy()
        A = solver.current_A_applied + (frames[-1]["data"]["induced_vector_potential"] if cfg["opts"].get("include_screening") else 0)
        solver.operators.set_link_exponents(A)
        theta = np.einsum("ij, ij -> i", np.asarray(A), mesh.edge_mesh.directions)
        a = np.abs(psi) ** 2
        eps = np.asarray(solver.epsilon, dtype=float)
        dt = 0.01
        res = TDGLSolver.solve_for_psi_squared(psi=psi, abs_sq_psi=a, mu=mu, epsilon=eps, gamma=solver.gamma, u=solver.u, dt=dt, psi_laplacian=solver.operators.psi_laplacian)
        mask = np.zeros(n, dtype=int)
        if tp is not None:
            mask[tsites] = 1
        lines = [zoo.mesh_line(mesh), f"euler {V.bits(solver.gamma)} {V.bits(solver.u)} {V.bits(dt)} | " + " ".join(map(str, mask)) + f" | {zoo.fl(theta)} | {zoo.cfl(psi)} | {zoo.fl(a)} | {zoo.fl(mu)} | {zoo.fl(eps)}"]
        o = V.driver(lines)[1].split()
        ctx.traces += 1
        if res is None:
            ctx.corr(any(t == "none" for t in o), "model refuses when the implementation refuses", tag)
        else:
            okk = True
            worst = 0.0
            for r, tk in enumerate(o):
                if tk == "none":
                    okk = False
                    break
                pr, pi, x = (V.unbits(t) for t in tk.split(","))
                d = abs(complex(pr, pi) - res[0][r])
                sc = abs(res[0][r]) + 1e-300
                worst = max(worst, d / sc if sc > 1e-12 else d)
                if tp == 0 and mask[r] and (pr != 0 or pi != 0 or res[0][r] != 0):
                    okk = False
            ctx.tol("eulerSite_model_vs_impl(rel)", worst, 1e-9)
            ctx.corr(okk and worst <= 1e-9, "eulerSite(Float) vs solve_for_psi_squared on all sites (pinned rows included)", dict(tag, worst=worst))
    if len(ctx.samples) < 4:
        ctx.samples.append(dict(tag, terminal_sites=tsites[:10].tolist(), frames=len(frames), max_abs_psi_on_terminals=float(np.abs(frames[-1]["data"]["psi"][tsites]).max())))
    return first


def run(ctx):
    for cfg in configs(ctx.quick):
        eval_config(ctx, cfg)


def search(ctx):
    for cfg in configs(False):
        f = eval_config(ctx, cfg, with_model=False)
        if f:
            return f
    return None


def replay(payload):
    ctx = V.Ctx("C06", "quick", int(payload.get("seed", 0)))
    try:
        search(ctx)
        return not any(f["key"] == payload.get("key") for f in ctx.oracle_fails)
    finally:
        ctx.cleanup()
