"""./check Cxx [--tier quick|thorough] [--replay path] [--selftest]"""
import argparse
import importlib
import json
import os
import sys
import traceback

import vcommon as V


def main():
    ap = argparse.ArgumentParser()
    ap.add_argument("prop", nargs="?")
    ap.add_argument("--tier", default=os.environ.get("VERIF_TIER", "quick"), choices=["quick", "thorough"])
    ap.add_argument("--replay")
    ap.add_argument("--no-lean", action="store_true", help="skip the Lean build/audit (development only)")
    a = ap.parse_args()
    seed = int(os.environ.get("VERIF_SEED", "0") or 0)
    prop = a.prop
    try:
        module = importlib.import_module(prop.lower())
    except ModuleNotFoundError as e:
        print(f"no check for {prop}: {e}", file=sys.stderr)
        return 2
    try:
        import tdgl
        if not os.path.realpath(tdgl.__file__).startswith(os.path.realpath(str(V.REPO)) + os.sep):
            print(f"INFRA: tdgl was imported from {tdgl.__file__}, not from the tree under check ({V.REPO})")
            return 2
    except Exception as e:  # noqa
        print(f"INFRA: the package under check does not import: {type(e).__name__}: {e}")
        return 2
    if a.replay:
        payload = json.load(open(a.replay))
        ok = module.replay(payload)
        print(("REPLAY: property still fails on this input" if not ok else "REPLAY: property holds on this input"))
        return 1 if not ok else 0
    ctx = V.Ctx(prop, a.tier, seed)
    try:
        lean = {}
        if not a.no_lean:
            ok, log, secs = V.lean_build(prop)
            lean.update(build_ok=ok, build_log=log, build_s=round(secs, 1))
            lean["source_hits"] = V.source_audit()
            # also after a failed build: the audit is per module, so only the theorems of modules that did not
            # build are reported as unchecked
            res = V.axiom_audit(prop)
            lean["axioms"] = res[0] if res else {}
            if a.tier == "thorough" and ok:
                lean["leanchecker"] = V.leanchecker(prop) if hasattr(V, "leanchecker") else None
        else:
            lean["axioms"] = {n: [] for n in V.theorems_of(prop)}
        # corpus of minimised past failures runs first
        import glob
        for cf in sorted(glob.glob(str(V.CORPUS / f"{prop}-*.json"))):
            payload = json.load(open(cf))
            try:
                ok = module.replay(payload)
            except Exception as e:  # a witness that cannot be replayed is an infrastructure problem
                raise V.Infra(f"corpus replay {cf} raised {type(e).__name__}: {e}")
            ctx.count("corpus_replays")
            if not ok:
                ctx.fail(payload.get("key", "corpus"), f"corpus witness {os.path.basename(cf)} fails again (when it was recorded: " + payload.get("what", "") + ")", {k: v for k, v in payload.items() if k not in ("what",)})
        module.run(ctx)
        return V.finish(ctx, module, lean)
    except V.Infra as e:
        print(f"INFRA: {e}", file=sys.stderr)
        return 2
    except Exception:
        traceback.print_exc()
        print("INFRA: unexpected exception in the check machinery", file=sys.stderr)
        return 2
    finally:
        ctx.cleanup()


if __name__ == "__main__":
    sys.exit(main())
