"""C04 — observables are invariant under gauge transformations.

Operator level: for random site functions χ, link exponents A' with θ'_e = θ_e + χ_j − χ_i and ψ' = e^{iχ}ψ: the
implementation's gradient / Laplacian matrices are covariant, the supercurrent is invariant, one Euler step is
covariant.  Run level: pairs of real runs with A and A + c (uniform shifts), with/without terminals and bias:
|ψ|, Js, Jn, μ − mean μ agree at every frame.  Model: cgradEdge/clapRow/superEdge (Float) in both gauges.
"""
from __future__ import annotations

import os

import numpy as np
import scipy.sparse as sp

import runs
import vcommon as V
import zoo
import tdgl

LEVEL = "proof"
RULE = (
    "operator level: zoo meshes x random A x random chi (both amplitudes small and O(10)) x random psi; run level: "
    "devices x 3 uniform shifts x {no terminals, terminals unbiased, biased}; a case = one (mesh, chi) or one frame "
    "pair; non-trivial = chi not constant / shift non-zero"
)
EXPLANATION = (
    "Lean theorems C04_* over ℝ (covariant gradient and Laplacian for arbitrary χ, supercurrent invariance, Euler "
    "step covariance, identical mu/Js/Jn, whole run by induction, uniform shift = gauge function c·r); implementation "
    "matrices checked for covariance; paired real runs compared in gauge-invariant quantities. Time gauge (C04Time): "
    "mu -> mu + c with a global phase on psi -- one site, the operators, and by induction a whole ADAPTIVE run (retry "
    "loop, windowed rule fed with max|change of |psi|^2|) use the same time steps and give the same |psi|^2, Js, Jn for "
    "any constants returned by the Poisson solver (terminal value unset or 0); real run pairs with a constant added to "
    "the potential entering every psi update are compared, time steps included."
)
ASSUMPTIONS = [
    "run-level agreement to 1e-8 on short runs (<= 40 steps) — rounding differs between gauges; mu compared modulo its mean, psi modulo the gauge phase and a global phase",
]
EPS = np.finfo(float).eps


def gauge_A(mesh, A, chi):
    em = mesh.edge_mesh
    d = em.directions
    dchi = chi[em.edges[:, 1]] - chi[em.edges[:, 0]]
    return A + (dchi / (d**2).sum(axis=1))[:, None] * d


def operator_level(ctx, with_model=True):
    from tdgl.finite_volume import operators as O
    from tdgl.solver.solver import TDGLSolver

    first = None
    rng = ctx.rng
    for name, mesh, fixed in zoo.mesh_zoo(rng, quick=ctx.quick):
        em = mesh.edge_mesh
        n, E = len(mesh.sites), len(em.edges)
        for amp in (0.3, 10.0):
            A = rng.normal(size=(E, 2))
            chi = rng.normal(size=n) * amp
            A2 = gauge_A(mesh, A, chi)
            psi = rng.normal(size=n) + 1j * rng.normal(size=n)
            ph = np.exp(1j * chi)
            psi2 = ph * psi
            G1, G2 = O.build_gradient(mesh, link_exponents=A), O.build_gradient(mesh, link_exponents=A2)
            L1, _ = O.build_laplacian(mesh, link_exponents=A, fixed_sites=fixed)
            L2, _ = O.build_laplacian(mesh, link_exponents=A2, fixed_sites=fixed)
            ctx.case((name, amp, float(chi[0])), nontrivial=True)
            ctx.count("operator_level")

            def fail(key, what, **extra):
                nonlocal first
                rp = dict(mesh=name, amp=amp, **extra)
                ctx.fail(key, what, rp)
                if first is None:
                    first = dict(key=key, what=what, **rp)

            g1, g2 = G1 @ psi, G2 @ psi2
            r = np.abs(g2 - ph[em.edges[:, 0]] * g1).max() / (np.abs(g1).max() + 1e-300)
            ctx.tol("gradient covariance", r, 1e-10)
            if r > 1e-10:
                fail("grad-not-covariant", f"covariant gradient is not gauge covariant (rel err {r:.2e})", err=float(r))
            l1, l2 = L1 @ psi, L2 @ psi2
            r = np.abs(l2 - ph * l1).max() / (np.abs(l1).max() + 1e-300)
            ctx.tol("laplacian covariance", r, 1e-10)
            if r > 1e-10:
                fail("lap-not-covariant", f"covariant Laplacian is not gauge covariant (rel err {r:.2e})", err=float(r))
            js1 = (psi.conj()[em.edges[:, 0]] * g1).imag
            js2 = (psi2.conj()[em.edges[:, 0]] * g2).imag
            r = np.abs(js1 - js2).max() / (np.abs(js1).max() + 1e-300)
            ctx.tol("supercurrent invariance", r, 1e-10)
            if r > 1e-10:
                fail("supercurrent-not-invariant", f"supercurrent changes under a gauge transformation (rel err {r:.2e})", err=float(r))
            # one Euler step in both gauges (no pinned rows so that psi' = e^{i chi} psi is consistent)
            Lf1, _ = O.build_laplacian(mesh, link_exponents=A)
            Lf2, _ = O.build_laplacian(mesh, link_exponents=A2)
            mu = rng.normal(size=n)
            eps = rng.uniform(-1, 1, size=n)
            kw = dict(abs_sq_psi=np.abs(psi) ** 2, mu=mu, epsilon=eps, gamma=10.0, u=5.79, dt=1e-3)
            r1 = TDGLSolver.solve_for_psi_squared(psi=psi, psi_laplacian=Lf1, **kw)
            r2 = TDGLSolver.solve_for_psi_squared(psi=psi2, psi_laplacian=Lf2, **kw)
            if (r1 is None) != (r2 is None):
                fail("euler-refusal-gauge-dependent", "the update is refused in one gauge and answered in the other")
            elif r1 is not None:
                r = max(np.abs(r2[0] - ph * r1[0]).max(), np.abs(r2[1] - r1[1]).max()) / (np.abs(r1[0]).max() + 1e-300)
                ctx.tol("euler step covariance", r, 1e-9)
                if r > 1e-9:
                    fail("euler-not-covariant", f"one Euler step is not gauge covariant (rel err {r:.2e})", err=float(r))
            if with_model:
                th1 = np.einsum("ij, ij -> i", A, em.directions)
                th2 = np.einsum("ij, ij -> i", A2, em.directions)
                fx = np.zeros(n, dtype=int)
                if fixed is not None:
                    fx[fixed] = 1
                fxs = " ".join(map(str, fx))
                o = V.driver([zoo.mesh_line(mesh), f"cgrad | {zoo.fl(th2)} | {zoo.cfl(psi2)}", f"clap | {fxs} | {zoo.fl(th2)} | {zoo.cfl(psi2)}",
                              f"js | {zoo.fl(th2)} | {zoo.cfl(psi2)}", f"js | {zoo.fl(th1)} | {zoo.cfl(psi)}"])
                ctx.traces += 1
                mg, ml, mj2, mj1 = zoo.parse_c(o[1]), zoo.parse_c(o[2]), zoo.parse_f(o[3]), zoo.parse_f(o[4])
                sg = np.abs(G2) @ np.abs(psi2) + 1e-300
                ctx.corr(bool((np.abs(mg - g2) <= 64 * EPS * sg).all()), "cgradEdge(Float) in the transformed gauge vs implementation", dict(mesh=name))
                sl = np.abs(L2) @ np.abs(psi2) + 1e-300
                ctx.corr(bool((np.abs(ml - l2) <= 64 * EPS * sl).all()), "clapRow(Float) in the transformed gauge vs implementation", dict(mesh=name))
                sj = np.abs(psi[em.edges[:, 0]]) * (np.abs(G1) @ np.abs(psi)) + 1e-300
                # cancellation: the transformed phases are O(amp); compare against the term scale
                ctx.corr(bool((np.abs(mj2 - mj1) <= 1e-9 * sj.max() * max(1.0, amp)).all()), "superEdge(Float) equal in both gauges", dict(mesh=name, worst=float(np.abs(mj2 - mj1).max())))
    return first


def shifted_field(x, y, z, *, B=0.0, cx=0.0, cy=0.0):
    """vector potential of a uniform field B (symmetric gauge about the origin) plus a constant vector (cx, cy)"""
    return np.stack([-B * y / 2 + cx, B * x / 2 + cy, np.zeros_like(x)], axis=1)


def ramped_shifted_field(x, y, z, *, t, B=0.0, cx=0.0, cy=0.0, rate=4.0):
    """the field is ramped up in time, the constant vector (the gauge shift chi = c.r) is not: a static gauge function"""
    s = min(1.0, 0.2 + rate * t)
    return np.stack([-s * B * y / 2 + cx, s * B * x / 2 + cy, np.zeros_like(x)], axis=1)


def closure_field(B, cx, cy):
    """the shifted field as a closure: the gauge offset is a captured value, not a keyword argument of the Parameter"""
    def field(x, y, z):
        return np.stack([-B * y / 2 + cx, B * x / 2 + cy, np.zeros_like(x)], axis=1)
    return field


def run_level(ctx, stop_first=False):
    from tdgl.solver.solver import TDGLSolver

    first = None
    cfgs = [
        dict(dev="ring", cur=None, B=0.6, opts=dict(dt_init=5e-3, adaptive=False)),
        dict(dev="bar", cur=None, B=0.5, opts=dict(dt_init=5e-3, adaptive=False)),
        dict(dev="bar", cur={"source": 4.0, "drain": -4.0}, B=0.4, opts=dict(dt_init=2e-3, dt_max=2e-2, adaptive=True, adaptive_window=2)),
    ]
    cfgs.append(dict(dev="ring", cur=None, B=0.5, lam=0.4, opts=dict(dt_init=5e-3, adaptive=False, include_screening=True, screening_tolerance=1e-3)))
    # no applied field at all (the vector potential of the reference gauge is identically zero), screening on, a bias
    # current: the other gauges are constant vectors
    cfgs.append(dict(dev="bar", cur={"source": 4.0, "drain": -4.0}, B=0.0, lam=0.5, opts=dict(dt_init=5e-3, adaptive=False, include_screening=True, screening_tolerance=1e-3)))
    # link variables refreshed in place during the run (time-dependent field / screening), terminals not pinned
    cfgs.append(dict(dev="bar", cur={"source": 2.0, "drain": -2.0}, B=0.5, td=True, opts=dict(dt_init=5e-3, adaptive=False, terminal_psi=None)))
    # the gauge offset added to a time-dependent potential as a COMPOSITE (A_t + offset), in a run with a thermalisation stage
    # (the clock restarts: the expression is evaluated again at times it has already seen)
    cfgs.append(dict(dev="bar", cur={"source": 2.0, "drain": -2.0}, B=0.5, td=True, composite=True, opts=dict(dt_init=5e-3, adaptive=False, skip_time=0.04)))
    # runs CONTINUED from a seed solution (computed in the reference gauge) in each gauge, the potentials being closures
    # made by one factory (same code, same keyword arguments, another captured offset)
    cfgs.append(dict(dev="bar", cur={"source": 3.0, "drain": -3.0}, B=0.4, closure=True, seeded=True, opts=dict(dt_init=5e-3, adaptive=False)))
    # ... and with a time-dependent potential (what the seed recorded as "the applied potential" belongs to the seed's gauge)
    cfgs.append(dict(dev="bar", cur={"source": 2.0, "drain": -2.0}, B=0.5, td=True, seeded=True, opts=dict(dt_init=5e-3, adaptive=False)))
    if not ctx.quick:
        cfgs.append(dict(dev="bar3", cur={"source": 3.0, "drain": -1.0, "top": -2.0}, B=0.5, td=True, opts=dict(dt_init=5e-3, adaptive=False)))
        cfgs.append(dict(dev="bar", cur={"source": 2.0, "drain": -2.0}, B=0.4, lam=0.5, opts=dict(dt_init=5e-3, adaptive=False, terminal_psi=None, include_screening=True, screening_tolerance=1e-3)))
        cfgs.append(dict(dev="cross4", cur={"source": 5.0, "drain": -2.0, "top": -3.5, "bottom": 0.5}, B=0.3, opts=dict(dt_init=5e-3, adaptive=False)))
        cfgs.append(dict(dev="bar_hole", cur={"source": 2.0, "drain": -2.0}, B=0.7, opts=dict(dt_init=5e-3, adaptive=False, include_screening=True, screening_tolerance=1e-3)))
    shifts = [(0.3, 0.0), (0.0, -0.5), (1.1, 0.7)]
    for cfg in cfgs:
        dev = zoo.make_device(cfg["dev"], ctx.rng, max_edge_length=1.0, lam=cfg.get("lam", 2.0))
        results = []
        for (cx, cy) in [(0.0, 0.0)] + shifts:
            out = os.path.join(str(ctx.work), f"c04_{cx}_{cy}.h5")
            if os.path.exists(out):
                os.remove(out)
            opts = runs.options(solve_time=0.12 if not cfg["opts"].get("adaptive") else 0.2, save_every=4, output_file=out, progress_interval=10**9, **cfg["opts"])
            if cfg.get("td") and cfg.get("composite"):
                A = tdgl.Parameter(ramped_shifted_field, B=cfg["B"], cx=0.0, cy=0.0, time_dependent=True) + tdgl.Parameter(shifted_field, B=0.0, cx=cx, cy=cy)
            elif cfg.get("td"):
                A = tdgl.Parameter(ramped_shifted_field, B=cfg["B"], cx=cx, cy=cy, time_dependent=True)
            elif cfg.get("closure"):
                A = tdgl.Parameter(closure_field(cfg["B"], cx, cy))
            else:
                A = tdgl.Parameter(shifted_field, B=cfg["B"], cx=cx, cy=cy)
            seed_ = None
            if cfg.get("seeded"):
                if (cx, cy) == (0.0, 0.0):
                    cfg["_seed"] = tdgl.solve(dev, runs.options(solve_time=0.1, save_every=100, progress_interval=10**9, **cfg["opts"]),
                                              applied_vector_potential=A, terminal_currents=cfg["cur"])
                    ctx.count("gauge_runs_continued_from_a_seed")
                # the seed in this gauge: the same state, psi carrying the gauge phase exp(i chi), chi = A_scale c . r / xi
                import copy
                import dataclasses

                sv0 = TDGLSolver(device=dev, options=runs.options(solve_time=0.01), applied_vector_potential=A, terminal_currents=cfg["cur"])
                chi0 = sv0.A_scale * (dev.mesh.sites @ np.array([cx, cy]))
                seed_ = copy.copy(cfg["_seed"])
                seed_.tdgl_data = dataclasses.replace(cfg["_seed"].tdgl_data, psi=np.asarray(cfg["_seed"].tdgl_data.psi) * np.exp(1j * chi0))
            # gauge-related initial data: A -> A + c is the gauge function chi(r) = c.r, so the run in the
            # shifted gauge starts from psi_0 e^{i chi} (the property compares psi "up to the gauge phase" at every
            # recorded step, step 0 included); chi in dimensionless units = A_scale * c . (r / xi)
            from tdgl.solver.solver import TDGLSolver

            solver = TDGLSolver(device=dev, options=opts, applied_vector_potential=A, terminal_currents=cfg["cur"], seed_solution=seed_)
            chi = solver.A_scale * (dev.mesh.sites @ np.array([cx, cy]))
            solver.psi_init = solver.psi_init * np.exp(1j * chi)
            try:
                sol = solver.solve()
            except RuntimeError as e:  # a run that dies in one gauge
                results.append(f"{type(e).__name__}: {str(e)[:140]}")
                continue
            results.append(runs.parse_h5(sol.path)[0])
        if isinstance(results[0], str):
            raise V.Infra(f"C04 configuration {cfg} does not run in the reference gauge: {results[0]}")
        raised = [(sh_, r_) for sh_, r_ in zip(shifts, results[1:]) if isinstance(r_, str)]
        if raised:
            tag = dict(device=cfg["dev"], bias=cfg["cur"] is not None, shift=list(raised[0][0]), error=raised[0][1])
            ctx.fail("gauge-run-raises", f"the run works in the reference gauge but raises with the potential shifted by the constant {raised[0][0]}: {raised[0][1]}", tag)
            first = first or dict(key="gauge-run-raises", what=raised[0][1], **tag)
            if stop_first:
                return first
            continue
        base = results[0]
        for (cx, cy), other in zip(shifts, results[1:]):
            tag = dict(device=cfg["dev"], bias=cfg["cur"] is not None, shift=[cx, cy], time_dependent_field=bool(cfg.get("td")), terminal_psi=repr(cfg["opts"].get("terminal_psi", 0.0)))
            if [f["step"] for f in base] != [f["step"] for f in other]:
                ctx.fail("gauge-run-labels", "runs in two gauges record different steps", tag)
                first = first or dict(key="gauge-run-labels", what="labels differ", **tag)
                continue
            for fa, fb in zip(base, other):
                da, db = fa["data"], fb["data"]
                errs = dict(
                    A_induced=float(np.abs(da["induced_vector_potential"] - db["induced_vector_potential"]).max()),
                    abs_psi=float(np.abs(np.abs(da["psi"]) - np.abs(db["psi"])).max()),
                    Js=float(np.abs(da["supercurrent"] - db["supercurrent"]).max()),
                    Jn=float(np.abs(da["normal_current"] - db["normal_current"]).max()),
                    mu=float(np.abs((da["mu"] - da["mu"].mean()) - (db["mu"] - db["mu"].mean())).max()),
                )
                ctx.case((cfg["dev"], bool(cfg.get("td")), repr(cfg["opts"].get("terminal_psi", 0.0)), bool(cfg["opts"].get("include_screening")), cx, cy, fa["step"]), nontrivial=fa["step"] > 0)
                ctx.count("frame_pairs")
                w = max(errs.values())
                # a screened step ends when an error drops below a tolerance, so a rounding-level difference can in
                # principle move one iteration across the threshold: allow 1e-6 there (a gauge-dependent loop gives 1e-3)
                tolr = 1e-6 if cfg["opts"].get("include_screening") else 1e-8
                ctx.tol(f"run-level gauge-invariant difference (screening={bool(cfg['opts'].get('include_screening'))})", w, tolr)
                if w > tolr:
                    ctx.fail("gauge-run-differs", f"step {fa['step']}: observables differ between gauges: {errs}", dict(tag, step=fa["step"], errs=errs))
                    first = first or dict(key="gauge-run-differs", what=str(errs), **tag)
                    if stop_first:
                        return first
                    break
        if len(ctx.samples) < 3:
            ctx.samples.append(dict(device=cfg["dev"], bias=cfg["cur"], B=cfg["B"], shifts=shifts, frames=len(base)))
    return first


def time_gauge_level(ctx, stop_first=False):
    """the gauge function chi = -c t: mu -> mu + c with psi acquiring a global phase.  Two runs of one problem, the second
    with the constant c added to the scalar potential that enters every psi update (the phase follows by itself from
    the temporal link variable exp(-i mu dt)); |psi|, the currents, mu - <mu> AND the adaptive time steps must agree.
    The constant of mu is fixed by the Poisson solve with Neumann data and is not under the user's control."""
    from tdgl.solver.solver import TDGLSolver

    first = None
    cfgs = [
        dict(dev="bar", gamma=1.0, cur={"source": 3.0, "drain": -3.0}, B=0.3, c=0.8, opts=dict(dt_init=1e-3, dt_max=5e-2, adaptive=True, adaptive_window=3, solve_time=0.6)),
        dict(dev="bar", gamma=10.0, cur={"source": 3.0, "drain": -3.0}, B=0.0, c=-0.05, opts=dict(dt_init=1e-3, dt_max=5e-2, adaptive=True, adaptive_window=2, solve_time=0.4, terminal_psi=None)),
        dict(dev="ring", gamma=1.0, cur=None, B=0.6, c=2.0, opts=dict(dt_init=2e-3, dt_max=5e-2, adaptive=True, adaptive_window=4, solve_time=0.5)),
    ]
    # refused-and-retried steps with a constant large enough that |(mu + c) dt| exceeds pi: the temporal link variable of a
    # retried step is exp(-i mu dt') of the REDUCED step, whatever branch a complex power would take
    # (c dt = pi: sites with mu above and below 0 fall on different branches)
    cfgs.append(dict(dev="bar", gamma=1.0, cur={"source": 3.0, "drain": -3.0}, B=0.3, c=float(np.pi / 0.4), refusals=True,
                     opts=dict(dt_init=0.4, dt_max=0.4, adaptive=True, adaptive_window=3, solve_time=4.0, max_solve_retries=12, adaptive_time_step_multiplier=0.3)))
    o_upd = TDGLSolver.update
    import c05

    for cfg in cfgs:
        dev = zoo.make_device(cfg["dev"], ctx.rng, max_edge_length=1.0, gamma=cfg["gamma"])
        res = []
        for c in (0.0, cfg["c"]):
            def upd(self, state, rs, dt, *, mu, _c=c, **kw):
                return o_upd(self, state, rs, dt, mu=mu + _c, **kw)

            out = os.path.join(str(ctx.work), f"c04_tg_{c}.h5")
            if os.path.exists(out):
                os.remove(out)
            TDGLSolver.update = upd
            try:
                with c05.ScheduledRefusals(bool(cfg.get("refusals"))):  # every fourth evaluation of the site update is refused -> retried
                    sol = tdgl.solve(dev, runs.options(save_every=5, output_file=out, progress_interval=10**9, **cfg["opts"]), applied_vector_potential=cfg["B"], terminal_currents=cfg["cur"])
            finally:
                TDGLSolver.update = o_upd
            res.append((runs.parse_h5(sol.path)[0], np.asarray(sol.dynamics.dt)))
        (fa_, dta), (fb_, dtb) = res
        tag = dict(device=cfg["dev"], gamma=cfg["gamma"], mu_offset=cfg["c"], bias=cfg["cur"] is not None)
        ctx.case(("time-gauge", cfg["dev"], cfg["gamma"], cfg["c"]), nontrivial=len(dta) > 8)
        ctx.count("mu_offset_run_pairs")
        bad = None
        if len(dta) != len(dtb) or float(np.abs(dta - dtb).max() / dta.max()) > 1e-7:
            n = min(len(dta), len(dtb))
            k = int(np.argmax(np.abs(dta[:n] - dtb[:n]) > 1e-7 * dta.max())) if n else 0
            bad = f"the time steps depend on the additive constant of mu: {len(dta)} vs {len(dtb)} steps, first difference at step {k}: {dta[k:k + 3].tolist()} vs {dtb[k:k + 3].tolist()}"
        else:
            ctx.tol("time steps under mu -> mu + c (relative)", float(np.abs(dta - dtb).max() / dta.max()), 1e-7)
            for fa, fb in zip(fa_, fb_):
                da, db = fa["data"], fb["data"]
                w = max(float(np.abs(np.abs(da["psi"]) - np.abs(db["psi"])).max()), float(np.abs(da["supercurrent"] - db["supercurrent"]).max()),
                        float(np.abs(da["normal_current"] - db["normal_current"]).max()))
                ctx.tol("observables under mu -> mu + c", w, 1e-7)
                if w > 1e-7:
                    bad = f"step {fa['step']}: |psi| / currents differ by {w:.3e} when the constant {cfg['c']} is added to mu"
                    break
        if bad:
            ctx.fail("gauge-mu-constant", bad, tag)
            first = first or dict(key="gauge-mu-constant", what=bad, **tag)
            if stop_first:
                return first
    return first


def large_mesh_level(ctx, stop_first=False):
    """a uniform field given as a NUMBER (the library's own re-centred symmetric gauge) against the same field in an explicit
    gauge, on a mesh with more than 2**15 edges: the link phases may differ by a gradient only, i.e. the phase accumulated
    around every triangle (the flux through it) is the same; and a short run in both gauges gives the same observables"""
    from tdgl.solver.solver import TDGLSolver

    first = None
    B = 0.35
    dev = zoo.make_device("bar", ctx.rng, max_edge_length=0.066, terminals=False, probes=False)
    mesh = dev.mesh
    E = len(mesh.edge_mesh.edges)
    ctx.count("large_mesh_edges", E)
    thetas = {}
    for name, A in (("number", B), ("explicit", tdgl.Parameter(shifted_field, B=B, cx=0.3, cy=-0.2)),
                    ("composite", tdgl.sources.ConstantField(B, field_units="mT", length_units="um") + tdgl.Parameter(shifted_field, B=0.0, cx=0.1, cy=0.05))):
        sv = TDGLSolver(device=dev, options=runs.options(solve_time=0.01, field_units="mT"), applied_vector_potential=A)
        thetas[name] = np.einsum("ij, ij -> i", np.asarray(sv.current_A_applied), mesh.edge_mesh.directions)
    # oriented circulation around each triangle from the per-edge phases
    ed = {(int(a), int(b)): k for k, (a, b) in enumerate(mesh.edge_mesh.edges)}
    T = mesh.elements

    def circ(theta):
        out = np.zeros(len(T))
        for c0, c1 in ((0, 1), (1, 2), (2, 0)):
            a, b = T[:, c0], T[:, c1]
            idx = np.array([ed.get((int(x), int(y)), -1) for x, y in zip(a, b)])
            rev = idx < 0
            idx[rev] = np.array([ed[(int(y), int(x))] for x, y in zip(a[rev], b[rev])])
            out += np.where(rev, -1.0, 1.0) * theta[idx]
        return out

    ref = circ(thetas["explicit"])
    sc = float(np.abs(ref).max())
    for name in ("number", "composite"):
        d = float(np.abs(circ(thetas[name]) - ref).max()) / sc
        ctx.tol("flux per triangle, field as a number vs explicit gauge (large mesh, relative)", d, 1e-9)
        ctx.case(("large-mesh-flux", name, E), nontrivial=E > 2**15)
        if d > 1e-9:
            rp = dict(edges=E, field_given_as=name, relative_flux_error=d)
            ctx.fail("gauge-flux-per-triangle", f"{E}-edge mesh: the flux through a triangle computed from the link phases of a field given as a {name} differs from the explicit gauge by {d:.2e} (relative)", rp)
            first = first or dict(key="gauge-flux-per-triangle", what=f"{d:.2e}", **rp)
            if stop_first:
                return first
    return first


def run(ctx):
    operator_level(ctx)
    run_level(ctx)
    time_gauge_level(ctx)
    large_mesh_level(ctx)


def search(ctx):
    ctx.rng = np.random.default_rng(ctx.seed + 99991)
    return operator_level(ctx, with_model=False) or run_level(ctx, stop_first=True) or time_gauge_level(ctx, stop_first=True) or large_mesh_level(ctx, stop_first=True)


def replay(payload):
    ctx = V.Ctx("C04", "quick", int(payload.get("seed", 0)))
    try:
        search(ctx)
        return not any(f["key"] == payload.get("key") for f in ctx.oracle_fails)
    finally:
        ctx.cleanup()
