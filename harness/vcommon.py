"""Shared machinery of the /verif checks: Lean build + axiom audit, driver client,
violation protocol, known findings, evidence writer.

Every check is  `./check Cxx --tier quick|thorough`  (cwd = /verif).  See DESIGN.md §4.
"""
from __future__ import annotations

import contextlib
import fcntl
import hashlib
import json
import os
import re
import shutil
import struct
import subprocess
import sys
import time
import traceback
from pathlib import Path

import numpy as np

ROOT = Path(__file__).resolve().parent.parent
LEAN = Path(os.environ.get("VERIF_LEAN_DIR") or ROOT / "lean")  # evaluation tools point parallel runs at private copies
WORK = ROOT / ".work"
REPLAYS = ROOT / "replays"
# VERIF_EVIDENCE_DIR: used only by tools/eval_seeded.py so that runs against a deliberately broken tree do not
# overwrite the evidence of the unchanged tree
EVIDENCE = Path(os.environ.get("VERIF_EVIDENCE_DIR") or (ROOT / "evidence"))
CORPUS = ROOT / "corpus"
KNOWN = ROOT / "known_findings.jsonl"
DRIVER = LEAN / ".lake" / "build" / "bin" / "driver"
REPO = Path(os.environ.get("VERIF_REPO", "/repo"))

ALLOWED_AXIOMS = {"propext", "Classical.choice", "Quot.sound"}
FORBIDDEN = re.compile(
    r"\bsorry\b|\badmit\b|^\s*axiom\s|native_decide|bv_decide|implemented_by|\bunsafe\s|maxHeartbeats\s+0"
)
TRUSTED_BASE = [
    "Lean 4.33 kernel; axioms propext, Classical.choice, Quot.sound only (audited with #print axioms on every run)",
    "Mathlib v4.33 as a library of kernel-checked proofs",
    "hand-written Lean model of the anchored code; tie to /repo = differential correspondence run (this harness) on every run",
    "theorems are in exact arithmetic (K = ℝ or any field); the implementation obeys them up to the rounding tolerance stated in the evidence",
]


class Infra(Exception):
    """Infrastructure failure: exit 2, never a VIOLATION line."""


# ----------------------------------------------------------------------------------------------
# floats <-> bit patterns
# ----------------------------------------------------------------------------------------------
def bits(x) -> int:
    return struct.unpack("<Q", struct.pack("<d", float(x)))[0]


def unbits(n) -> float:
    return struct.unpack("<d", struct.pack("<Q", int(n)))[0]


def ulp_diff(a: float, b: float) -> float:
    """distance in units of the spacing of the larger magnitude (0 for equal, inf for nan mismatch)"""
    if a == b:
        return 0.0
    if np.isnan(a) or np.isnan(b):
        return 0.0 if (np.isnan(a) and np.isnan(b)) else float("inf")
    m = max(abs(a), abs(b))
    return abs(a - b) / np.spacing(m)


# ----------------------------------------------------------------------------------------------
# Lean: build, source audit, axiom audit
# ----------------------------------------------------------------------------------------------
@contextlib.contextmanager
def _lock(name: str):
    WORK.mkdir(exist_ok=True)
    fh = open(WORK / f"{name}.lock", "w")
    try:
        fcntl.flock(fh, fcntl.LOCK_EX)
        yield
    finally:
        fcntl.flock(fh, fcntl.LOCK_UN)
        fh.close()


def lean_build(prop=None, timeout=3000):
    """Tie B: regenerate lean/Tdgl/Generated/*.lean from /repo's current source, then `lake build` the whole
    project (no-op when warm).  If the whole build fails, the modules this property needs are built on their own,
    so that a broken bridge of one property does not take the other checks down.  Returns (ok, log, seconds)."""
    with _lock("lake" if LEAN == ROOT / "lean" else "lake_" + re.sub(r"\W", "_", str(LEAN))):
        t0 = time.time()
        tr = subprocess.run([sys.executable, str(ROOT / "tools" / "pyexpr2lean.py")], stdout=subprocess.PIPE, stderr=subprocess.STDOUT, text=True,
                            env=dict(os.environ, VERIF_REPO=str(REPO)))
        log = "translator: " + tr.stdout.strip() + "\n"
        p = subprocess.run(["lake", "build"], cwd=LEAN, stdout=subprocess.PIPE, stderr=subprocess.STDOUT, text=True, timeout=timeout)
        log += p.stdout
        ok = p.returncode == 0
        if not ok and prop is not None:
            # one target at a time: a module that no longer builds (typically a bridge to regenerated definitions) must
            # not keep the theorems of the property's other modules from being checked
            ok = True
            for tgt in [f"Tdgl.Props.{f.stem}" for f in prop_files(prop)] + ["driver"]:
                q = subprocess.run(["lake", "build", tgt], cwd=LEAN, stdout=subprocess.PIPE, stderr=subprocess.STDOUT, text=True, timeout=timeout)
                if q.returncode != 0:
                    ok = False
                    log += f"\n--- per-module build: {tgt} FAILED ---\n" + q.stdout[-2500:]
                else:
                    log += f"\n--- per-module build: {tgt} ok ---\n"
        return ok, log, time.time() - t0


def _strip_comments(src: str) -> str:
    src = re.sub(r"/-.*?-/", lambda m: "\n" * m.group(0).count("\n"), src, flags=re.S)
    src = re.sub(r"--.*", "", src)
    return src


def source_audit():
    """grep of every .lean file for forbidden constructs, outside comments."""
    hits = []
    for f in sorted(LEAN.rglob("*.lean")):
        if ".lake" in f.parts or "Staging" in f.parts:
            continue
        for i, line in enumerate(_strip_comments(f.read_text()).splitlines(), 1):
            if FORBIDDEN.search(line):
                hits.append(f"{f.relative_to(LEAN)}:{i}: {line.strip()}")
    return hits


def prop_files(prop: str):
    d = LEAN / "Tdgl" / "Props"
    return sorted(d.glob(f"{prop}*.lean"))  # Cxx.lean, CxxBridge.lean (Tie B), CxxFloat.lean, …


def theorems_of(prop: str):
    names = []
    for f in prop_files(prop):
        src = _strip_comments(f.read_text())
        names += re.findall(rf"^\s*theorem\s+({prop}_\w+)", src, flags=re.M)
    return names


def axiom_audit(prop: str, timeout=900):
    """#print axioms for every theorem `Cxx_*` of Props/Cxx.lean.
    Returns dict name -> sorted list of axioms (or None when the theorem did not compile)."""
    names = theorems_of(prop)
    if not names:
        return {}
    WORK.mkdir(exist_ok=True)
    res = {n: None for n in names}
    out = ""
    # one audit file per module: a module that did not build leaves only its own theorems unchecked
    for f in prop_files(prop):
        src = _strip_comments(f.read_text())
        mine = re.findall(rf"^\s*theorem\s+({prop}_\w+)", src, flags=re.M)
        if not mine:
            continue
        af = WORK / f"audit_{prop}_{f.stem}_{os.getpid()}.lean"
        af.write_text(f"import Tdgl.Props.{f.stem}\n" + "".join(f"#print axioms Tdgl.{prop}.{n}\n" for n in mine))
        try:
            p = subprocess.run(["lake", "env", "lean", str(af)], cwd=LEAN, stdout=subprocess.PIPE, stderr=subprocess.STDOUT, text=True, timeout=timeout)
        finally:
            af.unlink(missing_ok=True)
        out += p.stdout
        flat = re.sub(r"\s+", " ", p.stdout)
        for n in mine:
            m = re.search(rf"'Tdgl\.{prop}\.{n}' depends on axioms: \[([^\]]*)\]", flat)
            if m:
                res[n] = sorted(a.strip() for a in m.group(1).split(",") if a.strip())
            elif re.search(rf"'Tdgl\.{prop}\.{n}' does not depend on any axioms", flat):
                res[n] = []
    return res, out


def leanchecker(prop: str, timeout=3000):
    """thorough tier: re-check the compiled .olean files of the property's modules with Lean's independent
    checker (`leanchecker`, replays every declaration through the kernel)."""
    mods = [f"Tdgl.Props.{f.stem}" for f in prop_files(prop)]
    if not mods:
        return None
    p = subprocess.run(["lake", "env", "leanchecker"] + mods, cwd=LEAN, stdout=subprocess.PIPE, stderr=subprocess.STDOUT, text=True, timeout=timeout)
    return dict(modules=mods, rc=p.returncode, tail=p.stdout[-400:])


# ----------------------------------------------------------------------------------------------
# driver
# ----------------------------------------------------------------------------------------------
def driver(lines, timeout=600):
    """Pipe operation lines into the Lean model driver, return the result lines."""
    if not DRIVER.exists():
        raise Infra(f"driver not built: {DRIVER}")
    text = "\n".join(lines) + "\n"
    p = subprocess.run([str(DRIVER)], input=text, stdout=subprocess.PIPE, stderr=subprocess.PIPE, text=True, timeout=timeout)
    if p.returncode != 0:
        raise Infra(f"driver exited {p.returncode}: {p.stderr[:500]}")
    out = p.stdout.splitlines()
    if len(out) != len(lines):
        raise Infra(f"driver answered {len(out)} lines for {len(lines)} operations")
    return out


# ----------------------------------------------------------------------------------------------
# known findings
# ----------------------------------------------------------------------------------------------
def load_known():
    recs = []
    if KNOWN.exists():
        for line in KNOWN.read_text().splitlines():
            line = line.strip()
            if line and not line.startswith("#"):
                recs.append(json.loads(line))
    return recs


# ----------------------------------------------------------------------------------------------
# the per-run context
# ----------------------------------------------------------------------------------------------
class Ctx:
    def __init__(self, prop: str, tier: str, seed: int):
        self.prop, self.tier, self.seed = prop, tier, seed
        self.rng = np.random.default_rng(seed)
        self.t0 = time.time()
        self.quick = tier == "quick"
        # measured counts
        self.evaluations = 0
        self.keys = set()  # distinct non-trivial case keys
        self.samples = []
        self.dist = {}  # distribution counters
        self.traces = 0  # traces validated model vs impl
        self.corr_checked = 0  # correspondence comparisons made
        self.corr_diffs = []  # model != impl
        self.oracle_fails = []  # property fails on the implementation: dicts(key, what, replay)
        self.proof_breaks = []
        self.notes = []
        self.extra = {}
        self.tolerances = {}
        self.known = [k for k in load_known() if k.get("property") == prop]
        import tempfile

        WORK.mkdir(parents=True, exist_ok=True)
        self.work = Path(tempfile.mkdtemp(prefix=f"{prop}_{os.getpid()}_", dir=str(WORK)))
        # a private temporary directory for everything this process (and its children) creates through `tempfile`:
        # checks that look for leftover temporary files must not see what other processes do in the shared /tmp
        self._old_tmp = (tempfile.tempdir, os.environ.get("TMPDIR"))
        self.tmp = self.work / "_tmp"
        self.tmp.mkdir()
        tempfile.tempdir = str(self.tmp)
        os.environ["TMPDIR"] = str(self.tmp)

    # -- bookkeeping -------------------------------------------------------------------------
    def count(self, name, n=1):
        self.dist[name] = self.dist.get(name, 0) + n

    def case(self, key, nontrivial=True, sample=None):
        self.evaluations += 1
        if nontrivial:
            self.keys.add(key if isinstance(key, (str, int, tuple)) else json.dumps(key, sort_keys=True, default=str))
        if sample is not None and len(self.samples) < 6:
            self.samples.append(sample)

    def tol(self, name, observed, allowed):
        o = self.tolerances.get(name)
        if o is None or observed > o["observed_max"]:
            self.tolerances[name] = {"observed_max": float(observed), "allowed": float(allowed)}

    def corr(self, ok: bool, what: str, detail=None):
        """one model-vs-implementation comparison"""
        self.corr_checked += 1
        if not ok and len(self.corr_diffs) < 50:
            self.corr_diffs.append({"what": what, "detail": detail})

    def fail(self, key: str, what: str, replay: dict):
        """the property's oracle fails on the implementation for a concrete input"""
        if len(self.oracle_fails) < 200:
            self.oracle_fails.append({"key": key, "what": what, "replay": replay})

    def elapsed(self):
        return time.time() - self.t0

    def cleanup(self):
        import tempfile

        if tempfile.tempdir == str(self.tmp):
            tempfile.tempdir = self._old_tmp[0]
            if self._old_tmp[1] is None:
                os.environ.pop("TMPDIR", None)
            else:
                os.environ["TMPDIR"] = self._old_tmp[1]
        shutil.rmtree(self.work, ignore_errors=True)


def _jsonable(o):
    if isinstance(o, (np.integer,)):
        return int(o)
    if isinstance(o, (np.floating,)):
        return float(o)
    if isinstance(o, complex):
        return [o.real, o.imag]
    if isinstance(o, np.ndarray):
        return o.tolist()
    if isinstance(o, (set, tuple)):
        return list(o)
    if isinstance(o, Path):
        return str(o)
    return repr(o)


def write_replay(ctx: Ctx, tag: str, payload: dict) -> Path:
    REPLAYS.mkdir(exist_ok=True)
    blob = json.dumps(payload, sort_keys=True, default=_jsonable)
    h = hashlib.sha1(blob.encode()).hexdigest()[:10]
    path = REPLAYS / f"{ctx.prop}-{tag}-{h}.json"
    payload = dict(payload)
    payload.setdefault("property", ctx.prop)
    payload.setdefault("seed", ctx.seed)
    payload.setdefault("replay_cmd", f"./check {ctx.prop} --replay {path.relative_to(ROOT)}")
    path.write_text(json.dumps(payload, indent=1, sort_keys=True, default=_jsonable))
    return path


def match_known(ctx: Ctx, key: str):
    for k in ctx.known:
        if k.get("status", "known") != "known":
            continue  # "fixed" entries suppress nothing
        if k.get("match") == key:
            return k
    return None


def finish(ctx: Ctx, module, lean_info: dict) -> int:
    """Decide (DESIGN.md §4.2), write evidence, print lines, return exit status."""
    violations = 0
    printed_known = set()
    lines = []
    # 1. concrete failures of the property on the implementation
    seen = set()
    for f in ctx.oracle_fails:
        k = match_known(ctx, f["key"])
        if k is not None:
            if f["key"] not in printed_known:
                printed_known.add(f["key"])
                lines.append(f"KNOWN-FINDING: property={ctx.prop} {k.get('what', f['what'])}")
            continue
        if f["key"] in seen:
            continue
        seen.add(f["key"])
        path = write_replay(ctx, "fail", {"kind": "failing-input", "key": f["key"], "what": f["what"], **f["replay"]})
        lines.append(f"VIOLATION property={ctx.prop} replay={path.relative_to(ROOT)}")
        violations += 1
    # 2. a proof obligation or the correspondence broke, oracle clean -> search, else no-failing-input-found
    broke = []
    if lean_info.get("build_ok") is False:
        broke.append({"kind": "lean-build", "detail": lean_info.get("build_log", "")[-3000:]})
    for n, ax in (lean_info.get("axioms") or {}).items():
        if ax is None:
            broke.append({"kind": "theorem-not-checked", "theorem": n})
        elif not set(ax) <= ALLOWED_AXIOMS:
            broke.append({"kind": "axioms", "theorem": n, "axioms": ax})
    for h in lean_info.get("source_hits", []):
        broke.append({"kind": "forbidden-construct", "where": h})
    lc = lean_info.get("leanchecker")
    if lc is not None and lc.get("rc") != 0:
        broke.append({"kind": "leanchecker", **lc})
    for d in ctx.proof_breaks:
        broke.append({"kind": "bridge", **d})
    for d in ctx.corr_diffs[:10]:
        broke.append({"kind": "correspondence", **d})
    if broke and violations == 0:
        found = None
        if hasattr(module, "search"):
            try:
                found = module.search(ctx)
            except Exception:  # search is best-effort
                ctx.notes.append("search raised: " + traceback.format_exc()[-800:])
        if found is not None and match_known(ctx, found["key"]) is not None:
            found = None  # a listed finding does not explain a newly broken obligation
        if found is not None:
            path = write_replay(ctx, "fail", {"kind": "failing-input", "found_by": "search after broken obligation", "broken": broke[:5], **found})
            lines.append(f"VIOLATION property={ctx.prop} replay={path.relative_to(ROOT)}")
            violations += 1
        else:
            path = write_replay(ctx, "broken", {"kind": "no-failing-input-found", "broken": broke[:20]})
            lines.append(f"VIOLATION property={ctx.prop} replay={path.relative_to(ROOT)} no-failing-input-found")
            violations += 1
    elif broke:
        ctx.notes.append(f"{len(broke)} broken obligations/correspondence lines accompany the reported failing inputs")
    # evidence
    axioms = lean_info.get("axioms") or {}
    obligations = len(axioms)
    discharged = sum(1 for a in axioms.values() if a is not None and set(a) <= ALLOWED_AXIOMS)
    level = getattr(module, "LEVEL", "proof")
    cov = {
        "obligations": obligations,
        "discharged": discharged,
        "checker_cmd": f"cd lean && lake build && lake env lean <generated #print axioms for Tdgl.{ctx.prop}.{ctx.prop}_*>  (./check {ctx.prop} --tier {ctx.tier})",
        "trusted_base": TRUSTED_BASE + list(getattr(module, "TRUSTED", [])),
        "theorems": {n: a for n, a in axioms.items()},
        "evaluations": ctx.evaluations,
        "distinct_nontrivial": len(ctx.keys),
        "rule": getattr(module, "RULE", ""),
        "samples": ctx.samples[:6] or [{"note": "no sample recorded"}],
        "traces_validated_against_impl": ctx.traces,
        "correspondence_comparisons": ctx.corr_checked,
        "disagreements_checked": len(ctx.corr_diffs),
        "input_distribution": ctx.dist,
        "tolerances": ctx.tolerances,
        "oracle_failures_on_impl": len(ctx.oracle_fails),
        "known_findings_hit": sorted(printed_known),
        "notes": ctx.notes,
        "explanation": getattr(module, "EXPLANATION", ""),
        "lean_build_s": lean_info.get("build_s"),
        "leanchecker": lean_info.get("leanchecker"),
        "exhaustive": bool(getattr(module, "EXHAUSTIVE", False)),
    }
    cov.update(ctx.extra)
    ev = {
        "property_id": ctx.prop,
        "tier": ctx.tier,
        "seed": ctx.seed,
        "level": level,
        "coverage": cov,
        "assumptions": list(getattr(module, "ASSUMPTIONS", [])),
        "wall_s": round(ctx.elapsed(), 2),
        "violations": violations,
    }
    EVIDENCE.mkdir(exist_ok=True)
    (EVIDENCE / f"{ctx.prop}.json").write_text(json.dumps(ev, indent=1, default=_jsonable))
    for l in lines:
        print(l)
    print(
        f"[{ctx.prop}] tier={ctx.tier} seed={ctx.seed} theorems={discharged}/{obligations} "
        f"cases={ctx.evaluations} distinct={len(ctx.keys)} corr={ctx.corr_checked} corr_diffs={len(ctx.corr_diffs)} "
        f"oracle_fails={len(ctx.oracle_fails)} violations={violations} wall={ctx.elapsed():.1f}s"
    )
    return 1 if violations else 0
