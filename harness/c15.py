"""C15 — a stopped simulation leaves a clean, readable, truthful output.

Fault injection by monkeypatching (from the harness process; no source hook): an exception or a KeyboardInterrupt is
raised inside `TDGLSolver.update` at call number c (both stages), or inside the frame writer
(`DataHandler.save_time_step`) before / in the middle of / after the writes of frame f — for every step 0..N of a
bounded run, with and without an explicit output path, with pre-existing files at the path (`out.h5`, `out-1.h5`,
a stale `out.h5.tmp`).  Afterwards the harness inspects the directory and the file.
"""
from __future__ import annotations

import glob
import hashlib
import os
import tempfile

import h5py
import numpy as np

import runs
import vcommon as V
import zoo
import tdgl

LEVEL = "proof"
EXHAUSTIVE = True
RULE = (
    "all injections (stage in {thermalise, simulate}) x (update call index 0..N | frame-writer call index x "
    "{before, mid, after}) x kind in {error, interrupt}, for output in {explicit path, explicit path with existing "
    "out.h5 (+out-1.h5) (+stale .tmp), no path}; a case = one injected run; non-trivial = stop at step >= 1"
)
EXPLANATION = (
    "Lean theorems C15_* about the file-system/handler model (cleanup on every exit path, fresh name, existing files "
    "untouched, frames = those completed before the stop) for all injection points; every injection point of a "
    "bounded real run is exercised and the directory / HDF5 file inspected."
)
ASSUMPTIONS = ["injection is at call granularity (HDF5's own crash consistency inside one write call is out of reach)"]

REQUIRED = ["psi", "mu", "supercurrent", "normal_current", "induced_vector_potential"]


class Boom(RuntimeError):
    pass


class Inject:
    """raise `exc` inside update at call index `ucall`, or in the frame writer at frame index `fcall` and phase"""

    def __init__(self, ucall=None, fcall=None, phase="before", kind="error"):
        self.ucall, self.fcall, self.phase, self.kind = ucall, fcall, phase, kind
        self.u = 0
        self.f = 0
        self.fired = False

    def exc(self):
        return KeyboardInterrupt() if self.kind == "interrupt" else Boom("injected")

    def __enter__(self):
        from tdgl.solver import runner as R
        from tdgl.solver.solver import TDGLSolver

        self.R, self.S = R, TDGLSolver
        self.o_update = TDGLSolver.update
        self.o_save = R.DataHandler.save_time_step
        self.o_get = R._get
        me = self

        def update(s, *a, **kw):
            idx = me.u
            me.u += 1
            if me.ucall is not None and idx == me.ucall and not me.fired:
                me.fired = True
                raise me.exc()
            return me.o_update(s, *a, **kw)

        def save(h, state, data, running_state):
            idx = me.f
            me.f += 1
            hit = me.fcall is not None and idx == me.fcall and not me.fired
            if hit and me.phase == "before":
                me.fired = True
                raise me.exc()
            if hit and me.phase.startswith("mid"):
                calls = dict(n=0)
                at = int(me.phase[3:] or 3)  # "mid<j>": raise inside the j-th array write of this frame

                def get(item):
                    calls["n"] += 1
                    if calls["n"] == at and not me.fired:
                        me.fired = True
                        raise me.exc()
                    return me.o_get(item)

                R._get = get
                try:
                    return me.o_save(h, state, data, running_state)
                finally:
                    R._get = me.o_get
            r = me.o_save(h, state, data, running_state)
            if hit and me.phase == "after":
                me.fired = True
                raise me.exc()
            return r

        TDGLSolver.update = update
        R.DataHandler.save_time_step = save
        return self

    def __exit__(self, *a):
        self.S.update = self.o_update
        self.R.DataHandler.save_time_step = self.o_save
        self.R._get = self.o_get


def sha_file(p):
    return hashlib.sha256(open(p, "rb").read()).hexdigest()


def listing(d):
    return sorted(os.listdir(d))


def frame_ok(g):
    return all(k in g for k in REQUIRED) and all(a in g.attrs for a in ("step", "time", "dt"))


def one(ctx, dev, kw, k, N, thermal, out_mode, inj: dict, dt=1e-2, with_model=True):
    """run one injected simulation and check the aftermath; returns failure dict or None"""
    work = tempfile.mkdtemp(dir=str(ctx.work))
    cwd = os.getcwd()
    pre = {}
    path = None
    if out_mode != "none":
        path = os.path.join(work, "out.h5")
        if out_mode in ("existing", "existing2", "stale_tmp", "stale_tmp_serial"):
            for nm in {"existing2": ["out.h5", "out-1.h5"], "stale_tmp_serial": ["out.h5", "out-1.h5", "out-2.h5"]}.get(out_mode, ["out.h5"]):
                with h5py.File(os.path.join(work, nm), "w") as f:
                    f["marker"] = np.arange(5)
        if out_mode in ("stale_tmp", "stale_tmp_serial"):
            # a hard-killed earlier run left out.h5.tmp; its broken out.h5 was deleted by the user (and, in the
            # "serial" mode, results of other earlier runs sit at the next names of the series)
            os.remove(os.path.join(work, "out.h5"))
            with h5py.File(os.path.join(work, "out.h5.tmp"), "w") as f:
                f["stale"] = np.arange(3)
        pre = {nm: sha_file(os.path.join(work, nm)) for nm in listing(work)}
    tmp_before = set(os.listdir(tempfile.gettempdir()))
    opts = runs.options(dt_init=dt, adaptive=False, save_every=k, solve_time=dt * (N - 0.5), skip_time=(dt * 2.5 if thermal else 0.0),
                        output_file=path, progress_interval=10**9)
    tag = dict(k=k, N=N, thermal=thermal, out=out_mode, **inj)
    fails = []

    def fail(key, what, **extra):
        rp = dict(tag, **extra)
        ctx.fail(key, what, rp)
        fails.append(dict(key=key, what=what, **rp))

    result = None
    raised = None
    with Inject(**inj) as I:
        try:
            result = tdgl.solve(dev, opts, **kw)
        except BaseException as e:  # noqa
            raised = e
    fired = I.fired
    ctx.case(tuple(sorted((k_, str(v)) for k_, v in tag.items())), nontrivial=fired)
    ctx.count("injection_fired" if fired else "injection_not_reached")
    ctx.count(f"kind:{inj['kind']}")
    ctx.count(f"out:{out_mode}")
    if raised is not None and not isinstance(raised, (Boom, KeyboardInterrupt)):
        fail(f"unexpected-exception:{type(raised).__name__}:{'ucall0' if inj.get('ucall') == 0 else 'other'}", f"tdgl.solve raised {type(raised).__name__}: {str(raised)[:120]} instead of the injected fault / a partial solution", error=str(raised)[:200])
    if fired and inj["kind"] == "error" and not isinstance(raised, Boom) and raised is None:
        fail("error-swallowed", "an exception raised inside the run did not propagate to the caller")
    if fired and inj["kind"] == "interrupt" and inj.get("ucall") is not None:
        n_therm_updates = 3 if thermal else 0
        in_sim = inj["ucall"] >= n_therm_updates
        if in_sim and not isinstance(result, tdgl.Solution) and raised is None:
            fail("cancel-no-solution", "cancellation during the recorded stage did not return a partial solution")
        if in_sim and isinstance(raised, KeyboardInterrupt):
            fail("cancel-propagates", "KeyboardInterrupt inside update propagated instead of returning a partial solution")
        if not in_sim and result is not None:
            fail("cancel-thermal-returns", "cancellation during thermalisation returned a solution")
    if fired and inj["kind"] == "interrupt" and inj.get("fcall") is not None:
        # Ctrl-C while a frame is being written.  Frames at multiples of save_every are written inside the loop, where Ctrl-C is a
        # cancellation like any other (partial solution, or None when nothing has been recorded); only the final partial frame
        # is written after the loop (Lean: runStageF / finalSave)
        in_loop = inj["fcall"] < len([i for i in range(N + 1) if i % k == 0])
        if in_loop and isinstance(raised, KeyboardInterrupt):
            fail("cancel-in-frame-writer-propagates", f"Ctrl-C while frame #{inj['fcall']} was being written ({inj.get('phase')}) propagated out of solve() instead of cancelling the run")
    # ---------------- aftermath on disk ----------------
    if out_mode == "none":
        left = set(os.listdir(tempfile.gettempdir())) - tmp_before
        left = {x for x in left if not x.startswith(os.path.basename(str(ctx.work)))}
        if left:
            fail("tempdir-left", f"temporary entries left behind: {sorted(left)[:3]}")
    else:
        now = listing(work)
        strays = [f for f in now if f.endswith(".tmp") and f not in pre]
        if strays:
            fail("tmp-left", f"temporary file(s) left behind: {strays}")
        for nm, h in pre.items():
            if nm not in now:
                if not nm.endswith(".tmp"):
                    fail("existing-removed", f"pre-existing file {nm} was removed")
            elif sha_file(os.path.join(work, nm)) != h:
                fail("existing-modified", f"pre-existing file {nm} was modified")
        new = [f for f in now if f not in pre]
        if len(new) > 1:
            fail("stray-files", f"more than one new file was created: {new}", new=new)
        if len(new) == 1:
            p = os.path.join(work, new[0])
            try:
                with h5py.File(p, "r+") as f:  # r+ fails if a handle was left open holding the lock
                    groups = sorted((int(x) for x in f["data"]), key=int) if "data" in f else []
                    partial = [g for g in groups if not frame_ok(f["data"][str(g)])]
                    steps = [int(f["data"][str(g)].attrs["step"]) for g in groups if "step" in f["data"][str(g)].attrs]
                if partial:
                    fail("partial-frame", f"output contains incompletely written frame(s) {partial}", partial=partial)
                # truthfulness: completed frames are exactly the ones the loop saved before the stop
                if steps != sorted(set(steps)):
                    fail("frames-out-of-order", f"frame steps {steps}")
                if isinstance(result, tdgl.Solution):
                    try:
                        _ = result.times, result.dynamics.dt, result.tdgl_data.psi, result.current_density
                        if len(result.times) != len(groups):
                            fail("partial-solution-inconsistent", f"partial solution reports {len(result.times)} times for {len(groups)} frames")
                    except Exception as e:  # noqa
                        fail("partial-solution-unusable", f"partial solution unusable: {type(e).__name__}: {e}")
            except OSError as e:
                fail("output-unreadable", f"output file not readable/reopenable after the stop: {e}")
        elif fired and not new and out_mode != "none" and (inj.get("ucall") is not None or inj.get("fcall") is not None):
            pass
        if new and out_mode in ("existing", "existing2", "stale_tmp", "stale_tmp_serial"):
            want = {"existing": "out-1.h5", "existing2": "out-2.h5", "stale_tmp": None, "stale_tmp_serial": "out-3.h5"}[out_mode]
            if want and new != [want]:
                fail("fresh-name", f"expected the fresh name {want}, got {new}")
    # ---------------- correspondence with the Lean handler model ----------------
    if with_model and out_mode != "none" and inj.get("phase") != "after" and not fails and (fired or inj.get("fcall") is None):
        n_therm = 3 if thermal else 0
        uf = sf = ""
        if inj.get("ucall") is not None:
            c = inj["ucall"]
            uf = f"{0 if c < n_therm else 1}:{c if c < n_therm else c - n_therm}:{inj['kind']}"
        if inj.get("fcall") is not None:
            sf = f"{inj['fcall']}:{inj['kind']}"
        existing = {"path": "", "existing": "-:0", "existing2": "-:0 1:0", "stale_tmp": "-:1", "stale_tmp_serial": "-:1 1:0 2:0"}[out_mode]
        dts = " ".join(str(V.bits(dt)) for _ in range(N + n_therm + 3))
        line = f"solvef {k} {V.bits(opts.skip_time) if thermal else '-'} {V.bits(opts.solve_time)} 200 | {dts} | {uf} | {sf} | {existing}"
        (res,) = V.driver([line])
        ctx.traces += 1
        if isinstance(result, tdgl.Solution):
            r = "solution"
        elif raised is None:
            r = "none"
        else:
            r = "exc:interrupt" if isinstance(raised, KeyboardInterrupt) else "exc:error"
        now = listing(work)
        new = [f for f in now if f not in pre]
        ser = "?"
        frames_s = "?"
        if len(new) == 1:
            nm = new[0]
            ser = "-" if nm == "out.h5" else nm[len("out-"):-len(".h5")]
            with h5py.File(os.path.join(work, nm), "r") as f:
                gs = sorted((int(x) for x in f["data"]), key=int)
                frames_s = ",".join(str(int(f["data"][str(g)].attrs["step"])) for g in gs)
        want = f"{r} ser={ser} frames=[{frames_s}] open=false partial=false tmp-absent"
        ctx.corr(res.strip() == want, "Lean solveF model vs the real run's result and directory", dict(tag, model=res, impl=want))
    if len(ctx.samples) < 6 and fired:
        ctx.samples.append(dict(tag, returned=type(result).__name__, raised=(type(raised).__name__ if raised else None)))
    return fails[0] if fails else None


def injections(N, k, thermal):
    n_u = N + (3 if thermal else 0)
    nframes = len([i for i in range(N + 1) if i % k == 0]) + (1 if N % k else 0)
    for kind in ("error", "interrupt"):
        for c in range(n_u + 1):
            yield dict(ucall=c, kind=kind)
        for f in range(nframes):
            # every array write of the frame: 5 field datasets, then the per-step columns (dt, mu, theta) of the
            # running-state group for frames after the first; an index past the last write never fires
            nwrites = 5 if f == 0 else 8
            for phase in ["before"] + [f"mid{j}" for j in range(1, nwrites + 1)] + ["after"]:
                yield dict(fcall=f, phase=phase, kind=kind)


def c15_ramp(x, y, z, *, t, B=0.6, rate=6.0):
    s_ = min(1.0, 0.1 + rate * t)
    return np.stack([-s_ * B * y / 2, s_ * B * x / 2, np.zeros_like(x)], axis=1)


def mid_update_cancel(ctx):
    """cancellation that arrives in the MIDDLE of an update (after part of the step's work has been done, e.g. between
    two screening iterations): the final frame written for the interrupted step and the returned partial solution hold
    the state after exactly that many completed updates -- bit for bit what an uninterrupted run has at that step"""
    from tdgl.solver.solver import TDGLSolver

    first = None
    dev = zoo.make_device("ring", ctx.rng, max_edge_length=1.0, lam=0.5)
    A = tdgl.Parameter(c15_ramp, time_dependent=True)
    base = dict(dt_init=5e-3, adaptive=False, include_screening=True, screening_tolerance=1e-3, progress_interval=10**9, pause_on_interrupt=False)
    ref_path = os.path.join(str(ctx.work), "mid_ref.h5")
    ref = tdgl.solve(dev, runs.options(solve_time=0.06, save_every=1, output_file=ref_path, **base), applied_vector_potential=A)
    ref_frames = {fr["step"]: fr for fr in runs.parse_h5(ref.path)[0]}
    class _Interrupting:
        """stands in for the covariant Laplacian inside ONE evaluation of the site update: Ctrl-C arrives while it is applied"""

        def __init__(self, M, st):
            self.M, self.st = M, st

        def __matmul__(self, v):
            self.st["fired"] = True
            raise KeyboardInterrupt()

        def __getattr__(self, k):
            return getattr(self.M, k)

    for where, at_step in (("solve_for_observables", 6), ("get_induced_vector_potential", 5), ("solve_for_observables", 3), ("solve_for_psi_squared", 5), ("solve_for_psi_squared:adaptive", 6)):
        adaptive_ = where.endswith(":adaptive")
        where = where.split(":")[0]
        orig = TDGLSolver.__dict__[where] if where == "solve_for_psi_squared" else getattr(TDGLSolver, where)
        upd = TDGLSolver.update
        st = dict(step=-1, calls=0, fired=False)

        def update(s_, state, *a, **kw):
            st["step"], st["calls"] = int(state["step"]), 0
            return upd(s_, state, *a, **kw)

        def hooked(s_, *a, **kw):
            st["calls"] += 1
            if st["step"] == at_step and st["calls"] == 2 and not st["fired"]:  # second call inside this step: mid-update
                st["fired"] = True
                raise KeyboardInterrupt()
            return orig(s_, *a, **kw)

        def hooked_site(**kw):
            # Ctrl-C INSIDE the evaluation of the site update (while the Laplacian is applied), first evaluation of the step
            if st["step"] == at_step and not st["fired"]:
                kw = dict(kw, psi_laplacian=_Interrupting(kw["psi_laplacian"], st))
            return orig.__func__(**kw)

        out = os.path.join(str(ctx.work), f"mid_{where}_{at_step}.h5")
        TDGLSolver.update = update
        setattr(TDGLSolver, where, staticmethod(hooked_site) if where == "solve_for_psi_squared" else hooked)
        raised_ = None
        try:
            sol = tdgl.solve(dev, runs.options(solve_time=0.06, save_every=4, output_file=out, **dict(base, **(dict(adaptive=True, dt_max=5e-3) if adaptive_ else {}))), applied_vector_potential=A)
        except KeyboardInterrupt:
            sol = None
        except Exception as e:  # noqa: a cancellation must not turn into an error
            sol, raised_ = None, e
        finally:
            TDGLSolver.update = upd
            setattr(TDGLSolver, where, orig)
        if st["fired"] and (raised_ is not None or (sol is not None and int(sol.tdgl_data.state["step"]) != at_step)):
            what_ = (f"solve() raised {type(raised_).__name__}: {str(raised_)[:100]}" if raised_ is not None
                     else f"the run went on to step {int(sol.tdgl_data.state['step'])}")
            rp = dict(interrupted_in=where, at_step=at_step, adaptive=adaptive_, outcome=what_)
            ctx.fail("cancel-mid-update:not-honoured", f"Ctrl-C inside {where} of step {at_step} did not cancel the run with a partial solution at that step: {what_}", rp)
            first = first or dict(key="cancel-mid-update:not-honoured", what=what_, **rp)
            ctx.case(("mid-update-cancel", where, at_step, adaptive_), nontrivial=True)
            continue
        ctx.case(("mid-update-cancel", where, at_step), nontrivial=st["fired"])
        ctx.count("mid_update_cancellations" if st["fired"] else "mid_update_injection_not_reached")
        if not st["fired"] or not os.path.exists(out):
            continue
        frames = runs.parse_h5(out)[0]
        bad = []
        for fr in frames:
            want = ref_frames.get(fr["step"])
            if want is None:
                bad.append((fr["step"], "no such step in the uninterrupted run"))
                continue
            for nm_, arr_ in fr["data"].items():
                if nm_ in want["data"] and not np.array_equal(arr_, want["data"][nm_]):
                    bad.append((fr["step"], nm_))
        if sol is not None:
            last = ref_frames.get(int(sol.tdgl_data.state["step"]))
            if last is not None:
                for nm_ in runs.FIELDS:
                    if not np.array_equal(np.asarray(getattr(sol.tdgl_data, nm_)), last["data"][nm_]):
                        bad.append(("returned solution", nm_))
        if sol is not None:
            # per-step bookkeeping of the partial solution: one record per COMPLETED update, equal to the uninterrupted
            # run's records, and the time axis ends at the time label of the final frame
            n_done = int(sol.tdgl_data.state["step"])
            dyn, rdyn = sol.dynamics, ref.dynamics
            dts_ = np.asarray(dyn.dt)
            if len(dts_) != n_done or not np.array_equal(dts_, np.asarray(rdyn.dt)[:n_done]):
                bad.append(("partial dynamics", f"{len(dts_)} dt records for {n_done} completed updates"))
            for nm_ in ("mu", "theta"):
                a_, b_ = getattr(dyn, nm_, None), getattr(rdyn, nm_, None)
                if a_ is not None and b_ is not None and not np.array_equal(np.asarray(a_), np.asarray(b_)[..., : np.asarray(a_).shape[-1]]):
                    bad.append(("partial dynamics", nm_))
                if a_ is not None and np.asarray(a_).shape[-1] != n_done:
                    bad.append(("partial dynamics", f"{nm_} has {np.asarray(a_).shape[-1]} columns for {n_done} completed updates"))
            if frames and float(sol.times[-1]) != float(frames[-1]["time"]):
                bad.append(("partial dynamics", f"times[-1]={float(sol.times[-1])!r} but the final frame is at t={float(frames[-1]['time'])!r}"))
            ctx.count("partial_solution_bookkeeping_checked")
        if bad:
            rp = dict(interrupted_in=where, at_step=at_step, where=[list(map(str, b)) for b in bad[:6]])
            ctx.fail("cancel-mid-update:untruthful-frame", f"cancellation inside {where} of step {at_step}: frames / partial solution do not hold the states of the uninterrupted run: {bad[:4]}", rp)
            first = first or dict(key="cancel-mid-update:untruthful-frame", what=str(bad[:4]), **rp)
    return first


def run(ctx, stop_first=False, with_model=True):
    dev = zoo.make_device("bar", ctx.rng, max_edge_length=1.0)
    kw = dict(applied_vector_potential=0.3, terminal_currents={"source": 2.0, "drain": -2.0})
    first = None
    plans = [(2, 5, False, "path"), (2, 4, True, "existing"), (3, 4, False, "none")]
    if not ctx.quick:
        plans += [(1, 4, False, "existing2"), (2, 5, True, "path"), (3, 7, False, "stale_tmp"), (2, 6, True, "none")]
    else:
        plans += [(2, 3, False, "stale_tmp")]
    plans += [(2, 3, False, "stale_tmp_serial")]
    for k, N, thermal, out_mode in plans:
        for inj in injections(N, k, thermal):
            f = one(ctx, dev, kw, k, N, thermal, out_mode, inj, with_model=with_model)
            if f and first is None:
                first = f
                if stop_first:
                    return first
    # no fault at all: the reference behaviour
    for out_mode in ("path", "existing", "existing2", "stale_tmp", "stale_tmp_serial", "none"):
        f = one(ctx, dev, kw, 2, 3, False, out_mode, dict(ucall=None, kind="error"))
        first = first or f
    first = first or mid_update_cancel(ctx)
    return first


def search(ctx):
    return run(ctx, stop_first=True, with_model=False)


def replay(payload):
    ctx = V.Ctx("C15", "quick", int(payload.get("seed", 0)))
    try:
        dev = zoo.make_device("bar", ctx.rng, max_edge_length=1.0)
        kw = dict(applied_vector_potential=0.3, terminal_currents={"source": 2.0, "drain": -2.0})
        inj = {k: payload[k] for k in ("ucall", "fcall", "phase", "kind") if k in payload and payload[k] is not None}
        inj.setdefault("kind", "error")
        f = one(ctx, dev, kw, int(payload["k"]), int(payload["N"]), bool(payload["thermal"]), payload["out"], inj)
        return f is None
    finally:
        ctx.cleanup()
