"""C18 — polygon and device geometry operations mean what they say.

Generated shapes (boxes, circles, ellipses, any vertex count / orientation / centre), pairs and chains of set
operations, transforms: stored vertices closed and counter-clockwise; set operations vs point-wise membership of
random probe points kept away from every boundary; areas under rotation / translation / scaling (reflection
included) against the Lean shoelace model; originals hashed before/after every operation and results checked for
shared memory (aliasing); device membership = film and not holes.
"""
from __future__ import annotations

import itertools

import numpy as np
from shapely.geometry import Point

import vcommon as V
import zoo
import tdgl
from tdgl.geometry import box, circle, ellipse

LEVEL = "proof"
RULE = (
    "random primitives (box / circle / ellipse, 5-80 vertices, either orientation, random centre and angle) x "
    "operations (union / intersection / difference, operators + - *, chains of 2-3, rotate / translate / scale with "
    "reflections, inplace and not, copy, resample, buffer) x 40 probe points; a case = one operation on one shape "
    "tuple; non-trivial = the operands overlap partially"
)
EXPLANATION = (
    "Lean theorems C18_* (shoelace area scales with the determinant under any affine map for any vertex count, "
    "rotation/translation preserve it, scaling multiplies by fx*fy, reversal negates, orientation makes it "
    "non-negative, closing is idempotent and area-neutral; chains of set operations and device membership reduce "
    "to point-wise membership under the kernel laws); shapely/matplotlib semantics are validated by sampling."
)
ASSUMPTIONS = ["shapely set operations and matplotlib Path membership are trusted away from boundaries (probe points keep 1e-3 distance)"]


def rand_shape(rng, name=None):
    kind = rng.choice(["box", "circle", "ellipse"])
    c = tuple(rng.uniform(-1.0, 1.0, size=2))
    npts = int(rng.integers(5, 80))
    if kind == "box":
        pts = box(float(rng.uniform(1.0, 3.0)), float(rng.uniform(1.0, 3.0)), points=max(npts, 8), center=c, angle=float(rng.uniform(0, 90)))
    elif kind == "circle":
        pts = circle(float(rng.uniform(0.7, 1.8)), points=npts, center=c)
    else:
        pts = ellipse(float(rng.uniform(1.0, 2.0)), float(rng.uniform(0.5, 1.2)), points=npts, center=c, angle=float(rng.uniform(0, 180)))
    if rng.random() < 0.5:
        pts = pts[::-1]  # clockwise input
    return tdgl.Polygon(name, points=pts)


def signed_area(pts):
    x, y = pts[:, 0], pts[:, 1]
    return 0.5 * float(np.sum(x[:-1] * y[1:] - x[1:] * y[:-1]))


def far_from_boundaries(polys, pts, eps=1e-3):
    keep = np.ones(len(pts), dtype=bool)
    for p in polys:
        ring = p.polygon.exterior
        keep &= np.array([ring.distance(Point(q)) > eps for q in pts])
    return pts[keep]


def check_stored(ctx, p, what, fail):
    pts = p.points
    if not np.allclose(pts[0], pts[-1]):
        fail("not-closed", f"{what}: stored vertices are not closed")
    if signed_area(pts) < 0:
        fail("not-ccw", f"{what}: stored vertices are clockwise (signed area {signed_area(pts):.3g})")


def eval_pair(ctx, rng, with_model=True):
    first = None

    def fail(key, what, **rp):
        nonlocal first
        ctx.fail(key, what, dict(rp))
        if first is None:
            first = dict(key=key, what=what, **rp)

    a, b, c = rand_shape(rng, "a"), rand_shape(rng, "b"), rand_shape(rng, "c")
    for p in (a, b, c):
        check_stored(ctx, p, "primitive", fail)
    snap = {id(p): p.points.copy() for p in (a, b, c)}
    probes = rng.uniform(-3.5, 3.5, size=(60, 2))
    ina, inb, inc = (lambda P: (lambda q: P.contains_points(q)))(a), (lambda q: b.contains_points(q)), (lambda q: c.contains_points(q))
    ops = [
        ("union", lambda: a.union(b), lambda q: ina(q) | inb(q), [a, b]),
        ("+", lambda: a + b, lambda q: ina(q) | inb(q), [a, b]),
        ("intersection", lambda: a.intersection(b), lambda q: ina(q) & inb(q), [a, b]),
        ("*", lambda: a * b, lambda q: ina(q) & inb(q), [a, b]),
        ("difference", lambda: a.difference(b), lambda q: ina(q) & ~inb(q), [a, b]),
        ("-", lambda: a - b, lambda q: ina(q) & ~inb(q), [a, b]),
        ("union-chain", lambda: a.union(b, c), lambda q: ina(q) | inb(q) | inc(q), [a, b, c]),
        ("intersection-chain", lambda: a.intersection(b, c), lambda q: ina(q) & inb(q) & inc(q), [a, b, c]),
        ("difference-chain", lambda: a.difference(b, c), lambda q: ina(q) & ~inb(q) & ~inc(q), [a, b, c]),
        ("a+b-c", lambda: (a + b) - c, lambda q: (ina(q) | inb(q)) & ~inc(q), [a, b, c]),
    ]
    overlap = a.polygon.intersects(b.polygon) and not a.polygon.contains(b.polygon) and not b.polygon.contains(a.polygon)
    for name, mk, want, operands in ops:
        ctx.count(f"op:{name}")
        try:
            r = mk()
        except ValueError:
            ctx.count("op_result_not_a_single_polygon")  # documented: only single-polygon results
            ctx.case((name, "rejected", float(a.points[0, 0])), nontrivial=False)
            continue
        ctx.case((name, float(a.points[0, 0]), float(b.points[0, 0])), nontrivial=bool(overlap))
        check_stored(ctx, r, name, fail)
        q = far_from_boundaries(operands + [r], probes)
        got, exp = r.contains_points(q), want(q)
        if not np.array_equal(got, exp):
            k = int(np.flatnonzero(got != exp)[0])
            fail(f"membership:{name}", f"{name}: point {q[k].tolist()} is {'in' if got[k] else 'not in'} the result but the operands say otherwise", op=name, point=q[k].tolist())
        for p in operands:
            if not np.array_equal(p.points, snap[id(p)]):
                fail("operand-mutated", f"{name} mutated an operand", op=name)
            if np.shares_memory(r.points, p.points):
                fail("aliasing", f"{name}: result shares memory with an operand", op=name)
    # transforms
    p0 = a
    A0 = p0.area
    for tname, mk, factor in [
        ("rotate", lambda P, ip: P.rotate(float(rng.uniform(-180, 180)), origin=tuple(rng.uniform(-1, 1, 2)), inplace=ip), 1.0),
        ("translate", lambda P, ip: P.translate(dx=float(rng.uniform(-2, 2)), dy=float(rng.uniform(-2, 2)), inplace=ip), 1.0),
    ]:
        for ip in (False, True):
            src = p0.copy()
            before = src.points.copy()
            r = mk(src, ip)
            ctx.case((tname, ip, float(before[0, 0])), nontrivial=True)
            ctx.count(f"transform:{tname}")
            check_stored(ctx, r, tname, fail)
            if abs(r.area - A0) > 1e-9 * A0:
                fail(f"area:{tname}", f"{tname} changed the area from {A0} to {r.area}")
            if ip:
                if r is not src:
                    fail("inplace-returns-copy", f"{tname}(inplace=True) did not return the same object")
            else:
                if not np.array_equal(src.points, before):
                    fail("operand-mutated", f"{tname}(inplace=False) mutated the original")
                if np.shares_memory(r.points, src.points):
                    fail("aliasing", f"{tname}: result shares memory with the original")
    # scaling: every sign pattern of the two factors (no reflection, one axis, the other axis, both = a rotation by
    # 180 degrees), in place and not
    mags = (float(rng.choice([0.5, 1.0, 1.5, 3.0])), float(rng.choice([0.7, 1.0, 2.0])))
    for sx, sy, ip in itertools.product((1.0, -1.0), (1.0, -1.0), (False, True)):
        fx, fy = sx * mags[0], sy * mags[1]
        org = tuple(rng.uniform(-1, 1, 2))
        src = p0.copy()
        before = src.points.copy()
        r = src.scale(xfact=fx, yfact=fy, origin=org, inplace=ip)
        ctx.case(("scale", fx, fy, ip, float(before[0, 0])), nontrivial=True)
        ctx.count("transform:scale" + ("_reflect" if fx * fy < 0 else ("_both_negative" if fx < 0 else "")) + ("_inplace" if ip else ""))
        check_stored(ctx, r, f"scale({fx},{fy},inplace={ip})", fail)
        if abs(r.area - abs(fx * fy) * A0) > 1e-9 * A0 * abs(fx * fy):
            fail("area:scale", f"scale({fx},{fy}) gave area {r.area}, expected |fx fy| * {A0}")
        if ip and r is not src:
            fail("inplace-returns-copy", "scale(inplace=True) did not return the same object")
        if not ip and (not np.array_equal(src.points, before) or np.shares_memory(r.points, src.points)):
            fail("operand-mutated", "scale(inplace=False) mutated or aliases the original")
        # the polygon's own vertices are on its boundary, a point next to them is not
        vb = r.on_boundary(r.points, radius=1e-6)
        if not bool(np.all(vb)):
            fail("on-boundary", f"scale({fx},{fy},inplace={ip}): only {float(np.mean(vb)):.0%} of the polygon's own vertices are reported on its boundary")
    fx, fy = float(rng.choice([-2.0, -0.5, 0.5, 1.5, 3.0])), float(rng.choice([-1.5, 0.7, 2.0]))
    org = tuple(rng.uniform(-1, 1, 2))
    src = p0.copy()
    r = src.scale(xfact=fx, yfact=fy, origin=org)
    # points map consistently with the shape: the image of an interior point is interior
    q = far_from_boundaries([src], rng.uniform(-2, 2, size=(20, 2)))
    img = (q - np.array(org)) * np.array([fx, fy]) + np.array(org)
    imgk = far_from_boundaries([r], img, eps=1e-6)
    if len(imgk) == len(img) and not np.array_equal(src.contains_points(q), r.contains_points(img)):
        fail("points-map", "scale: images of interior/exterior points are not interior/exterior of the scaled shape")
    # copies and derived shapes do not alias
    cp = p0.copy()
    if np.shares_memory(cp.points, p0.points):
        fail("aliasing", "copy() shares memory with the original")
    cp.translate(dx=1.0, inplace=True)
    if not np.array_equal(p0.points, snap[id(a)]):
        fail("operand-mutated", "mutating a copy changed the original")
    rs = p0.resample(int(rng.integers(10, 60)))
    check_stored(ctx, rs, "resample", fail)
    # ---- Lean shoelace model on the same vertices -------------------------------------------------------
    if with_model:
        pts = a.points[:-1]
        th = float(rng.uniform(-3, 3))
        T = dict(a=np.cos(th), b=-np.sin(th), c=np.sin(th), d=np.cos(th), tx=0.3, ty=-0.2)
        S = dict(a=fx, b=0.0, c=0.0, d=fy, tx=org[0] - fx * org[0], ty=org[1] - fy * org[1])
        lines = [f"area2 | {zoo.fl(pts[:, 0])} | {zoo.fl(pts[:, 1])}"]
        for M in (T, S):
            lines.append(f"affine {V.bits(M['a'])} {V.bits(M['b'])} {V.bits(M['c'])} {V.bits(M['d'])} {V.bits(M['tx'])} {V.bits(M['ty'])} | {zoo.fl(pts[:, 0])} | {zoo.fl(pts[:, 1])}")
        o = [V.unbits(t) for t in V.driver(lines)]
        ctx.traces += 1
        ctx.corr(abs(o[0] / 2 - A0) <= 1e-9 * A0, "signedArea2 (Lean) vs Polygon.area of the stored (ccw) vertices", dict(model=o[0] / 2, impl=A0))
        ctx.corr(abs(o[1] / 2 - A0) <= 1e-9 * A0, "area of the rotated+translated vertex list (Lean) = area", dict(model=o[1] / 2, impl=A0))
        ctx.corr(abs(abs(o[2]) / 2 - r.area) <= 1e-9 * r.area and (o[2] < 0) == (fx * fy < 0), "area of the scaled vertex list (Lean) vs scaled Polygon (sign = orientation flip)", dict(model=o[2] / 2, impl=r.area, fx=fx, fy=fy))
    return first


def device_membership(ctx, rng):
    first = None
    for kind in ("bar_hole", "ring", "union"):
        dev = zoo.make_device(kind, rng, mesh=False)
        inside_holes = [np.asarray(h.polygon.representative_point().coords[0]) + d_ for h in dev.holes for d_ in (np.zeros(2), np.array([0.03, -0.02]), np.array([-0.04, 0.05]))]
        q = far_from_boundaries([dev.film] + list(dev.holes), np.concatenate([rng.uniform(-3.5, 3.5, size=(150, 2))] + ([np.array(inside_holes)] if inside_holes else [])))
        got = dev.contains_points(q)
        exp = dev.film.contains_points(q)
        for h in dev.holes:
            exp &= ~h.contains_points(q)
        ctx.case(("device-contains", kind), nontrivial=True)
        ctx.count("device_membership")
        if not np.array_equal(got, exp):
            rp = dict(device=kind)
            ctx.fail("device-contains", f"Device.contains_points differs from film-and-not-holes on {kind}", rp)
            first = first or dict(key="device-contains", what=kind, **rp)
        idx = dev.contains_points(q, index=True)
        if not np.array_equal(idx, np.flatnonzero(exp)):
            ctx.fail("device-contains-index", "index=True is inconsistent with the boolean mask", dict(device=kind))
        # device copies do not alias the polygons
        cp = dev.copy()
        if any(np.shares_memory(x.points, y.points) for x, y in zip(cp.polygons, dev.polygons)):
            ctx.fail("aliasing", "Device.copy() shares polygon vertex memory with the original", dict(device=kind))
        sc = dev.scale(xfact=-1.5, yfact=2.0)
        if abs(sc.film.area - 3.0 * dev.film.area) > 1e-9 * dev.film.area:
            ctx.fail("area:scale", "Device.scale does not multiply the film area by |fx fy|", dict(device=kind))
        # copies of a device share nothing with it: polygons, probe points, layer
        for wm_ in (True, False):
            cp_ = dev.copy(with_mesh=wm_)
            ctx.case(("device-copy", kind, wm_), nontrivial=True)
            shared_ = [p_.name for p_, q_ in zip(cp_.polygons, dev.polygons) if np.shares_memory(p_.points, q_.points)]
            if dev.probe_points is not None and cp_.probe_points is not None and np.shares_memory(cp_.probe_points, dev.probe_points):
                shared_.append("probe_points")
            if cp_.layer is dev.layer:
                shared_.append("layer")
            if dev.probe_points is not None and cp_.probe_points is not None:
                keep_ = dev.probe_points.copy()
                cp_.probe_points[0] = cp_.probe_points[0] + 0.125
                if not np.array_equal(dev.probe_points, keep_):
                    shared_.append("probe_points (an edit of the copy reached the original)")
                    dev.probe_points[:] = keep_
            if shared_:
                ctx.fail("aliasing:device-copy", f"Device.copy(with_mesh={wm_}) shares {shared_} with the original", dict(device=kind, shared=shared_))
        # device-level transforms: every polygon and the probe points move together, the original is untouched
        before = [p_.points.copy() for p_ in dev.polygons]
        pp0 = None if dev.probe_points is None else dev.probe_points.copy()
        z00 = float(dev.layer.z0)
        for tname, new_dev, fmap in (
            # boundary values: the identity and a pure shift in z (nothing moves in the plane) still give a NEW device
            ("translate_identity", dev.translate(), lambda q: q),
            ("translate_dz_only", dev.translate(0.0, 0.0, dz=0.75), lambda q: q),
            ("rotate_zero", dev.rotate(0.0), lambda q: q),
            ("scale_one", dev.scale(xfact=1.0, yfact=1.0), lambda q: q),
            ("scale", sc, lambda q: q * np.array([-1.5, 2.0])),
            ("scale_both_negative", dev.scale(xfact=-1.0, yfact=-1.0), lambda q: -q),
            ("scale_both_negative2", dev.scale(xfact=-2.0, yfact=-0.5), lambda q: q * np.array([-2.0, -0.5])),
            ("rotate", dev.rotate(90.0), lambda q: q @ np.array([[0.0, 1.0], [-1.0, 0.0]])),
            ("translate", dev.translate(dx=0.7, dy=-0.4), lambda q: q + np.array([0.7, -0.4])),
            # about an origin other than (0, 0): shapes and probe points must use the same origin
            ("rotate_about_origin", dev.rotate(30.0, origin=(0.8, -0.5)),
             lambda q: (q - np.array([0.8, -0.5])) @ np.array([[np.cos(np.pi / 6), np.sin(np.pi / 6)], [-np.sin(np.pi / 6), np.cos(np.pi / 6)]]) + np.array([0.8, -0.5])),
            ("scale_about_origin", dev.scale(xfact=1.5, yfact=-0.5, origin=(0.8, -0.5)), lambda q: (q - np.array([0.8, -0.5])) * np.array([1.5, -0.5]) + np.array([0.8, -0.5])),
        ):
            ctx.case(("device-transform", kind, tname), nontrivial=True)
            ctx.count(f"device_transform:{tname}")
            qq = far_from_boundaries([dev.film] + list(dev.holes), rng.uniform(-3.5, 3.5, size=(60, 2)))
            img = fmap(qq)
            ok_img = far_from_boundaries([new_dev.film] + list(new_dev.holes), img, eps=1e-6)
            if len(ok_img) == len(img) and not np.array_equal(dev.contains_points(qq), new_dev.contains_points(img)):
                ctx.fail(f"device-transform:{tname}", f"Device.{tname}: images of points inside/outside the device are not inside/outside the transformed device", dict(device=kind))
            if pp0 is not None and (new_dev.probe_points is None or not np.allclose(new_dev.probe_points, fmap(pp0), atol=1e-12)):
                ctx.fail(f"device-transform-probes:{tname}", f"Device.{tname}: probe points do not move with the shapes", dict(device=kind))
            if any(not np.array_equal(p_.points, b_) for p_, b_ in zip(dev.polygons, before)) or (pp0 is not None and not np.array_equal(dev.probe_points, pp0)):
                ctx.fail("operand-mutated", f"Device.{tname} mutated the original device", dict(device=kind))
            for p_ in new_dev.polygons:
                check_stored(ctx, p_, f"Device.{tname}:{p_.name}", lambda k, w, **kw: ctx.fail(k, w, dict(device=kind, transform=tname, **kw)))
            if any(np.shares_memory(x.points, y.points) for x, y in zip(new_dev.polygons, dev.polygons)):
                ctx.fail("aliasing", f"Device.{tname}: result shares polygon memory with the original", dict(device=kind))
            if new_dev is dev or new_dev.layer is dev.layer or (pp0 is not None and new_dev.probe_points is not None and np.shares_memory(new_dev.probe_points, dev.probe_points)):
                ctx.fail("aliasing:device-transform", f"Device.{tname} (not in place) returned the original device / its layer / its probe points", dict(device=kind, transform=tname))
            if float(dev.layer.z0) != z00:
                ctx.fail("operand-mutated", f"Device.{tname} (not in place) changed the original's layer.z0 from {z00} to {float(dev.layer.z0)}", dict(device=kind, transform=tname))
                dev.layer.z0 = z00
            if tname == "translate_dz_only" and abs(float(new_dev.layer.z0) - (z00 + 0.75)) > 1e-15:
                ctx.fail("device-transform:translate_dz", f"Device.translate(dz=0.75): the new device's layer.z0 is {float(new_dev.layer.z0)}, expected {z00 + 0.75}", dict(device=kind))
    return first


def far_and_dense(ctx):
    """densely sampled outlines far from the origin (vertex spacing ~1e-5 of the coordinates): every vertex is kept, areas and
    membership are those of the shape"""
    from tdgl.geometry import box, circle, ellipse

    first = None
    P = tdgl.Polygon
    shapes = [("circle r=1, 1500 pts", P("c", points=circle(1.0, points=1500)), np.pi, (300.0, 400.0)),
              ("ellipse 2x1, 1500 pts", P("e", points=ellipse(2.0, 1.0, points=1500)), 2 * np.pi, (-700.0, 150.0)),
              ("box 2x1, 4001 pts", P("b", points=box(2.0, 1.0, points=4001)), 2.0, (250.0, -250.0)),
              ("circle r=100 at (2e5, 1e5)", P("n", points=circle(100.0, points=2000, center=(2e5, 1e5))), np.pi * 1e4, (0.0, 0.0))]
    for label, poly, area, (dx, dy) in shapes:
        ctx.case(("far-dense", label), nontrivial=True)
        ctx.count("far_dense_shapes")
        try:
            moved = poly.translate(dx=dx, dy=dy)
            back = moved.translate(dx=-dx, dy=-dy)
            probs = []
            if len(moved.points) != len(poly.points):
                probs.append(f"translate({dx}, {dy}) changed the number of stored vertices {len(poly.points)} -> {len(moved.points)}")
            for nm_, q_ in (("original", poly), ("translated", moved), ("there-and-back", back)):
                if abs(q_.area - area) > 2e-5 * area:  # (the polygon inscribed in the curve: 1500 points give 3e-6)
                    probs.append(f"{nm_}: area {q_.area:.8g}, the shape has {area:.8g}")
            if abs(moved.area - poly.area) > 1e-9 * poly.area:
                probs.append(f"translation changed the area by {abs(moved.area - poly.area) / poly.area:.3e} (relative)")
            c0 = poly.points.mean(axis=0)
            q = c0 + np.sqrt(area) * ctx.rng.uniform(-0.9, 0.9, size=(400, 2))
            keep = far_from_boundaries([poly], q, eps=1e-3 * np.sqrt(area))
            if len(keep) and not np.array_equal(poly.contains_points(keep), moved.contains_points(keep + np.array([dx, dy]))):
                probs.append("membership of interior / exterior points changed under the translation")
            other = P("o", points=circle(0.6 * np.sqrt(area), points=800, center=tuple(c0 + np.array([dx, dy]) + 0.4 * np.sqrt(area))))
            for opn, fn, ref in (("union", lambda a, b: a.union(b), np.logical_or), ("intersection", lambda a, b: a.intersection(b), np.logical_and),
                                 ("difference", lambda a, b: a.difference(b), lambda u, v: u & ~v)):
                r_ = fn(moved, other)
                qq = far_from_boundaries([moved, other], keep + np.array([dx, dy]), eps=1e-3 * np.sqrt(area))
                if len(qq) and not np.array_equal(r_.contains_points(qq), ref(moved.contains_points(qq), other.contains_points(qq))):
                    probs.append(f"{opn} of the translated shape with another does not agree with point-wise membership")
        except Exception as e:  # noqa
            probs = [f"raised {type(e).__name__}: {str(e)[:100]}"]
        if probs:
            rp = dict(shape=label, problems=probs[:5])
            ctx.fail("far-dense-shape", f"{label}: {probs[0]}", rp)
            first = first or dict(key="far-dense-shape", what=probs[0], **rp)
    return first


def meshed_copies(ctx):
    """copies of a MESHED device: moving the copy in place (directly, or inside its `translation` context) leaves the original's
    mesh where the original's shapes are"""
    import copy as _copy

    first = None
    orig = zoo.make_device("bar_hole", ctx.rng, max_edge_length=1.0)
    for how in ("copy()", "copy(with_mesh=True)"):  # (the library's own copies; a shallow copy.copy shares the polygons by definition)
        cp = orig.copy() if how == "copy()" else orig.copy(with_mesh=True)
        before = dict(points=np.array(orig.points, copy=True), centers=np.array(orig.mesh.edge_mesh.centers, copy=True), film=np.array(orig.film.points, copy=True))
        probs = []
        for via in ("translate(inplace=True)", "translation context"):
            if via.startswith("translate"):
                cp.translate(dx=2.5, dy=-1.25, inplace=True)
                now = dict(points=np.array(orig.points), centers=np.array(orig.mesh.edge_mesh.centers), film=np.array(orig.film.points))
            else:
                with cp.translation(-1.5, 0.75):
                    now = dict(points=np.array(orig.points), centers=np.array(orig.mesh.edge_mesh.centers), film=np.array(orig.film.points))
            moved = [k_ for k_ in before if not np.array_equal(before[k_], now[k_])]
            ctx.case(("meshed-copy", how, via), nontrivial=True)
            ctx.count("meshed_copy_moves")
            if moved:
                probs.append(f"{via} on the copy changed the ORIGINAL's {moved} (by up to {max(float(np.abs(before[k_] - now[k_]).max()) for k_ in moved):.3g})")
        if probs:
            rp = dict(copied_with=how, problems=probs)
            ctx.fail("aliasing:meshed-copy", f"{how} of a meshed device: {probs[0]}", rp)
            first = first or dict(key="aliasing:meshed-copy", what=probs[0], **rp)
    # a copy / a non-in-place transform of a device is the same kind of object: stated in the same length unit, with the same
    # layer, and (for a copy and for the identity transforms) equal to the original -- here for a device stated in nm
    nm = zoo.make_device("bar_hole", ctx.rng, mesh=False, length_units="nm", scale=1000.0)
    made = {"copy()": nm.copy(), "translate(0, 0)": nm.translate(dx=0.0, dy=0.0), "rotate(0)": nm.rotate(0.0), "scale(1, 1)": nm.scale(xfact=1.0, yfact=1.0),
            "translate(3, -2)": nm.translate(dx=3000.0, dy=-2000.0), "rotate(30)": nm.rotate(30.0), "scale(-1, 2)": nm.scale(xfact=-1.0, yfact=2.0)}
    for how, d_ in made.items():
        ctx.case(("device-derived-object", how), nontrivial=True)
        ctx.count("derived_devices_compared_with_their_original")
        bad = None
        if d_.length_units != nm.length_units:
            bad = f"is stated in {d_.length_units!r}, the original in {nm.length_units!r}"
        elif d_.layer != nm.layer:
            bad = "has another layer"
        elif how in ("copy()", "translate(0, 0)", "rotate(0)", "scale(1, 1)") and not (d_ == nm):
            bad = "does not compare equal to the original"
        if bad:
            rp = dict(derived_by=how, problem=bad)
            ctx.fail("derived-device-differs", f"Device.{how} of a device stated in nm {bad}", rp)
            first = first or dict(key="derived-device-differs", what=bad, **rp)
    return first


def string_origins(ctx):
    """rotate / scale about the documented named origins: "center" = centre of the bounding box, "centroid" = centre of mass of
    the shape (NOT the mean of its vertices: outlines are sampled unevenly) -- points map with the shape"""
    from tdgl.geometry import box, circle

    first = None
    P = tdgl.Polygon
    lshape = np.array([(0, 0), (3, 0), (3, 1), (1, 1), (1, 2.5), (0, 2.5)], dtype=float)
    shapes = [("L-shape", P("l", points=lshape)), ("box with doubled corners", P("b", points=box(3.0, 1.2, center=(0.5, -0.3), points=37))),
              ("box + circle", P("u", points=box(2.0, 1.0, points=21)).union(circle(0.8, points=301, center=(1.2, 0.3))))]
    for label, poly in shapes:
        sp_ = poly.polygon
        origins = {"centroid": np.array(sp_.centroid.coords[0]), "center": np.array([(sp_.bounds[0] + sp_.bounds[2]) / 2, (sp_.bounds[1] + sp_.bounds[3]) / 2])}
        q = np.array(sp_.centroid.coords[0]) + ctx.rng.uniform(-2.5, 2.5, size=(300, 2))
        q = far_from_boundaries([poly], q, eps=2e-3)
        for oname, o_ in origins.items():
            th = np.deg2rad(63.0)
            Rm = np.array([[np.cos(th), np.sin(th)], [-np.sin(th), np.cos(th)]])
            for tname, new, fmap in (("rotate(63)", poly.rotate(63.0, origin=oname), lambda p_: (p_ - o_) @ Rm + o_),
                                     ("scale(-1.5, 0.5)", poly.scale(xfact=-1.5, yfact=0.5, origin=oname), lambda p_: (p_ - o_) * np.array([-1.5, 0.5]) + o_)):
                img = fmap(q)
                keep = np.array([new.polygon.exterior.distance(Point(p_)) > 2e-3 for p_ in img])
                ctx.case(("named-origin", label, oname, tname), nontrivial=True)
                ctx.count("named_origin_transforms")
                if keep.any() and not np.array_equal(poly.contains_points(q[keep]), new.contains_points(img[keep])):
                    bad = int((poly.contains_points(q[keep]) != new.contains_points(img[keep])).sum())
                    rp = dict(shape=label, origin=oname, transform=tname, mismatches=bad)
                    ctx.fail("named-origin", f"{label}: {tname} with origin={oname!r} does not map points with the shape ({bad} of {int(keep.sum())} probe points disagree with the {oname} of the shape as origin)", rp)
                    first = first or dict(key="named-origin", what=f"{label} {tname} {oname}", **rp)
    return first


def nonconvex_outlines(ctx):
    """stored orientation of NON-CONVEX outlines with long edges at their reflex corners and short ones at the convex corners
    (a plus / asterisk of thin boxes given by their four corners, a pentagram, an L given by six corners), as built, given
    clockwise, and after every transform and copy: closed, counter-clockwise, area preserved"""
    from tdgl.geometry import box

    first = None

    def fail(key, what, **extra):
        nonlocal first
        rp = dict(check="nonconvex_outlines", **extra)
        ctx.fail(key, what, rp)
        if first is None:
            first = dict(key=key, what=what, **rp)

    shapes = {}
    for arms in (2, 3):
        u = tdgl.Polygon("arm0", points=box(6.0, 0.4, points=4))
        for a in range(1, arms):
            u = u.union(tdgl.Polygon(f"arm{a}", points=box(6.0, 0.4, points=4, angle=180.0 * a / arms)))
        shapes[f"asterisk_{arms}_thin_boxes"] = u
    ang = np.pi / 2 + 2 * np.pi * np.arange(10) / 10
    rad = np.where(np.arange(10) % 2 == 0, 3.0, 0.6)
    star = np.stack([rad * np.cos(ang), rad * np.sin(ang)], axis=1)
    shapes["pentagram"] = tdgl.Polygon("star", points=star)
    shapes["pentagram_given_clockwise"] = tdgl.Polygon("star_cw", points=star[::-1])
    plus12 = np.array([(1, -1), (6, -1), (6, 1), (1, 1), (1, 6), (-1, 6), (-1, 1), (-6, 1), (-6, -1), (-1, -1), (-1, -6), (1, -6)], dtype=float)
    shapes["plus_sign_12_corners"] = tdgl.Polygon("plus", points=plus12)          # the witness of Lean C18_sum_of_turns_counterexample
    shapes["plus_sign_given_clockwise"] = tdgl.Polygon("plus_cw", points=plus12[::-1])
    for name, p_ in shapes.items():
        a0 = abs(signed_area(p_.points))
        variants = {"as built": p_, "copy": p_.copy(), "rotated 37": p_.rotate(37.0), "translated": p_.translate(dx=2.0, dy=-1.0),
                    "scaled (-1, 2)": p_.scale(xfact=-1.0, yfact=2.0), "resampled": p_.resample(60)}
        for vname, q_ in variants.items():
            ctx.case(("nonconvex", name, vname), nontrivial=True)
            ctx.count("nonconvex_outlines_checked")
            check_stored(ctx, q_, f"{name}, {vname}", fail)
            fac = 2.0 if vname.startswith("scaled") else 1.0
            if vname != "resampled" and abs(abs(signed_area(q_.points)) - fac * a0) > 1e-9 * a0:
                fail("area-changed", f"{name}, {vname}: area {abs(signed_area(q_.points)):.6g}, expected {fac * a0:.6g}")
    return first


def run(ctx):
    n = 12 if ctx.quick else 150
    nonconvex_outlines(ctx)
    for _ in range(n):
        eval_pair(ctx, ctx.rng)
    device_membership(ctx, ctx.rng)
    far_and_dense(ctx)
    string_origins(ctx)
    meshed_copies(ctx)
    if len(ctx.samples) < 2:
        ctx.samples.append(dict(operations=sorted(k for k in ctx.dist if k.startswith("op:") or k.startswith("transform:"))))


def search(ctx):
    rng = np.random.default_rng(ctx.seed + 1234567)
    for _ in range(40):
        f = eval_pair(ctx, rng, with_model=False)
        if f:
            return f
    return device_membership(ctx, rng) or far_and_dense(ctx) or string_origins(ctx) or meshed_copies(ctx)


def replay(payload):
    ctx = V.Ctx("C18", "quick", int(payload.get("seed", 0)))
    try:
        run(ctx)
        return not any(f["key"] == payload.get("key") for f in ctx.oracle_fails)
    finally:
        ctx.cleanup()
