"""C10 — refreshing link variables in place equals rebuilding the operators.

Implementation: `MeshOperators` driven through sequences of vector potentials (length 1..6, repeats, zeros)
for fixed = none / terminals / terminals with pinning disabled.
Oracle: after the sequence the matrices equal those of a fresh instance built for the last potential.
Correspondence: the Lean model's `clapEntry` / `refreshLap` fold (Float) equals `.toarray()`.
"""
from __future__ import annotations

import numpy as np

import vcommon as V
import zoo

LEVEL = "proof"
RULE = (
    "small meshes (devices with terminals, ring, random Delaunay, structured) x pinned-site sets {none, terminals, "
    "terminals with fix_psi=False} x sequences of 1..6 vector potentials (random, zeros, repeats); a case = one "
    "(mesh, pinning, sequence); non-trivial = sequence length >= 2 with two different potentials"
)
EXPLANATION = (
    "Lean theorems C10_* (refresh = rebuild entrywise, for any history, gradient and Laplacian, any pinned set; entries "
    "are the matrix of clapRow) over any field; the implementation's refreshed matrices are compared with a fresh "
    "build and with the model's refreshed entries."
)
ASSUMPTIONS = ["refresh-vs-rebuild compared to 4 ulp per entry (observed: bit-identical); model-vs-impl to 64 eps * |entry terms|"]
EPS = np.finfo(float).eps


def small_meshes(rng, quick):
    out = []
    for kind in (["bar", "cross4", "ring"] if quick else ["bar", "bar_hole", "bar3", "cross4", "ring", "union"]):
        dev = zoo.make_device(kind, rng, max_edge_length=1.4, smooth=int(rng.choice([0, 2])))
        ti = dev.terminal_info()
        fixed = np.concatenate([t.site_indices for t in ti]).astype(np.int64) if ti else np.array([], dtype=np.int64)
        out.append((kind, dev.mesh, fixed))
    out.append(("random_delaunay", zoo.random_delaunay_mesh(rng, 25), np.array([0, 3, 7], dtype=np.int64)))
    out.append(("structured", zoo.structured_mesh(5, 4, jitter=0.15, rng=rng), np.array([0, 1, 2, 3, 4], dtype=np.int64)))
    return out


def gen_sequence(rng, E, length):
    seq = []
    for k in range(length):
        r = rng.random()
        if r < 0.15:
            seq.append(np.zeros((E, 2)))
        elif r < 0.3 and seq:
            seq.append(seq[int(rng.integers(len(seq)))].copy())
        else:
            seq.append(rng.normal(size=(E, 2)) * rng.choice([0.1, 1.0, 5.0]))
    return seq


def run_impl(mesh, fixed, fix_psi, seq, one_buffer=False):
    """one_buffer: the caller keeps ONE array and overwrites it in place before every call (the sequence of VALUES
    is the same; only the identity of the array object differs from passing fresh arrays)"""
    from tdgl.finite_volume.operators import MeshOperators
    from tdgl.solver.options import SparseSolver

    mo = MeshOperators(mesh, SparseSolver.SUPERLU, fixed_sites=fixed, fix_psi=fix_psi)
    mo.build_operators()
    buf = np.empty_like(seq[0])
    for A in seq:
        if one_buffer:
            buf[:] = A
            mo.set_link_exponents(buf)
        else:
            mo.set_link_exponents(A)
    return mo


def eval_case(ctx, name, mesh, fixed, fix_psi, seq, with_model=True):
    n, E = len(mesh.sites), len(mesh.edge_mesh.edges)
    mo = run_impl(mesh, fixed, fix_psi, seq)
    fresh = run_impl(mesh, fixed, fix_psi, seq[-1:])
    # the same history handed over through one reused buffer gives the same operators
    mo_b = run_impl(mesh, fixed, fix_psi, seq, one_buffer=True)
    db = max(float(np.abs((mo_b.psi_laplacian - fresh.psi_laplacian)).max()), float(np.abs((mo_b.psi_gradient - fresh.psi_gradient)).max()))
    if db != 0.0:
        rp_b = dict(mesh=name, fix_psi=bool(fix_psi), pinned=int(len(fixed)), length=len(seq), difference=db)
        ctx.fail("refresh!=rebuild:reused-buffer", f"after a history of {len(seq)} potentials passed through one array overwritten in place, the operators differ from a fresh build by {db:.3e}", rp_b)
    L1, L0 = mo.psi_laplacian.toarray(), fresh.psi_laplacian.toarray()
    G1, G0 = mo.psi_gradient.toarray(), fresh.psi_gradient.toarray()
    fail = None
    for nm, a, b in (("laplacian", L1, L0), ("gradient", G1, G0)):
        d = np.abs(a - b)
        tol = 4 * EPS * np.maximum(np.abs(a), np.abs(b))
        ctx.tol(f"refresh_vs_rebuild_{nm}(ulp-ish)", float((d / (EPS * np.maximum(np.abs(b), 1e-300))).max()) if d.size else 0.0, 4.0)
        if (d > tol).any():
            i, j = np.unravel_index(np.argmax(d - tol), d.shape)
            what = f"{nm} after in-place refresh differs from a fresh build at entry ({int(i)},{int(j)})"
            rp = dict(mesh=name, fix_psi=fix_psi, fixed=[int(t) for t in fixed], seq_len=len(seq), seed=ctx.seed,
                      entry=[int(i), int(j)], refreshed=complex(a[i, j]), rebuilt=complex(b[i, j]))
            ctx.fail(f"refresh!=rebuild:{nm}", what, rp)
            fail = fail or dict(key=f"refresh!=rebuild:{nm}", what=what, **rp)
    # pinned rows must be identity rows in the matrix in use
    if fix_psi and len(fixed):
        rows = L1[fixed]
        ident = np.zeros_like(rows)
        ident[np.arange(len(fixed)), fixed] = 1.0
        if not np.array_equal(rows, ident):
            what = "a pinned row of the refreshed Laplacian is not the identity row"
            rp = dict(mesh=name, fixed=[int(t) for t in fixed], seq_len=len(seq), seed=ctx.seed)
            ctx.fail("pinned-row-not-identity", what, rp)
            fail = fail or dict(key="pinned-row-not-identity", what=what, **rp)
    distinct = len({a.tobytes() for a in seq}) >= 2
    ctx.case((name, fix_psi, len(seq), float(seq[-1].ravel()[0])), nontrivial=distinct)
    ctx.count(f"len={len(seq)}")
    ctx.count("pinned" if (fix_psi and len(fixed)) else ("pinning_disabled" if len(fixed) else "no_fixed"))
    if with_model and n * n <= 6000:
        mask = np.zeros(n, dtype=int)
        if fix_psi:
            mask[fixed] = 1
        fx = " ".join(str(int(t)) for t in mask)
        ths = [zoo.fl(np.einsum("ij, ij -> i", A, mesh.edge_mesh.directions)) for A in seq]
        lines = [zoo.mesh_line(mesh), f"laprefresh | {fx} | " + " | ".join(ths), "gradrefresh | " + " | ".join(ths),
                 f"lapentries | {fx} | {ths[-1]}"]
        out = V.driver(lines)
        ctx.traces += 1
        Lm = zoo.parse_c(out[1]).reshape(n, n)
        Gm = zoo.parse_c(out[2]).reshape(E, n)
        Lb = zoo.parse_c(out[3]).reshape(n, n)
        # scale of an entry: diagonal is a sum of deg terms
        scaleL = np.abs(L1) + np.abs(Lb) + 1e-300
        dL = np.abs(Lm - L1)
        ctx.tol("model_refresh_vs_impl_lap(units of 64eps|entry|)", float((dL / (64 * EPS * scaleL)).max()), 1.0)
        ctx.corr(bool((dL <= 64 * EPS * scaleL).all()), "refreshLap fold (Float) vs psi_laplacian.toarray()", dict(mesh=name, fix_psi=fix_psi, seq_len=len(seq)))
        dG = np.abs(Gm - G1)
        scaleG = np.abs(G1) + np.abs(Gm) + 1e-300
        ctx.corr(bool((dG <= 64 * EPS * scaleG).all()), "refreshGrad fold (Float) vs psi_gradient.toarray()", dict(mesh=name, seq_len=len(seq)))
        # structural agreement: same zero pattern (values, not storage)
        ctx.corr(bool(((Lm != 0) == (L1 != 0)).all()), "non-zero pattern of the refreshed Laplacian", dict(mesh=name, fix_psi=fix_psi))
        if len(ctx.samples) < 4:
            ctx.samples.append(dict(mesh=name, sites=n, edges=E, fixed=[int(t) for t in fixed][:8], fix_psi=fix_psi, sequence_length=len(seq),
                                    first_A=seq[0][:2].tolist()))
    return fail


def cases(ctx, rng, quick):
    for name, mesh, fixed in small_meshes(rng, quick):
        E = len(mesh.edge_mesh.edges)
        for fx, fix_psi in ((np.array([], dtype=np.int64), True), (fixed, True), (fixed, False)):
            for length in range(1, 7):
                reps = 1 if quick else 4
                for _ in range(reps):
                    yield name, mesh, fx, fix_psi, gen_sequence(rng, E, length)


def ramped_field(x, y, z, *, t, B=0.3, rate=3.0):
    s = min(1.0, 0.1 + rate * t)
    return np.stack([-s * B * y / 2, s * B * x / 2, np.zeros_like(x)], axis=1)


def c04_offset(x, y, z, *, cx=0.0, cy=0.0):
    """a constant vector (a pure gauge) added to the applied potential"""
    return np.stack([cx + 0 * x, cy + 0 * x, np.zeros_like(x)], axis=1)


def slowly_ramped_field(x, y, z, *, t, B=0.5, rate=0.05):
    """changes by a few parts per million per step: less than any "has it changed?" tolerance, yet it adds up"""
    s = 1.0 + rate * t
    return np.stack([-s * B * y / 2, s * B * x / 2, np.zeros_like(x)], axis=1)


def stepped_field(x, y, z, *, t, B=0.4):
    """jumps once (at t = 0.02) and stays: operators that miss that refresh stay stale for the rest of the run"""
    s = 0.2 if t < 0.02 else 1.0
    return np.stack([-s * B * y / 2, s * B * x / 2, np.zeros_like(x)], axis=1)


def c10_eps(r, *, t):
    return 0.9 + 0.1 * np.cos(3.0 * t + r[0])


def o_solve_plain(dev, opts, A, cur):
    import tdgl

    return tdgl.solve(dev, opts, applied_vector_potential=A, terminal_currents=cur)


def solver_level(ctx, stop_first=False):
    """"no step ever runs with stale or partially updated operators": inside real runs, at every evaluation of the
    psi update, the covariant operators in use equal operators built from scratch for the latest vector potential
    (the applied one just evaluated at the current time + the induced one of the latest screening iteration)"""
    import tdgl
    import runs
    import zoo
    from tdgl.finite_volume.operators import MeshOperators
    from tdgl.solver.solver import TDGLSolver

    first = None
    cfgs = [
        dict(name="td+screening", dev="ring", td=True, o=dict(include_screening=True, screening_tolerance=1e-3), lam=1.0),
        dict(name="td+screening+unpinned-terminals", dev="bar", td=True, cur={"source": 2.0, "drain": -2.0}, o=dict(include_screening=True, screening_tolerance=1e-3, terminal_psi=None), lam=1.0),
        dict(name="td", dev="bar", td=True, cur={"source": 2.0, "drain": -2.0}, o=dict()),
        # a thermalisation stage first: the clock restarts at 0, so the field jumps back to its t = 0 value
        dict(name="td+thermalisation", dev="bar", td=True, cur={"source": 2.0, "drain": -2.0}, o=dict(skip_time=0.05, solve_time=0.04)),
        # Ctrl-C in the middle of an update (inside the evaluation of a time-dependent epsilon, after the new potential
        # has been evaluated), the user answers "continue": the same step is run again, and everything after it
        dict(name="td-step+interrupted-and-resumed", dev="bar", td="stepped", eps=True, interrupt_at=6, cur={"source": 2.0, "drain": -2.0}, o=dict(pause_on_interrupt=True, solve_time=0.06)),
        dict(name="td+interrupted-and-resumed", dev="bar", td=True, eps=True, interrupt_at=4, cur={"source": 2.0, "drain": -2.0}, o=dict(pause_on_interrupt=True, solve_time=0.05)),
        # a screened run that does not start from zero induced potential: continued from a seed, and the SECOND solve() of one
        # solver object (the operators a run starts with are those of ITS initial potentials)
        dict(name="screening+seeded", dev="ring", td=False, seeded=True, o=dict(include_screening=True, screening_tolerance=1e-3, solve_time=0.03), lam=0.6),
        # a run WITHOUT screening continued from a solution that was computed WITH screening (and one with a ramped field): its
        # operators are those of the applied potential alone -- the seed's induced potential is no part of this run
        dict(name="static+seeded-from-a-screened-solution", dev="ring", td=False, seeded="screened", o=dict(solve_time=0.03), lam=0.6),
        dict(name="td+seeded-from-a-screened-solution", dev="ring", td=True, seeded="screened", o=dict(solve_time=0.03), lam=0.6),
        dict(name="screening+second-solve", dev="ring", td=False, twice=True, o=dict(include_screening=True, screening_tolerance=1e-3, solve_time=0.03), lam=0.6),
        # a sweep whose solvers are all CONSTRUCTED first and solved afterwards: each runs with operators of its own potential
        dict(name="static+another-solver-constructed-meanwhile", dev="bar", td=False, sweep=True, cur={"source": 2.0, "drain": -2.0}, o=dict(solve_time=0.03)),
        dict(name="td-slow-ramp-small-steps", dev="bar", td="slow", cur={"source": 2.0, "drain": -2.0}, o=dict(dt_init=1e-4, solve_time=4e-3)),
        dict(name="td-slow-ramp+gauge-offset", dev="bar", td="slow", offset=(30.0, -20.0), cur={"source": 2.0, "drain": -2.0}, o=dict(dt_init=1e-3, solve_time=2e-2)),
    ]
    if not ctx.quick:
        cfgs += [
            dict(name="static+screening+terminals", dev="bar3", td=False, cur={"source": 3.0, "drain": -1.0, "top": -2.0}, o=dict(include_screening=True, screening_tolerance=1e-3), lam=1.0),
            dict(name="td+screening+terminals", dev="bar_hole", td=True, cur={"source": 2.0, "drain": -2.0}, o=dict(include_screening=True, screening_tolerance=1e-3), lam=1.0),
        ]
    for cfg in cfgs:
        dev = zoo.make_device(cfg["dev"], ctx.rng, max_edge_length=1.2, lam=cfg.get("lam", 2.0))
        if cfg["td"] == "slow":
            A = tdgl.Parameter(slowly_ramped_field, time_dependent=True)
            if cfg.get("offset"):
                A = A + tdgl.Parameter(c04_offset, cx=cfg["offset"][0], cy=cfg["offset"][1])
        elif cfg["td"] == "stepped":
            A = tdgl.Parameter(stepped_field, time_dependent=True)
        else:
            A = tdgl.Parameter(ramped_field, time_dependent=True) if cfg["td"] else 0.5
        opts = runs.options(**dict(dict(solve_time=0.08, dt_init=5e-3, adaptive=False, save_every=100), **cfg["o"]))
        log = dict(applied=None, induced=None, checked=0, worst=0.0, bad=None)
        o_step, o_upd, o_ind, o_app = TDGLSolver.adaptive_euler_step, TDGLSolver.update, TDGLSolver.get_induced_vector_potential, TDGLSolver.update_applied_vector_potential

        def upd(self, state, rs, dt, **kw):
            log["induced"] = np.array(kw["induced_vector_potential"], dtype=float)
            if not self.dynamic_vector_potential:
                log["applied"] = np.array(self.current_A_applied, dtype=float)
            return o_upd(self, state, rs, dt, **kw)

        def app(self, time):
            r = o_app(self, time)
            log["applied"] = np.array(r, dtype=float)
            return r

        def ind(self, *a, **kw):
            r = o_ind(self, *a, **kw)
            log["induced"] = np.array(r[0], dtype=float)
            return r

        def stp(self, *a, **kw):
            latest = log["applied"] + (log["induced"] if self.options.include_screening else 0.0)
            fresh = MeshOperators(self.device.mesh, self.options.sparse_solver, fixed_sites=self.operators.fixed_sites, fix_psi=self.operators.fix_psi)
            fresh.build_operators()
            fresh.set_link_exponents(latest)
            d = max(float(np.abs((self.operators.psi_laplacian - fresh.psi_laplacian)).max()), float(np.abs((self.operators.psi_gradient - fresh.psi_gradient)).max()))
            log["checked"] += 1
            log["worst"] = max(log["worst"], d)
            if d > 1e-12 and log["bad"] is None:
                log["bad"] = dict(psi_step=log["checked"], difference=d)
            return o_step(self, *a, **kw)

        import builtins

        o_eps, o_input = TDGLSolver.update_epsilon, builtins.input
        ecalls = dict(n=0, fired=False)

        def eps_hook(self, time):
            ecalls["n"] += 1
            if cfg.get("interrupt_at") and ecalls["n"] == cfg["interrupt_at"] and not ecalls["fired"]:
                ecalls["fired"] = True
                raise KeyboardInterrupt()
            return o_eps(self, time)

        seed_ = None  # (computed before the hooks go in)
        if cfg.get("seeded") == "screened":
            seed_ = o_solve_plain(dev, runs.options(**dict(dict(solve_time=0.03, dt_init=5e-3, adaptive=False, save_every=100, include_screening=True, screening_tolerance=1e-3))), 0.5, cfg.get("cur"))
            ctx.count("unscreened_runs_continued_from_a_screened_seed", int(np.any(np.asarray(seed_.tdgl_data.induced_vector_potential) != 0)))
        elif cfg.get("seeded"):
            seed_ = o_solve_plain(dev, opts, A, cfg.get("cur"))
        TDGLSolver.update, TDGLSolver.update_applied_vector_potential, TDGLSolver.get_induced_vector_potential, TDGLSolver.adaptive_euler_step = upd, app, ind, stp
        TDGLSolver.update_epsilon = eps_hook
        builtins.input = lambda *a, **k: "y"
        try:
            if cfg.get("sweep"):
                TDGLSolver.update, TDGLSolver.update_applied_vector_potential, TDGLSolver.get_induced_vector_potential, TDGLSolver.adaptive_euler_step = o_upd, o_app, o_ind, o_step
                sv_a = TDGLSolver(device=dev, options=opts, applied_vector_potential=A, terminal_currents=cfg.get("cur"))
                sv_b = TDGLSolver(device=dev, options=opts, applied_vector_potential=-1.7 * 0.5, terminal_currents=cfg.get("cur"))  # the next point of the sweep
                TDGLSolver.update, TDGLSolver.update_applied_vector_potential, TDGLSolver.get_induced_vector_potential, TDGLSolver.adaptive_euler_step = upd, app, ind, stp
                log["applied"] = np.array(sv_a.current_A_applied, dtype=float)
                sv_a.solve()
                del sv_b
            elif cfg.get("twice"):
                sv_ = TDGLSolver(device=dev, options=opts, applied_vector_potential=A, terminal_currents=cfg.get("cur"))
                TDGLSolver.update, TDGLSolver.update_applied_vector_potential, TDGLSolver.get_induced_vector_potential, TDGLSolver.adaptive_euler_step = o_upd, o_app, o_ind, o_step
                sv_.solve()  # the first run, unobserved
                TDGLSolver.update, TDGLSolver.update_applied_vector_potential, TDGLSolver.get_induced_vector_potential, TDGLSolver.adaptive_euler_step = upd, app, ind, stp
                log["applied"] = np.array(sv_.current_A_applied, dtype=float)
                sv_.solve()
            else:
                tdgl.solve(dev, opts, applied_vector_potential=A, terminal_currents=cfg.get("cur"), seed_solution=seed_, **(dict(disorder_epsilon=c10_eps) if cfg.get("eps") else {}))
        finally:
            TDGLSolver.update, TDGLSolver.update_applied_vector_potential, TDGLSolver.get_induced_vector_potential, TDGLSolver.adaptive_euler_step = o_upd, o_app, o_ind, o_step
            TDGLSolver.update_epsilon, builtins.input = o_eps, o_input
        if cfg.get("interrupt_at"):
            ctx.count("runs_interrupted_mid_update_and_resumed" if ecalls["fired"] else "interrupt_injection_not_reached")
        ctx.case(("in-solver", cfg["name"]), nontrivial=log["checked"] > 3)
        ctx.count("psi_steps_checked_in_real_runs", log["checked"])
        ctx.tol("operators in use vs rebuilt for the latest vector potential (real runs)", log["worst"], 1e-12)
        if log["bad"] is not None:
            rp = dict(config=cfg["name"], **log["bad"])
            ctx.fail("stale-operators-in-run", f"{cfg['name']}: psi evaluation #{log['bad']['psi_step']} ran with covariant operators that differ from operators rebuilt for the latest vector potential by {log['bad']['difference']:.3e}", rp)
            first = first or dict(key="stale-operators-in-run", what="stale operators inside a run", **rp)
            if stop_first:
                return first
    return first


def run(ctx):
    for name, mesh, fx, fix_psi, seq in cases(ctx, ctx.rng, ctx.quick):
        eval_case(ctx, name, mesh, fx, fix_psi, seq)
    solver_level(ctx)


def search(ctx):
    rng = np.random.default_rng(ctx.seed + 15485863)
    for name, mesh, fx, fix_psi, seq in cases(ctx, rng, ctx.quick):
        f = eval_case(ctx, name, mesh, fx, fix_psi, seq, with_model=False)
        if f is not None:
            return f
    return solver_level(ctx, stop_first=True)


def replay(payload):
    ctx = V.Ctx("C10", "quick", int(payload.get("seed", 0)))
    try:
        if str(payload.get("key", "")).startswith("stale-operators-in-run"):
            solver_level(ctx)
            return not any(f["key"] == "stale-operators-in-run" and f["replay"].get("config") == payload.get("config") for f in ctx.oracle_fails)
        for name, mesh, fx, fix_psi, seq in cases(ctx, ctx.rng, True):
            eval_case(ctx, name, mesh, fx, fix_psi, seq, with_model=False)
        return not ctx.oracle_fails
    finally:
        ctx.cleanup()
