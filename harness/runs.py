"""Helpers for checks that run the real solver: reference trajectories obtained by driving
`TDGLSolver.update` directly (the physics, without Runner/DataHandler), and an HDF5 trace parser."""
from __future__ import annotations

import hashlib
import os

import h5py
import numpy as np

import zoo
import tdgl
from tdgl.solver.runner import RunningState
from tdgl.solver.solver import TDGLSolver

FIELDS = ["psi", "mu", "supercurrent", "normal_current", "induced_vector_potential"]


def options(**kw):
    base = dict(solve_time=1.0, dt_init=1e-3, dt_max=0.05, adaptive=False, save_every=100, progress_interval=10**9,
                pause_on_interrupt=False, field_units="mT", current_units="uA", output_file=None)
    base.update(kw)
    return tdgl.SolverOptions(**base)


def sha(a) -> str:
    a = np.ascontiguousarray(np.asarray(a))
    return hashlib.sha256(a.tobytes() + str(a.dtype).encode() + str(a.shape).encode()).hexdigest()[:16]


class Reference:
    """trajectory obtained by calling solver.update in a bare loop:
    states[s] = values after exactly s updates, dts[s] = time step used by update number s,
    times[s] = dts[0] + ... + dts[s-1] accumulated left to right (as the loop clock does)."""

    def __init__(self, device, opts, n_steps, thermal_steps_rule=None, **solve_kw):
        self.solver = TDGLSolver(device=device, options=opts, **solve_kw)
        s = self.solver
        names = ["psi", "mu", "supercurrent", "normal_current", "induced_vector_potential"]
        E = s.num_edges
        values = [s.psi_init, s.mu_init, np.zeros(E), np.zeros(E), np.zeros((E, 2))]
        if s.dynamic_vector_potential:
            names.append("applied_vector_potential")
            values.append(s.current_A_applied)
        if s.dynamic_epsilon:
            names.append("epsilon")
            values.append(s.epsilon)
        self.names = names
        sizes = {"dt": 1}
        if s.probe_points is not None:
            sizes["mu"] = len(s.probe_points)
            sizes["theta"] = len(s.probe_points)
        if opts.include_screening:
            sizes["screening_iterations"] = 1
        self.sizes = sizes
        self.rs = RunningState(sizes, 1)
        self.dt_prev = opts.dt_init
        self.thermal_updates = 0
        # thermalisation: run until the clock reaches skip_time (first i with t_i >= skip_time)
        if opts.skip_time:
            t = 0
            i = 0
            while not (t >= opts.skip_time):
                values = self._one(i, t, values)
                t += self.dt_prev
                i += 1
            self.thermal_updates = i
            self.rs.clear()
        self.applied_dts = []
        self.states = [dict(zip(names, values))]
        self.records = []
        self.dts = []
        self.times = [0]
        t = 0
        for i in range(n_steps):
            values = self._one(i, t, values)
            rec = {k: np.array(v[:, 0]).copy() for k, v in self.rs.values.items()}
            self.records.append(rec)
            self.dts.append(self.dt_prev)
            t += self.dt_prev
            self.times.append(t)
            self.states.append(dict(zip(names, values)))

    def _one(self, i, t, values):
        state = {"step": i, "time": t, "dt": self.dt_prev}
        # log the time step of every ANSWERED evaluation of the site update: the last one is the step that was
        # actually applied to psi by this update (composes with any wrapper already installed on the class)
        cls = type(self.solver)
        cur = cls.__dict__["solve_for_psi_squared"]
        inner = cur.__func__
        answered = []

        def logged(**kw):
            r = inner(**kw)
            if r is not None:
                answered.append(float(kw["dt"]))
            return r

        cls.solve_for_psi_squared = staticmethod(logged)
        try:
            res = self.solver.update(state, self.rs, self.dt_prev, **dict(zip(self.names, values)))
        finally:
            cls.solve_for_psi_squared = cur
        if hasattr(self, "states"):
            self.applied_dts.append(answered[-1] if answered else None)
        new_dt, *values = res
        self.dt_prev = new_dt
        return values

    def recorded_vs_applied(self):
        """first recorded step whose per-step dt record differs from the dt of the evaluation that produced the state"""
        for i, (rec, ap) in enumerate(zip(self.records, self.applied_dts)):
            if ap is not None and float(rec["dt"][0]) != ap:
                return dict(step=i, recorded=float(rec["dt"][0]), applied=ap)
        return None

    def first_step_reaching(self, T):
        for i, t in enumerate(self.times):
            if t >= T:
                return i
        return None


def parse_h5(path):
    """canonical trace of an output file: frames (in file order) with step/time/dt attrs and dataset hashes,
    and the per-step columns of each frame's running_state (raw, as written)."""
    frames = []
    with h5py.File(path, "r") as f:
        keys = sorted((int(k) for k in f["data"]), key=int)
        for k in keys:
            g = f["data"][str(k)]
            fr = dict(index=k, step=int(g.attrs["step"]), time=g.attrs["time"], dt=g.attrs["dt"], data={}, running=None)
            for name in g:
                if name == "running_state":
                    fr["running"] = {n: np.array(g["running_state"][n]) for n in g["running_state"]}
                else:
                    fr["data"][name] = np.array(g[name])
            frames.append(fr)
        top = sorted(f.keys())
    return frames, top


def run_solve(device, opts, **solve_kw):
    return tdgl.solve(device, opts, **solve_kw)
