"""C11 — the trajectory depends only on the physics and can be resumed.

Pairs of real runs that differ in exactly one recording option (save interval, output file vs temp dir, probes
present/absent, progress interval) are compared frame by frame, bit for bit; a fixed-step run is split at every
point and resumed through `seed_solution`.
"""
from __future__ import annotations

import os

import numpy as np

import c05
import runs
import vcommon as V
import zoo
import tdgl

LEVEL = "proof"
RULE = (
    "for each physics configuration: a base run (k=1 where every step is a frame) against runs with k in 2..N+1, an "
    "explicit output file vs the temp dir, probes removed, progress reporting on; and all splits N1+N2=N of a "
    "fixed-step run resumed via seed_solution; a case = one compared pair; non-trivial = the pair shares >= 2 labels"
)
EXPLANATION = (
    "Lean theorems C11_* (frames lie on the one trajectory traj upd s0 whatever k; records/probes do not feed back; "
    "resumption = iterate_add) about the loop model; the implementation is compared pairwise, bit for bit."
)
ASSUMPTIONS = ["bitwise comparison of every dataset of frames that carry the same step label"]


def run_once(ctx, dev, kw, tag, **o):
    out = o.pop("output", True)
    path = os.path.join(str(ctx.work), f"{tag}.h5") if out else None
    opts = runs.options(output_file=path, progress_interval=o.pop("progress_interval", 10**9), **o)
    sol = tdgl.solve(dev, opts, **kw)
    if not os.path.exists(sol.path):
        # output_file=None: the temp dir is gone; what survives is the final frame held by the Solution
        d = sol.tdgl_data
        data = {nm: np.asarray(getattr(d, nm)) for nm in runs.FIELDS}
        step = int(d.state["step"])
        return sol, {step: dict(step=step, time=d.state["time"], data=data)}
    frames, _ = runs.parse_h5(sol.path)
    return sol, {fr["step"]: fr for fr in frames}


def cmp_frames(ctx, what, A, B, shift=0, skip_fields=()):
    """frames of B with label s must equal frames of A with label s+shift"""
    bad = []
    shared = 0
    for s, fb in B.items():
        fa = A.get(s + shift)
        if fa is None:
            continue
        shared += 1
        for nm, arr in fb["data"].items():
            if nm in skip_fields:
                continue
            if nm not in fa["data"] or not np.array_equal(fa["data"][nm], arr):
                bad.append((s, nm))
        if shift == 0 and fa["time"] != fb["time"]:
            bad.append((s, "time"))
    return shared, bad


def c11_ramp(x, y, z, *, t, B=0.8, rate=4.0):
    s_ = min(1.0, 0.05 + rate * t)
    return np.stack([-s_ * B * y / 2, s_ * B * x / 2, np.zeros_like(x)], axis=1)


def physics(quick):
    c = [
        dict(name="fixed", dev="bar", opts=dict(dt_init=1e-2, adaptive=False), kw=dict(applied_vector_potential=0.4, terminal_currents={"source": 3.0, "drain": -3.0})),
        dict(name="adaptive", dev="bar_hole", opts=dict(dt_init=1e-3, dt_max=4e-2, adaptive=True, adaptive_window=2), kw=dict(applied_vector_potential=0.7, terminal_currents={"source": 5.0, "drain": -5.0})),
    ]
    # a time-dependent field with an adaptive (varying) step: the previous step's dt enters dA/dt, so nothing
    # that reports progress may touch it
    c.append(dict(name="adaptive_ramped_field", dev="bar", N=9, opts=dict(dt_init=1e-4, dt_max=1.0, adaptive=True, adaptive_window=2),
                  kw=dict(applied_vector_potential=tdgl.Parameter(c11_ramp, time_dependent=True), terminal_currents={"source": 3.0, "drain": -3.0})))
    # an averaging window longer than some of the save intervals (and than the per-step record buffer they imply)
    c.append(dict(name="adaptive_window4", dev="bar", N=11, opts=dict(dt_init=1e-4, dt_max=1.0, adaptive=True, adaptive_window=4), kw=dict(applied_vector_potential=0.7, terminal_currents={"source": 4.0, "drain": -4.0})))
    # no current terminals (the potential is fixed by Neumann data alone) but voltage probes, ramped field: mu != 0
    c.append(dict(name="no_terminals_ramped_field", dev="ring", N=7, opts=dict(dt_init=5e-3, adaptive=False), kw=dict(applied_vector_potential=tdgl.Parameter(c11_ramp, time_dependent=True))))
    if not quick:
        c.append(dict(name="screening", dev="ring", opts=dict(dt_init=1e-2, adaptive=False, include_screening=True, screening_tolerance=1e-2), kw=dict(applied_vector_potential=0.3)))
    return c


def eval_physics(ctx, cfg, N):
    dev = zoo.make_device(cfg["dev"], ctx.rng, max_edge_length=1.0)
    kw = cfg["kw"]
    ref = runs.Reference(dev, runs.options(solve_time=1e9, **cfg["opts"]), N + 1, **kw)
    T = (ref.times[N - 1] + ref.times[N]) / 2
    first = None

    def fail(key, what, **extra):
        nonlocal first
        rp = dict(config=cfg["name"], N=N, **extra)
        ctx.fail(key, what, rp)
        if first is None:
            first = dict(key=key, what=what, **rp)

    _, base = run_once(ctx, dev, kw, "base", save_every=1, solve_time=T, **cfg["opts"])
    if sorted(base) != list(range(N + 1)):
        fail("base-labels", f"base run (k=1) has labels {sorted(base)} for N={N}")
    variants = [(f"k={k}", dict(save_every=k)) for k in range(2, N + 2)]
    variants += [("tempdir", dict(save_every=2, output=False)), ("progress", dict(save_every=2, progress_interval=1)), ("progress3", dict(save_every=1, progress_interval=3))]
    for tag, o in variants:
        _, fr = run_once(ctx, dev, kw, tag, solve_time=T, **cfg["opts"], **o)
        shared, bad = cmp_frames(ctx, tag, base, fr)
        ctx.case((cfg["name"], tag, N), nontrivial=shared >= (1 if tag == "tempdir" else 2))
        ctx.count(f"variant:{tag.split('=')[0]}")
        if bad:
            fail("same-label-differs", f"recording option {tag}: frames with the same label differ at {bad[:4]}", variant=tag, where=[list(b) for b in bad[:6]])
    # probes removed: same physics, no probe columns
    dev2 = zoo.make_device(cfg["dev"], ctx.rng, max_edge_length=1.0, probes=False)
    dev2.mesh = dev.mesh
    _, fr = run_once(ctx, dev2, kw, "noprobes", save_every=2, solve_time=T, **cfg["opts"])
    shared, bad = cmp_frames(ctx, "noprobes", base, fr)
    ctx.case((cfg["name"], "noprobes", N), nontrivial=shared >= 2)
    ctx.count("variant:noprobes")
    if bad:
        fail("probes-interfere", f"removing the voltage probes changed frames at {bad[:4]}", where=[list(b) for b in bad[:6]])
    if len(ctx.samples) < 3:
        ctx.samples.append(dict(config=cfg["name"], N=N, variants=[v[0] for v in variants] + ["noprobes"], frame_times=[float(base[s]["time"]) for s in sorted(base)]))
    return first


def eval_resume(ctx, N, screening=False):
    """fixed dt, time-independent drive: split at every N1 (with screening the induced potential must be restored too)"""
    dev = zoo.make_device("bar", ctx.rng, max_edge_length=1.0, lam=(0.5 if screening else 2.0))
    kw = dict(applied_vector_potential=0.4, terminal_currents={"source": 3.0, "drain": -3.0})
    o = dict(dt_init=1e-2, adaptive=False)
    if screening:
        o.update(include_screening=True, screening_tolerance=1e-3)
    dt = o["dt_init"]
    first = None
    _, full = run_once(ctx, dev, kw, "full", save_every=1, solve_time=dt * (N - 0.5), **o)
    for N1 in range(1, N):
        sol1, f1 = run_once(ctx, dev, kw, f"part1_{N1}", save_every=N1 + 3, solve_time=dt * (N1 - 0.5), **o)
        if max(f1) != N1:
            continue
        N2 = N - N1
        if N1 % 2 == 0:
            # looking at the saved state before continuing from it (plots, derived quantities) is an observation too
            import matplotlib.pyplot as plt

            before_ = {nm: np.array(getattr(sol1.tdgl_data, nm), copy=True) for nm in runs.FIELDS}
            for meth in ("plot_scalar_potential", "plot_order_parameter", "plot_currents", "plot_vorticity"):
                try:
                    getattr(sol1, meth)()
                except Exception:  # noqa: a plot that cannot be drawn here is not this property's business
                    ctx.count(f"plot_raised:{meth}")
                plt.close("all")
            _ = sol1.current_density, sol1.dynamics.voltage() if sol1.dynamics.mu is not None else None
            ctx.count("seeds_plotted_before_continuing")
            touched_ = [nm for nm in runs.FIELDS if not np.array_equal(before_[nm], np.asarray(getattr(sol1.tdgl_data, nm)))]
            if touched_:
                rp = dict(N1=N1, fields=touched_)
                ctx.fail("observer-changed-saved-state", f"plotting / post-processing a solution changed its stored fields {touched_} (it is then used as the seed of the continuation)", rp)
                first = first or dict(key="observer-changed-saved-state", what=str(touched_), **rp)
        opts2 = runs.options(save_every=1, solve_time=dt * (N2 - 0.5), output_file=os.path.join(str(ctx.work), f"part2_{N1}.h5"), progress_interval=10**9, **o)
        sol2 = tdgl.solve(dev, opts2, seed_solution=sol1, **kw)
        f2 = {fr["step"]: fr for fr in runs.parse_h5(sol2.path)[0]}
        shared, bad = cmp_frames(ctx, "resume", full, f2, shift=N1)
        ctx.case(("resume", screening, N1, N2), nontrivial=shared >= 2)
        ctx.count("resume_splits" + ("_screened" if screening else ""))
        if bad:
            rp = dict(N1=N1, N2=N2, where=[list(b) for b in bad[:6]])
            ctx.fail("resume-differs", f"resumed run (split {N1}+{N2}) differs from the uninterrupted run at {bad[:4]}", rp)
            first = first or dict(key="resume-differs", what="resumed run differs", **rp)
        # continuing is an observation of the saved state too: it leaves the seed solution as it was, so a second
        # continuation from the same (in-memory) seed, recorded differently, gives the same frames again
        if N1 in (1, N // 2):
            snap = {nm: np.array(getattr(sol1.tdgl_data, nm), copy=True) for nm in runs.FIELDS}
            opts3 = runs.options(save_every=2, solve_time=dt * (N2 - 0.5), output_file=os.path.join(str(ctx.work), f"part3_{N1}.h5"), progress_interval=10**9, **o)
            sol3 = tdgl.solve(dev, opts3, seed_solution=sol1, **kw)
            f3 = {fr["step"]: fr for fr in runs.parse_h5(sol3.path)[0]}
            shared3, bad3 = cmp_frames(ctx, "resume-again", full, f3, shift=N1)
            changed = [nm for nm in runs.FIELDS if not np.array_equal(snap[nm], np.asarray(getattr(sol1.tdgl_data, nm)))]
            ctx.case(("resume-again", screening, N1, N2), nontrivial=shared3 >= 1)
            ctx.count("second_continuations_from_the_same_seed")
            if bad3 or changed:
                rp = dict(N1=N1, N2=N2, seed_fields_changed=changed, where=[list(b) for b in bad3[:6]])
                ctx.fail("resume-again-differs", f"a second continuation from the same seed solution (split {N1}+{N2}) differs from the uninterrupted run at {bad3[:4]}; seed fields changed by the first continuation: {changed}", rp)
                first = first or dict(key="resume-again-differs", what="second continuation differs", **rp)
    return first


def run(ctx):
    N = 5 if ctx.quick else 9
    for cfg in physics(ctx.quick):
        eval_physics(ctx, cfg, cfg.get("N", N))
    eval_resume(ctx, 6 if ctx.quick else 10)
    eval_resume(ctx, 4 if ctx.quick else 7, screening=True)
    # tie to the Lean loop model (same correspondence as C05, one configuration)
    cfg = c05.configs(True)[0]
    dev, kw = c05.build(cfg, ctx.rng)
    ref = c05.ReferenceT(dev, runs.options(save_every=1000, solve_time=1e9, **cfg["opts"]), 5, **kw)
    for k in (1, 2, 3):
        c05.check_run(ctx, cfg, dev, kw, ref, k, 4, (ref.times[3] + ref.times[4]) / 2)


def search(ctx):
    for cfg in physics(False):
        f = eval_physics(ctx, cfg, 4)
        if f:
            return f
    return eval_resume(ctx, 5) or eval_resume(ctx, 4, screening=True)


def replay(payload):
    ctx = V.Ctx("C11", "quick", int(payload.get("seed", 0)))
    try:
        search(ctx)
        return not any(f["key"] == payload.get("key") for f in ctx.oracle_fails)
    finally:
        ctx.cleanup()
