"""C14 — saved devices, meshes, solutions and parameters load back unchanged.

Real objects are written with the library's own `to_hdf5` / pickle and read back with `from_hdf5` / `loads`;
the result is compared with the original by the library's `==` AND field by field (arrays bit for bit), and is
exercised (evaluate, clear, solve again from it).  The Lean model (`Tdgl.H5`) encodes/decodes the same records.
"""
from __future__ import annotations

import dataclasses
import itertools
import os
import pickle

import h5py
import numpy as np

import runs
import vcommon as V
import zoo
import tdgl
from tdgl.finite_volume.mesh import Mesh
from tdgl.parameter import Parameter

LEVEL = "proof"
RULE = (
    "devices (holes / terminals / probes / conductivity present or not, mesh present or not) x solver options from a "
    "covering array that includes every None-valued option x drives (float, Parameter, composite, time-dependent "
    "composite; dict or callable currents; float or callable epsilon) x every recorded step; a case = one object "
    "round trip; non-trivial = object has at least one optional part set or unset away from its default"
)
EXPLANATION = (
    "Lean theorems C14_* (decode (encode x) = x for layer / polygon / device / mesh records and for solver options "
    "with None-valued fields; restored mesh = recomputed mesh as a function of the stored triangulation; parameter "
    "round trip from C16) over an abstract HDF5 tree; real objects are round-tripped and compared field by field. "
    "C14Mem: a solution saved after its file is gone (model memSave: one frame group whose running state is the whole "
    "record) loads back with all per-step records whichever recorded step was selected; the file actually written is "
    "compared with that shape."
)
ASSUMPTIONS = ["h5py and cloudpickle byte formats are trusted; arrays compared bit for bit"]


def arr_eq(a, b):
    if a is None or b is None:
        return a is None and b is None
    a, b = np.asarray(a), np.asarray(b)
    return a.shape == b.shape and a.dtype.kind == b.dtype.kind and np.array_equal(a, b)


def mesh_fields(m: Mesh):
    em = m.edge_mesh
    d = dict(sites=m.sites, elements=m.elements, boundary_indices=m.boundary_indices, areas=m.areas, dual_sites=m.dual_sites)
    if em is not None:
        d.update({f"edge.{k}": getattr(em, k) for k in ("centers", "edges", "boundary_edge_indices", "directions", "edge_lengths", "dual_edge_lengths", "normalized_directions")})
    if m.voronoi_polygons is not None:
        d["voronoi_n"] = np.array([len(p) for p in m.voronoi_polygons])
        d["voronoi_flat"] = np.concatenate([np.asarray(p) for p in m.voronoi_polygons], axis=0)
    return d


def diff_mesh(a: Mesh, b: Mesh):
    fa, fb = mesh_fields(a), mesh_fields(b)
    return [k for k in set(fa) | set(fb) if not arr_eq(fa.get(k), fb.get(k))]


def diff_device(a: tdgl.Device, b: tdgl.Device):
    bad = []
    if a.name != b.name or a.length_units != b.length_units:
        bad.append("name/units")
    for f in ("london_lambda", "coherence_length", "thickness", "conductivity", "u", "gamma", "z0"):
        if getattr(a.layer, f) != getattr(b.layer, f) or type(getattr(a.layer, f) is None) != type(getattr(b.layer, f) is None):
            bad.append(f"layer.{f}")
    # terminals and holes are sets keyed by name (HDF5 groups iterate alphabetically; the library's own == sorts
    # by name): compare them by name
    key = lambda p: (0 if p.name == a.film.name else 1, str(p.name))
    pa, pb = sorted(a.polygons, key=key), sorted(b.polygons, key=key)
    if [p.name for p in pa] != [p.name for p in pb]:
        bad.append(f"polygon names {[p.name for p in pa]} vs {[p.name for p in pb]}")
    else:
        for p, q in zip(pa, pb):
            if not arr_eq(p.points, q.points) or bool(p.mesh) != bool(q.mesh):
                bad.append(f"polygon {p.name}")
    if not arr_eq(a.probe_points, b.probe_points):
        bad.append("probe_points")
    if (a.mesh is None) != (b.mesh is None):
        bad.append("mesh presence")
    elif a.mesh is not None:
        bad += [f"mesh.{k}" for k in diff_mesh(a.mesh, b.mesh)]
    return bad


def device_variants(rng, quick):
    out = []
    for kind, kw in [("bar", {}), ("bar_hole", dict(probes=False)), ("ring", dict()), ("union", dict(probes=False)), ("cross4", {}), ("ellipse", dict(terminals=False))]:
        dev = zoo.make_device(kind, rng, max_edge_length=1.2, **kw)
        out.append((kind, dev))
    # a mesh whose index arrays run past 2^16 (more than 11 000 sites: the flattened Voronoi cells have > 65 535 vertices)
    big = zoo.make_device("bar", rng, max_edge_length=0.066)
    out.append((f"bar_{len(big.mesh.sites) // 1000}k_sites", big))
    # conductivity set, mesh absent
    d = zoo.make_device("bar", rng, mesh=False)
    d.layer.conductivity = 3.5
    d.layer.z0 = 0.25
    out.append(("bar_nomesh_conductivity", d))
    # boundary values of the layer constants (gamma = 0: no inelastic scattering)
    d = zoo.make_device("bar", rng, mesh=False, gamma=0.0)
    d.layer.z0 = -0.5
    out.append(("bar_nomesh_gamma0", d))
    return out


def layer_roundtrips(ctx):
    """every layer constant comes back as saved, at ordinary and at boundary values (0, negative z0, None)"""
    import itertools
    p = os.path.join(str(ctx.work), "layers.h5")
    first = None
    with h5py.File(p, "w") as f:
        for i, (gamma, u, z0, cond, lam) in enumerate(itertools.product((0.0, 10.0, 0.37), (5.79, 0.0, 1.0), (0.0, 0.25, -1.5), (None, 3.5, 0.0), (2.0, 0.0))):
            if lam == 0.0 and (u, cond) != (5.79, None):
                continue
            try:
                L = tdgl.Layer(london_lambda=lam, coherence_length=0.5, thickness=0.1, gamma=gamma, u=u, z0=z0, conductivity=cond)
            except Exception:
                continue
            g = f.create_group(f"L{i}")
            ctx.case(("layer", gamma, u, z0, cond, lam), nontrivial=True)
            ctx.count("layer_roundtrips")
            try:
                L.to_hdf5(g)
                back = tdgl.Layer.from_hdf5(g)
            except Exception as e:  # noqa
                rp = dict(layer=dict(gamma=gamma, u=u, z0=z0, conductivity=cond, london_lambda=lam), error=f"{type(e).__name__}: {str(e)[:120]}")
                ctx.fail("layer-roundtrip", f"saving / loading Layer(gamma={gamma}, u={u}, z0={z0}, conductivity={cond}, london_lambda={lam}) raised {rp['error']}", rp)
                first = first or dict(key="layer-roundtrip", **rp)
                continue
            bad = [k for k in ("london_lambda", "coherence_length", "thickness", "conductivity", "u", "gamma", "z0")
                   if (getattr(L, k) is None) != (getattr(back, k) is None) or (getattr(L, k) is not None and float(getattr(L, k)) != float(getattr(back, k)))]
            if bad or not (L == back):
                rp = dict(layer=dict(gamma=gamma, u=u, z0=z0, conductivity=cond, london_lambda=lam), differs=bad)
                ctx.fail("layer-roundtrip", f"Layer(gamma={gamma}, u={u}, z0={z0}, conductivity={cond}, london_lambda={lam}) read back differs in {bad}: " +
                         ", ".join(f"{k}: saved {getattr(L, k)} loaded {getattr(back, k)}" for k in bad[:3]), rp)
                first = first or dict(key="layer-roundtrip", **rp)
    return first


def device_roundtrips(ctx):
    first = None
    for name, dev in device_variants(ctx.rng, ctx.quick):
        for save_mesh in (True, False):
            p = os.path.join(str(ctx.work), f"dev_{name}_{save_mesh}.h5")
            with h5py.File(p, "w") as f:
                dev.to_hdf5(f.create_group("d"), save_mesh=save_mesh)
            with h5py.File(p, "r") as f:
                back = tdgl.Device.from_hdf5(f["d"])
            ref = dev if save_mesh else dev.copy(with_mesh=False)
            bad = diff_device(ref, back)
            eq = (ref == back)
            ctx.case(("device", name, save_mesh), nontrivial=True)
            ctx.count("device_roundtrips")
            if bad or not eq:
                rp = dict(device=name, save_mesh=save_mesh, differs=bad[:6], eq=bool(eq))
                ctx.fail("device-roundtrip", f"device {name} read back differs: {bad[:4]} (==: {eq})", rp)
                first = first or dict(key="device-roundtrip", what=str(bad[:4]), **rp)
        # by PATH: what was loaded is self-contained -- the file may be removed or replaced afterwards
        if dev.mesh is not None:
            pp = os.path.join(str(ctx.work), f"devpath_{name}.h5")
            if os.path.exists(pp):
                os.remove(pp)
            dev.to_hdf5(pp)
            back_p = tdgl.Device.from_hdf5(pp)
            os.remove(pp)
            other_ = dev.copy(with_mesh=False)
            other_.make_mesh(max_edge_length=float(dev.layer.coherence_length) * 1.9)
            other_.to_hdf5(pp)  # the same name now holds another mesh
            ctx.case(("device-by-path", name), nontrivial=True)
            ctx.count("devices_loaded_by_path_then_file_replaced")
            try:
                bad_p = diff_device(dev, back_p)
            except Exception as e:  # noqa
                bad_p = [f"using the loaded device raised {type(e).__name__}: {str(e)[:80]}"]
            if bad_p:
                rp = dict(device=name, differs=bad_p[:6])
                ctx.fail("device-roundtrip:by-path", f"device {name} loaded from a path, the file then replaced: the loaded device differs from the saved one: {bad_p[:3]}", rp)
                first = first or dict(key="device-roundtrip:by-path", what=str(bad_p[:3]), **rp)
        # behaves identically: a short solve on the reloaded device is bit-identical
        if dev.mesh is not None and dev.terminals and name in ("cross4", "bar"):
            p = os.path.join(str(ctx.work), f"dev_{name}_True.h5")
            with h5py.File(p, "r") as f:
                back = tdgl.Device.from_hdf5(f["d"])
            cur = {"source": 5.0, "drain": -2.0, "top": -3.5, "bottom": 0.5} if name == "cross4" else {"source": 2.0, "drain": -2.0}
            sols = [tdgl.solve(d, runs.options(solve_time=0.05, dt_init=1e-2, save_every=2, output_file=os.path.join(str(ctx.work), f"beh_{name}_{i}.h5")),
                               applied_vector_potential=0.3, terminal_currents=cur) for i, d in enumerate((dev, back))]
            fa, fb = (runs.parse_h5(s_.path)[0] for s_ in sols)
            # compared in the quantities the (singular) Poisson problem determines, to 1e-9: after a reload the
            # layer constants are numpy scalars instead of Python floats, and Python 3.12's compensated sum() of
            # exact floats vs plain addition of np.float64 moves a terminal density by one ulp, which shifts mu
            # by a constant and psi by a global phase (observed: currents agree to 1e-12)
            def inv(fr):
                d = fr["data"]
                return np.concatenate([np.abs(d["psi"]), d["supercurrent"], d["normal_current"], d["mu"] - d["mu"].mean()])
            worst = max((float(np.abs(inv(x) - inv(y)).max()) for x, y in zip(fa, fb)), default=0.0)
            same = len(fa) == len(fb) and worst <= 1e-9
            ctx.tol("reloaded device: gauge-invariant difference of a re-run", worst, 1e-9)
            ctx.count("behaviour_checks")
            if not same:
                rp = dict(device=name, worst=worst)
                ctx.fail("reloaded-device-behaves-differently", f"a simulation on the reloaded device {name} differs from one on the original by {worst:.2e}", rp)
                first = first or dict(key="reloaded-device-behaves-differently", what=name, **rp)
        # mesh: full and compressed storage; restored == recomputed
        if dev.mesh is not None:
            for compress in (False, True):
                p = os.path.join(str(ctx.work), f"mesh_{name}_{compress}.h5")
                with h5py.File(p, "w") as f:
                    dev.mesh.to_hdf5(f.create_group("m"), compress=compress)
                with h5py.File(p, "r") as f:
                    restorable = Mesh.is_restorable(f["m"])
                    back = Mesh.from_hdf5(f["m"])
                recomputed = Mesh.from_triangulation(dev.mesh.sites, dev.mesh.elements)
                bad = diff_mesh(dev.mesh, back) + [f"recomputed:{k}" for k in diff_mesh(recomputed, back)]
                ctx.case(("mesh", name, compress), nontrivial=True)
                ctx.count("mesh_roundtrips")
                if restorable == compress:
                    bad.append(f"is_restorable={restorable} for compress={compress}")
                if bad:
                    rp = dict(device=name, compress=compress, differs=bad[:6])
                    ctx.fail("mesh-roundtrip", f"mesh of {name} (compress={compress}) read back / recomputed differs: {bad[:4]}", rp)
                    first = first or dict(key="mesh-roundtrip", what=str(bad[:4]), **rp)
    return first


def vec(x, y, z, *, B=0.3):
    return np.stack([-B * y / 2, B * x / 2, np.zeros_like(x)], axis=1)


def ramp(x, y, z, *, t, rate=30.0):
    return min(1.0, rate * t)


def bump_field(x0, B=0.4):
    """a factory of vector potentials (closures over x0): the field of a flux spot centred at (x0, 0).  Two parameters made
    by it share their code and keyword arguments and differ only in the captured value."""
    def spot(x, y, z):
        w = B * np.exp(-((x - x0) ** 2 + y**2))
        return np.stack([-w * y / 2, w * (x - x0) / 2, np.zeros_like(x)], axis=1)
    return spot


def eps_fun(r):
    return 1.0 - 0.2 * (r[0] > 0)


def cur_fun(t):
    return {"source": 2.0 + t, "drain": -(2.0 + t)}


def option_sets(rng, quick):
    """covering array: every optional/None-able field takes None and a value; other fields vary pairwise-ish"""
    base = dict(dt_init=1e-2, dt_max=5e-2, adaptive=False, save_every=2)
    sets = [
        dict(terminal_psi=None),
        dict(terminal_psi=0.0),
        dict(terminal_psi=0.5, adaptive=True, adaptive_window=2, max_solve_retries=3, adaptive_time_step_multiplier=0.5),
        dict(terminal_psi=0.3 + 0.4j, skip_time=0.02, pause_on_interrupt=False, progress_interval=10**9),
        dict(include_screening=True, screening_tolerance=1e-2, screening_step_size=0.2, screening_step_drag=0.7, max_iterations_per_step=500),
        dict(field_units="uT", current_units="nA", monitor_update_interval=2.0, sparse_solver="superlu"),
    ]
    return [dict(base, **s) for s in sets]


def drive_sets():
    A = Parameter(vec, B=0.3)
    R = Parameter(ramp, rate=30.0, time_dependent=True)
    return [
        dict(A=0.25, cur=None, eps=1.0),
        dict(A=A, cur={"source": 2.0, "drain": -2.0}, eps=0.8),
        dict(A=A * 2.0 + A, cur=cur_fun, eps=eps_fun),
        dict(A=R * A, cur={"source": 1.0, "drain": -1.0}, eps=1.0),
        dict(A=(R * A) * 0.5 + A, cur=None, eps=1.0),
        # two operands made by one factory with different captured values, also under a time-dependent factor
        dict(A=Parameter(bump_field(-1.0)) + Parameter(bump_field(1.2)), cur=None, eps=1.0),
        dict(A=A * 0.5 + R * (Parameter(bump_field(-1.0)) - Parameter(bump_field(1.2))), cur={"source": 1.0, "drain": -1.0}, eps=1.0),
    ]


def callables_equal(a, b, probe):
    if isinstance(a, Parameter):
        if not (a == b):
            return False
        try:
            va, vb = probe(a), probe(b)
            return np.array_equal(np.asarray(va), np.asarray(vb), equal_nan=True)
        except Exception:
            return False
    if callable(a):
        return callable(b) and a.__code__.co_code == b.__code__.co_code
    return a == b


def solution_roundtrips(ctx, stop_first=False):
    first = None
    prev_copy = None
    dev = zoo.make_device("bar", ctx.rng, max_edge_length=1.0)
    combos = list(itertools.product(range(len(option_sets(ctx.rng, ctx.quick))), range(len(drive_sets()))))
    if ctx.quick:
        combos = [c for i, c in enumerate(combos) if i % 3 == 0 or c[0] in (0, 3) and c[1] in (2, 3)]
    for oi, di in combos:
        o = option_sets(ctx.rng, ctx.quick)[oi]
        dr = drive_sets()[di]
        path = os.path.join(str(ctx.work), f"sol_{oi}_{di}.h5")
        if os.path.exists(path):
            os.remove(path)
        oo = dict(o)
        oo.setdefault("progress_interval", 10**9)
        oo.setdefault("pause_on_interrupt", False)
        opts = tdgl.SolverOptions(solve_time=0.07, output_file=path, **oo)
        tag = dict(options=oi, drive=di, terminal_psi=str(o.get("terminal_psi", "default")))

        def fail(key, what, **extra):
            nonlocal first
            rp = dict(tag, **extra)
            ctx.fail(key, what, rp)
            if first is None:
                first = dict(key=key, what=what, **rp)

        sol = tdgl.solve(dev, opts, applied_vector_potential=dr["A"], terminal_currents=dr["cur"], disorder_epsilon=dr["eps"])
        ctx.case(("solution", oi, di), nontrivial=True)
        ctx.count("solution_roundtrips")
        try:
            back = tdgl.Solution.from_hdf5(sol.path)
        except Exception as e:  # noqa
            fail(f"solution-load:{type(e).__name__}", f"Solution.from_hdf5 raised {type(e).__name__}: {str(e)[:100]}")
            continue
        # options, field by field, including unset ones
        for f in dataclasses.fields(tdgl.SolverOptions):
            a, b = getattr(sol.options, f.name), getattr(back.options, f.name)
            if f.name == "sparse_solver":
                a, b = getattr(a, "value", a), getattr(b, "value", b)
            if a != b or (a is None) != (b is None):
                fail(f"option-changed:{f.name}", f"option {f.name} = {a!r} was saved and reloads as {b!r}", field=f.name, saved=repr(a), loaded=repr(b))
        bad = diff_device(sol.device, back.device)
        if bad:
            fail("solution-device", f"device stored in the solution differs after reload: {bad[:4]}")
        # data at every recorded step (walked forwards and then backwards on the same two Solution objects), also against
        # the datasets of that step as they are in the file
        lo, hi = sol.data_range
        raw_frames = {fr["index"]: fr for fr in runs.parse_h5(sol.path)[0]}
        for step in list(range(lo, hi + 1)) + list(range(hi - 1, lo - 1, -1)):
            sol.solve_step = step
            back.solve_step = step
            da, db = sol.tdgl_data, back.tdgl_data
            for nm_, arr_ in raw_frames[step]["data"].items():
                if hasattr(da, nm_) and not arr_eq(getattr(da, nm_), arr_):
                    fail("solution-data-vs-file", f"after switching to step {step}, tdgl_data.{nm_} is not the dataset stored for that step", step=step, field=nm_)
            for f in dataclasses.fields(da):
                va, vb = getattr(da, f.name), getattr(db, f.name)
                same = (va == vb) if isinstance(va, dict) or np.isscalar(va) else arr_eq(va, vb)
                if not same:
                    fail("solution-data", f"step {step}: field {f.name} differs after reload", step=step, field=f.name)
            ctx.count("steps_compared")
        sol.solve_step = hi  # leave both objects at the last recorded step (what a freshly loaded solution shows)
        back.solve_step = hi
        if not (sol.dynamics == back.dynamics) or not arr_eq(sol.dynamics.dt, back.dynamics.dt):
            fail("solution-dynamics", "dynamics differ after reload")
        if not arr_eq(sol.times, back.times):
            fail("solution-times", "times differ after reload")
        pts = (np.array([0.3, -0.4]), np.array([0.2, 0.5]), np.array([0.1, 0.1]))
        probeA = lambda p: p(*pts, t=0.01) if getattr(p, "time_dependent", False) else p(*pts)
        if not callables_equal(sol.applied_vector_potential, back.applied_vector_potential, probeA):
            fail("reloaded-parameter", "applied_vector_potential differs (== or values) after reload")
        if not callables_equal(sol.terminal_currents, back.terminal_currents, None):
            fail("reloaded-currents", "terminal_currents differ after reload")
        if not callables_equal(sol.disorder_epsilon, back.disorder_epsilon, None):
            fail("reloaded-epsilon", "disorder_epsilon differs after reload")
        # behaves identically: evaluate, clear, use
        try:
            if isinstance(back.applied_vector_potential, Parameter):
                back.applied_vector_potential._clear_cache()
            a1 = sol.vector_potential_at_position(np.array([[0.2, 0.1], [-0.3, 0.4]]), zs=0.4, with_units=False)
            a2 = back.vector_potential_at_position(np.array([[0.2, 0.1], [-0.3, 0.4]]), zs=0.4, with_units=False)
            if not arr_eq(a1, a2):
                fail("reloaded-composite-unusable", "vector_potential_at_position differs between the original and the reloaded solution")
            if not back.equals(sol):
                fail("solution-equals", "reloaded solution does not compare equal to the original")
        except Exception as e:  # noqa
            fail("reloaded-composite-unusable", f"using the reloaded solution raised {type(e).__name__}: {str(e)[:100]}")
        # a second save into a new file round-trips too
        p2 = path.replace(".h5", "_copy.h5")
        if os.path.exists(p2):
            os.remove(p2)
        sol.to_hdf5(p2)
        again = tdgl.Solution.from_hdf5(p2)
        if not again.equals(sol) or again.options != sol.options:
            fail("solution-copy", "solution saved to a new file does not load back equal")
        # saving over a file that already holds ANOTHER solution (the copy of the previous configuration): what
        # loads back is this solution, at every recorded step
        if prev_copy is not None:
            ctx.count("saves_over_an_existing_file")
            try:
                sol.to_hdf5(prev_copy)
                over = tdgl.Solution.from_hdf5(prev_copy)
                lo_, hi_ = over.data_range
                okd = (lo_, hi_) == (lo, hi) and arr_eq(over.dynamics.dt, sol.dynamics.dt)
                for step in ((lo, hi) if okd else ()):
                    sol.solve_step = step
                    over.solve_step = step
                    okd = okd and arr_eq(sol.tdgl_data.psi, over.tdgl_data.psi) and arr_eq(sol.tdgl_data.mu, over.tdgl_data.mu)
                if not okd or not over.equals(sol) or over.options != sol.options:
                    fail("solution-save-over-existing", f"a solution saved over a file that held another solution does not load back unchanged (steps read back {lo_}..{hi_}, saved {lo}..{hi})")
            except Exception as e:  # noqa
                fail("solution-save-over-existing", f"saving over an existing file / loading it back raised {type(e).__name__}: {str(e)[:100]}")
        prev_copy = p2
        # the solution outlives its file: delete the HDF5 file, save what is in memory to a new file, load it back
        try:
            # ... every other time with an EARLIER recorded step selected: the per-step records (dynamics) are those of
            # the whole run whichever frame is being shown
            earlier = (oi + di) % 2 == 1 and hi > lo
            if earlier:
                sol.solve_step = lo + (hi - lo) // 2
                ctx.count("in_memory_saves_with_an_earlier_step_selected")
            keep_step = sol.solve_step
            td, dyn = sol.tdgl_data, sol.dynamics
            p3 = path.replace(".h5", "_mem.h5")
            if os.path.exists(p3):
                os.remove(p3)
            sol.delete_hdf5()
            sol.to_hdf5(p3)
            mem = tdgl.Solution.from_hdf5(p3)
            # the file written has the shape of the Lean model `memSave` (Tdgl/SolutionSave.lean): ONE frame group, that
            # of the selected step, whose running state is the whole per-step record
            fr3 = runs.parse_h5(p3)[0]
            ctx.corr(len(fr3) == 1 and fr3[0]["index"] == int(keep_step) and fr3[0]["running"] is not None and arr_eq(fr3[0]["running"]["dt"], dyn.dt),
                     "file written by an in-memory save vs memSave (Lean): one frame, running state = all records", dict(tag, frames=[f_["index"] for f_ in fr3], selected=int(keep_step)))
            bad3 = [f.name for f in dataclasses.fields(td) if f.name not in ("state",) and not (getattr(td, f.name) == getattr(mem.tdgl_data, f.name)
                    if np.isscalar(getattr(td, f.name)) else arr_eq(getattr(td, f.name), getattr(mem.tdgl_data, f.name)))]
            if bad3 or not arr_eq(dyn.dt, mem.dynamics.dt) or not (mem.dynamics == dyn) or mem.options != sol.options:
                fail("solution-in-memory-save", f"a solution saved from memory (its file deleted, step {keep_step} of {lo}..{hi} selected) does not load back unchanged: fields {bad3[:4]}, "
                     f"dynamics {len(np.asarray(mem.dynamics.dt))} of {len(np.asarray(dyn.dt))} steps", selected_step=int(keep_step))
        except Exception as e:  # noqa
            fail("solution-in-memory-save", f"saving a solution whose file was deleted / loading it back raised {type(e).__name__}: {str(e)[:100]}")
        if len(ctx.samples) < 4:
            ctx.samples.append(dict(tag, frames=hi - lo + 1, vector_potential=repr(dr["A"])[:80]))
        if first and stop_first:
            return first
    return first


def main_module_callables(ctx):
    """callables defined at the top level of the running script (`__main__`), as in a user's script or notebook cell: what is
    stored with the solution is the function as it was when the run was made, whatever the name is bound to later"""
    import __main__

    first = None
    src1 = ("import numpy as np\n"
            "def c14_cur(t):\n    return {'source': 2.0 + 0.5 * t, 'drain': -(2.0 + 0.5 * t)}\n"
            "def c14_eps(r):\n    return 1.0 - 0.2 * float(r[0] > 0)\n"
            "def c14_vec(x, y, z, *, t, B=0.3):\n    s = min(1.0, 20.0 * t)\n    return np.stack([-s * B * y / 2, s * B * x / 2, np.zeros_like(x)], axis=1)\n")
    src2 = src1.replace("2.0 + 0.5 * t", "5.0").replace("0.2 * float", "0.6 * float").replace("20.0 * t", "1.0 + 0 * t")
    exec(src1, __main__.__dict__)
    dev = zoo.make_device("bar", ctx.rng, max_edge_length=1.0)
    path = os.path.join(str(ctx.work), "main_callables.h5")
    A = Parameter(__main__.c14_vec, B=0.3, time_dependent=True)
    sol = tdgl.solve(dev, tdgl.SolverOptions(solve_time=0.05, dt_init=5e-3, adaptive=False, save_every=5, output_file=path, progress_interval=10**9),
                     applied_vector_potential=A, terminal_currents=__main__.c14_cur, disorder_epsilon=__main__.c14_eps)
    pts = (np.array([0.3, -0.4]), np.array([0.2, 0.5]), np.array([0.1, 0.1]))
    want = dict(cur=__main__.c14_cur(0.03), eps=__main__.c14_eps((0.5, 0.1)), A=np.asarray(A(*pts, t=0.02)))
    p2 = path.replace(".h5", "_copy.h5")
    sol.to_hdf5(p2)
    exec(src2, __main__.__dict__)  # "the next run of the script": the same names, other functions
    try:
        for label, pth in (("output file", sol.path), ("saved copy", p2)):
            back = tdgl.Solution.from_hdf5(pth)
            got = dict(cur=back.terminal_currents(0.03), eps=back.disorder_epsilon((0.5, 0.1)), A=np.asarray(back.applied_vector_potential(*pts, t=0.02)))
            bad = [k for k in want if not (np.array_equal(want[k], got[k]) if k == "A" else want[k] == got[k])]
            ctx.case(("main-module-callables", label), nontrivial=True)
            ctx.count("reloads_after_the_script_redefined_its_functions")
            if bad:
                rp = dict(file=label, differ=bad, saved=str({k: want[k] for k in bad if k != "A"}), reloaded=str({k: got[k] for k in bad if k != "A"}))
                ctx.fail("reloaded-callable-follows-redefinition", f"{label}: after the script re-defined its top-level functions, the reloaded solution's {bad} evaluate like the NEW definitions, not like those of the saved run", rp)
                first = first or dict(key="reloaded-callable-follows-redefinition", what=str(bad), **rp)
    except Exception as e:  # noqa
        rp = dict(error=f"{type(e).__name__}: {str(e)[:120]}")
        ctx.fail("reloaded-callable-follows-redefinition", f"loading / evaluating the solution after its functions were re-defined raised {rp['error']}", rp)
        first = first or dict(key="reloaded-callable-follows-redefinition", what=rp["error"], **rp)
    finally:
        for nm in ("c14_cur", "c14_eps", "c14_vec"):
            __main__.__dict__.pop(nm, None)
    return first


def h5keys(g):
    return ",".join(sorted(list(g.attrs.keys()) + list(g.keys())))


def model_part(ctx):
    """the Lean record model vs the real writers/readers: which keys are written, what comes back for the
    optional fields"""
    import tdgl
    from tdgl.geometry import box

    p = os.path.join(str(ctx.work), "model.h5")
    lines, want = [], []
    with h5py.File(p, "w") as f:
        i = 0
        for cond in (None, 3.5):
            L = tdgl.Layer(london_lambda=2.0, coherence_length=0.5, thickness=0.1, conductivity=cond)
            g = f.create_group(f"layer{i}")
            L.to_hdf5(g)
            back = tdgl.Layer.from_hdf5(g)
            lines.append(f"h5 layer {'-' if cond is None else cond}")
            want.append(f"keys={h5keys(g)} conductivity={back.conductivity if back.conductivity is None else float(back.conductivity)}")
            i += 1
        for name in (None, "film"):
            P = tdgl.Polygon(name, points=box(2, 1))
            g = f.create_group(f"poly{i}")
            P.to_hdf5(g)
            back = tdgl.Polygon.from_hdf5(g)
            lines.append(f"h5 poly {'-' if name is None else name}")
            want.append(f"keys={h5keys(g)} name={back.name}")
            i += 1
        dev = zoo.make_device("bar", ctx.rng, max_edge_length=1.4)
        for compress in (True, False):
            g = f.create_group(f"mesh{i}")
            dev.mesh.to_hdf5(g, compress=compress)
            lines.append(f"h5 mesh {int(compress)}")
            want.append(f"keys={h5keys(g)} restorable={'true' if Mesh.is_restorable(g) else 'false'}")
            i += 1
    # options through a real Solution file
    dev = zoo.make_device("bar", ctx.rng, max_edge_length=1.4)
    for tp in (None, 0.5):
        path = os.path.join(str(ctx.work), f"model_opts_{tp}.h5")
        sol = tdgl.solve(dev, runs.options(solve_time=0.02, dt_init=1e-2, output_file=path, terminal_psi=tp))
        back = tdgl.Solution.from_hdf5(sol.path)
        with h5py.File(sol.path, "r") as f:
            keys = set(f["solution/options"].attrs.keys())
        lines.append(f"h5 opts {'-' if tp is None else tp} x")
        got_keys = ",".join(sorted(k for k in ("terminal_psi", "output_file") if k in keys))
        want.append(("opts", got_keys, str(back.options.terminal_psi), back.options.output_file is not None))
    out = V.driver(lines)
    ctx.traces += 1
    for ln, o, w in zip(lines, out, want):
        if isinstance(w, tuple):
            mk = ",".join(k for k in o.split()[0][5:].split(",") if k in ("terminal_psi", "output_file"))
            mtp = o.split()[1].split("=")[1]
            ok = mk == w[1] and mtp == w[2] and (o.split()[2] != "output_file=None") == w[3]
        else:
            ok = o.strip() == w
        ctx.corr(ok, "H5 record model vs real to_hdf5/from_hdf5 (keys written, optional fields read back)", dict(op=ln, model=o, impl=str(w)))


def run(ctx):
    layer_roundtrips(ctx)
    device_roundtrips(ctx)
    solution_roundtrips(ctx)
    main_module_callables(ctx)
    if os.environ.get("C14_NOMODEL") != "1":
        model_part(ctx)


def search(ctx):
    ctx.rng = np.random.default_rng(ctx.seed + 4242)
    return layer_roundtrips(ctx) or device_roundtrips(ctx) or solution_roundtrips(ctx, stop_first=True) or main_module_callables(ctx)


def replay(payload):
    ctx = V.Ctx("C14", "quick", int(payload.get("seed", 0)))
    try:
        search(ctx)
        return not any(f["key"] == payload.get("key") for f in ctx.oracle_fails)
    finally:
        ctx.cleanup()
