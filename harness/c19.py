"""C19 — ill-posed problems are rejected before anything is written.

Every enumerated class of ill-posed input is instantiated on several devices and defect magnitudes (gross … one
part in 1e6), with and without an explicit output path; the check demands the documented exception and an unchanged
directory listing (scratch directory and the system temp dir).  `SolverOptions.validate` and the current balance
test are also compared with the Lean model (`Opts.validate`, `currentsAccepted`) on generated option sets.
"""
from __future__ import annotations

import os
import tempfile

import numpy as np

import runs
import vcommon as V
import zoo
import tdgl
from tdgl.solver.options import SolverOptionsError

LEVEL = "proof"
RULE = (
    "each class of ill-posed input (unbalanced constant / time-dependent currents, unknown terminal, epsilon > 1, each "
    "inconsistent option, empty terminal, seed from another device, wrong-shape potential, invalid polygons and device "
    "definitions) x devices x defect magnitudes x {explicit path, no path}; a case = one rejected problem; plus "
    "random option sets for validate vs the Lean model; non-trivial = defect magnitude below 1e-2 or a mixed option set"
)
EXPLANATION = (
    "Lean theorems C19_* (validate accepts exactly the consistent option sets; unbalanced currents above the tolerance "
    "are rejected and balanced ones accepted; a failing pre-check leaves the file system unchanged and reports the "
    "first failure); the real constructor/solve is exercised for every class with directory listings before/after."
)
ASSUMPTIONS = ["time-dependent currents are unbalanced at all times in the enumerated class (the validator samples 100 random times)"]


def snapshot(dirs):
    return {d: sorted(os.listdir(d)) for d in dirs}


def expect_reject(ctx, label, magnitude, build, exc_types, workdir, with_path):
    """`build(output_file)` must raise one of exc_types and leave no file behind"""
    dirs = [workdir, tempfile.gettempdir()]
    before = snapshot(dirs)
    out = os.path.join(workdir, "out.h5") if with_path else None
    err = None
    try:
        build(out)
    except exc_types as e:
        err = e
    except Exception as e:  # wrong kind of rejection
        err = e
        rp = dict(cls=label, magnitude=magnitude, with_path=with_path, raised=type(e).__name__, msg=str(e)[:160])
        ctx.fail(f"wrong-exception:{label}", f"{label}: rejected with {type(e).__name__} instead of {[t.__name__ for t in exc_types]}", rp)
    after = snapshot(dirs)
    ctx.case((label, str(magnitude), with_path), nontrivial=(isinstance(magnitude, float) and magnitude < 1e-2) or magnitude in ("mixed",))
    ctx.count(f"class:{label}")
    if err is None:
        rp = dict(cls=label, magnitude=magnitude, with_path=with_path)
        ctx.fail(f"accepted:{label}", f"ill-posed problem accepted: {label} (defect {magnitude})", rp)
        return dict(key=f"accepted:{label}", what=f"{label} accepted", **rp)
    if after != before:
        new = {d: sorted(set(after[d]) - set(before[d])) for d in dirs}
        rp = dict(cls=label, magnitude=magnitude, with_path=with_path, new=new)
        ctx.fail(f"files-left:{label}", f"rejected problem ({label}) left files behind: {new}", rp)
        return dict(key=f"files-left:{label}", what="files left", **rp)
    return None


def classes(ctx, dev, dev3, other):
    """yield (label, magnitude, builder, exception types)"""
    P = tdgl.Polygon
    from tdgl.geometry import box

    def solve(**kw):
        def b(out):
            k2 = dict(kw)
            o = k2.pop("_opts", {})
            return tdgl.solve(k2.pop("_dev", dev), runs.options(output_file=out, solve_time=0.02, **o), **k2)
        return b

    for mag in (1.0, 1e-2, 1e-4, 1e-6):
        yield "unbalanced-constant-2", mag, solve(terminal_currents={"source": 5.0, "drain": -5.0 * (1 + mag)}), (ValueError,)
        yield "unbalanced-constant-3", mag, solve(_dev=dev3, terminal_currents={"source": 5.0, "drain": -2.0, "top": -3.0 + 5.0 * mag}), (ValueError,)
        # the same relative imbalance on currents of a few nA (stated in nA, and in the default uA)
        yield "unbalanced-constant-2-nA", mag, solve(_opts=dict(current_units="nA"), terminal_currents={"source": 2.0, "drain": -2.0 * (1 - mag)}), (ValueError,)
        yield "unbalanced-constant-3-tiny", mag, solve(_dev=dev3, terminal_currents={"source": 2e-3, "drain": -5e-4, "top": -1.5e-3 * (1 - mag)}), (ValueError,)
        yield "unbalanced-timedep", mag, solve(terminal_currents=(lambda m: (lambda t: {"source": 4.0 + np.sin(t), "drain": -(4.0 + np.sin(t)) * (1 - m)}))(mag)), (ValueError,)
        # ... "at any time": unbalanced during the whole recorded window [0, solve_time] of a run that also has a
        # thermalisation stage (both stages run on a clock that starts at 0), balanced at later times
        yield "unbalanced-timedep-with-thermalisation", mag, solve(_opts=dict(skip_time=0.02), terminal_currents=(lambda m: (lambda t: {"source": 4.0, "drain": -4.0 * ((1 - m) if t <= 0.02 else 1.0)}))(mag)), (ValueError,)
        yield "epsilon-gt-1", mag, solve(disorder_epsilon=1.0 + mag), (ValueError,)
        yield "epsilon-gt-1-callable", mag, solve(disorder_epsilon=(lambda m: (lambda r: 1.0 + m * (r[0] > 0)))(mag)), (ValueError,)
        yield "dt_init>dt_max", mag, solve(_opts=dict(dt_init=1e-2 * (1 + mag), dt_max=1e-2)), (SolverOptionsError,)
        yield "terminal_psi>1", mag, solve(_opts=dict(terminal_psi=1.0 + mag)), (SolverOptionsError,)
        yield "multiplier>=1", mag, solve(_opts=dict(adaptive_time_step_multiplier=1.0 + (0.0 if mag == 1.0 else mag))), (SolverOptionsError,)
        yield "drag>1", mag, solve(_opts=dict(screening_step_drag=1.0 + mag)), (SolverOptionsError,)
        yield "step_size<=0", mag, solve(_opts=dict(screening_step_size=-mag)), (SolverOptionsError,)
        yield "tolerance<=0", mag, solve(_opts=dict(screening_tolerance=-mag)), (SolverOptionsError,)
    # options made inconsistent AFTER the solver object was built (one options object reused in a sweep): solve() itself
    # must reject them before it creates any output
    def late(**bad):
        def b(out):
            from tdgl.solver.solver import TDGLSolver

            o = runs.options(output_file=out, solve_time=0.02)
            sv = TDGLSolver(device=dev, options=o, terminal_currents={"source": 1.0, "drain": -1.0})
            for k_, v_ in bad.items():
                setattr(o, k_, v_)
            return sv.solve()
        return b

    yield "late:dt_init>dt_max", "gross", late(dt_init=0.5, dt_max=0.1), (SolverOptionsError,)
    yield "late:multiplier>=1", "gross", late(adaptive_time_step_multiplier=1.5), (SolverOptionsError,)
    yield "late:terminal_psi>1", "gross", late(terminal_psi=2.0), (SolverOptionsError,)
    yield "late:tolerance=0", "gross", late(screening_tolerance=0.0), (SolverOptionsError,)
    yield "late:unknown-solver", "gross", late(sparse_solver="nosuchsolver"), (SolverOptionsError,)
    yield "unknown-terminal", "gross", solve(terminal_currents={"source": 1.0, "nosuch": -1.0}), (ValueError,)
    yield "multiplier<=0", "gross", solve(_opts=dict(adaptive_time_step_multiplier=0.0)), (SolverOptionsError,)
    yield "drag<=0", "gross", solve(_opts=dict(screening_step_drag=0.0)), (SolverOptionsError,)
    yield "step_size=0", "gross", solve(_opts=dict(screening_step_size=0.0)), (SolverOptionsError,)
    yield "tolerance=0", "gross", solve(_opts=dict(screening_tolerance=0.0)), (SolverOptionsError,)
    yield "gpu-without-cupy", "gross", solve(_opts=dict(gpu=True)), (SolverOptionsError,)
    yield "unknown-solver", "gross", solve(_opts=dict(sparse_solver="nosuchsolver")), (SolverOptionsError,)
    yield "cupy-solver-without-gpu", "gross", solve(_opts=dict(sparse_solver="cupy")), (SolverOptionsError,)
    yield "umfpack-missing", "gross", solve(_opts=dict(sparse_solver="umfpack")), (SolverOptionsError,)
    yield "pardiso-missing", "gross", solve(_opts=dict(sparse_solver="pardiso")), (SolverOptionsError,)

    # terminal that touches no boundary
    def empty_terminal(out):
        d = tdgl.Device("d", layer=zoo.layer(), film=P("film", points=box(5, 3, points=41)),
                        terminals=[P("source", points=box(0.1, 2.7, center=(-2.5, 0))), P("drain", points=box(0.4, 0.4, center=(0.3, 0.2)))])
        d.make_mesh(max_edge_length=1.0)
        return tdgl.solve(d, runs.options(output_file=out, solve_time=0.02))
    yield "terminal-no-boundary", "gross", empty_terminal, (ValueError,)

    # ... and one that holds a boundary VERTEX (a corner of the film) but covers no boundary edge: its length on the
    # boundary is zero, the current density it would inject is infinite
    def corner_terminal(size):
        def b(out):
            d = tdgl.Device("d", layer=zoo.layer(), film=P("film", points=box(5, 3, points=41)),
                            terminals=[P("source", points=box(0.1, 2.7, center=(-2.5, 0))), P("drain", points=box(size, size, center=(2.5, 1.5)))])
            d.make_mesh(max_edge_length=1.0)
            return tdgl.solve(d, runs.options(output_file=out, solve_time=0.02))
        return b
    for size in (0.05, 1e-3, 1e-6):
        yield "terminal-covers-no-boundary-edge", size, corner_terminal(size), (ValueError,)

    # seed solution from a different device
    seed = tdgl.solve(other, runs.options(solve_time=0.02, save_every=10))
    yield "seed-other-device", "gross", solve(seed_solution=seed), (ValueError,)

    # ... and from devices that differ from the simulated one in ONE respect only (same name, layer and film):
    # one more / one fewer hole or terminal (sorting last or first by name), a moved hole, another London length
    from tdgl.geometry import circle

    def variant(holes=(), extra_terminals=(), lam=None, thick=None):
        L = dev.layer.copy()
        if lam is not None:
            L.london_lambda = lam
        if thick is not None:
            L.thickness = thick
        d = tdgl.Device(dev.name, layer=L, film=dev.film.copy(), holes=list(holes), terminals=[t.copy() for t in dev.terminals] + list(extra_terminals),
                        probe_points=dev.probe_points, length_units=dev.length_units)
        for mel in (1.4, 1.2, 1.0, 0.8):
            try:
                d.make_mesh(max_edge_length=mel)
                return d
            except ValueError:
                continue
        raise V.Infra("could not mesh a seed-device variant")

    hole_z = P("zhole", points=circle(0.5, points=17, center=(0.4, 0.1)))
    hole_a = P("ahole", points=circle(0.4, points=13, center=(-1.2, -0.3)))
    hole_z_moved = P("zhole", points=circle(0.5, points=17, center=(0.6, 0.1)))
    top = P("top", points=box(2.0, 0.1, center=(0, 1.5)))
    atap = P("atap", points=box(1.5, 0.1, center=(0.3, -1.5)))
    base = variant()
    pairs = [
        ("plain->one-hole", base, variant(holes=[hole_z])),
        ("one-hole->plain", variant(holes=[hole_z]), base),
        ("one-hole->two-holes", variant(holes=[hole_a]), variant(holes=[hole_a, hole_z])),
        ("hole-moved", variant(holes=[hole_z]), variant(holes=[hole_z_moved])),
        ("two-terminals->three(last)", base, variant(extra_terminals=[top])),
        ("three(last)->two-terminals", variant(extra_terminals=[top]), base),
        ("two-terminals->three(first)", base, variant(extra_terminals=[atap])),
        ("other-london-length", variant(lam=dev.layer.london_lambda * 1.5), base),
        # another film with the SAME effective penetration depth lambda^2 / d (bit for bit): still another device
        ("other-film-same-Lambda", variant(lam=dev.layer.london_lambda * 2.0, thick=dev.layer.thickness * 4.0), base),
        ("other-thickness", base, variant(thick=dev.layer.thickness * 2.0)),
    ]
    # Device.__eq__ / the seed guard vs the Lean model (devEq, seedGuard in Tdgl/DeviceEq.lean), on these pairs, on
    # the pairs in reverse, and on each device against a copy whose holes / terminals are listed in another order
    devs_ = [base] + [p_[1] for p_ in pairs] + [p_[2] for p_ in pairs]
    cmp_pairs = [(a_, b_) for _, a_, b_ in pairs] + [(b_, a_) for _, a_, b_ in pairs]
    for d_ in devs_[:6]:
        sh = tdgl.Device(d_.name, layer=d_.layer.copy(), film=d_.film.copy(), holes=[h_.copy() for h_ in reversed(d_.holes)],
                         terminals=[t_.copy() for t_ in reversed(d_.terminals)], probe_points=d_.probe_points, length_units=d_.length_units)
        cmp_pairs.append((d_, sh))
    lines_ = [" | ".join(("deveq",) + zoo.device_line(a_) + zoo.device_line(b_)) for a_, b_ in cmp_pairs]
    for (a_, b_), o_ in zip(cmp_pairs, V.driver(lines_)):
        ctx.corr(o_.strip() == f"eq={str(bool(a_ == b_)).lower()} guard={str(bool(a_ == b_)).lower()}", "Device.__eq__ vs devEq (Lean)",
                 dict(a=zoo.device_line(a_)[1:], b=zoo.device_line(b_)[1:], impl=bool(a_ == b_), model=o_))
    ctx.traces += len(lines_)
    for nm, dseed, dsim in pairs:
        sd = tdgl.solve(dseed, runs.options(solve_time=0.02, save_every=10))
        yield f"seed-device-differs:{nm}", "gross", solve(_dev=dsim, seed_solution=sd), (ValueError,)

    def wrong_shape(x, y, z):
        return np.zeros((len(x) + 1, 3))
    yield "vector-potential-shape", "gross", solve(applied_vector_potential=wrong_shape), (ValueError,)
    # wrong shapes that numpy could broadcast to (n_edges, 2): one number per position, a single column
    yield "vector-potential-shape:(n,)", "gross", solve(applied_vector_potential=lambda x, y, z: 0.1 * np.ones(len(x))), (ValueError, IndexError)
    yield "vector-potential-shape:(n,1)", "gross", solve(applied_vector_potential=lambda x, y, z: 0.1 * np.ones((len(x), 1))), (ValueError, IndexError)
    yield "vector-potential-shape:(n,4)", "gross", solve(applied_vector_potential=lambda x, y, z: 0.1 * np.ones((len(x), 4))), (ValueError, IndexError)

    # invalid polygons and device definitions (nothing can be written by these, but nothing may appear either)
    bowtie = np.array([[0, 0], [2, 2], [2, 0], [0, 2]], dtype=float)
    yield "polygon-self-intersecting", "gross", (lambda out: P("bad", points=bowtie)), (ValueError,)
    # a valid named polygon whose vertex array is edited IN PLACE afterwards (the setter's validation never sees it),
    # then used as a hole / as the film of a device that is meshed and solved
    def edited_in_place(which):
        def b(out):
            film = P("film", points=box(6, 4, points=41))
            hole = P("slot", points=box(2.0, 0.6, center=(0.3, 0.2)))
            target = hole if which == "hole" else film
            pts = target.points  # the public array itself
            i, j = (1, 2) if which == "hole" else (0, len(pts) // 2)
            pts[[i, j]] = pts[[j, i]]  # exchange two vertices: the outline now crosses itself
            d = tdgl.Device("d", layer=zoo.layer(), film=film, holes=[hole])
            d.make_mesh(max_edge_length=1.0)
            return tdgl.solve(d, runs.options(output_file=out, solve_time=0.02), applied_vector_potential=0.2)
        return b
    yield "hole-edited-in-place:self-intersecting", "gross", edited_in_place("hole"), (ValueError,)
    yield "film-edited-in-place:self-intersecting", "gross", edited_in_place("film"), (ValueError,)
    yield "polygon-two-points", "gross", (lambda out: P("bad", points=np.array([[0, 0], [1, 1.0]]))), (ValueError,)
    yield "terminals-duplicate-name", "gross", (lambda out: tdgl.Device("d", layer=zoo.layer(), film=P("film", points=box(5, 3)), terminals=[P("t", points=box(0.1, 2, center=(-2.5, 0))), P("t", points=box(0.1, 2, center=(2.5, 0)))])), (ValueError,)
    yield "terminal-unnamed", "gross", (lambda out: tdgl.Device("d", layer=zoo.layer(), film=P("film", points=box(5, 3)), terminals=[P(points=box(0.1, 2, center=(-2.5, 0)))])), (ValueError,)
    yield "holes-duplicate-name", "gross", (lambda out: tdgl.Device("d", layer=zoo.layer(), film=P("film", points=box(5, 3)), holes=[P("h", points=box(0.5, 0.5, center=(-1, 0))), P("h", points=box(0.5, 0.5, center=(1, 0)))])), (ValueError,)
    yield "film-unnamed", "gross", (lambda out: tdgl.Device("d", layer=zoo.layer(), film=P(points=box(5, 3)))), (ValueError,)
    yield "probe-outside-film", "gross", (lambda out: tdgl.Device("d", layer=zoo.layer(), film=P("film", points=box(5, 3)), probe_points=[(0, 0), (9.0, 0)])), (ValueError,)
    yield "probe-bad-shape", "gross", (lambda out: tdgl.Device("d", layer=zoo.layer(), film=P("film", points=box(5, 3)), probe_points=[(0, 0, 1.0), (1.0, 0, 2.0)])), (ValueError,)


def model_validate(ctx, n):
    """random option sets: SolverOptions.validate vs Opts.validate (Lean, Float)"""
    rng = ctx.rng
    have = dict(cupy=False, umfpack=False, pardiso=False)
    for name, mod in (("cupy", "cupy"), ("umfpack", "scikits.umfpack"), ("pardiso", "pypardiso")):
        try:
            __import__(mod)
            have[name] = True
        except Exception:
            pass
    lines, exp = [], []
    for _ in range(n):
        def pick(good, bad):
            return float(rng.choice(good if rng.random() < 0.8 else bad))
        o = dict(
            dt_init=pick([1e-6, 1e-3, 0.1], [0.2, 1.0]), dt_max=0.1,
            terminal_psi=(None if rng.random() < 0.2 else pick([0.0, 0.5, 1.0], [1.0000001, 2.0])),
            adaptive_time_step_multiplier=pick([0.25, 0.5, 0.999], [0.0, 1.0, -0.1, 1.5]),
            screening_step_drag=pick([0.5, 1.0, 1e-3], [0.0, 1.0000001, -1.0]),
            screening_step_size=pick([0.1, 1.0], [0.0, -0.1]),
            screening_tolerance=pick([1e-3, 1e-2], [0.0, -1e-3]),
            gpu=bool(rng.random() < 0.1),
            sparse_solver=str(rng.choice(["superlu", "superlu", "superlu", "umfpack", "pardiso", "cupy", "bogus"])),
        )
        opts = tdgl.SolverOptions(solve_time=1.0, **o)
        try:
            opts.validate()
            got = "ok"
        except SolverOptionsError as e:
            got = "error:" + str(e)[:40]
        tp = "-" if o["terminal_psi"] is None else str(V.bits(abs(o["terminal_psi"])))
        lines.append(f"validate {V.bits(o['dt_init'])} {V.bits(o['dt_max'])} {tp} {V.bits(o['adaptive_time_step_multiplier'])} {V.bits(o['screening_step_drag'])} "
                     f"{V.bits(o['screening_step_size'])} {V.bits(o['screening_tolerance'])} {int(o['gpu'])} {o['sparse_solver']} {int(have['cupy'])} {int(have['umfpack'])} {int(have['pardiso'])}")
        exp.append((got, o))
    out = V.driver(lines)
    ctx.traces += 1
    msg = {"dt_init": "dt_init must be", "terminal_psi": "terminal_psi must be", "multiplier": "adaptive_time_step_multiplier", "drag": "screening_step_drag",
           "step_size": "screening_step_size", "tolerance": "screening_tolerance", "gpu": "GPU option", "solver": "sparse solver must be", "umfpack": "SparseSolver.UMFPACK",
           "pardiso": "SparseSolver.CUPY requires an Intel", "cupy_gpu": "SparseSolver.CUPY requires SolverOptions"}
    for m, (got, o) in zip(out, exp):
        ctx.case(("validate", tuple(sorted((k, str(v)) for k, v in o.items()))), nontrivial=True)
        ctx.count("validate_ok" if got == "ok" else "validate_rejected")
        if m == "ok" or got == "ok":
            ok = (m == "ok") == (got == "ok")
        else:
            ok = got[len("error:"):].startswith(msg[m][:30]) or msg[m][:20] in got
        ctx.corr(ok, "Opts.validate (Lean) vs SolverOptions.validate", dict(options={k: str(v) for k, v in o.items()}, model=m, impl=got))


def model_currents(ctx, dev3, n):
    from tdgl.solver.solver import TDGLSolver

    rng = ctx.rng
    lines, exp = [], []
    ti = [t.name for t in dev3.terminal_info()]
    for _ in range(n):
        # the balance test is RELATIVE: currents of a few nA (or kA) with the same relative imbalance get the same verdict
        scale_ = float(rng.choice([1.0, 1.0, 1e-3, 2e-4, 1e-6, 1e3]))
        vals = rng.uniform(-9, 9, size=2) * scale_
        ctx.count(f"balance_threshold_current_scale:{scale_:g}")
        mag = float(rng.choice([0.0, 0.0, 1e-13, 1e-7, 1e-6, 1e-3, 1.0]))
        third = -(vals.sum()) + mag * np.abs(vals).max() * rng.choice([-1, 1])
        cur = dict(zip(ti, [float(vals[0]), float(vals[1]), float(third)]))
        try:
            s = TDGLSolver(device=dev3, options=runs.options(), terminal_currents=cur)
            got = True
            scaled = list(s.current_func(0).values())
        except ValueError:
            got = False
            from tdgl.em import ureg
            J = 4 * ((ureg("uA") / ureg(dev3.length_units)) / dev3.K0).to_base_units().magnitude
            scaled = [J * v for v in cur.values()]
        lines.append(f"curacc {V.bits(1e-9)} | " + " ".join(str(V.bits(x)) for x in scaled))
        exp.append((got, cur, mag))
    out = V.driver(lines)
    ctx.traces += 1
    for m, (got, cur, mag) in zip(out, exp):
        ctx.case(("currents", tuple(cur.values())), nontrivial=mag in (1e-13, 1e-7, 1e-6))
        ctx.count("currents_accepted" if got else "currents_rejected")
        ctx.corr((m == "true") == got, "currentsAccepted (Lean) vs validate_terminal_currents", dict(currents=cur, model=m, impl=got))
        if (mag >= 1e-6 and got) or (mag <= 1e-13 and not got):
            rp = dict(currents=cur, relative_imbalance=mag)
            ctx.fail("balance-threshold", f"currents with relative imbalance {mag} were {'accepted' if got else 'rejected'}", rp)


def run(ctx, stop_first=False, with_model=True):
    dev = zoo.make_device("bar", ctx.rng, max_edge_length=1.4)
    dev3 = zoo.make_device("bar3", ctx.rng, max_edge_length=1.4)
    other = zoo.make_device("ring", ctx.rng, max_edge_length=1.4)
    first = None
    for label, mag, build, excs in classes(ctx, dev, dev3, other):
        for with_path in (True, False):
            wd = tempfile.mkdtemp(dir=str(ctx.work))
            f = expect_reject(ctx, label, mag, build, excs, wd, with_path)
            if f and first is None:
                first = f
                if stop_first:
                    return first
    if with_model:
        model_validate(ctx, 150 if ctx.quick else 2000)
        model_currents(ctx, dev3, 40 if ctx.quick else 400)
    if len(ctx.samples) < 3:
        ctx.samples.append(dict(classes=sorted({k[6:] for k in ctx.dist if k.startswith("class:")})))
    return first


def search(ctx):
    return run(ctx, stop_first=True, with_model=False)


def replay(payload):
    ctx = V.Ctx("C19", "quick", int(payload.get("seed", 0)))
    try:
        run(ctx, with_model=False)
        return not any(f["key"] == payload.get("key") for f in ctx.oracle_fails)
    finally:
        ctx.cleanup()
