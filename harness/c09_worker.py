"""Worker of the C09 check: runs in a fresh process with NUMBA_NUM_THREADS set by the parent, builds the
device + mesh from scratch, runs the configured simulations and prints one JSON line of hashes."""
import hashlib
import json
import os
import sys

sys.path.insert(0, os.path.dirname(os.path.abspath(__file__)))
os.environ.setdefault("TQDM_DISABLE", "1")
import h5py
import numpy as np

import runs
import zoo
import tdgl

SKIP_ATTRS = {"timestamp"}


def sha(a):
    a = np.ascontiguousarray(np.asarray(a))
    return hashlib.sha256(a.tobytes() + str(a.dtype).encode() + str(a.shape).encode()).hexdigest()


def hash_file(path):
    """every dataset and every attribute except wall-clock ones"""
    out = {}

    def visit(name, obj):
        if isinstance(obj, h5py.Dataset):
            if name.startswith("solution/") and ("pickle" in name):
                return
            out[name] = sha(obj[()])
        for k, v in obj.attrs.items():
            if k in SKIP_ATTRS or k in ("time_created", "total_seconds"):
                continue
            if name.startswith("version_info") or name.startswith("solution/options") and k == "output_file":
                continue
            out[f"{name}@{k}"] = repr(v) if not isinstance(v, np.ndarray) else sha(v)

    with h5py.File(path, "r") as f:
        f.visititems(visit)
    return out


def ramp(x, y, z, *, t, rate=8.0):
    return min(1.0, rate * t)


def dyn_eps(r, *, t):
    """a critical temperature that varies in space and in time (keyword-only t: re-evaluated at every step)"""
    r = np.atleast_2d(r)
    return 1.0 - 0.6 * np.exp(-((r[:, 0] - 0.4) ** 2 + (r[:, 1] + 0.2) ** 2)) * (0.3 + min(1.0, 9.0 * t)) / 1.3 if r.shape[0] > 1 else float(
        1.0 - 0.6 * np.exp(-((r[0, 0] - 0.4) ** 2 + (r[0, 1] + 0.2) ** 2)) * (0.3 + min(1.0, 9.0 * t)) / 1.3)


def vec(x, y, z, *, B=0.5):
    return np.stack([-B * y / 2, B * x / 2, np.zeros_like(x)], axis=1)


def main():
    cfg = json.loads(sys.argv[1])
    rng = np.random.default_rng(12345)
    dev = zoo.make_device(cfg["dev"], rng, max_edge_length=cfg.get("mel", 1.0), lam=cfg.get("lam", 2.0), smooth=cfg.get("smooth", 0))
    res = {"threads": os.environ.get("NUMBA_NUM_THREADS"), "mesh": {k: sha(v) for k, v in dict(
        sites=dev.mesh.sites, elements=dev.mesh.elements, areas=dev.mesh.areas, edges=dev.mesh.edge_mesh.edges,
        dual=dev.mesh.edge_mesh.dual_edge_lengths, lengths=dev.mesh.edge_mesh.edge_lengths, boundary=dev.mesh.edge_mesh.boundary_edge_indices,
        voronoi=np.concatenate([np.asarray(p_, dtype=float).ravel() for p_ in dev.mesh.voronoi_polygons]),
        voronoi_sizes=np.array([len(p_) for p_ in dev.mesh.voronoi_polygons])).items()}}
    res["mesh"]["sites_n"] = int(len(dev.mesh.sites))
    A = tdgl.Parameter(vec, B=cfg.get("B", 0.5))
    if cfg.get("timedep"):
        A = tdgl.Parameter(ramp, rate=8.0, time_dependent=True) * A
    if cfg.get("tabulated"):
        class Tabulated:
            """returns the stored table (the same ndarray object at every call)"""

            def __init__(self):
                self.table = None

            def __call__(self, x, y, z):
                if self.table is None or len(self.table) != len(x):
                    self.table = np.asarray(vec(x, y, z, B=cfg.get("B", 0.5)), dtype=float).copy()
                return self.table

        A = Tabulated()
    cur = None
    if cfg.get("timedep_current"):
        cur = lambda t: {"source": 2.0 + np.sin(3 * t), "drain": -(2.0 + np.sin(3 * t))}
    elif cfg.get("pulsed_current"):
        # zero bias except for one short pulse (1 % of the run): nothing that samples the drive at random times
        # may decide how it is applied
        T_ = cfg.get("T", 0.15)
        cur = lambda t: {"source": (6.0 if 0.4 * T_ <= t < 0.41 * T_ else 0.0), "drain": -(6.0 if 0.4 * T_ <= t < 0.41 * T_ else 0.0)}
    elif cfg.get("currents4"):
        cur = dict(zip(["source", "drain", "top", "bottom"], cfg["currents4"]))
    elif cfg.get("current"):
        cur = {"source": cfg["current"], "drain": -cfg["current"]}
    EPS = dict(disorder_epsilon=dyn_eps) if cfg.get("dyn_eps") else {}
    out = cfg.get("out")
    if out and os.path.exists(out):
        os.remove(out)
    opts = runs.options(solve_time=cfg.get("T", 0.2), dt_init=cfg.get("dt", 5e-3), dt_max=5e-2, adaptive=cfg.get("adaptive", False), adaptive_window=2,
                        save_every=cfg.get("save_every", 3), output_file=out, **(dict(progress_interval=cfg["progress"]) if cfg.get("progress") else {}), include_screening=cfg.get("screening", False), screening_tolerance=1e-3)
    if cfg.get("occupy") and out:
        # the requested path already holds the output of an earlier run of ANOTHER problem (a script run again after its
        # field was changed): the new run must neither read nor report anything of it
        tdgl.solve(dev, runs.options(solve_time=cfg.get("T", 0.2) / 2, dt_init=cfg.get("dt", 5e-3), adaptive=False, save_every=3, output_file=out),
                   applied_vector_potential=tdgl.Parameter(vec, B=1.3 * cfg.get("B", 0.5) + 0.2), terminal_currents=cur)
    seed = None
    if cfg.get("seeded"):
        # a short run whose final state seeds the runs that are compared (the seed object is reused below)
        seed = tdgl.solve(dev, runs.options(solve_time=0.03, dt_init=cfg.get("dt", 5e-3), adaptive=False, save_every=3, include_screening=cfg.get("screening", False),
                                            screening_tolerance=1e-3), applied_vector_potential=A, terminal_currents=cur)
    sol = tdgl.solve(dev, opts, applied_vector_potential=A, terminal_currents=cur, seed_solution=seed, **EPS)
    if out:
        res["file"] = hash_file(sol.path)
    fin = lambda s_: {k: sha(getattr(s_.tdgl_data, k)) for k in ("psi", "mu", "supercurrent", "normal_current", "induced_vector_potential")}
    res["final"] = fin(sol)
    res["dt"] = sha(sol.dynamics.dt)
    res["dynamics"] = {k: (None if getattr(sol.dynamics, k, None) is None else sha(getattr(sol.dynamics, k))) for k in ("mu", "theta", "screening_iterations")}
    res["times"] = sha(sol.times)
    # "bit-identical meshes": one specification meshed, another device meshed in between, the first specification meshed again --
    # in this same process (nothing of an earlier mesh generation may enter a later one)
    def _spec_mesh(kind, **kw):
        d_ = zoo.make_device(kind, np.random.default_rng(7), mesh=False)
        d_.make_mesh(**kw)
        return {"sites": sha(d_.mesh.sites), "elements": sha(d_.mesh.elements), "n": int(len(d_.mesh.sites))}

    m_first = _spec_mesh("bar_hole", min_points=500, smooth=0)
    _spec_mesh("ring", max_edge_length=0.35, smooth=2)
    m_again = _spec_mesh("bar_hole", min_points=500, smooth=0)
    m_third = _spec_mesh("bar_hole", max_edge_length=0.6, smooth=0)
    _spec_mesh("bar", min_points=900, smooth=0)
    m_third_again = _spec_mesh("bar_hole", max_edge_length=0.6, smooth=0)
    res["remesh_in_process"] = {"first": [m_first, m_third], "again": [m_again, m_third_again]}
    # "repeating a simulation with identical inputs": once more in this same process, with the same objects
    import dataclasses
    opts2 = dataclasses.replace(opts, output_file=None)
    sol2 = tdgl.solve(dev, opts2, applied_vector_potential=A, terminal_currents=cur, seed_solution=seed, **EPS)
    res["repeat_in_process"] = {"final": fin(sol2), "dt": sha(sol2.dynamics.dt)}
    res["first_in_process"] = {"final": fin(sol), "dt": res["dt"]}
    # the parallel kernels on a fixed random input
    from tdgl.solver.screening import get_A_induced_numba
    from tdgl import distance
    from tdgl.em import biot_savart_2d

    r2 = np.random.default_rng(99)
    n, m = 150, 90
    sites, centers, J, areas = r2.uniform(-3, 3, (n, 2)), r2.uniform(-3, 3, (m, 2)), r2.normal(size=(n, 2)), r2.uniform(0.01, 0.5, n)
    buf = np.empty((m, 2))
    get_A_induced_numba(J, areas, sites, centers, buf)
    res["kernels"] = {"A_induced": sha(buf), "cdist": sha(distance.cdist(centers, sites)), "sqcdist": sha(distance.cdist(centers, sites, metric="sqeuclidean")),
                      "bs_z": sha(biot_savart_2d(centers[:, 0], centers[:, 1], 0.7, positions=sites, current_densities=J, areas=areas, vector=False).magnitude),
                      "bs_vec": sha(biot_savart_2d(centers[:, 0], centers[:, 1], 0.7, positions=sites, current_densities=J, areas=areas, vector=True).magnitude)}
    if cfg.get("sweep"):
        # a parameter sweep on ONE device object: the last run of the sweep must equal the identical simulation on a
        # freshly built identical device (nothing kept from the earlier runs of the process may enter it)
        lam2 = cfg.get("lam", 2.0) * 0.6
        dev.layer.london_lambda = lam2
        swept = tdgl.solve(dev, opts2, applied_vector_potential=A, terminal_currents=cur)
        fresh_dev = zoo.make_device(cfg["dev"], np.random.default_rng(12345), max_edge_length=cfg.get("mel", 1.0), lam=lam2, smooth=cfg.get("smooth", 0))
        same_mesh = sha(fresh_dev.mesh.sites) == res["mesh"]["sites"] and sha(fresh_dev.mesh.elements) == res["mesh"]["elements"]
        fresh = tdgl.solve(fresh_dev, opts2, applied_vector_potential=A, terminal_currents=cur)
        res["sweep"] = {"same_mesh": same_mesh, "swept": {"final": fin(swept), "dt": sha(swept.dynamics.dt)}, "fresh": {"final": fin(fresh), "dt": sha(fresh.dynamics.dt)}}
    # ... and on larger inputs (more sites / points than any block size or chunking threshold a kernel might use)
    for n, m in ((700, 1300), (1024, 600), (2500, 900), (6000, 257)):
        sites, centers, J, areas = r2.uniform(-3, 3, (n, 2)), r2.uniform(-3, 3, (m, 2)), r2.normal(size=(n, 2)), r2.uniform(0.01, 0.5, n)
        buf = np.empty((m, 2))
        get_A_induced_numba(J, areas, sites, centers, buf)
        res["kernels"][f"A_induced_{n}x{m}"] = sha(buf)
        res["kernels"][f"cdist_{n}x{m}"] = sha(distance.cdist(centers, sites))
        res["kernels"][f"bs_z_{n}x{m}"] = sha(biot_savart_2d(centers[:, 0], centers[:, 1], 0.7, positions=sites, current_densities=J, areas=areas, vector=False).magnitude)
        res["kernels"][f"bs_vec_{n}x{m}"] = sha(biot_savart_2d(centers[:, 0], centers[:, 1], 0.7, positions=sites, current_densities=J, areas=areas, vector=True).magnitude)
    print("RESULT " + json.dumps(res))


if __name__ == "__main__":
    main()
