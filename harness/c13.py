"""C13 — screening returns a self-consistent induced vector potential or fails.

(a) kernel: `get_A_induced_numba` vs the Float fold of the Lean model (evaluated in a reversed outer schedule on a
    garbage buffer) and vs an independent numpy double sum, for arbitrary currents / areas / point sets;
(b) real screened runs (tolerances 1e-2..1e-4, several (alpha, beta)): on every saved frame the stored induced
    potential is compared with (mu0/4pi) sum K a / r recomputed from the stored currents in SI; the per-iteration
    errors are logged and the Lean loop model is replayed on them (iteration count, exit);
(c) non-convergence (max_iterations_per_step = 2) must raise; screening disabled gives A_induced = 0.
"""
from __future__ import annotations

import os

import numpy as np
import scipy.constants as sc

import runs
import vcommon as V
import zoo
import tdgl

LEVEL = "proof"
RULE = (
    "kernel: random point sets (20-300 sites), currents with mixed signs and magnitudes, edge centres off the "
    "sites; runs: devices x tolerance in {1e-2,1e-3,1e-4} x (alpha, beta) settings x fields, every saved frame "
    "with step > 0 is a case; non-trivial = frame with non-zero currents"
)
EXPLANATION = (
    "Lean theorems C13_* (exact mismatch identity of the heavy-ball update, exit only below tolerance with the state "
    "of the tested iteration, non-convergence raises after maxIt+1 iterations, disabled screening leaves A = 0) and "
    "C09_* for the parallel kernel; the numba kernel is compared with the model's fold and an independent double sum; "
    "stored potentials are recomputed from stored currents in SI."
)
ASSUMPTIONS = [
    "kernel compared to 1e-12 * sum|terms| (numba fastmath may reassociate / fuse)",
    "self-consistency bound: |A_stored - kernel(J_stored)| <= 3 * tol * max|A| (the 'modest multiple' is empirical; observed 0.3-0.8)",
]


def numba_kernel():
    from tdgl.solver.screening import get_A_induced_numba

    return get_A_induced_numba


def kernel_cases(ctx, with_model=True):
    rng = ctx.rng
    first = None
    k = numba_kernel()
    for rep in range(4 if ctx.quick else 30):
        n = int(rng.integers(20, 120 if ctx.quick else 300))
        m = int(rng.integers(10, 80))
        # the coordinates are in the device's length unit, whatever it is: micrometres, a micron-scale film stated in
        # metres (separations ~1e-7), one stated in nanometres
        Lu = [1.0, 1e-7, 2.5e3, 1.0, 3e-9][rep % 5]
        ctx.count(f"kernel_length_scale:{Lu:g}")
        sites = rng.uniform(-3, 3, size=(n, 2)) * Lu
        centers = rng.uniform(-3, 3, size=(m, 2)) * Lu
        J = rng.normal(size=(n, 2)) * rng.choice([1e-3, 1.0, 50.0])
        areas = rng.uniform(0.01, 0.5, size=n) * Lu**2
        out = np.full((m, 2), np.nan)
        k(J, areas, sites, centers, out)
        d = np.sqrt(((centers[:, None, :] - sites[None, :, :]) ** 2).sum(axis=2)).astype(np.longdouble)
        ref = np.einsum("jk,j,ij->ik", J.astype(np.longdouble), areas.astype(np.longdouble), 1 / d)
        scale = np.einsum("jk,j,ij->ik", np.abs(J), areas, 1 / d.astype(float))
        err = np.abs(out - ref.astype(float)) / scale
        ctx.tol("numba kernel vs independent double sum (rel to sum|terms|)", float(err.max()), 1e-12)
        ctx.case(("kernel", n, m, Lu, float(J[0, 0])), nontrivial=True)
        ctx.count("kernel_cases")
        if not np.isfinite(out).all() or err.max() > 1e-12:
            rp = dict(n=n, m=m, rep=rep, length_scale=Lu, err=float(np.nanmax(err)))
            ctx.fail("kernel-differs", f"accelerated kernel differs from the direct double sum (rel {np.nanmax(err):.2e})", rp)
            first = first or dict(key="kernel-differs", what="kernel", **rp)
        if with_model:
            line = "kernA | " + " | ".join(zoo.fl(a) for a in (J[:, 0], J[:, 1], areas, sites[:, 0], sites[:, 1], centers[:, 0], centers[:, 1]))
            (o,) = V.driver([line])
            ctx.traces += 1
            mo = zoo.parse_f(o).reshape(m, 2)
            e2 = np.abs(mo - out) / scale
            ctx.tol("kernelA(Float, reversed schedule) vs numba kernel (rel to sum|terms|)", float(e2.max()), 1e-12)
            ctx.corr(bool(e2.max() <= 1e-12), "kernelA/runSchedule (Lean, Float) vs get_A_induced_numba", dict(n=n, m=m, worst=float(e2.max())))
    return first


class ErrLog:
    def __enter__(self):
        from tdgl.solver.solver import TDGLSolver

        self.cls = TDGLSolver
        self.orig = TDGLSolver.get_induced_vector_potential
        self.steps = []
        self.cur = []
        me = self

        def wrapped(s, *a, **kw):
            A, e = me.orig(s, *a, **kw)
            me.cur.append(float(e))
            return A, e

        self.o_update = TDGLSolver.update

        def update(s, *a, **kw):
            me.cur = []
            try:
                return me.o_update(s, *a, **kw)
            finally:
                me.steps.append(me.cur)

        TDGLSolver.get_induced_vector_potential = wrapped
        TDGLSolver.update = update
        return self

    def __exit__(self, *a):
        self.cls.get_induced_vector_potential = self.orig
        self.cls.update = self.o_update


def si_kernel(dev, J_edge):
    """(mu0/4pi) sum K a / r on the edge centres, from SI constants, in units of A0 (dimensionless)"""
    mesh = dev.mesh
    to_m = dev.ureg(dev.length_units).to("m").magnitude
    xi = dev.layer.coherence_length * to_m
    lam = dev.layer.london_lambda * to_m
    d = dev.layer.thickness * to_m
    Phi0 = sc.h / (2 * sc.e)
    Bc2 = Phi0 / (2 * np.pi * xi**2)
    A0 = xi * Bc2
    K0 = 4 * xi * Bc2 / (sc.mu_0 * lam**2 / d)
    Jsite = mesh.get_quantity_on_site(J_edge)  # dimensionless sheet current on sites
    centers = 0.5 * (mesh.sites[mesh.edge_mesh.edges[:, 0]] + mesh.sites[mesh.edge_mesh.edges[:, 1]])  # from the sites, not from the mesh's own list of edge centres
    r = np.sqrt(((centers[:, None, :] - mesh.sites[None, :, :]) ** 2).sum(axis=2)) * xi
    a = mesh.areas * xi**2
    A = sc.mu_0 / (4 * np.pi) * np.einsum("jk,j,ij->ik", K0 * Jsite, a, 1 / r)
    return A / A0


def run_cases(ctx, with_model=True, stop_first=False):
    first = None
    cfgs = [
        dict(dev="ring", tol=1e-2, a=0.1, b=0.5, B=0.5),
        dict(dev="bar_hole", tol=1e-3, a=0.3, b=0.7, B=0.4, cur={"source": 2.0, "drain": -2.0}),
    ]
    # the same kind of problem on a device stated in nm: the kernel weights carry a length
    cfgs.append(dict(dev="ring", tol=1e-3, a=0.3, b=0.6, B=0.5, units="nm"))
    # the boundary value of the drag (no momentum: plain under-relaxed fixed-point iteration)
    cfgs.append(dict(dev="ring", tol=1e-3, a=0.5, b=1.0, B=0.6))
    # a small step size with the default drag: the heavy-ball velocity is then ~ step/drag times the residual, so an exit
    # test on the change of the iterate (instead of on kernel(iterate) - iterate) would stop 25 times too early
    cfgs.append(dict(dev="ring", tol=1e-3, a=0.02, b=0.5, B=0.5))
    # the device moved in place AFTER it was meshed (a sample scanned under a fixed source): the kernel is evaluated where the
    # edges are now
    cfgs.append(dict(dev="ring", tol=1e-3, a=0.3, b=0.6, B=0.5, moved=(7.0, -3.0)))
    # a film that does not lie in the plane z = 0 (Layer.z0 != 0): the current sheet and the points where its potential is
    # evaluated are both at z0, so the kernel distance is the in-plane distance whatever the height of the film
    cfgs.append(dict(dev="ring", tol=1e-3, a=0.3, b=0.6, B=0.5, z0=0.7))
    # a field that is still being ramped while the steps are taken: the normal current then has a -dA/dt part, and the
    # screening source is the WHOLE stored sheet current
    cfgs.append(dict(dev="ring", tol=1e-3, a=0.3, b=0.6, B=0.8, ramped=True))
    # a thermalisation stage first: the state it ends with is recorded as frame 0 and must be as self-consistent as any other
    cfgs.append(dict(dev="bar_hole", tol=1e-4, a=0.3, b=0.7, B=0.5, cur={"source": 3.0, "drain": -3.0}, skip=0.03))
    if not ctx.quick:
        cfgs += [dict(dev="ring", tol=1e-4, a=0.1, b=0.5, B=0.8), dict(dev="union", tol=1e-3, a=0.5, b=1.0, B=0.6), dict(dev="bar", tol=1e-2, a=1.0, b=1.0, B=0.3, cur={"source": 3.0, "drain": -3.0})]
    # history: a second screened solve on a copy that SHARES the mesh object, with other material constants
    # (a sweep of Lambda), must be as self-consistent as the first one -- nothing cached from an earlier solve
    # may leak into it
    todo = []
    for i, cfg in enumerate(cfgs):
        todo.append(dict(cfg, reuse=False))
        if i == 0 or not ctx.quick:
            todo.append(dict(cfg, reuse=True))
    prev = None
    for cfg in todo:
        if cfg["reuse"]:
            dev = prev.copy(with_mesh=True)
            dev.layer.london_lambda = prev.layer.london_lambda * 1.7
            dev.layer.thickness = prev.layer.thickness * 0.8
            ctx.count("solves_on_a_reused_mesh")
        else:
            ukw = dict(length_units=cfg["units"], scale={"nm": 1000.0, "mm": 1e-3}[cfg["units"]]) if cfg.get("units") else {}
            dev = zoo.make_device(cfg["dev"], ctx.rng, max_edge_length=1.0, lam=0.4, d=0.1, **ukw)  # small Lambda: strong screening
        if cfg.get("z0") and not cfg["reuse"]:
            dev.layer.z0 = cfg["z0"] * dev.layer.coherence_length
            ctx.count("solves_on_a_film_off_the_plane_z0")
        if cfg.get("moved") and not cfg["reuse"]:
            dev.translate(dx=cfg["moved"][0] * dev.layer.coherence_length, dy=cfg["moved"][1] * dev.layer.coherence_length, inplace=True)
            ctx.count("solves_on_a_device_translated_in_place_after_meshing")
        prev = dev
        out = os.path.join(str(ctx.work), f"c13_{cfg['dev']}_{cfg['tol']}_{int(cfg['reuse'])}_{cfg.get('units', 'um')}_{int(bool(cfg.get('moved')))}_{int(bool(cfg.get('z0')))}.h5")
        if os.path.exists(out):
            os.remove(out)
        opts = runs.options(solve_time=0.1, dt_init=1e-2, save_every=2, output_file=out, include_screening=True, screening_tolerance=cfg["tol"],
                            screening_step_size=cfg["a"], screening_step_drag=cfg["b"], **(dict(skip_time=cfg["skip"]) if cfg.get("skip") else {}))
        tag = dict(device=cfg["dev"], tol=cfg["tol"], alpha=cfg["a"], beta=cfg["b"], reused_mesh=cfg["reuse"], london_lambda=float(dev.layer.london_lambda), thickness=float(dev.layer.thickness))

        def fail(key, what, **extra):
            nonlocal first
            rp = dict(tag, **extra)
            ctx.fail(key, what, rp)
            if first is None:
                first = dict(key=key, what=what, **rp)

        Aapp = cfg["B"]
        if cfg.get("ramped"):
            from tdgl.sources import ConstantField, LinearRamp

            Aapp = LinearRamp(tmin=0.0, tmax=0.2) * ConstantField(cfg["B"], field_units="mT", length_units=dev.length_units)
        with ErrLog() as log:
            sol = tdgl.solve(dev, opts, applied_vector_potential=Aapp, terminal_currents=cfg.get("cur"))
        frames, _ = runs.parse_h5(sol.path)
        for fr in frames:
            if fr["step"] == 0 and not cfg.get("skip"):
                continue  # the initial condition (without thermalisation: no currents, no induced potential yet)
            d_ = fr["data"]
            A = d_["induced_vector_potential"]
            ref = si_kernel(dev, d_["supercurrent"] + d_["normal_current"])
            sc_ = max(float(np.linalg.norm(A, axis=1).max()), 1e-300)
            mism = float(np.linalg.norm(A - ref, axis=1).max()) / sc_
            ctx.tol(f"self-consistency / tol (tol={cfg['tol']})", mism / cfg["tol"], 3.0)
            ctx.case((cfg["dev"], cfg["tol"], cfg["a"], cfg["b"], cfg["reuse"], cfg.get("units", "um"), bool(cfg.get("moved")), bool(cfg.get("ramped")), bool(cfg.get("skip")), bool(cfg.get("z0")), fr["step"]), nontrivial=bool(np.any(A)))
            ctx.count("frames_checked")
            if mism > 3.0 * cfg["tol"]:
                fail("not-self-consistent" + (":reused-mesh" if cfg["reuse"] else ""), f"{'second solve on a shared mesh with other London length/thickness, ' if cfg['reuse'] else ''}step {fr['step']}: stored A differs from (mu0/4pi) sum K a / r of the stored currents by {mism:.2e} (tolerance {cfg['tol']})", step=fr["step"], mismatch=mism)
                if stop_first:
                    return first
                break
        # every accepted step ended with error < tol, iteration counts as recorded
        its = np.asarray(sol.dynamics.screening_iterations).astype(int)
        steps = [s for s in log.steps if s]
        if cfg.get("skip"):
            steps = steps[len(steps) - len(its):]  # the per-step records belong to the recorded stage: drop the thermalisation steps
        for i, errs in enumerate(steps[: len(its)]):
            if not (errs[-1] < cfg["tol"]):
                fail("accepted-unconverged", f"step {i} accepted with last screening error {errs[-1]:.2e} >= tol", step=i)
            if any(e < cfg["tol"] for e in errs[:-1]):
                fail("iterated-past-convergence", f"step {i} kept iterating after the error dropped below the tolerance", step=i)
            if its[i] != len(errs):
                fail("iteration-count", f"step {i}: recorded screening_iterations={its[i]} but {len(errs)} iterations ran", step=i)
        if with_model and steps:
            lines = [f"screen {V.bits(cfg['tol'])} {opts.max_iterations_per_step} | " + zoo.fl(errs) for errs in steps[: len(its)]]
            outl = V.driver(lines)
            ctx.traces += len(lines)
            for i, (o, errs) in enumerate(zip(outl, steps)):
                ctx.corr(o.strip() == f"converged {len(errs)}", "screenLoop (Lean) replayed on the observed errors vs the real loop", dict(tag, step=i, model=o, impl=len(errs)))
        if len(ctx.samples) < 3:
            ctx.samples.append(dict(tag, frames=len(frames), iterations=its[:8].tolist(), first_errors=[steps[0][:4]] if steps else []))
    # non-convergence must raise
    dev = zoo.make_device("ring", ctx.rng, max_edge_length=1.0, lam=0.4, d=0.1)
    with ErrLog() as nlog:
        try:
            tdgl.solve(dev, runs.options(solve_time=0.05, dt_init=1e-2, include_screening=True, screening_tolerance=1e-12, max_iterations_per_step=2), applied_vector_potential=0.5)
            if any(not (s_[-1] < 1e-12) for s_ in nlog.steps if s_):
                ctx.fail("nonconvergence-silent", "screening could not converge within max_iterations_per_step=2 but no error was raised", dict(max_iterations_per_step=2))
                first = first or dict(key="nonconvergence-silent", what="no error raised")
        except RuntimeError:
            ctx.count("nonconvergence_raised")
    # slow convergence (a small but legitimate step size, no drag reduction): the error creeps down by much less than
    # a per cent per iteration and is nowhere near the tolerance when the iteration budget ends -> must raise, and
    # every iteration of the budget must have been used
    import numba

    nthreads = numba.get_num_threads()
    numba.set_num_threads(min(nthreads, 2))  # ~1500 tiny kernel calls: two threads are as fast and do not fight with other jobs
    with ErrLog() as slog:
        try:
            tdgl.solve(dev, runs.options(solve_time=0.05, dt_init=1e-2, include_screening=True, screening_tolerance=1e-3, screening_step_size=2e-4, screening_step_drag=1.0,
                                         max_iterations_per_step=1500), applied_vector_potential=0.5)
            last = [s_ for s_ in slog.steps if s_]
            unconverged = [s_ for s_ in last if not (s_[-1] < 1e-3)]
            if unconverged:
                rp = dict(max_iterations_per_step=1500, screening_step_size=2e-4, screening_step_drag=1.0, iterations=[len(s_) for s_ in last][:4], last_error=unconverged[0][-1])
                ctx.fail("nonconvergence-silent:slow", f"slowly converging screening (step size 2e-4) was accepted after {rp['iterations']} iterations with error {rp['last_error']} >= tolerance 1e-3; no error was raised", rp)
                first = first or dict(key="nonconvergence-silent:slow", what="slow convergence accepted", **rp)
            else:
                ctx.count("slow_configuration_converged_within_budget")  # legitimate: every accepted step ended below the tolerance
        except RuntimeError:
            ctx.count("slow_nonconvergence_raised")
        finally:
            numba.set_num_threads(nthreads)
    ctx.case(("nonconvergence-slow",), nontrivial=True)
    if with_model:
        (o,) = V.driver([f"screen {V.bits(1e-12)} 2 | " + zoo.fl([1.0, 0.5, 0.25, 0.1, 0.05])])
        ctx.corr(o.strip() == "failed 3", "screenLoop fails after maxIt+1 iterations", dict(model=o))
    ctx.case(("nonconvergence",), nontrivial=True)
    # screening disabled: induced potential identically zero
    out = os.path.join(str(ctx.work), "c13_off.h5")
    sol = tdgl.solve(dev, runs.options(solve_time=0.05, dt_init=1e-2, save_every=1, output_file=out), applied_vector_potential=0.5)
    for fr in runs.parse_h5(sol.path)[0]:
        ctx.case(("disabled", fr["step"]), nontrivial=fr["step"] > 0)
        if np.any(fr["data"]["induced_vector_potential"] != 0):
            ctx.fail("disabled-nonzero", f"screening disabled but A_induced != 0 at step {fr['step']}", dict(step=fr["step"]))
            first = first or dict(key="disabled-nonzero", what="A_induced != 0")
    # screening disabled in a run CONTINUED from a screened solution: the induced potential of the seed belongs to the seed;
    # a run without screening has none, at every recorded step and in the solution it returns
    seed = tdgl.solve(dev, runs.options(solve_time=0.05, dt_init=1e-2, save_every=5, include_screening=True, screening_tolerance=1e-3), applied_vector_potential=0.5)
    if np.any(np.asarray(seed.tdgl_data.induced_vector_potential) != 0):
        out = os.path.join(str(ctx.work), "c13_off_seeded.h5")
        sol = tdgl.solve(dev, runs.options(solve_time=0.03, dt_init=1e-2, save_every=1, output_file=out), applied_vector_potential=0.5, seed_solution=seed)
        worst, at = 0.0, None
        for fr in runs.parse_h5(sol.path)[0]:
            ctx.case(("disabled-seeded", fr["step"]), nontrivial=True)
            m_ = float(np.abs(fr["data"]["induced_vector_potential"]).max())
            if m_ > worst:
                worst, at = m_, fr["step"]
        worst = max(worst, float(np.abs(np.asarray(sol.tdgl_data.induced_vector_potential)).max()))
        ctx.count("screening_off_runs_continued_from_a_screened_seed")
        if worst != 0:
            rp = dict(step=at, max_abs_induced=worst, seed_max_abs_induced=float(np.abs(np.asarray(seed.tdgl_data.induced_vector_potential)).max()))
            ctx.fail("disabled-nonzero:seeded-from-screened", f"screening disabled, run continued from a screened solution: the recorded induced vector potential is not zero "
                     f"(max |A_induced| = {worst:.3e} at step {at}; the seed's is {rp['seed_max_abs_induced']:.3e})", rp)
            first = first or dict(key="disabled-nonzero:seeded-from-screened", what="A_induced != 0 in a screening-off run continued from a screened seed", **rp)
    return first


def run(ctx):
    kernel_cases(ctx)
    run_cases(ctx)


def search(ctx):
    ctx.rng = np.random.default_rng(ctx.seed + 777)
    return kernel_cases(ctx, with_model=False) or run_cases(ctx, with_model=False, stop_first=True)


def replay(payload):
    ctx = V.Ctx("C13", "quick", int(payload.get("seed", 0)))
    try:
        search(ctx)
        return not any(f["key"] == payload.get("key") for f in ctx.oracle_fails)
    finally:
        ctx.cleanup()
