"""C09 — simulations are deterministic and reproducible bit for bit.

Fresh processes with NUMBA_NUM_THREADS in {1,2,4,8,16}, two output locations (explicit file / temp dir), screening
on/off, adaptive on/off, time-dependent drives: sha256 of the mesh arrays, of every dataset and attribute of the
output except wall-clock timestamps, and of the outputs of the five parallel kernels on a fixed random input.
Lean: race-freedom / schedule independence of the modelled kernels (C09_* theorems over Tdgl.Schedule) — the
bit-reproducibility of numba, SuperLU, Triangle and h5py across processes is observed, not proved.
"""
from __future__ import annotations

import json
import os
import subprocess
import sys
from concurrent.futures import ThreadPoolExecutor

import numpy as np

import vcommon as V
import zoo

LEVEL = "other"
RULE = (
    "configurations (screening on/off, adaptive on/off, time-dependent field / currents) x thread counts x output "
    "location; a case = one fresh process; distinct = distinct (configuration, threads, location); non-trivial = all"
)
EXPLANATION = (
    "Machine-checked part: the parallel kernels are modelled as 'each outer iteration writes only its own output cell "
    "and reads only inputs'; C09_schedule_independent / C09_buffer_overwritten / C09_equals_sequential prove that every "
    "execution order and every initial content of the np.empty buffer give the same array (Lean, kernel-checked, "
    "axioms audited). The kernel model is tied to the code by comparing get_A_induced_numba with the Lean fold run in "
    "a reversed schedule on a garbage buffer (C13). Observed part: fresh processes with different thread counts and "
    "output locations must produce bit-identical meshes, datasets, time steps and kernel outputs."
)
ASSUMPTIONS = [
    "bit-reproducibility of numba's threading layer, SuperLU, Triangle (meshpy), h5py across processes is observed on this machine, not proved",
]
TRUSTED = ["numba prange semantics (each iteration executed exactly once)", "IEEE arithmetic of the sequential inner reductions"]


def configs(quick):
    c = [
        dict(name="screening_timedep_adaptive", dev="ring", lam=0.4, screening=True, timedep=True, adaptive=True, T=0.15),
        dict(name="plain_biased", dev="bar", current=3.0, adaptive=False, T=0.1, smooth=2),
        # four terminals with generic currents: the order in which terminal currents are summed must be fixed
        dict(name="four_terminals", dev="cross4", currents4=[5.1, -2.3, -3.7, 0.9], adaptive=True, T=0.12),
    ]
    c.append(dict(name="pulsed_current", dev="bar", pulsed_current=True, adaptive=False, dt=1e-3, T=0.15))
    # a sweep of the London length on one device object, screening on
    c.append(dict(name="screening_sweep", dev="ring", lam=0.8, screening=True, sweep=True, adaptive=False, T=0.03))
    # a screened run started from a seed solution (the seed object is used twice in the worker)
    c.append(dict(name="screening_seeded", dev="ring", lam=0.5, screening=True, seeded=True, adaptive=False, T=0.04))
    # a mesh with more than a thousand sites (anything done in blocks or pools only above a size threshold), short run
    c.append(dict(name="large_mesh", dev="ring", mel=0.16, adaptive=False, dt=1e-3, T=0.004))
    # progress reports on (they measure wall-clock time), ramped field: only what is printed may depend on the clock
    c.append(dict(name="progress_reports_ramped_field", dev="bar", current=2.0, timedep=True, adaptive=True, T=0.12, progress=3))
    # a vector potential TABULATED once on the mesh edges: the callable hands the solver the array it keeps
    c.append(dict(name="tabulated_potential", dev="bar", current=2.0, tabulated=True, adaptive=True, T=0.1))
    # a run shorter than the save interval (only the first and the last state are kept): the per-step record buffer is
    # never filled, so nothing may be read from its unused tail
    c.append(dict(name="shorter_than_save_interval", dev="bar", current=2.0, adaptive=True, T=0.2, save_every=1000))
    # a critical temperature that changes in time (re-evaluated at every step), no thermalisation: frame 0 included
    c.append(dict(name="dynamic_epsilon", dev="bar", current=1.5, dyn_eps=True, adaptive=True, T=0.12))
    if not quick:
        c += [dict(name="timedep_current_adaptive", dev="bar_hole", timedep_current=True, adaptive=True, T=0.2),
              dict(name="screening_fixed", dev="union", lam=0.5, screening=True, adaptive=False, T=0.06),
              # a mesh with more than a thousand sites: the screening kernel must not split its sums by thread count
              dict(name="screening_large_mesh", dev="ring", mel=0.17, lam=0.5, screening=True, adaptive=False, dt=5e-4, T=0.004)]
    return c


def launch(cfg, threads, out):
    env = dict(os.environ)
    env["NUMBA_NUM_THREADS"] = str(threads)
    env["PYTHONHASHSEED"] = str(threads)  # vary what must not matter
    env["MALLOC_PERTURB_"] = str(37 + 11 * threads + (1 if out else 0))  # ... the content of freshly allocated / freed memory included (glibc)
    c = dict(cfg, out=out)
    p = subprocess.run([sys.executable, os.path.join(os.path.dirname(__file__), "c09_worker.py"), json.dumps(c)], env=env, stdout=subprocess.PIPE,
                       stderr=subprocess.PIPE, text=True, timeout=1800)
    for line in p.stdout.splitlines():
        if line.startswith("RESULT "):
            return json.loads(line[7:])
    raise V.Infra(f"C09 worker failed (threads={threads}): {p.stderr[-800:]}")


def flat(d, prefix=""):
    out = {}
    for k, v in d.items():
        if isinstance(v, dict):
            out.update(flat(v, f"{prefix}{k}/"))
        else:
            out[f"{prefix}{k}"] = v
    return out


def run(ctx, stop_first=False):
    first = None
    tcounts = [1, 4, 16] if ctx.quick else [1, 2, 4, 8, 16]
    jobs = []
    for cfg in configs(ctx.quick):
        for t in tcounts:
            locs = [("file", os.path.join(str(ctx.work), f"{cfg['name']}_{t}.h5")), ("temp", None)]
            if cfg["name"] == "plain_biased" and t == tcounts[0]:
                # "independent of the output location": also a path already taken by the output of an earlier, other run
                locs.append(("occupied", os.path.join(str(ctx.work), f"{cfg['name']}_occupied.h5")))
            for loc in locs:
                if loc[0] == "temp" and t not in (1, tcounts[-1]):
                    continue
                jobs.append((cfg, t, loc))
    with ThreadPoolExecutor(max_workers=6 if ctx.quick else 4) as ex:
        results = list(ex.map(lambda j: launch(dict(j[0], occupy=(j[2][0] == "occupied")), j[1], j[2][1]), jobs))
    by_cfg = {}
    for (cfg, t, loc), r in zip(jobs, results):
        by_cfg.setdefault(cfg["name"], []).append((t, loc[0], r))
        ctx.case((cfg["name"], t, loc[0]), nontrivial=True)
        ctx.count(f"threads={t}")
        ctx.count(f"location:{loc[0]}")
    for name, rs in by_cfg.items():
        # within each process: the repetition with the same objects equals the first run
        for t, l, r in rs:
            if r.get("repeat_in_process") != r.get("first_in_process"):
                rp = dict(config=name, threads=t, location=l)
                ctx.fail("not-bit-identical:same-process", f"{name} ({t} threads): repeating the run in the same process with the same input objects gives different results", rp)
                first = first or dict(key="not-bit-identical:same-process", what="repeat differs", **rp)
                if stop_first:
                    return first
                break
        for t, l, r in rs:
            rm = r.get("remesh_in_process")
            ctx.count("specifications_meshed_again_in_the_same_process", 2 if rm else 0)
            if rm and rm["first"] != rm["again"]:
                rp = dict(config=name, threads=t, location=l, first=rm["first"], again=rm["again"])
                ctx.fail("mesh-not-bit-identical:same-process", f"{name} ({t} threads): the same device specification meshed a second time in one process (another device was meshed in between) "
                         f"gives another mesh: {[m_['n'] for m_ in rm['first']]} vs {[m_['n'] for m_ in rm['again']]} sites", rp)
                first = first or dict(key="mesh-not-bit-identical:same-process", what="second mesh generation differs", **rp)
                if stop_first:
                    return first
                break
        for t, l, r in rs:
            sw = r.get("sweep")
            if sw and (not sw["same_mesh"] or sw["swept"] != sw["fresh"]):
                rp = dict(config=name, threads=t, location=l, same_mesh=sw["same_mesh"])
                ctx.fail("not-bit-identical:after-sweep", f"{name} ({t} threads): the last run of a parameter sweep on one device differs from the identical simulation on a freshly built device", rp)
                first = first or dict(key="not-bit-identical:after-sweep", what="sweep differs", **rp)
                if stop_first:
                    return first
                break
        t0, l0, ref = rs[0]
        fref = flat({k: v for k, v in ref.items() if k != "threads"})
        for t, l, r in rs[1:]:
            fr = flat({k: v for k, v in r.items() if k != "threads"})
            keys = set(fref) & set(fr) if (l != l0) else set(fref) | set(fr)
            diff = sorted(k for k in keys if fref.get(k) != fr.get(k))
            ctx.corr(True, "noop", None) if False else None
            if diff:
                rp = dict(config=name, threads=[t0, t], locations=[l0, l], differs=diff[:8])
                ctx.fail("not-bit-identical", f"{name}: results with {t0} and {t} threads ({l0}/{l}) differ in {diff[:4]}", rp)
                first = first or dict(key="not-bit-identical", what=str(diff[:4]), **rp)
                if stop_first:
                    return first
        if len(ctx.samples) < 3:
            ctx.samples.append(dict(config=name, processes=[(t, l) for t, l, _ in rs], datasets_hashed=len(fref), example=list(fref.items())[:2]))
    return first


def search(ctx):
    return run(ctx, stop_first=True)


def replay(payload):
    ctx = V.Ctx("C09", "quick", int(payload.get("seed", 0)))
    try:
        return run(ctx, stop_first=True) is None
    finally:
        ctx.cleanup()
