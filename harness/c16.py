"""C16 — parameter arithmetic means pointwise arithmetic of its operands.

All expression trees up to depth 2 (and a seeded sample / all of depth 3) over {+,-,*,/,**} and leaves
{2-D parameter, 3-D parameter, time-dependent parameter, int, float}, in both operand orders, are built with the real
operator overloads, evaluated at scalar and array arguments (with and without time), compared with the pointwise
combination of the operands' values, checked for the time-dependence flag, structural equality, cache clearing,
pickling, deeper nesting, and handed to the solver.  The Lean model (`Tdgl.Param`) is driven with the same trees.
"""
from __future__ import annotations

import itertools
import os
import operator
import pickle

import numpy as np

import runs
import vcommon as V
import zoo
import tdgl
from tdgl.parameter import CompositeParameter, Parameter

LEVEL = "proof"
EXHAUSTIVE = False
RULE = (
    "all trees of depth <= 2 over 5 operators and 5 leaf kinds (number-number pairs are rejected by the constructor "
    "and checked as such: exhaustive), plus a seeded dimension-consistent sample of depth-3 trees (1500 quick / 30000 thorough; all 3.5e10 cannot be enumerated); "
    "each evaluated at a scalar and an array argument; a case = one tree; non-trivial = depth >= 1"
)
EXPLANATION = (
    "Lean theorems C16_* by structural induction over expression trees of any depth (evaluation = pointwise "
    "combination with t dispatched only to time-dependent operands; time-dependence flag; structural equality; "
    "construction, cache clearing, pickling and nesting are total); every tree within the bound is built with the "
    "real overloads and compared with the model and with an independent pointwise evaluation."
)
ASSUMPTIONS = ["+ - * / compared bit for bit, ** (and anything containing it) to 1e-9 relative"]

OPS = [("+", operator.add), ("-", operator.sub), ("*", operator.mul), ("/", operator.truediv), ("**", operator.pow)]


# leaf functions (module level so that they pickle by reference / cloudpickle by value)
AMP = [1.0]  # an amplitude set from outside (as a user's script would between two runs): what a cleared cache must forget


def f2(x, y, a=1.5):
    return AMP[0] * (a + 0.25 * x - 0.5 * y)


def f3(x, y, z, b=2.0):
    return AMP[0] * (b + 0.1 * x * y + 0.3 * z)


def ft(x, y, z, *, t, c=0.75):
    return AMP[0] * (c + 0.05 * x + 0.2 * t + 0 * z)


# "twins" of the leaf functions: same signature, same keyword defaults, the same shape of code -- they differ from the
# original only in a name they refer to (another numpy function), in a constant, or in the VALUE of a keyword argument
def f2_twin_name(x, y, a=1.5):
    return AMP[0] * (a + np.sin(0.25 * x) - 0.5 * y)


def f2_twin_name2(x, y, a=1.5):
    return AMP[0] * (a + np.cos(0.25 * x) - 0.5 * y)


def f3_twin_const(x, y, z, b=2.0):
    return AMP[0] * (b + 0.1 * x * y + 0.35 * z)


def ft_twin_name(x, y, z, *, t, c=0.75):
    return AMP[0] * (c + 0.05 * x + 0.2 * t + 0 * y)


LEAVES = ["P2", "P3", "PT", "I", "F"]


def mk_leaf(kind):
    if kind == "P2":
        return Parameter(f2, a=1.5)
    if kind == "P3":
        return Parameter(f3, b=2.0)
    if kind == "PT":
        return Parameter(ft, c=0.75, time_dependent=True)
    if kind == "I":
        return 3
    if kind in NEUTRAL:
        return NEUTRAL[kind]
    return 1.25


# numbers that are neutral for SOME operator in SOME position (p + 0, 1 * p, p ** 1, ...), and -1
NEUTRAL = {"N0": 0, "N0f": 0.0, "N1": 1, "N1f": 1.0, "Nm1": -1}


def leaf_value(kind, x, y, z, t):
    if kind == "P2":
        return f2(x, y)
    if kind == "P3":
        return f3(x, y, z)
    if kind == "PT":
        return ft(x, y, z, t=t)
    if kind == "I":
        return 3
    if kind in NEUTRAL:
        return NEUTRAL[kind]
    return 1.25


def trees(depth):
    """expression trees as nested tuples: leaf kind | (op index, left, right)"""
    if depth == 0:
        yield from LEAVES
        return
    smaller = list(itertools.chain.from_iterable(trees(d) for d in range(depth)))
    exact = list(trees(depth - 1))
    for oi in range(len(OPS)):
        for l in smaller:
            for r in smaller:
                if l in exact or r in exact:  # depth exactly `depth`
                    yield (oi, l, r)


def depth_of(t):
    return 0 if isinstance(t, str) else 1 + max(depth_of(t[1]), depth_of(t[2]))


def is_number(t):
    return t in ("I", "F") or t in NEUTRAL


def has_td(t):
    return (t == "PT") if isinstance(t, str) else (has_td(t[1]) or has_td(t[2]))


def uses3(t):
    return (t in ("P3", "PT")) if isinstance(t, str) else (uses3(t[1]) or uses3(t[2]))


def buildable(t):
    """number (op) number is rejected by the constructor (and python evaluates it before anything is built)"""
    if isinstance(t, str):
        return True
    return buildable(t[1]) and buildable(t[2]) and not (is_number(t[1]) and is_number(t[2]))


def build(t, swap=None):
    if isinstance(t, str):
        return swap[t]() if swap and t in swap else mk_leaf(t)
    return OPS[t[0]][1](build(t[1], swap), build(t[2], swap))


# for each parameter leaf kind: (label, maker of a different leaf, maker of ANOTHER different leaf to compare it with)
TWINS = {
    "P2": [("other function (same code shape, another numpy name)", lambda: Parameter(f2_twin_name, a=1.5), lambda: Parameter(f2_twin_name2, a=1.5)),
           ("other keyword value", lambda: Parameter(f2, a=1.5000001), None)],
    "P3": [("other function (same code shape, another constant)", lambda: Parameter(f3_twin_const, b=2.0), None)],
    "PT": [("other function (same code shape, another argument name)", lambda: Parameter(ft_twin_name, c=0.75, time_dependent=True), None)],
}


def oracle(t, leaves, x, y, z, tt):
    """"evaluating the operands and combining the values": leaves are evaluated through real leaf Parameter
    objects (the base case the property takes for granted), values are combined with the Python operator.
    Returns ("val", value) or ("exc", exception class name)."""
    if isinstance(t, str):
        obj = leaves[t]
        if not isinstance(obj, Parameter):
            return ("val", obj)
        try:
            if obj.time_dependent:
                return ("val", obj(x, y, z, t=tt))
            return ("val", obj(x, y, z))
        except Exception as e:  # noqa
            return ("exc", type(e).__name__)
    a = oracle(t[1], leaves, x, y, z, tt)
    b = oracle(t[2], leaves, x, y, z, tt)
    if a[0] == "exc":
        return a
    if b[0] == "exc":
        return b
    try:
        with np.errstate(all="ignore"):
            return ("val", OPS[t[0]][1](a[1], b[1]))
    except Exception as e:  # noqa
        return ("exc", type(e).__name__)


def outcome(obj, x, y, z, tt):
    try:
        with np.errstate(all="ignore"):
            return ("val", obj(x, y, z, t=tt) if tt is not None else obj(x, y, z))
    except Exception as e:  # noqa
        return ("exc", type(e).__name__)


def show(t):
    return t if isinstance(t, str) else f"({show(t[1])} {OPS[t[0]][0]} {show(t[2])})"


def lean_tree(t):
    """prefix encoding for the driver"""
    if isinstance(t, str):
        return t
    return f"( {t[0]} {lean_tree(t[1])} {lean_tree(t[2])} )"


X = np.array([0.3, -1.2, 2.0])
Y = np.array([0.7, 0.4, -0.9])
Z = np.array([0.1, 0.1, 0.1])
Z2 = np.array([0.9, -0.4, 1.7])


def check_tree(ctx, t, dev_solve=None, with_model_lines=None):
    """returns failure dict or None"""
    tag = dict(tree=show(t), depth=depth_of(t))
    fails = []

    def fail(key, what):
        ctx.fail(key, what, dict(tag))
        fails.append(dict(key=key, what=what, **tag))

    ctx.case(show(t), nontrivial=depth_of(t) >= 1)
    ctx.count(f"depth={depth_of(t)}")
    try:
        p = build(t)
    except Exception as e:  # noqa
        cls = "composite-under-composite" if "_use_cache" in str(e) else type(e).__name__
        fail(f"construct:{cls}", f"building {show(t)} raised {type(e).__name__}: {e}")
        return fails[0]
    if not isinstance(p, Parameter):
        return None  # a bare leaf number
    td = has_td(t)
    if bool(p.time_dependent) != td:
        fail("td-flag", f"{show(t)}.time_dependent = {p.time_dependent}, expected {td}")
    # evaluation at array and scalar arguments, with and without z, with and without t
    leaves = {k: mk_leaf(k) for k in LEAVES + list(NEUTRAL)}
    # the SAME object is evaluated again and again (no cache clearing in between): same (x, y) at another height z,
    # another time, other positions, and the first arguments once more
    argsets = [(X, Y, Z), (X, Y, None), (X, Y, Z2), (Y, X, Z2), (X, Y, Z)]
    if depth_of(t) <= 1 or (hash(show(t)) % 4 == 0):  # scalar arguments: all shallow trees, a quarter of the deeper ones
        argsets += [(0.3, 0.7, 0.1), (0.3, 0.7, None), (0.3, 0.7, -0.6)]
    for (x, y, z) in argsets:
        tts = (0.4, 0.9) if td else ((None,) if depth_of(t) == 0 else (None, 0.4))
        for tt in tts:
            got = outcome(p, x, y, z, tt)
            want = oracle(t, leaves, x, y, z, 0.4 if tt is None else tt)  # (tt None only for time-independent trees: t unused)
            ctx.count("eval_ok" if got[0] == "val" else f"eval_{got[1]}")
            if got[0] != want[0] or (got[0] == "exc" and got[1] != want[1]):
                fail(f"eval:{got[1] if got[0] == 'exc' else 'value-vs-exception'}", f"evaluating {show(t)} gives {got} but combining the operands' values gives {want}")
                continue
            if got[0] == "val":
                g, w = np.asarray(got[1]), np.asarray(want[1])
                if g.shape != w.shape or not np.array_equal(g, w, equal_nan=True):
                    fail("pointwise", f"{show(t)} evaluates to {g.tolist()} but pointwise arithmetic of the operands gives {w.tolist()}")
    # the same coordinate BUFFERS refilled / shifted in place between two evaluations at the same time: the answer is that of
    # the coordinates now in the buffers
    if td and depth_of(t) <= 2:
        def direct(u, x, y, z, tt):
            if isinstance(u, str):
                return leaf_value(u, x, y, z, tt)
            return OPS[u[0]][1](direct(u[1], x, y, z, tt), direct(u[2], x, y, z, tt))

        xb, yb, zb = X.copy(), Y.copy(), Z.copy()
        try:
            outcome(p, xb, yb, zb, 0.4)
            xb += 0.37
            yb -= 0.21
            zb[:] = Z2
            got = outcome(p, xb, yb, zb, 0.4)
            with np.errstate(all="ignore"):
                want = np.asarray(direct(t, xb, yb, zb, 0.4))
            if got[0] == "val" and not np.allclose(np.asarray(got[1]), want, rtol=1e-12, atol=0, equal_nan=True):
                fail("pointwise:buffers-changed-in-place", f"{show(t)} evaluated again at the same time after its coordinate arrays were changed in place returns the values of the earlier points")
            ctx.count("td_trees_evaluated_on_buffers_changed_in_place")
        except Exception:  # noqa: exceptions of the arithmetic itself are compared above
            pass
        finally:
            try:
                p._clear_cache()
            except Exception:  # noqa
                pass
    # structural equality
    try:
        q = build(t)
        if not (p == q):
            fail("eq-structural", f"two structurally identical composites {show(t)} compare unequal")
        if isinstance(t, tuple):
            other = (t[0] ^ 1 if t[0] < 4 else 0, t[1], t[2])
            if buildable(other) and (p == build(other)):
                fail("eq-structural", f"{show(t)} compares equal to {show(other)}")
            # operand order is part of the structure (C16_eq_swapped_operands): the tree with its two operands exchanged is
            # another expression whenever the operands differ — for every operator, the commutative ones included
            if show(t[1]) != show(t[2]):
                swapped = (t[0], t[2], t[1])
                if buildable(swapped):
                    qs = build(swapped)
                    ctx.count("eq_swapped_operand_checks")
                    if p == qs or qs == p:
                        fail("eq-structural:swapped-operands", f"{show(t)} compares equal to {show(swapped)} (operands exchanged)")
        # the same tree over a DIFFERENT leaf (another function of the same shape, another keyword value) is a different
        # expression; two different such leaves differ from each other as well
        def leafset_(u):
            return {u} if isinstance(u, str) else leafset_(u[1]) | leafset_(u[2])
        for kind in sorted(leafset_(t) & set(TWINS)):
            for label, mk1, mk2 in TWINS[kind]:
                q1 = build(t, {kind: mk1})
                if p == q1 or q1 == p:
                    fail("eq-structural:different-leaf", f"{show(t)} compares equal to the same tree with the {kind} leaf replaced by a different one: {label}")
                if mk2 is not None and (q1 == build(t, {kind: mk2})):
                    fail("eq-structural:different-leaf", f"{show(t)}: two trees over two different {kind} leaves compare equal: {label}")
                ctx.count("eq_different_leaf_checks")
    except Exception as e:  # noqa
        fail(f"eq:{type(e).__name__}", f"comparing {show(t)} raised {type(e).__name__}: {e}")
    # cache clearing is total ...
    cleared = False
    try:
        p._clear_cache()
        cleared = True
    except Exception as e:  # noqa
        which = "number-on-right" if isinstance(t, tuple) and is_number(t[2]) else "other"
        fail(f"clear-cache:{type(e).__name__}:{which}", f"{show(t)}._clear_cache() raised {type(e).__name__}: {e}")
    # ... and effective at every depth: after the operands' functions change (an amplitude set from outside) and
    # the cache is cleared, the composite evaluated at the SAME arguments is again the combination of the operands
    if cleared and isinstance(t, tuple):
        AMP[0] = 1.75
        try:
            for lf in leaves.values():
                if isinstance(lf, Parameter):
                    lf._clear_cache()
            zz = Z if uses3(t) else None
            tt = 0.4 if td else None
            got = outcome(p, X, Y, zz, tt)
            want = oracle(t, leaves, X, Y, zz, 0.4)
            if got[0] != want[0] or (got[0] == "val" and not np.array_equal(np.asarray(got[1]), np.asarray(want[1]), equal_nan=True)) or (got[0] == "exc" and got[1] != want[1]):
                fail("clear-cache:stale", f"after _clear_cache() {show(t)} still evaluates with operand values from before the operands changed: {str(got)[:80]} vs {str(want)[:80]}")
        finally:
            AMP[0] = 1.0
            try:
                p._clear_cache()
            except Exception:  # noqa
                pass
            for lf in leaves.values():
                if isinstance(lf, Parameter):
                    lf._clear_cache()
    # pickling keeps flags and usability
    try:
        r = pickle.loads(pickle.dumps(p))
        ok = True
        try:
            ok = bool(r.time_dependent) == td
        except AttributeError:
            ok = False
        if not ok:
            fail("pickle:flag-lost", f"unpickled {show(t)} lost its time_dependent flag")
        else:
            zz = Z if uses3(t) else None
            a, b = outcome(r, X, Y, zz, 0.4 if td else None), outcome(p, X, Y, zz, 0.4 if td else None)
            if a[0] != b[0] or (a[0] == "val" and not np.array_equal(np.asarray(a[1]), np.asarray(b[1]), equal_nan=True)) or (a[0] == "exc" and a[1] != b[1]):
                fail("pickle:value", f"unpickled {show(t)} evaluates differently ({a} vs {b})")
            r._clear_cache()
            if not (r == p):
                fail("pickle:eq", f"unpickled {show(t)} does not compare equal to the original")
            _ = (r * 2.0) + r  # nesting the reloaded object
    except Exception as e:  # noqa
        if not fails or not fails[-1]["key"].startswith("pickle"):
            fail(f"pickle:{type(e).__name__}", f"pickling/using the unpickled {show(t)} raised {type(e).__name__}: {str(e)[:100]}")
    # nesting one level further is total
    try:
        _ = (p * 2) * 3
        _ = 2.5 - (p + p)
    except Exception as e:  # noqa
        fail(f"nest:{type(e).__name__}", f"nesting {show(t)} one level deeper raised {type(e).__name__}: {e}")
    return fails[0] if fails else None


def vector_leaf(x, y, z, *, B=0.3):
    return np.stack([-B * y / 2, B * x / 2, np.zeros_like(x)], axis=1)


def ramp(x, y, z, *, t, rate=2.0):
    return min(1.0, rate * t)


def solver_use(ctx):
    """composites handed to tdgl.solve like plain parameters (12 shape classes)"""
    dev = zoo.make_device("ring", ctx.rng, max_edge_length=1.0)
    A = Parameter(vector_leaf, B=0.3)
    R = Parameter(ramp, rate=2.0, time_dependent=True)
    shapes = {
        "P*num": lambda: A * 2, "num*P": lambda: 2.0 * A, "P+P": lambda: A + A, "P-P*num": lambda: A - A * 0.5, "P/num": lambda: A / 4,
        "PT*P": lambda: R * A, "P*PT": lambda: A * R, "(PT*P)*num": lambda: (R * A) * 2, "num*(P*PT)": lambda: 0.5 * (A * R),
        "(P*num)+(PT*P)": lambda: (A * 0.2) + (R * A), "(PT*P)/num": lambda: (R * A) / 2, "P*(PT*num)": lambda: A * (R * 3),
    }
    first = None
    for name, mk in shapes.items():
        ctx.case(("solver", name), nontrivial=True)
        ctx.count("solver_use")
        try:
            p = mk()
            sol = tdgl.solve(dev, runs.options(solve_time=0.03, dt_init=1e-2, save_every=2), applied_vector_potential=p)
            sol.vector_potential_at_position(np.array([[0.1, 0.2], [0.3, -0.2]]), zs=0.5)
        except Exception as e:  # noqa
            which = "number-on-right" if name in ("P*num", "P/num", "(PT*P)*num", "(PT*P)/num", "P-P*num") else "other"
            rp = dict(shape=name, error=f"{type(e).__name__}: {str(e)[:120]}")
            ctx.fail(f"solver-use:{type(e).__name__}:{which}", f"tdgl.solve with applied_vector_potential = {name} raised {type(e).__name__}: {str(e)[:100]}", rp)
            first = first or dict(key=f"solver-use:{type(e).__name__}", what=str(e)[:100], **rp)
    return first


def solver_values(ctx):
    """the vector potential the SOLVER works with, at construction and at every update, is the pointwise combination of
    the operands: composite versus one flat Parameter computing the same expression from the plain functions"""
    from tdgl.solver.solver import TDGLSolver

    dev = zoo.make_device("ring", ctx.rng, max_edge_length=1.0)
    A = Parameter(vector_leaf, B=0.3)
    A2 = Parameter(vector_leaf, B=0.11)
    R = Parameter(ramp, rate=2.0, time_dependent=True)
    v = lambda x, y, z, B: vector_leaf(x, y, z, B=B)
    r = lambda t: ramp(0, 0, 0, t=t, rate=2.0)
    shapes = {
        # (composite, the same expression written out)
        "PT*P": (lambda: R * A, lambda x, y, z, t: r(t) * v(x, y, z, 0.3)),
        "P*PT": (lambda: A * R, lambda x, y, z, t: v(x, y, z, 0.3) * r(t)),
        "P-PT*P": (lambda: A - R * A2, lambda x, y, z, t: v(x, y, z, 0.3) - r(t) * v(x, y, z, 0.11)),
        "PT*P-P": (lambda: R * A2 - A, lambda x, y, z, t: r(t) * v(x, y, z, 0.11) - v(x, y, z, 0.3)),
        "P-PT": (lambda: A - R, lambda x, y, z, t: v(x, y, z, 0.3) - r(t)),
        "PT-P": (lambda: R - A, lambda x, y, z, t: r(t) - v(x, y, z, 0.3)),
        "P/(PT+num)": (lambda: A / (R + 0.5), lambda x, y, z, t: v(x, y, z, 0.3) / (r(t) + 0.5)),
        "(PT+num)/(P+num)": (lambda: (R + 0.5) / (A + 2.0), lambda x, y, z, t: (r(t) + 0.5) / (v(x, y, z, 0.3) + 2.0)),
        "(P+num)**(PT+num)": (lambda: (A + 2.0) ** (R + 1.0), lambda x, y, z, t: (v(x, y, z, 0.3) + 2.0) ** (r(t) + 1.0)),
        "(PT+num)**(P+num)": (lambda: (R + 1.0) ** (A + 2.0), lambda x, y, z, t: (r(t) + 1.0) ** (v(x, y, z, 0.3) + 2.0)),
        "P+PT*P": (lambda: A + R * A2, lambda x, y, z, t: v(x, y, z, 0.3) + r(t) * v(x, y, z, 0.11)),
        "num*(P-PT*P)": (lambda: 2.0 * (A - R * A2), lambda x, y, z, t: 2.0 * (v(x, y, z, 0.3) - r(t) * v(x, y, z, 0.11))),
    }
    first = None
    opts = runs.options(solve_time=0.03, dt_init=1e-2, save_every=2)
    for name, (mk, flat) in shapes.items():
        def flat_fn(x, y, z, *, t, _f=flat):
            return _f(x, y, z, t)

        try:
            sc = TDGLSolver(dev, opts, applied_vector_potential=mk())
            sf = TDGLSolver(dev, opts, applied_vector_potential=Parameter(flat_fn, time_dependent=True))
            pairs = [("construction", np.asarray(sc.current_A_applied), np.asarray(sf.current_A_applied))]
            for t in (0.0, 0.05, 0.2, 0.31, 0.9):
                pairs.append((f"update(t={t})", np.asarray(sc.update_applied_vector_potential(t)), np.asarray(sf.update_applied_vector_potential(t))))
        except Exception as e:  # noqa
            rp = dict(shape=name, error=f"{type(e).__name__}: {str(e)[:120]}")
            ctx.fail(f"solver-values:{type(e).__name__}", f"a solver for applied_vector_potential = {name} raised {rp['error']}", rp)
            first = first or dict(key=f"solver-values:{type(e).__name__}", what=rp["error"], **rp)
            continue
        for where, got, want in pairs:
            ctx.case(("solver-values", name, where), nontrivial=bool(np.any(want)))
            ctx.count("solver_value_comparisons")
            if got.shape != want.shape or not np.allclose(got, want, rtol=1e-12, atol=1e-15, equal_nan=True):
                rp = dict(shape=name, where=where, max_diff=(float(np.nanmax(np.abs(got - want))) if got.shape == want.shape else None))
                ctx.fail("solver-values", f"the solver's vector potential for {name} at {where} is not the pointwise combination of the operands (max diff {rp['max_diff']})", rp)
                first = first or dict(key="solver-values", what=f"{name} {where}", **rp)
                break
    return first


def all_trees(quick, rng):
    ts = [t for d in (0, 1, 2) for t in trees(d)]
    # depth 3: 5 * (|depth<=2|^2) trees is ~3.5e10 — sampled (the theorems cover every depth); the sample is
    # dimension-consistent (only 3-D leaves or only 2-D leaves) so that most of it evaluates instead of
    # raising TypeError for a 2-D/3-D mix
    def leafset(t):
        return {t} if isinstance(t, str) else leafset(t[1]) | leafset(t[2])

    d2 = [t for t in trees(2) if buildable(t)]
    low = [t for d in (0, 1) for t in trees(d) if buildable(t)] + d2
    fam3 = lambda t: "P2" not in leafset(t)
    fam2 = lambda t: not ({"P3", "PT"} & leafset(t))
    pools = [([t for t in d2 if fam3(t)], [t for t in low if fam3(t)]), ([t for t in d2 if fam2(t)], [t for t in low if fam2(t)])]
    for _ in range(1500 if quick else 30000):
        A, B = pools[0] if rng.random() < 0.7 else pools[1]
        a, b = A[int(rng.integers(len(A)))], B[int(rng.integers(len(B)))]
        if rng.random() < 0.5:
            a, b = b, a
        ts.append((int(rng.integers(5)), a, b))
    return ts


def closure_leaves_pickle(ctx):
    """"can be pickled": composites whose leaves are closures / lambdas (not importable by name), with the standard pickle
    module (what multiprocessing uses): the copy evaluates like the original, compares equal to it, keeps its flag"""
    def make2(k):
        def wave(x, y):
            return AMP[0] * np.cos(k * x) * (1 + 0.1 * y)
        return wave

    def make3(k):
        def wave3(x, y, z):
            return AMP[0] * (np.sin(k * x) + 0.2 * z + 0.05 * y)
        return wave3

    def maket(w):
        def drive(x, y, z, *, t):
            return AMP[0] * (1.0 + 0.3 * np.sin(w * t) + 0.01 * x + 0 * y + 0 * z)
        return drive

    first = None
    p2, p3, pt, lam = Parameter(make2(1.3)), Parameter(make3(0.7)), Parameter(maket(2.0), time_dependent=True), Parameter(lambda x, y: 0.5 + 0.1 * x * y)
    exprs = []
    for nm_, op in OPS:
        exprs += [(f"(p3 {nm_} 2)", op(p3, 2), True, False), (f"(2.5 {nm_} p2)", op(2.5, p2), False, False), (f"(pt {nm_} p3)", op(pt, p3), True, True),
                  (f"(lam {nm_} p2)", op(lam, p2), False, False), (f"((pt {nm_} 2) * p3)", op(pt, 2) * p3, True, True)]
    for label, e, is3, td in exprs:
        ctx.case(("closure-leaves-pickle", label), nontrivial=True)
        ctx.count("closure_leaf_composites_pickled")
        try:
            r = pickle.loads(pickle.dumps(e))
            args = (X, Y, Z) if is3 else (X, Y)
            kw = dict(t=0.4) if td else {}
            a, b = np.asarray(e(*args, **kw)), np.asarray(r(*args, **kw))
            bad = None
            if not np.array_equal(a, b, equal_nan=True):
                bad = "the unpickled copy evaluates differently"
            elif bool(r.time_dependent) != td:
                bad = "the unpickled copy lost its time_dependent flag"
            elif not (r == e):
                bad = "the unpickled copy does not compare equal to the original"
        except Exception as ex:  # noqa
            bad = f"pickle round trip raised {type(ex).__name__}: {str(ex)[:90]}"
        if bad:
            rp = dict(tree=label, problem=bad)
            ctx.fail("pickle:closure-leaves", f"{label} over closure / lambda leaves: {bad}", rp)
            first = first or dict(key="pickle:closure-leaves", what=bad, **rp)
    return first


def run(ctx, stop_first=False, with_model=True):
    first = None
    ts = all_trees(ctx.quick, ctx.rng)
    built = []
    for t in ts:
        if not buildable(t):
            # number (op) number under a composite cannot be written with overloads; the constructor rejects it
            if isinstance(t, tuple) and is_number(t[1]) and is_number(t[2]):
                try:
                    CompositeParameter(mk_leaf(t[1]), mk_leaf(t[2]), OPS[t[0]][1])
                    ctx.fail("number-number-accepted", f"CompositeParameter accepted {show(t)}", dict(tree=show(t)))
                except TypeError:
                    ctx.count("number_number_rejected")
            continue
        f = check_tree(ctx, t)
        built.append(t)
        if f and first is None:
            first = f
            if stop_first:
                return first
    # neutral numbers in both operand orders, under every operator, next to leaves and to composites (a node must not be
    # "simplified away" unless the operator commutes: 0 - p is not p, 1 / p is not p)
    bases = ["P2", "P3", "PT", (2, "P2", "P3"), (0, "PT", "P3")]
    for base in bases:
        for oi in range(len(OPS)):
            for nk in NEUTRAL:
                for t in ((oi, nk, base), (oi, base, nk), (1, (oi, nk, base), "P3")):
                    f = check_tree(ctx, t)
                    ctx.count("neutral_number_trees")
                    if f and first is None:
                        first = f
                        if stop_first:
                            return first
    f = closure_leaves_pickle(ctx)
    first = first or f
    f = solver_use(ctx)
    first = first or f
    f = solver_values(ctx)
    first = first or f
    if with_model and os.environ.get('C16_NOMODEL') != '1':
        model_correspondence(ctx, built)
    if len(ctx.samples) < 4:
        ctx.samples += [dict(tree=show(t)) for t in (built[7], built[40], built[-1])]
    return first


def model_correspondence(ctx, built):
    """the Lean model evaluates the same trees (numpy/IEEE semantics: array arguments) and reports the flag"""
    x, y, z, t = 0.3, 0.7, 0.1, 0.4
    xs, ys, zs = np.array([x, 1.1]), np.array([y, -0.3]), np.array([z, z])
    lines = []
    for tr in built:
        lines.append(f"param {V.bits(x)} {V.bits(y)} {V.bits(z)} {V.bits(t)} | {lean_tree(tr)}")
    out = V.driver(lines)
    ctx.traces += 1
    for tr, o in zip(built, out):
        if isinstance(tr, str) and is_number(tr):
            continue
        p = build(tr)
        td = has_td(tr)
        got = outcome(p, xs, ys, zs, t if td else None)
        impl = f"td={int(bool(p.time_dependent))}"
        toks = o.split()
        ok = toks[0] == impl
        if ok:
            if got[0] == "exc":
                ok = (got[1] == "TypeError" and toks[1] == "err:type")
            elif toks[1].startswith("err"):
                ok = False
            elif np.isrealobj(np.asarray(got[1])):
                g0 = float(np.atleast_1d(np.asarray(got[1], dtype=float))[0])
                mv = V.unbits(toks[1])
                # + - * / are bit-identical; powers (libm vs numpy, and nested powers amplify one ulp of the base by
                # |y ln x|) are compared to 1e-9 relative — a wrong operator / operand order / time dispatch moves
                # the value by orders of magnitude more
                ok = (np.isnan(mv) and np.isnan(g0)) or mv == g0 or ("**" in show(tr) and abs(mv - g0) <= 1e-9 * max(abs(mv), abs(g0)))
        ctx.count("model_eval_ok" if got[0] == "val" else "model_eval_typeerror")
        ctx.corr(ok, "Param model (Lean, Float) vs real Parameter arithmetic", dict(tree=show(tr), model=o, impl=[impl, str(got)[:80]]))


def search(ctx):
    return run(ctx, stop_first=True, with_model=False)


def replay(payload):
    ctx = V.Ctx("C16", "quick", int(payload.get("seed", 0)))
    try:
        if "shape" in payload:
            return solver_use(ctx) is None and solver_values(ctx) is None
        for t in all_trees(True, ctx.rng):
            if buildable(t) and show(t) == payload.get("tree"):
                return check_tree(ctx, t) is None
        return True
    finally:
        ctx.cleanup()
