"""Device / mesh zoo used by the correspondence runs.  Everything is generated from one rng."""
from __future__ import annotations

import logging
import os

os.environ.setdefault("TQDM_DISABLE", "1")
import numpy as np

logging.getLogger("tdgl").setLevel(logging.ERROR)
logging.getLogger("tdgl.finite_volume").setLevel(logging.ERROR)
logging.getLogger("tdgl.device").setLevel(logging.ERROR)
logging.getLogger("solver").setLevel(logging.ERROR)
logging.getLogger("tdgl.device.device").setLevel(logging.ERROR)

import tdgl
from tdgl.finite_volume.edge_mesh import EdgeMesh
from tdgl.finite_volume.mesh import Mesh
from tdgl.geometry import box, circle, ellipse

import vcommon as V


def layer(xi=0.5, lam=2.0, d=0.1, gamma=10.0, u=5.79, z0=0.0, conductivity=None):
    return tdgl.Layer(coherence_length=xi, london_lambda=lam, thickness=d, gamma=gamma, u=u, z0=z0, conductivity=conductivity)


def make_device(kind: str, rng=None, *, length_units="um", xi=0.5, gamma=10.0, u=5.79, max_edge_length=None,
                smooth=0, scale=1.0, probes=True, mesh=True, terminals=True, lam=2.0, d=0.1, min_points=None):
    """Small devices (60-400 sites). `scale` multiplies every length (for unit-change tests)."""
    s = scale
    L = layer(xi=xi * s, lam=lam * s, d=d * s, gamma=gamma, u=u)
    P = tdgl.Polygon
    holes, terms, probe_pts = [], [], None
    W, H = 5.0 * s, 3.0 * s
    if kind in ("bar", "bar_hole", "bar3", "cross4", "bar_thick"):
        film = P("film", points=box(W, H, points=41))
        if terminals:
            # "bar_thick": contact pads that overlap the film by 0.8 (several mesh edges), not slivers on its edge
            tw = 1.6 * s if kind == "bar_thick" else 0.1 * s
            terms = [
                P("source", points=box(tw, H * 0.9, center=(-W / 2, 0))),
                P("drain", points=box(tw, H * 0.9, center=(W / 2, 0))),
            ]
            if kind in ("bar3", "cross4"):
                terms.append(P("top", points=box(W * 0.4, 0.1 * s, center=(0, H / 2))))
            if kind == "cross4":
                terms.append(P("bottom", points=box(W * 0.3, 0.1 * s, center=(0.3 * s, -H / 2))))
        if kind == "bar_hole":
            holes = [P("hole", points=circle(0.6 * s, points=17, center=(0.3 * s, 0.1 * s)))]
        probe_pts = [(-W / 4, 0.2 * s), (W / 4, -0.1 * s)]
    elif kind == "Lhole":
        # a non-convex hole given by its six corners: the mean of its vertices lies outside the hole
        film = P("film", points=box(6.0 * s, 5.0 * s, points=45))
        L6 = np.array([(0.0, 0.0), (2.6, 0.0), (2.6, 0.8), (0.8, 0.8), (0.8, 2.6), (0.0, 2.6)]) - np.array([1.3, 1.3])
        holes = [P("slot", points=L6 * s)]
        if terminals:
            terms = [P("source", points=box(0.1 * s, 4.5 * s, center=(-3.0 * s, 0))), P("drain", points=box(0.1 * s, 4.5 * s, center=(3.0 * s, 0)))]
        probe_pts = [(-2.2 * s, 1.5 * s), (2.2 * s, -1.5 * s)]
    elif kind == "hole_from_terminal":
        # a hole whose polygon has been a TERMINAL of another device before (the constructor marks terminal polygons
        # `mesh = False` in place), and a second hole given with mesh=False explicitly: holes are carved all the same
        film = P("film", points=box(7.0 * s, 5.0 * s, points=61))
        pad = P("pad", points=box(1.6 * s, 0.7 * s, center=(-1.5 * s, 0.6 * s), points=41))
        tdgl.Device("scratch", layer=L, film=P("f", points=box(7.0 * s, 5.0 * s)), terminals=[pad], length_units=length_units)
        slot = pad.copy()
        slot.name = "slot"
        holes = [slot, P("round", points=circle(0.7 * s, points=33, center=(1.6 * s, -0.8 * s)), mesh=False)]
        probe_pts = [(-2.5 * s, -1.5 * s), (2.5 * s, 1.5 * s)]
    elif kind == "dense_hole":
        # a densely sampled hole outline (neighbouring vertices ~2e-4 of the hole size apart): with scale = 1e-6 and
        # length_units = "m" the vertex spacing is a fraction of a nanometre
        film = P("film", points=box(6.0 * s, 6.0 * s, points=61))
        holes = [P("hole", points=ellipse(0.3 * s, 0.15 * s, points=2400, angle=25, center=(0.3 * s, -0.2 * s)))]
        probe_pts = [(-2.0 * s, 2.0 * s), (2.0 * s, -2.0 * s)]
    elif kind == "ring":
        film = P("film", points=circle(2.0 * s, points=41))
        holes = [P("hole", points=circle(0.7 * s, points=21, center=(0.2 * s, 0)))]
        probe_pts = [(-1.4 * s, 0), (1.5 * s, 0.2 * s)]
    elif kind == "ellipse":
        film = P("film", points=ellipse(2.5 * s, 1.5 * s, points=31, angle=20))
        probe_pts = [(-1.0 * s, 0), (1.0 * s, 0.2 * s), (0.0, 0.5 * s)]
    elif kind == "union":
        film = (P("film", points=box(4 * s, 2 * s, points=31)) + P(points=circle(1.4 * s, points=25, center=(1.5 * s, 0)))).resample(51)
        holes = [P("h1", points=box(0.6 * s, 0.5 * s, center=(-1.0 * s, 0.2 * s), points=13)), P("h2", points=circle(0.4 * s, points=13, center=(1.7 * s, -0.2 * s)))]
        probe_pts = [(-1.5 * s, -0.5 * s), (1.0 * s, 0.7 * s)]
    else:
        raise ValueError(kind)
    dev = tdgl.Device(kind, layer=L, film=film, holes=holes, terminals=terms, probe_points=(probe_pts if probes else None), length_units=length_units)
    if mesh:
        mel = max_edge_length if max_edge_length is not None else xi * 1.6
        mel = mel * s
        last = None
        # the library refuses meshes with a malformed boundary Voronoi cell: try nearby densities
        for fac in (1.0, 0.9, 1.1, 0.8, 0.7, 1.25, 0.6):
            try:
                dev.make_mesh(max_edge_length=mel * fac, smooth=smooth, min_points=min_points)
            except ValueError as e:
                last = e
                continue
            return dev
        raise V.Infra(f"could not mesh zoo device {kind}: {last}")
    return dev


DEVICE_KINDS = ["bar", "bar_hole", "bar3", "cross4", "ring", "ellipse", "union"]


def random_delaunay_mesh(rng, npts=40):
    from scipy.spatial import Delaunay

    for _ in range(20):
        pts = rng.uniform(0, 1, size=(npts, 2)) * np.array([3.0, 2.0])
        tri = Delaunay(pts).simplices
        try:
            return Mesh.from_triangulation(pts, tri)
        except Exception:
            continue
    raise V.Infra("could not build a random Delaunay mesh")


def structured_mesh(nx=6, ny=5, jitter=0.0, rng=None):
    # the triangulation is fixed while the interior points are jittered: some draws make a boundary cell whose
    # circumcentres fall outside the domain, which the library refuses ("Malformed Voronoi cell"); such a draw is
    # not a mesh of the zoo -- draw again (the generator's business, not a finding)
    for _attempt in range(50):
        try:
            return _structured_mesh(nx, ny, jitter, rng)
        except ValueError as e:
            if "Malformed Voronoi cell" not in str(e) or not jitter or rng is None:
                raise
    raise V.Infra("could not draw a jittered structured mesh the library accepts")


def _structured_mesh(nx, ny, jitter, rng):
    xs, ys = np.meshgrid(np.arange(nx, dtype=float), np.arange(ny, dtype=float))
    pts = np.stack([xs.ravel(), ys.ravel()], axis=1)
    if jitter and rng is not None:
        interior = (pts[:, 0] > 0) & (pts[:, 0] < nx - 1) & (pts[:, 1] > 0) & (pts[:, 1] < ny - 1)
        pts[interior] += rng.uniform(-jitter, jitter, size=(interior.sum(), 2))
    tris = []
    for j in range(ny - 1):
        for i in range(nx - 1):
            a = j * nx + i
            b_, c, d = a + 1, a + nx, a + nx + 1
            if (i + j) % 2 == 0:
                tris += [(a, b_, d), (a, d, c)]
            else:
                tris += [(a, b_, c), (b_, d, c)]
    return Mesh.from_triangulation(pts, np.array(tris))


def weighted_mesh(mesh: Mesh, rng) -> Mesh:
    """same connectivity, arbitrary positive areas / lengths / dual lengths (injected through the constructors)"""
    em = mesh.edge_mesh
    E = len(em.edges)
    em2 = EdgeMesh(em.centers, em.edges, em.boundary_edge_indices, em.directions,
                   rng.uniform(0.2, 3.0, size=E), rng.uniform(0.1, 2.0, size=E))
    return Mesh(mesh.sites, mesh.elements, mesh.boundary_indices, areas=rng.uniform(0.1, 2.0, size=len(mesh.sites)),
                dual_sites=mesh.dual_sites, edge_mesh=em2, voronoi_polygons=mesh.voronoi_polygons)


def mesh_zoo(rng, quick=True):
    """list of (name, Mesh, fixed_sites or None)"""
    out = []
    kinds = ["bar", "bar_hole", "cross4", "ring"] if quick else DEVICE_KINDS
    for k in kinds:
        dev = make_device(k, rng, smooth=int(rng.choice([0, 0, 3])))
        ti = dev.terminal_info()
        fixed = np.concatenate([t.site_indices for t in ti]).astype(np.int64) if ti else None
        out.append((k, dev.mesh, fixed))
    out.append(("random_delaunay", random_delaunay_mesh(rng, 30 if quick else 80), None))
    out.append(("structured", structured_mesh(6, 5, jitter=0.2, rng=rng), None))
    base = out[0][1]
    out.append(("weighted", weighted_mesh(base, rng), out[0][2]))
    # the same kind of mesh with coordinates that are small NUMBERS (a film of a few nm stated in metres): every length
    # of the mesh is far below any absolute tolerance
    rd = out[-3][1]
    # a tiny, exactly symmetric mesh (centre + regular hexagon): its pure-Neumann matrix is EXACTLY singular for SuperLU, so
    # the operators are built through the library's grounded fallback (repair 86941f9)
    ang = np.arange(6) * np.pi / 3
    hexpts = np.concatenate([[[0.0, 0.0]], np.stack([np.cos(ang), np.sin(ang)], axis=1)])
    hextri = np.array([[0, 1 + k, 1 + (k + 1) % 6] for k in range(6)])
    out.append(("hexagon_fan", Mesh.from_triangulation(hexpts, hextri), None))
    out.append(("mirror_image", Mesh.from_triangulation(np.asarray(rd.sites) * np.array([-1.0, 1.0]), np.asarray(rd.elements)), None))
    out.append(("clockwise_listing", Mesh.from_triangulation(np.asarray(base.sites), np.asarray(base.elements)[:, ::-1], ), None))
    out.append(("tiny_units", Mesh.from_triangulation(np.asarray(rd.sites) * 3e-9, np.asarray(rd.elements)), None))
    return out


def mesh_line(mesh: Mesh) -> str:
    em = mesh.edge_mesh
    B = V.bits
    secs = [
        f"mesh {len(mesh.sites)} {len(em.edges)} {len(em.boundary_edge_indices)}",
        " ".join(str(int(i)) for i in em.edges[:, 0]),
        " ".join(str(int(i)) for i in em.edges[:, 1]),
        " ".join(str(B(x)) for x in em.edge_lengths),
        " ".join(str(B(x)) for x in em.dual_edge_lengths),
        " ".join(str(B(x)) for x in mesh.areas),
        " ".join(str(int(i)) for i in em.boundary_edge_indices),
    ]
    return " | ".join(secs)


def wf_mesh(mesh: Mesh):
    """the decidable mesh hypotheses of the theorems (FVMesh.WF) + positivity; returns list of violations"""
    em = mesh.edge_mesh
    e = em.edges
    bad = []
    n = len(mesh.sites)
    if not (e[:, 0] < e[:, 1]).all():
        bad.append("e0<e1")
    if not (e[:, 1] < n).all() or not (e >= 0).all():
        bad.append("range")
    if len(np.unique(e, axis=0)) != len(e):
        bad.append("distinct edges")
    b = em.boundary_edge_indices
    if len(b) and (b.max() >= len(e) or len(np.unique(b)) != len(b)):
        bad.append("boundary idx")
    if not (mesh.areas > 0).all():
        bad.append("areas>0")
    if not (em.edge_lengths > 0).all():
        bad.append("len>0")
    return bad


def fl(xs):
    return " ".join(str(V.bits(x)) for x in np.asarray(xs, dtype=float).ravel())


def cfl(zs):
    zs = np.asarray(zs, dtype=np.complex128).ravel()
    return " ".join(f"{V.bits(z.real)} {V.bits(z.imag)}" for z in zs)


def parse_f(line):
    return np.array([V.unbits(t) for t in line.split()], dtype=float)


def parse_c(line):
    a = parse_f(line)
    return a[0::2] + 1j * a[1::2]


def independent_terminals(dev):
    """terminal sites / boundary edges / lengths computed WITHOUT Device.terminal_info (shapely instead of
    matplotlib Path): {name: dict(sites, boundary_edges (indices into mesh.edge_mesh.edges), length in length units)}"""
    from shapely.geometry import Point
    from shapely.geometry import Polygon as SPolygon

    mesh = dev.mesh
    em = mesh.edge_mesh
    xi = dev.layer.coherence_length
    # the boundary from the triangulation itself (an edge of exactly one triangle), lengths and centres from the site
    # coordinates: nothing is taken from the mesh's own boundary / edge-geometry arrays
    T = np.asarray(mesh.elements)
    pairs = np.sort(np.concatenate([T[:, [0, 1]], T[:, [1, 2]], T[:, [2, 0]]]), axis=1)
    uniq, cnt = np.unique(pairs, axis=0, return_counts=True)
    bpairs = uniq[cnt == 1]
    index_of = {(int(a), int(b)): k for k, (a, b) in enumerate(np.sort(np.asarray(em.edges), axis=1))}
    bidx = np.array([index_of[(int(a), int(b))] for a, b in bpairs], dtype=int)
    P_ = np.asarray(mesh.sites) * xi
    centres = 0.5 * (P_[bpairs[:, 0]] + P_[bpairs[:, 1]])
    lengths = np.linalg.norm(P_[bpairs[:, 0]] - P_[bpairs[:, 1]], axis=1)
    bsite_all = np.unique(bpairs)
    out = {}
    for t in dev.terminals:
        poly = SPolygon(t.points)
        bsites = [int(i) for i in bsite_all if poly.contains(Point(P_[i]))]
        sel = np.array([poly.contains(Point(c_)) for c_ in centres], dtype=bool)
        order = np.argsort(bidx[sel])
        out[t.name] = dict(sites=np.array(bsites, dtype=int), boundary_edges=bidx[sel][order], length=float(lengths[sel].sum()))
    return out


def device_line(dev):
    """(attrs, holes, terminals) sections describing a device for the Lean `deveq` command: every component is
    replaced by a hash of the data the library's == compares (layer constants; polygon name, vertices, mesh flag)"""
    import hashlib

    def h(*parts):
        m = hashlib.sha1()
        for p in parts:
            m.update(repr(p).encode() if not isinstance(p, np.ndarray) else np.ascontiguousarray(p, dtype=float).tobytes())
        return m.hexdigest()[:16]

    L = dev.layer
    layer = h(L.london_lambda, L.coherence_length, L.thickness, L.u, L.gamma, L.z0, L.conductivity)
    poly = lambda p: h(p.name, p.points, bool(p.mesh))
    probe = "-" if dev.probe_points is None else h(np.asarray(dev.probe_points))
    attrs = f"{dev.name} {dev.length_units} {layer} {poly(dev.film)} {probe}"
    holes = " ".join(f"{p.name}={poly(p)}" for p in dev.holes)
    terms = " ".join(f"{p.name}={poly(p)}" for p in dev.terminals)
    return attrs, holes, terms
