"""C02 — each step solves the discretised TDGL equation on the physical branch.

Correspondence: `TDGLSolver.solve_for_psi_squared` (public static method) vs the Lean model
`Tdgl.stepSite` (Float interpretation) on the same per-site inputs.
Oracle: z, w recomputed from the *inputs* by the documented formulas in extended precision
(np.longdouble), then the three conclusions of `C02_sound`, the branch condition of `C02_branch`
and the exactness of refusal (`C02_refuse_iff`) are evaluated on what the implementation returned.
"""
from __future__ import annotations

import numpy as np
import scipy.sparse as sp

import vcommon as V

LEVEL = "proof"
RULE = (
    "vectors of per-site inputs (psi incl. exact zeros and |psi|>1, mu up to 1e3, eps in [-1,1], gamma in "
    "{0,.1,1,10,50}, u in [.5,20], dt over ten decades, independent Laplacian action per site through a "
    "rank-one sparse matrix); a case = one site; distinct = distinct input bit patterns; non-trivial = psi!=0 "
    "or lap!=0"
)
EXPLANATION = (
    "Lean theorems C02_* (soundness, exact refusal, branch, all-sites, docs equation) over ℝ about the model "
    "stepSite/solveSite; the same definition runs on Float in the driver and is compared per site with "
    "solve_for_psi_squared; an independent extended-precision oracle checks the implementation's answers."
)
ASSUMPTIONS = [
    "floating-point: answers compared within 1e-10*(|w|+|z|x) (1e-6 where disc <= 1e-3 b^2); refusal decisions "
    "compared outside the rounding band |disc| <= 1e-9 b^2",
    "inputs stay within the floating-point range (no overflow/underflow inside the update)",
]
TRUSTED = ["numpy complex arithmetic and scipy sparse mat-vec (the Laplacian action is an input of the model)"]

GAMMAS = [0.0, 0.1, 1.0, 10.0, 50.0]


def _impl():
    from tdgl.solver.solver import TDGLSolver

    return TDGLSolver.solve_for_psi_squared


def gen_vector(rng, n):
    """one vector of per-site inputs with common gamma, u, dt"""
    gamma = float(rng.choice(GAMMAS))
    u = float(rng.choice([0.5, 1.0, 5.79, 20.0]))
    dt = float(10.0 ** rng.uniform(-8, 1.0)) if rng.random() < 0.8 else float(rng.choice([1e-8, 1e-6, 1e-3, 0.1, 1.0, 10.0]))
    mags = rng.choice([0.0, 1e-8, 1e-4, 0.01, 0.3, 0.7, 1.0, 1.2, 1.5], size=n) * rng.choice([1.0, 1.0, rng.uniform(0.5, 1.0)], size=n)
    ph = rng.uniform(0, 2 * np.pi, size=n)
    psi = (mags * np.exp(1j * ph)).astype(np.complex128)
    psi[mags == 0.0] = 0.0
    mu = rng.choice([0.0, 1.0, -3.0, 50.0, 1e3], size=n) * rng.uniform(-1, 1, size=n)
    eps = rng.uniform(-1, 1, size=n)
    eps[rng.random(n) < 0.2] = 1.0
    lap_mag = rng.choice([0.0, 1e-3, 1.0, 30.0, 1e3], size=n) * rng.uniform(0, 1, size=n)
    lap_t = lap_mag * np.exp(1j * rng.uniform(0, 2 * np.pi, size=n))
    # some sites tuned near the double root / refusal: large dt-driven w
    nz = np.flatnonzero(psi != 0)
    if len(nz):
        k = int(nz[0])
        M = sp.csr_array((lap_t / psi[k], (np.arange(n), np.full(n, k))), shape=(n, n))
    else:
        M = sp.csr_array((n, n), dtype=np.complex128)
    # the caller passes abs_sq_psi; usually |psi|^2, sometimes a stale value (screening loop re-applies the step)
    abs_sq = np.absolute(psi) ** 2
    if rng.random() < 0.25:
        abs_sq = abs_sq * rng.uniform(0.5, 1.5, size=n)
    return dict(psi=psi, abs_sq=abs_sq, mu=mu, eps=eps, gamma=gamma, u=u, dt=dt, M=M)


def call_impl(v, idx=None):
    f = _impl()
    if idx is None:
        return f(psi=v["psi"], abs_sq_psi=v["abs_sq"], mu=v["mu"], epsilon=v["eps"], gamma=v["gamma"], u=v["u"], dt=v["dt"], psi_laplacian=v["M"])
    # restrict to a subset of sites, keeping each site's Laplacian action
    lap = np.asarray(v["M"] @ v["psi"])[idx]
    psi = v["psi"][idx]
    n = len(idx)
    # reproduce lap through a per-site construction: add an auxiliary site n with psi=1
    psi2 = np.concatenate([psi, [1.0 + 0j]])
    M2 = sp.csr_array((lap, (np.arange(n), np.full(n, n))), shape=(n + 1, n + 1))
    ext = lambda a, fill: np.concatenate([a[idx], [fill]])
    r = f(psi=psi2, abs_sq_psi=ext(v["abs_sq"], 1.0), mu=ext(v["mu"], 0.0), epsilon=ext(v["eps"], 1.0), gamma=v["gamma"], u=v["u"], dt=v["dt"], psi_laplacian=M2)
    if r is None:
        return None
    return r[0][:n], r[1][:n]


def oracle_zw(v):
    """z, w by the documented formulas (eqs. z, w) in extended precision from the inputs"""
    L = np.longdouble
    CL = np.clongdouble
    psi = v["psi"].astype(CL)
    a = v["abs_sq"].astype(L)
    mu = v["mu"].astype(L)
    eps = v["eps"].astype(L)
    g, u, dt = L(v["gamma"]), L(v["u"]), L(v["dt"])
    lap = np.asarray(v["M"] @ v["psi"]).astype(CL)
    U = np.cos(mu * dt) - 1j * np.sin(mu * dt)
    z = (g * g / 2) * U * psi
    w = z * a + U * (psi + (dt / u) * np.sqrt(1 + g * g * a) * ((eps - a) * psi + lap))
    c = w.real * z.real + w.imag * z.imag
    b = 2 * c + 1
    az2 = z.real**2 + z.imag**2
    aw2 = w.real**2 + w.imag**2
    disc = b * b - 4 * az2 * aw2
    return z, w, b, disc, az2, aw2


BAND = 1e-9


def check_answer(v, res, idx, z, w, b, disc, az2, aw2):
    """oracle on the implementation's answer for the sites idx; returns list of (site, what)"""
    bad = []
    p, x = res
    p = np.asarray(p).astype(np.clongdouble)
    x = np.asarray(x)
    for j, i in enumerate(idx):
        scale = float(np.sqrt(aw2[i]) + np.sqrt(az2[i]) * abs(float(x[j].real)))
        rel = 1e-10 if disc[i] > 1e-3 * b[i] * b[i] else 1e-6
        tol = rel * max(scale, 1e-300) + 1e-300
        if np.iscomplexobj(x) and x[j].imag != 0:
            bad.append((i, "reported |psi|^2 is complex"))
            continue
        xj = float(x[j].real)
        if not np.isfinite(xj) or not np.isfinite(complex(p[j]).real) or not np.isfinite(complex(p[j]).imag):
            bad.append((i, "non-finite answer"))
            continue
        if xj < 0:
            bad.append((i, f"negative |psi|^2 = {xj}"))
            continue
        if disc[i] < -BAND * b[i] * b[i]:
            bad.append((i, "answered although the site equation has no solution (disc < 0)"))
            continue
        r1 = abs(complex(p[j] + z[i] * np.longdouble(xj) - w[i]))
        if r1 > tol:
            bad.append((i, f"residual |psi' + z x - w| = {r1:.3e} > {tol:.3e}"))
            continue
        r2 = abs(float(p[j].real**2 + p[j].imag**2) - xj)
        if r2 > rel * max(xj, float(np.sqrt(aw2[i])) * scale, 1e-300) + 1e-300:
            bad.append((i, f"reported |psi|^2 differs from |psi'|^2 by {r2:.3e}"))
            continue
        # branch: x is the smaller root: 2|z|^2 x <= b (up to rounding)
        if 2 * float(az2[i]) * xj > float(b[i]) * (1 + 1e-6) + 1e-12 and disc[i] > 1e-6 * b[i] * b[i]:
            bad.append((i, "answer is on the other (unphysical) branch"))
    return bad


def model_lines(v, idx):
    lap = np.asarray(v["M"] @ v["psi"])
    B = V.bits
    return [
        "C02 "
        + " ".join(
            str(B(t))
            for t in (v["psi"][i].real, v["psi"][i].imag, v["abs_sq"][i], v["mu"][i], v["eps"][i], v["gamma"], v["u"], v["dt"], lap[i].real, lap[i].imag)
        )
        for i in idx
    ]


def site_replay(v, i):
    lap = np.asarray(v["M"] @ v["psi"])
    return dict(
        psi=[float(v["psi"][i].real), float(v["psi"][i].imag)], abs_sq=float(v["abs_sq"][i]), mu=float(v["mu"][i]),
        eps=float(v["eps"][i]), gamma=v["gamma"], u=v["u"], dt=v["dt"], lap=[float(lap[i].real), float(lap[i].imag)],
    )


def vector_from_replay(r):
    psi = np.array([complex(*r["psi"]), 1.0 + 0j])
    lap = complex(*r["lap"])
    M = sp.csr_array(([lap], ([0], [1])), shape=(2, 2))
    return dict(psi=psi, abs_sq=np.array([r["abs_sq"], 1.0]), mu=np.array([r["mu"], 0.0]), eps=np.array([r["eps"], 1.0]),
                gamma=r["gamma"], u=r["u"], dt=r["dt"], M=M)


def eval_vector(ctx, v, with_model=True):
    """run implementation + oracle (+ model) on one vector; returns first failing site replay or None"""
    n = len(v["psi"])
    z, w, b, disc, az2, aw2 = oracle_zw(v)
    safe_pos = disc > BAND * b * b
    safe_neg = disc < -BAND * b * b
    allidx = np.arange(n)
    first_fail = None

    def fail(i, what):
        nonlocal first_fail
        rp = site_replay(v, int(i))
        ctx.fail(f"site:{what.split('=')[0][:60]}", what, dict(input=rp))
        if first_fail is None:
            first_fail = dict(key=f"site:{what[:60]}", what=what, input=rp)

    res = call_impl(v)
    ctx.count("vectors")
    if res is None:
        ctx.count("vector_refused")
        if safe_pos.all():
            # refused although every site has a solution: find a site
            fail(int(np.argmin(disc / (b * b + 1e-300))), "refused although a solution exists at every site")
    else:
        ctx.count("vector_answered")
        for i, what in check_answer(v, res, allidx, z, w, b, disc, az2, aw2):
            fail(i, what)
    # per-site decisions: accepted subset must be answered, single safely-negative sites must be refused
    acc = np.flatnonzero(safe_pos)
    if res is None and len(acc):
        r2 = call_impl(v, acc)
        if r2 is None:
            fail(int(acc[0]), "refused although a solution exists at every site (subset of solvable sites)")
        else:
            for i, what in check_answer(v, r2, acc, z, w, b, disc, az2, aw2):
                fail(i, what)
            res_acc = r2
    neg = np.flatnonzero(safe_neg)
    for i in neg[:8]:
        r3 = call_impl(v, np.array([i]))
        ctx.count("single_refused_site_calls")
        if r3 is not None:
            fail(int(i), "answered although the site equation has no solution (disc < 0)")
    # distribution
    ctx.count("sites", n)
    ctx.count("sites_refused", int(safe_neg.sum()))
    ctx.count("sites_in_rounding_band", int((~safe_pos & ~safe_neg).sum()))
    ctx.count("sites_near_double_root(disc<=1e-3b^2)", int((safe_pos & (disc <= 1e-3 * b * b)).sum()))
    ctx.count("sites_psi_zero", int((v["psi"] == 0).sum()))
    ctx.count("sites_gamma_zero", n if v["gamma"] == 0 else 0)
    for i in range(n):
        key = (V.bits(v["psi"][i].real), V.bits(v["psi"][i].imag), V.bits(v["mu"][i]), V.bits(v["dt"]), V.bits(v["gamma"]))
        lapi = (v["M"] @ v["psi"])[i]
        ctx.case(key, nontrivial=bool(v["psi"][i] != 0 or lapi != 0))
    if len(ctx.samples) < 4:
        ctx.samples.append(dict(site_input=site_replay(v, 0), vector_size=n, answered=res is not None))
    # correspondence with the Lean model (Float interpretation)
    if with_model:
        out = V.driver(model_lines(v, allidx))
        ctx.traces += 1
        impl_p = impl_x = None
        if res is not None:
            impl_p, impl_x = np.asarray(res[0]), np.asarray(res[1]).real
        elif len(acc):
            r2 = call_impl(v, acc)
            if r2 is not None:
                impl_p = np.full(n, np.nan + 0j)
                impl_x = np.full(n, np.nan)
                impl_p[acc] = r2[0]
                impl_x[acc] = np.asarray(r2[1]).real
        for i, line in enumerate(out):
            toks = line.split()
            if safe_neg[i]:
                ctx.corr(toks[0] == "none", "model must refuse where disc<0", dict(site=site_replay(v, i), model=line))
                continue
            if not safe_pos[i]:
                continue  # rounding band: decisions may legitimately differ
            if toks[0] != "some":
                ctx.corr(False, "model refuses a solvable site", dict(site=site_replay(v, i), model=line))
                continue
            if impl_p is None or np.isnan(impl_x[i]):
                continue
            mp = complex(V.unbits(toks[1]), V.unbits(toks[2]))
            mx = V.unbits(toks[3])
            scale = float(np.sqrt(aw2[i]) + np.sqrt(az2[i]) * abs(mx))
            rel = 1e-10 if disc[i] > 1e-3 * b[i] * b[i] else 1e-6
            d = max(abs(mp - complex(impl_p[i])), abs(mx - float(impl_x[i])))
            ctx.tol("model_vs_impl_rel" + ("" if rel == 1e-10 else "_band"), d / max(scale, 1e-300), rel)
            ctx.corr(d <= rel * max(scale, 1e-300) + 1e-300, "stepSite(Float) vs solve_for_psi_squared", dict(site=site_replay(v, i), model=[mp.real, mp.imag, mx], impl=[complex(impl_p[i]).real, complex(impl_p[i]).imag, float(impl_x[i])]))
    return first_fail


def boundary_vectors(rng, n):
    """the places where this code could break: gamma=0, psi=0, |psi|>1, extreme dt, near-zero discriminant"""
    vs = []
    for gamma in (0.0, 10.0):
        for dt in (1e-8, 10.0):
            v = gen_vector(rng, n)
            v["gamma"], v["dt"] = gamma, dt
            vs.append(v)
    v = gen_vector(rng, n)
    v["psi"][:] = 0
    v["abs_sq"][:] = 0
    v["M"] = sp.csr_array((n, n), dtype=np.complex128)
    vs.append(v)
    # an order parameter that is tiny EVERYWHERE but not zero (a film held normal for a while): perfectly representable
    # numbers, the equation is as well conditioned as for |psi| ~ 1, and psi = 0 must not become an absorbing state
    for scale in (1e-17, 1e-25):
        v = gen_vector(rng, n)
        v["psi"] = (scale * rng.uniform(0.5, 1.0, size=n) * np.exp(1j * rng.uniform(0, 2 * np.pi, size=n))).astype(np.complex128)
        v["abs_sq"] = np.absolute(v["psi"]) ** 2
        v["mu"] = rng.uniform(-1, 1, size=n)
        v["dt"] = float(rng.choice([1e-3, 0.1]))
        v["M"] = sp.csr_array((n, n), dtype=np.complex128)
        vs.append(v)
    return vs


def step_level(ctx):
    """the update as the solver performs it, retries included: `adaptive_euler_step` on a real device must return
    (psi', |psi'|^2, dt) that solve the site equation FOR THE dt IT REPORTS (the dt that is recorded, advances the
    clock and feeds the next step-size choice); refusals come from a strong random state and from a schedule."""
    import zoo
    import runs
    from tdgl.solver.solver import TDGLSolver

    rng = ctx.rng
    first = None
    dev = zoo.make_device("bar_hole", rng, max_edge_length=1.0, gamma=float(rng.choice([0.0, 1.0, 10.0])))
    for adaptive, retries_forced in ((True, 0), (True, 1), (True, 2), (False, 0)):
        opts = runs.options(adaptive=adaptive, dt_init=1e-3, dt_max=0.5, max_solve_retries=6, adaptive_time_step_multiplier=float(rng.choice([0.25, 0.5])))
        solver = TDGLSolver(device=dev, options=opts, applied_vector_potential=float(rng.uniform(0.2, 1.5)))
        n = len(dev.mesh.sites)
        orig = TDGLSolver.__dict__["solve_for_psi_squared"]
        state = dict(left=0, calls=[])

        def wrapped(**kw):
            state["calls"].append(float(kw["dt"]))
            if state["left"] > 0:
                state["left"] -= 1
                return None
            return orig.__func__(**kw)

        TDGLSolver.solve_for_psi_squared = staticmethod(wrapped)
        try:
            for rep in range(6 if ctx.quick else 40):
                amp = float(rng.choice([0.3, 1.0, 1.3]))
                psi = amp * (rng.normal(size=n) + 1j * rng.normal(size=n)) / np.sqrt(2)
                a = np.abs(psi) ** 2
                mu = rng.normal(size=n) * rng.choice([0.0, 1.0, 20.0])
                eps = np.full(n, 1.0)
                dt0 = float(rng.choice([1e-3, 5e-2, 0.4])) if adaptive else 1e-3
                state["left"], state["calls"] = retries_forced, []
                try:
                    p2, x2, dt_rep = solver.adaptive_euler_step(0, psi, a, mu, eps, dt0)
                except RuntimeError:
                    ctx.count("step_level_raised")
                    continue
                nret = len(state["calls"]) - 1
                ctx.case(("step", adaptive, retries_forced, rep, V.bits(dt_rep)), nontrivial=nret > 0)
                ctx.count(f"step_level_retries={min(nret, 3)}")
                v = dict(psi=psi, abs_sq=a, mu=mu, eps=eps, gamma=solver.gamma, u=solver.u, dt=float(dt_rep), M=solver.operators.psi_laplacian)
                z, w, b, disc, az2, aw2 = oracle_zw(v)
                bad = check_answer(v, (p2, x2), np.arange(n), z, w, b, disc, az2, aw2)
                if bad:
                    i, what = bad[0]
                    rp = dict(adaptive=adaptive, forced_refusals=retries_forced, attempts=state["calls"], reported_dt=float(dt_rep), site=int(i), detail=what)
                    ctx.fail("step:answer-does-not-solve-for-reported-dt", f"adaptive_euler_step reports dt={dt_rep} after attempts {state['calls']} but its answer does not solve the site equation for that dt: {what}", rp)
                    first = first or dict(key="step:answer-does-not-solve-for-reported-dt", what=what, **rp)
        finally:
            TDGLSolver.solve_for_psi_squared = orig
    return first


def update_level(ctx):
    """the whole `TDGLSolver.update` started from an ARBITRARY state (as a seeded run, a second solve() of the same
    solver or a direct call does): the psi it returns solves the site equation built from the state it was given --
    in particular from |psi^n|^2 of that state, whatever an earlier call left behind in the solver"""
    import zoo
    import runs
    from tdgl.solver.runner import RunningState

    rng = ctx.rng
    first = None
    for gamma_ in (0.0, float(rng.choice([1.0, 3.0, 10.0]))):  # gamma = 0: the boundary value the chosen root must also handle
        first = first or _update_level_gamma(ctx, rng, gamma_)
    # terminals pinned (the default): the state handed in need not hold the terminal value on the terminal sites (a seed
    # computed with another terminal value); the answer on the FREE sites still solves the equations of the state given
    first = first or _update_level_gamma(ctx, rng, float(rng.choice([1.0, 10.0])), terminal_psi=0.0)
    return first


def update_level_currents(t):
    i_ = 2.0 + 5.0 * t
    return {"source": i_, "drain": -i_}


def _update_level_gamma(ctx, rng, gamma_, terminal_psi=None):
    import zoo
    import runs

    first = None
    dev = zoo.make_device("bar_hole", rng, max_edge_length=1.0, gamma=gamma_)
    dt = 2e-3
    opts = runs.options(adaptive=False, dt_init=dt, terminal_psi=terminal_psi)
    # (a bias that changes from call to call: whatever the update does about the new boundary condition, the psi step is
    # taken with the mu it was handed)
    ref = runs.Reference(dev, opts, 2, applied_vector_potential=0.4, terminal_currents=update_level_currents)  # two ordinary steps first
    solver = ref.solver
    n, E = len(dev.mesh.sites), solver.num_edges
    for rep in range(4 if ctx.quick else 30):
        amp = float(rng.choice([0.3, 0.7, 1.2, 2.0]))
        psi = amp * (rng.normal(size=n) + 1j * rng.normal(size=n)) / np.sqrt(2)
        mu = rng.normal(size=n) * rng.choice([0.0, 1.0])
        try:
            res = solver.update({"step": 5 + rep, "time": 0.1 + 0.07 * rep, "dt": dt}, ref.rs, dt, psi=psi.copy(), mu=mu.copy(), supercurrent=np.zeros(E), normal_current=np.zeros(E),
                                induced_vector_potential=np.zeros((E, 2)))
        except RuntimeError as e:
            # "never refused when a solution exists at every site": the discriminant of the state that was handed in
            v0 = dict(psi=psi, abs_sq=np.abs(psi) ** 2, mu=mu, eps=np.asarray(solver.epsilon) * np.ones(n), gamma=solver.gamma, u=solver.u, dt=dt, M=solver.operators.psi_laplacian)
            disc0 = oracle_zw(v0)[3]
            ctx.case(("update-from-arbitrary-state", gamma_, rep, amp, "raised"), nontrivial=True)
            if float(np.min(disc0)) > 1e-9:
                rp = dict(call=rep, gamma=gamma_, amplitude=amp, min_discriminant=float(np.min(disc0)), max_abs_psi=float(np.abs(psi).max()), error=str(e)[:120])
                ctx.fail("update:refused-although-solvable", f"gamma={gamma_}: TDGLSolver.update refused a state (max|psi| = {rp['max_abs_psi']:.2f}) whose site equations all have a solution "
                         f"(smallest discriminant {rp['min_discriminant']:.3e}): {rp['error']}", rp)
                first = first or dict(key="update:refused-although-solvable", what=rp["error"], **rp)
                break
            continue
        dt_out, psi2 = float(res[0]), np.asarray(res[1])
        v = dict(psi=psi, abs_sq=np.abs(psi) ** 2, mu=mu, eps=np.asarray(solver.epsilon) * np.ones(n), gamma=solver.gamma, u=solver.u, dt=dt_out, M=solver.operators.psi_laplacian)
        z, w, b, disc, az2, aw2 = oracle_zw(v)
        free_ = np.arange(n)
        if terminal_psi is not None:
            tsites_ = np.unique(np.concatenate([t_["sites"] for t_ in zoo.independent_terminals(dev).values()]))
            free_ = np.setdiff1d(free_, tsites_)
        bad = check_answer(v, (psi2[free_], (np.abs(psi2) ** 2)[free_]), free_, z, w, b, disc, az2, aw2)
        ctx.case(("update-from-arbitrary-state", gamma_, rep, amp, repr(terminal_psi)), nontrivial=True)
        ctx.count("update_level_calls")
        if bad:
            i, what = bad[0]
            rp = dict(call=rep, gamma=gamma_, amplitude=amp, site=int(i), detail=what)
            ctx.fail("update:answer-does-not-solve-for-given-state", f"gamma={gamma_}: TDGLSolver.update called with a state of amplitude {amp} returns psi' that does not solve the site equation built from that state: {what}", rp)
            first = first or dict(key="update:answer-does-not-solve-for-given-state", what=what, **rp)
            break
    return first


def eps_of_time(r, *, t, rate=6.0):
    """time-dependent disorder parameter: epsilon(r, t) in [0.4, 1]"""
    x, y = r
    return 0.7 + 0.3 * np.cos(rate * t + 0.8 * x - 0.5 * y)


def update_level_dynamic_epsilon(ctx):
    """with a time-dependent epsilon the update of step n is solved with epsilon(r, t^n), whatever value of epsilon the
    caller hands back from the previous step"""
    import zoo
    import runs

    rng = ctx.rng
    first = None
    dev = zoo.make_device("bar_hole", rng, max_edge_length=1.0, gamma=float(rng.choice([1.0, 10.0])))
    dt = 2e-3
    opts = runs.options(adaptive=False, dt_init=dt, terminal_psi=None)
    ref = runs.Reference(dev, opts, 2, applied_vector_potential=0.3, disorder_epsilon=eps_of_time)
    solver = ref.solver
    if not solver.dynamic_epsilon:
        raise V.Infra("the solver does not treat eps_of_time as time-dependent")
    n, E = len(dev.mesh.sites), solver.num_edges
    for rep in range(4 if ctx.quick else 30):
        t_now = float(rng.uniform(0.05, 2.0))
        psi = 0.8 * (rng.normal(size=n) + 1j * rng.normal(size=n)) / np.sqrt(2)
        mu = rng.normal(size=n) * 0.3
        stale = np.array([eps_of_time(r, t=t_now - 0.21) for r in solver.sites])  # what the previous step reported
        try:
            res = solver.update({"step": 3 + rep, "time": t_now, "dt": dt}, ref.rs, dt, psi=psi.copy(), mu=mu.copy(), supercurrent=np.zeros(E), normal_current=np.zeros(E),
                                induced_vector_potential=np.zeros((E, 2)), epsilon=stale)
        except RuntimeError as e:
            eps0 = np.array([eps_of_time(r, t=t_now) for r in solver.sites])
            v0 = dict(psi=psi, abs_sq=np.abs(psi) ** 2, mu=mu, eps=eps0, gamma=solver.gamma, u=solver.u, dt=dt, M=solver.operators.psi_laplacian)
            disc0 = oracle_zw(v0)[3]
            ctx.case(("update-dynamic-epsilon", rep, "raised"), nontrivial=True)
            if float(np.min(disc0)) > 1e-9:
                rp = dict(call=rep, time=t_now, min_discriminant=float(np.min(disc0)), max_abs_psi=float(np.abs(psi).max()), error=str(e)[:120])
                ctx.fail("update:refused-although-solvable", f"TDGLSolver.update (time-dependent epsilon) refused a state whose site equations all have a solution "
                         f"(smallest discriminant {rp['min_discriminant']:.3e}): {rp['error']}", rp)
                first = first or dict(key="update:refused-although-solvable", what=rp["error"], **rp)
                break
            continue
        dt_out, psi2 = float(res[0]), np.asarray(res[1])
        eps_now = np.array([eps_of_time(r, t=t_now) for r in solver.sites])
        v = dict(psi=psi, abs_sq=np.abs(psi) ** 2, mu=mu, eps=eps_now, gamma=solver.gamma, u=solver.u, dt=dt_out, M=solver.operators.psi_laplacian)
        z, w, b, disc, az2, aw2 = oracle_zw(v)
        bad = check_answer(v, (psi2, np.abs(psi2) ** 2), np.arange(n), z, w, b, disc, az2, aw2)
        ctx.case(("update-dynamic-epsilon", rep), nontrivial=True)
        ctx.count("update_level_dynamic_epsilon_calls")
        if bad:
            i, what = bad[0]
            rp = dict(call=rep, time=t_now, site=int(i), detail=what)
            ctx.fail("update:wrong-epsilon-time", f"with a time-dependent epsilon the update at t = {t_now:.3f} does not solve the site equation built with epsilon(r, t): {what}", rp)
            first = first or dict(key="update:wrong-epsilon-time", what=what, **rp)
            break
    return first


def update_level_dynamic_potential(ctx):
    """with a time-dependent applied vector potential the update of step n is solved with the covariant Laplacian of A(t^n):
    the reference Laplacian is built from scratch (a fresh MeshOperators object) for the potential evaluated here from the
    Parameter itself, not taken from the solver"""
    import zoo
    import runs
    from tdgl.finite_volume.operators import MeshOperators
    from tdgl.solver.options import SparseSolver
    from tdgl.sources import ConstantField, LinearRamp

    rng = ctx.rng
    first = None
    for terminal_psi in (None, 0.0):
        dev = zoo.make_device("bar_hole", rng, max_edge_length=1.0, gamma=float(rng.choice([1.0, 10.0])))
        dt = 2e-3
        opts = runs.options(adaptive=False, dt_init=dt, terminal_psi=terminal_psi)
        A_param = LinearRamp(tmin=0.0, tmax=3.0) * ConstantField(1.2, field_units=opts.field_units, length_units=dev.length_units)
        ref = runs.Reference(dev, opts, 2, applied_vector_potential=A_param)
        solver = ref.solver
        if not solver.dynamic_vector_potential:
            raise V.Infra("the solver does not treat the ramped field as time-dependent")
        mesh = dev.mesh
        n, E = len(mesh.sites), solver.num_edges
        em = mesh.edge_mesh
        tsites = np.unique(np.concatenate([t_["sites"] for t_ in zoo.independent_terminals(dev).values()])) if terminal_psi is not None else None
        A_prev = np.asarray(ref.states[-1]["applied_vector_potential"])
        for rep in range(4 if ctx.quick else 24):
            t_now = float(rng.uniform(0.3, 2.9))
            psi = 0.8 * (rng.normal(size=n) + 1j * rng.normal(size=n)) / np.sqrt(2)
            mu = rng.normal(size=n) * 0.3
            # A(t_now) from the Parameter: xi-scaled positions back to length units, A_scale as the solver states it
            xi = dev.layer.coherence_length
            A_now = np.asarray(A_param(em.centers[:, 0] * xi, em.centers[:, 1] * xi, dev.layer.z0 * np.ones(E), t=t_now))[:, :2]
            A_now = float(solver.A_scale) * (A_now.to(f"{opts.field_units} * {dev.length_units}").magnitude if hasattr(A_now, "to") else A_now)
            mo = MeshOperators(mesh, SparseSolver.SUPERLU, fixed_sites=tsites, fix_psi=terminal_psi is not None)
            mo.build_operators()
            mo.set_link_exponents(A_now)
            try:
                res = solver.update({"step": 3 + rep, "time": t_now, "dt": dt}, ref.rs, dt, psi=psi.copy(), mu=mu.copy(), supercurrent=np.zeros(E), normal_current=np.zeros(E),
                                    induced_vector_potential=np.zeros((E, 2)), applied_vector_potential=A_prev.copy())
            except RuntimeError as e:
                v0 = dict(psi=psi, abs_sq=np.abs(psi) ** 2, mu=mu, eps=np.asarray(solver.epsilon) * np.ones(n), gamma=solver.gamma, u=solver.u, dt=dt, M=mo.psi_laplacian)
                ctx.case(("update-dynamic-potential", rep, "raised"), nontrivial=True)
                if float(np.min(oracle_zw(v0)[3])) > 1e-9:
                    rp = dict(call=rep, time=t_now, error=str(e)[:120])
                    ctx.fail("update:refused-although-solvable", f"TDGLSolver.update (time-dependent vector potential) refused a state whose site equations all have a solution: {rp['error']}", rp)
                    first = first or dict(key="update:refused-although-solvable", what=rp["error"], **rp)
                    break
                continue
            dt_out, psi2 = float(res[0]), np.asarray(res[1])
            A_rep = np.asarray(res[6])
            A_prev = A_rep
            sc_ = max(float(np.abs(A_now).max()), 1e-300)
            ctx.tol("A(t) reported by the update vs the Parameter evaluated by the harness (rel)", float(np.abs(A_rep - A_now).max()) / sc_, 1e-12)
            v = dict(psi=psi, abs_sq=np.abs(psi) ** 2, mu=mu, eps=np.asarray(solver.epsilon) * np.ones(n), gamma=solver.gamma, u=solver.u, dt=dt_out, M=mo.psi_laplacian)
            z, w, b, disc, az2, aw2 = oracle_zw(v)
            free_ = np.arange(n) if tsites is None else np.setdiff1d(np.arange(n), tsites)
            bad = check_answer(v, (psi2[free_], (np.abs(psi2) ** 2)[free_]), free_, z, w, b, disc, az2, aw2)
            ctx.case(("update-dynamic-potential", repr(terminal_psi), rep), nontrivial=True)
            ctx.count("update_level_dynamic_potential_calls")
            if float(np.abs(A_rep - A_now).max()) > 1e-12 * sc_:
                rp = dict(call=rep, time=t_now, max_diff=float(np.abs(A_rep - A_now).max()))
                ctx.fail("update:wrong-potential-time", f"the applied vector potential reported by the update at t = {t_now:.3f} is not the Parameter evaluated at that time", rp)
                first = first or dict(key="update:wrong-potential-time", what="reported A differs", **rp)
                break
            if bad:
                i, what = bad[0]
                rp = dict(call=rep, time=t_now, site=int(i), detail=what, terminal_psi=repr(terminal_psi))
                ctx.fail("update:stale-laplacian-under-ramp", f"with a time-dependent vector potential the update at t = {t_now:.3f} does not solve the site equation built with the covariant Laplacian "
                         f"of A(t) (rebuilt from scratch): {what}", rp)
                first = first or dict(key="update:stale-laplacian-under-ramp", what=what, **rp)
                break
    return first


def run(ctx):
    step_level(ctx)
    update_level(ctx)
    update_level_dynamic_epsilon(ctx)
    update_level_dynamic_potential(ctx)
    nvec = 40 if ctx.quick else 1500
    n = 256 if ctx.quick else 512
    for v in boundary_vectors(ctx.rng, n):
        eval_vector(ctx, v)
    for _ in range(nvec):
        eval_vector(ctx, gen_vector(ctx.rng, n))


def search(ctx):
    f0 = step_level(ctx)
    if f0 is not None:
        return f0
    rng = np.random.default_rng(ctx.seed + 7919)
    budget = 30 if ctx.quick else 600
    import time

    t0 = time.time()
    while time.time() - t0 < budget:
        f = eval_vector(ctx, gen_vector(rng, 512), with_model=False)
        if f is not None:
            return f
    return None


def replay(payload):
    if "input" not in payload:
        ctx = V.Ctx("C02", "quick", int(payload.get("seed", 0)))
        try:
            return step_level(ctx) is None
        finally:
            ctx.cleanup()
    r = payload["input"]
    v = vector_from_replay(r)
    z, w, b, disc, az2, aw2 = oracle_zw(v)
    res = call_impl(v)
    if res is None:
        return not bool(disc[0] > BAND * b[0] * b[0])
    return not check_answer(v, (res[0][:1], res[1][:1]), np.array([0]), z, w, b, disc, az2, aw2)
