"""C17 — the uniform superconducting state is exactly stationary.

Undriven real runs (no field, no bias, epsilon = 1) on irregular / smoothed / holed meshes with unpinned
terminals, gamma in {0,1,10}, several u, adaptive on/off, screening on/off: every frame must show psi = 1, mu = 0,
no current; with adaptivity on the time step must reach dt_max right after the warm-up window, exactly as the
Lean dt controller predicts for zero change.
"""
from __future__ import annotations

import os

import numpy as np

import runs
import vcommon as V
import zoo
import tdgl

LEVEL = "proof"
RULE = (
    "meshes (bar with unpinned terminals, holed bar, ring, union, smoothed variants) x gamma in {0,1,10} x u x "
    "adaptive on/off x screening on/off; a case = one saved frame; non-trivial = step > 0"
)
EXPLANATION = (
    "Lean theorems C17_* (covariant Laplacian of a constant vanishes at A=0 on every mesh, per-site fixed point of the "
    "quadratic for all gamma, u, dt, whole-update fixed point given solve(0)=0, induction over steps); undriven real "
    "runs must stay at the uniform state to rounding and the dt sequence must equal the model's."
)
ASSUMPTIONS = ["deviation tolerance 1e-10 (row sums of the float Laplacian are ~1e-13, not 0)"]


def configs(quick):
    out = []
    devs = [("bar", 0), ("bar_hole", 3), ("ring", 0)] if quick else [("bar", 0), ("bar_hole", 3), ("ring", 0), ("union", 5), ("cross4", 2), ("ellipse", 0)]
    for dev, smooth in devs:
        for gamma in (0.0, 1.0, 10.0):
            adaptive = (gamma != 1.0)
            out.append(dict(dev=dev, smooth=smooth, gamma=gamma, u=(5.79 if gamma else 1.0), adaptive=adaptive, screening=(dev == "ring" and gamma == 10.0)))
    # screening with free (unpinned) terminals: the link variables are refreshed at every step
    out.append(dict(dev="bar", smooth=0, gamma=10.0, u=0.5, adaptive=True, screening=True))
    out.append(dict(dev="bar_hole", smooth=3, gamma=1.0, u=5.79, adaptive=False, screening=True))
    # terminals pinned to the uniform value itself (psi = 1 is consistent with that boundary condition): still quiet,
    # and the step still grows to its maximum
    out.append(dict(dev="bar", smooth=0, gamma=10.0, u=5.79, adaptive=True, screening=False, tp=1.0))
    out.append(dict(dev="bar_hole", smooth=3, gamma=1.0, u=5.79, adaptive=True, screening=True, tp=1.0))
    # long quiet runs ("all steps"): 5 tau with dt_max below and 30 tau with dt_max above the stability limit
    # dt * lambda_max(-Laplacian) / u < 2 of the explicit step (u = 1, gamma = 0: the smallest damping)
    out.append(dict(dev="bar_hole", smooth=3, gamma=0.0, u=1.0, adaptive=True, screening=False, long=True, dt_max=0.01, T=5.0))
    out.append(dict(dev="bar_hole", smooth=3, gamma=0.0, u=1.0, adaptive=True, screening=False, long=True, dt_max=0.1, T=30.0))
    return out


def eval_config(ctx, cfg, with_model=True):
    dev = zoo.make_device(cfg["dev"], ctx.rng, smooth=cfg["smooth"], gamma=cfg["gamma"], u=cfg["u"], max_edge_length=1.0)
    tag = dict(cfg)
    first = None

    def fail(key, what, **extra):
        nonlocal first
        rp = dict(tag, **extra)
        ctx.fail(key, what, rp)
        if first is None:
            first = dict(key=key, what=what, **rp)

    out = os.path.join(str(ctx.work), "c17.h5")
    if os.path.exists(out):
        os.remove(out)
    if dev.terminals and not cfg.get("long"):
        # history: the same device object has just been used for a driven run with the terminals pinned (psi = 0
        # there); nothing of that run may survive into the quiet, unpinned one
        names = [t.name for t in dev.terminals]
        tdgl.solve(dev, runs.options(solve_time=0.02, dt_init=5e-3, adaptive=False, save_every=100, terminal_psi=0.0), applied_vector_potential=0.3,
                   terminal_currents={names[0]: 1.0, names[1]: -1.0})
        ctx.count("quiet_runs_after_a_pinned_run_on_the_same_device")
    o = dict(dt_init=1e-3, dt_max=cfg.get("dt_max", 0.1), adaptive=cfg["adaptive"], adaptive_window=3, terminal_psi=cfg.get("tp"), include_screening=cfg["screening"], screening_tolerance=1e-3)
    nsteps = 12
    T = cfg.get("T") or ((1e-3 * nsteps) if not cfg["adaptive"] else 0.6)
    opts = runs.options(solve_time=T, save_every=(20 if cfg.get("long") else 2), output_file=out, progress_interval=10**9, **o)
    try:
        sol = tdgl.solve(dev, opts)  # no field, no current, epsilon = 1
    except Exception as e:  # noqa: the quiet state is a legitimate input; a run that dies has not stayed stationary
        fail("quiet-run-raised", f"the undriven run raised {type(e).__name__}: {str(e)[:140]}", error=f"{type(e).__name__}: {str(e)[:140]}")
        ctx.case((cfg["dev"], cfg["gamma"], cfg["adaptive"], cfg["screening"], "raised"))
        return first
    frames, _ = runs.parse_h5(sol.path)
    if dev.terminals and not cfg.get("long") and not cfg["screening"]:
        # "all steps" of a run CONTINUED from the quiet state as well (seeded with the solution just obtained)
        out2 = os.path.join(str(ctx.work), "c17_leg2.h5")
        if os.path.exists(out2):
            os.remove(out2)
        try:
            sol_b = tdgl.solve(dev, runs.options(solve_time=T / 2, save_every=2, output_file=out2, progress_interval=10**9, **o), seed_solution=sol)
            leg2 = runs.parse_h5(sol_b.path)[0]
            for fr in leg2:
                fr["step"] = f"seeded leg, step {fr['step']}"
            frames = frames + leg2
            ctx.count("quiet_runs_continued_from_the_quiet_state")
        except Exception as e:  # noqa
            fail("quiet-run-raised", f"the undriven run continued from the quiet state raised {type(e).__name__}: {str(e)[:140]}", error=f"{type(e).__name__}: {str(e)[:140]}")
    worst = 0.0
    for fr in frames:
        d = fr["data"]
        dev_ = max(float(np.abs(d["psi"] - 1).max()), float(np.abs(d["mu"]).max()), float(np.abs(d["supercurrent"]).max()), float(np.abs(d["normal_current"]).max()),
                   float(np.abs(d["induced_vector_potential"]).max()))
        worst = max(worst, dev_)
        ctx.case((cfg["dev"], cfg["gamma"], cfg["adaptive"], cfg["screening"], cfg.get("dt_max", 0.1), cfg.get("tp"), fr["step"]), nontrivial=(fr["step"] != 0))
        if not (dev_ <= 1e-10):  # (also NaN)
            key = "uniform-state-drifts" + (f":long:{cfg['dev']}:gamma={cfg['gamma']}:u={cfg['u']}:dt_max={cfg['dt_max']}" if cfg.get("long") else "")
            fail(key, f"step {fr['step']} (t = {float(fr['time']):.3g}): deviation from psi=1, mu=0, J=0 is {dev_:.3e} (gamma={cfg['gamma']}, u={cfg['u']}, dt_max={o['dt_max']})", step=fr["step"], deviation=dev_)
            break
    ctx.tol("max deviation from the uniform state", worst, 1e-10)
    ctx.count(f"gamma={cfg['gamma']}")
    ctx.count("adaptive" if cfg["adaptive"] else "fixed")
    ctx.count("screening" if cfg["screening"] else "no_screening")
    dts = np.asarray(sol.dynamics.dt)
    if cfg.get("long") and first is not None:
        # once the state has left psi = 1 the controller legitimately reduces the step: the time-step clauses are
        # consequences of the drift already reported, not separate failures
        return first
    if cfg["adaptive"]:
        w = o["adaptive_window"]
        # proposal is made at steps > window; it is used from the next step on
        if len(dts) > w + 2 and not np.all(dts[w + 2:] == o["dt_max"]):
            fail("dt-does-not-grow", f"adaptive step does not reach dt_max after the window: {dts[: w + 5].tolist()}", dts=dts[: w + 5].tolist())
        if with_model:
            n = len(dts)
            line = (f"adapt {V.bits(o['dt_init'])} {V.bits(o['dt_max'])} 1 {w} {V.bits(0.25)} 10 | " + " ".join(str(V.bits(0.0)) for _ in range(n)) + " | " + " ; ".join("" for _ in range(n)))
            (res,) = V.driver([line])
            ctx.traces += 1
            model = [V.unbits(t.split(":")[0]) for t in res.split()]
            ctx.corr(model == dts.tolist(), "dt sequence of the undriven run vs the Lean controller with zero change", dict(tag, model=model[:8], impl=dts[:8].tolist()))
    else:
        if not np.all(dts == o["dt_init"]):
            fail("fixed-dt-changed", "fixed-step undriven run changed its time step")
    if len(ctx.samples) < 4:
        ctx.samples.append(dict(tag, sites=len(dev.mesh.sites), frames=len(frames), max_deviation=worst, dt=dts[:8].tolist()))
    return first


def shared_options(ctx):
    """one SolverOptions object used for a fixed-step quiet run and then, with adaptive switched on, for an adaptive one
    (as a script that reuses its options does): the second run still grows its step to the configured dt_max, and a run
    never changes the options it was given"""
    import dataclasses

    first = None
    dev = zoo.make_device("bar_hole", ctx.rng, smooth=2, max_edge_length=1.0)
    opts = runs.options(solve_time=0.01, dt_init=1e-3, dt_max=0.05, adaptive=False, adaptive_window=3, terminal_psi=None, save_every=2)
    before = dataclasses.asdict(opts)
    tdgl.solve(dev, opts)
    changed = {k: (before[k], v) for k, v in dataclasses.asdict(opts).items() if v != before[k] and k != "output_file"}
    opts.adaptive = True
    opts.solve_time = 0.5
    sol = tdgl.solve(dev, opts)
    dts = np.asarray(sol.dynamics.dt, dtype=float)
    ctx.case(("shared-options",), nontrivial=True)
    ctx.count("shared_options_sequences")
    if changed:
        ctx.fail("options-mutated-by-solve", f"a fixed-step run changed the options object it was given: {changed}", dict(changed={k: [repr(a), repr(b)] for k, (a, b) in changed.items()}))
        first = dict(key="options-mutated-by-solve", what=str(changed))
    if not (len(dts) > 6 and np.all(dts[5:] == 0.05)):
        rp = dict(dts=dts[:8].tolist(), dt_max_now=repr(opts.dt_max))
        ctx.fail("dt-does-not-grow:shared-options", f"adaptive quiet run after a fixed-step run with the same options object: the step does not reach dt_max = 0.05 ({dts[:8].tolist()}); options.dt_max is now {opts.dt_max!r}", rp)
        first = first or dict(key="dt-does-not-grow:shared-options", what="dt does not grow", **rp)
    return first


def run(ctx):
    shared_options(ctx)
    for cfg in configs(ctx.quick):
        eval_config(ctx, cfg)


def search(ctx):
    for cfg in configs(False):
        f = eval_config(ctx, cfg, with_model=False)
        if f:
            return f
    return None


def replay(payload):
    ctx = V.Ctx("C17", "quick", int(payload.get("seed", 0)))
    try:
        cfg = {k: payload[k] for k in ("dev", "smooth", "gamma", "u", "adaptive", "screening")}
        cfg.update({k: payload[k] for k in ("long", "dt_max", "T") if k in payload})
        for k in ("gamma", "u", "dt_max", "T"):
            if k in cfg:
                cfg[k] = float(cfg[k])
        return eval_config(ctx, cfg, with_model=False) is None
    finally:
        ctx.cleanup()
