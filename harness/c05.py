"""C05 — recorded frames, times and per-step records are consistent.

Implementation: real `tdgl.solve` runs on a ~100-site device, exhaustively over save interval k = 1..N+2 and
run length N = 0..Nmax for several physics configurations (fixed / adaptive with forced retries,
thermalisation on/off, 0/2/3 probes, screening on/off).
Executable specification (oracle): a reference trajectory obtained by calling `TDGLSolver.update` in a bare loop
(no Runner, no DataHandler): state after s updates, time steps, per-step records.
Correspondence: the Lean model `Tdgl.run` (Float clock) driven with the observed time steps must produce the
same canonical trace (labels, clock bit patterns, which trajectory point each frame holds, which records).
"""
from __future__ import annotations

import os

import h5py
import numpy as np

import runs
import vcommon as V
import zoo
import tdgl

LEVEL = "proof"
EXHAUSTIVE = True
RULE = (
    "exhaustive over k in 1..N+2, N in 0..Nmax (quick 6, thorough 12) for each physics configuration (fixed dt; "
    "adaptive with retries forced by a scheduled refusal; thermalisation; 0/2/3 probes; screening); a case = one real "
    "tdgl.solve run; distinct = distinct (configuration, k, N); non-trivial = N >= 1"
)
EXPLANATION = (
    "Lean theorems C05_* about the loop model runStage/run for every physics `upd`, every k >= 1, every T (induction "
    "over iterations); each real run's HDF5 trace is compared with an executable specification built from bare "
    "TDGLSolver.update calls and with the Lean model's trace driven by the observed time steps."
)
ASSUMPTIONS = [
    "TDGLSolver.update is deterministic given the same call history (validated by C09)",
    "frames compared bit for bit with the reference trajectory",
]


def configs(quick):
    c = [
        dict(name="fixed", dev="bar", opts=dict(dt_init=1e-2, adaptive=False), kw=dict(applied_vector_potential=0.4, terminal_currents={"source": 3.0, "drain": -3.0})),
        dict(name="adaptive", dev="bar", opts=dict(dt_init=1e-3, dt_max=5e-2, adaptive=True, adaptive_window=2), kw=dict(applied_vector_potential=0.8, terminal_currents={"source": 6.0, "drain": -6.0})),
        dict(name="thermal", dev="bar", opts=dict(dt_init=1e-2, adaptive=False, skip_time=0.035), kw=dict(applied_vector_potential=0.4, terminal_currents={"source": 3.0, "drain": -3.0})),
        dict(name="noprobe", dev="bar", probes=False, opts=dict(dt_init=1e-2, adaptive=False), kw=dict(applied_vector_potential=0.5)),
        dict(name="3probes", dev="ellipse", opts=dict(dt_init=5e-3, dt_max=2e-2, adaptive=True, adaptive_window=1), kw=dict(applied_vector_potential=0.6)),
        dict(name="screening", dev="ring", opts=dict(dt_init=1e-2, adaptive=False, include_screening=True, screening_tolerance=1e-2), kw=dict(applied_vector_potential=0.3)),
    ]
    if not quick:
        c.append(dict(name="adaptive_thermal_ramp", dev="bar_hole", opts=dict(dt_init=1e-3, dt_max=3e-2, adaptive=True, adaptive_window=3, skip_time=0.01),
                      kw=dict(terminal_currents={"source": 4.0, "drain": -4.0}), ramp=True))
    return c


def build(cfg, rng):
    dev = zoo.make_device(cfg["dev"], rng, max_edge_length=1.0, probes=cfg.get("probes", True))
    kw = dict(cfg["kw"])
    if cfg.get("ramp"):
        from tdgl.sources import ConstantField, LinearRamp

        kw["applied_vector_potential"] = LinearRamp(tmin=0.0, tmax=0.05) * ConstantField(0.6, field_units="mT", length_units="um")
    return dev, kw


def expected_labels(N, k):
    lab = [i for i in range(N + 1) if i % k == 0]
    if N % k:
        lab.append(N)
    return lab


def check_run(ctx, cfg, dev, kw, ref, k, N, Tend, with_model=True):
    """one real run; returns failure dict or None"""
    name = cfg["name"]
    out = os.path.join(str(ctx.work), f"{name}_{k}_{N}.h5")
    opts = runs.options(save_every=k, solve_time=Tend, output_file=out, progress_interval=10**9, **cfg["opts"])
    tag = dict(config=name, k=k, N=N, solve_time=Tend, opts={kk: vv for kk, vv in cfg["opts"].items()})
    fails = []

    def fail(key, what, **extra):
        rp = dict(tag, **extra)
        ctx.fail(f"{key}", what, rp)
        fails.append(dict(key=key, what=what, **rp))

    try:
        sol = tdgl.solve(dev, opts, **kw)
    except Exception as e:  # noqa
        fail(f"solve-raises:{type(e).__name__}:{'N=0' if N == 0 else ('k=1' if k == 1 else 'other')}", f"tdgl.solve raised {type(e).__name__}: {e}", error=str(e)[:200])
        ctx.case((name, k, N), nontrivial=N >= 1)
        return fails[0]
    frames, top = runs.parse_h5(sol.path)
    labels = [fr["step"] for fr in frames]
    exp = expected_labels(N, k)
    ctx.case((name, k, N), nontrivial=N >= 1)
    ctx.count(f"N%k{'==' if N % k == 0 else '!='}0")
    ctx.count(f"config:{name}")
    if labels != exp:
        fail("frame-labels", f"frames are labelled {labels}, expected {exp}", labels=labels)
    # frame content and clock
    for fr in frames:
        s = fr["step"]
        if s >= len(ref.states):
            fail("frame-beyond-run", f"frame labelled step {s} beyond the stopping step {N}", label=s)
            continue
        if not (fr["time"] == ref.times[s]):
            fail("frame-time", f"frame labelled step {s} has time {fr['time']!r}, sum of first {s} time steps is {ref.times[s]!r}", label=s)
        st = ref.states[s]
        bad = [nm for nm in st if nm not in fr["data"] or not np.array_equal(np.asarray(st[nm]), fr["data"][nm])]
        if bad:
            hit = [j for j in range(len(ref.states)) if all(np.array_equal(np.asarray(ref.states[j][nm]), fr["data"][nm]) for nm in st if nm in fr["data"])]
            fail("frame-content", f"frame labelled step {s} does not hold the state after {s} updates (datasets {bad}; it equals the state after {hit} updates)", label=s, equals_updates=hit)
    # per-step records, exactly once, in order
    dyn = sol.dynamics
    want_dt = np.array(ref.dts[:N], dtype=float)
    if not np.array_equal(np.asarray(dyn.dt), want_dt):
        fail("records-dt", f"{len(dyn.dt)} per-step time-step records read back, expected exactly {N} (one per step)", got=len(dyn.dt))
    for col in ("mu", "theta", "screening_iterations"):
        if col in ref.sizes:
            got = getattr(dyn, col)
            if N:
                want = np.array([np.asarray(r[col], dtype=float) for r in ref.records[:N]]).T
                if col == "screening_iterations":
                    want = want.reshape(-1)
                if got is None or np.shape(got) != np.shape(want) or not np.array_equal(np.asarray(got, dtype=float), want):
                    fail(f"records-{col}", f"per-step column {col} read back differs from one record per step", column=col)
    # ... and a per-step record describes the state its step ENDS with (the one a frame labelled s + 1 holds): the probe
    # potentials / phases are those of the returned mu / psi at the probe sites, also when the step iterated (screening)
    pp = getattr(ref.solver, "probe_points", None)
    if pp is not None and N and "mu" in ref.sizes:
        pp = np.asarray(pp, dtype=int)
        got_mu, got_th = np.asarray(dyn.mu, dtype=float), np.asarray(dyn.theta, dtype=float)
        for s_ in range(min(N, got_mu.shape[1] if got_mu.ndim == 2 else 0)):
            st_ = ref.states[s_ + 1]
            w_mu, w_th = np.asarray(st_["mu"])[pp], np.angle(np.asarray(st_["psi"])[pp])
            ctx.count("probe_records_compared_with_the_state_after_the_step")
            if not (np.array_equal(got_mu[:, s_], w_mu) and np.array_equal(got_th[:, s_], w_th)):
                fail("records-probes-vs-state", f"per-step probe record {s_} is not the potential / phase at the probe sites of the state after {s_ + 1} updates "
                     f"(max |mu_rec - mu_state| = {float(np.abs(got_mu[:, s_] - w_mu).max()):.3e}, max |theta_rec - theta_state| = {float(np.abs(got_th[:, s_] - w_th).max()):.3e})", record=int(s_))
                break
    # times reported by the loaded solution
    want_t = np.array([ref.times[s] for s in exp], dtype=float)
    try:
        got_t = np.asarray(sol.times, dtype=float)
        if not (got_t.shape == want_t.shape and np.array_equal(got_t, want_t)):
            fail("solution-times", f"Solution.times = {got_t.tolist()} but the frame times are {want_t.tolist()}", got=got_t.tolist())
    except Exception as e:  # noqa
        fail("solution-times-raises", f"Solution.times raised {type(e).__name__}: {e}")
    # ... "the times reported by the LOADED solution": the same from the file alone
    try:
        back_t = np.asarray(tdgl.Solution.from_hdf5(sol.path).times, dtype=float)
        if not (back_t.shape == want_t.shape and np.array_equal(back_t, want_t)):
            fail("solution-times:reloaded", f"Solution.from_hdf5(...).times = {back_t.tolist()} but the frame times are {want_t.tolist()}", got=back_t.tolist())
        ctx.count("times_checked_on_reloaded_solutions")
        # ... whichever recorded frame is being looked at: the times and per-step records are those of the whole run
        back_ = tdgl.Solution.from_hdf5(sol.path)
        lo_, hi_ = back_.data_range
        n_dt = len(np.asarray(back_.dynamics.dt))
        for k_ in sorted({lo_, (lo_ + hi_) // 2}):
            back_.solve_step = k_
            t_k = np.asarray(back_.times, dtype=float)
            if not (t_k.shape == want_t.shape and np.array_equal(t_k, want_t)) or len(np.asarray(back_.dynamics.dt)) != n_dt:
                fail("solution-times:frame-selected", f"with recorded frame {k_} of {lo_}..{hi_} selected, Solution.times = {t_k.tolist()} ({len(np.asarray(back_.dynamics.dt))} per-step records) "
                     f"but the frame times are {want_t.tolist()} ({n_dt} records)", selected=int(k_))
                break
    except Exception as e:  # noqa
        fail("solution-times-raises", f"loading the solution / its times raised {type(e).__name__}: {e}")
    # thermalisation never recorded, clock restarts
    if cfg["opts"].get("skip_time"):
        if frames and (frames[0]["step"] != 0 or frames[0]["time"] != 0):
            fail("thermal-restart", "recorded time/step does not restart from zero after thermalisation")
    ctx.count("runs")
    # correspondence with the Lean loop model driven by the observed time steps
    if with_model and not fails:
        thermal = ref.thermal_updates
        all_dts = list(getattr(ref, "thermal_dts", [])) + list(ref.dts)
        skip = cfg["opts"].get("skip_time")
        line = f"run {k} {V.bits(skip) if skip else '-'} {V.bits(Tend)} 1000 | " + " ".join(str(V.bits(x)) for x in all_dts)
        (res,) = V.driver([line])
        ctx.traces += 1
        # canonical trace of the implementation
        canon = []
        for fr in frames:
            recs = "-"
            if fr["running"] is not None:
                dtcol = np.atleast_1d(fr["running"]["dt"])
                nvalid = int((dtcol > 0).sum())
                first = fr["step"] - nvalid
                recs = "[" + ",".join(str(thermal + j) for j in range(first, fr["step"])) + "]"
            canon.append(f"{fr['step']}:{V.bits(fr['time'])}:{thermal + fr['step']}:{recs}")
        want = f"done final={thermal + N} " + " ".join(canon)
        ctx.corr(res.strip() == want.strip(), "Lean run model vs HDF5 trace", dict(tag, model=res[:400], impl=want[:400]))
        # reader side: Solution.times vs the Lean `solutionTimes` on the per-step time steps read back
        (tm,) = V.driver([f"times {k} | " + " ".join(str(V.bits(x)) for x in np.asarray(sol.dynamics.dt, dtype=float))])
        got_bits = " ".join(str(V.bits(x)) for x in np.asarray(sol.times, dtype=float))
        ctx.corr(tm.strip() == got_bits, "Lean solutionTimes vs Solution.times (bit patterns)", dict(tag, model=tm[:200], impl=got_bits[:200]))
    if len(ctx.samples) < 5 and N >= 2:
        ctx.samples.append(dict(config=name, k=k, N=N, labels=labels, times=[float(fr["time"]) for fr in frames], dt=[float(x) for x in ref.dts[:N]]))
    try:
        os.remove(sol.path)
    except OSError:
        pass
    return fails[0] if fails else None


def run_config(ctx, cfg, Nmax, with_model=True, stop_at_first=False):
    dev, kw = build(cfg, ctx.rng)
    refopts = runs.options(save_every=1000, solve_time=1e9, **cfg["opts"])
    sched = cfg["name"].startswith("adaptive")
    # thermal dts are needed by the model: reference records them
    ref = ReferenceT(dev, refopts, Nmax + 1, sched=sched, **kw)
    first = None
    # "t equal to the sum of the first s time steps": the per-step dt record is the step that was applied to the state
    mm = ref.recorded_vs_applied()
    ctx.case((cfg["name"], "recorded-dt-is-applied-dt"), nontrivial=sched)
    if mm is not None:
        rp = dict(config=cfg["name"], **mm)
        ctx.fail("recorded-dt-not-applied", f"{cfg['name']}: update {mm['step']} records dt={mm['recorded']!r} but the state was advanced with dt={mm['applied']!r}", rp)
        first = dict(key="recorded-dt-not-applied", what="recorded dt differs from the applied dt", **rp)
        if stop_at_first:
            return first
    for N in range(0, Nmax + 1):
        Tend = 0.0 if N == 0 else (ref.times[N - 1] + ref.times[N]) / 2
        for k in range(1, N + 3):
            with ScheduledRefusals(sched):
                f = check_run(ctx, cfg, dev, kw, ref, k, N, Tend, with_model=with_model)
            if f is not None and first is None:
                first = f
                if stop_at_first:
                    return first
    return first


class ScheduledRefusals:
    """when enabled, refuse the first attempt of every third call group (deterministic per run)"""

    def __init__(self, enabled):
        self.enabled = enabled

    def __enter__(self):
        if not self.enabled:
            return self
        from tdgl.solver.solver import TDGLSolver

        self.cls = TDGLSolver
        self.orig = TDGLSolver.__dict__["solve_for_psi_squared"]
        orig = self.orig.__func__
        state = dict(n=0)

        def wrapped(**kw):
            state["n"] += 1
            if state["n"] % 4 == 2:
                return None
            return orig(**kw)

        TDGLSolver.solve_for_psi_squared = staticmethod(wrapped)
        return self

    def __exit__(self, *a):
        if self.enabled:
            self.cls.solve_for_psi_squared = self.orig


class ReferenceT(runs.Reference):
    def __init__(self, device, opts, n_steps, sched=False, **kw):
        with ScheduledRefusals(sched):
            self._thermal_log = []
            super().__init__(device, opts, n_steps, **kw)

    def _one(self, i, t, values):
        v = super()._one(i, t, values)
        if not hasattr(self, "states"):
            self._thermal_log.append(self.dt_prev)
        return v

    @property
    def thermal_dts(self):
        return self._thermal_log


def long_samples(ctx, with_model=True):
    """longer runs outside the exhaustive bound ("and longer samples"): more than ten frames, two-digit frame indices"""
    first = None
    for cfg in configs(True)[:2]:  # fixed and adaptive-with-retries
        dev, kw = build(cfg, ctx.rng)
        sched = cfg["name"].startswith("adaptive")
        pairs = [(1, 12), (2, 25), (3, 41)] if ctx.quick else [(1, 12), (1, 30), (2, 25), (3, 41), (7, 100), (4, 64)]
        Nref = max(N for _, N in pairs)
        ref = ReferenceT(dev, runs.options(save_every=1000, solve_time=1e9, **cfg["opts"]), Nref + 1, sched=sched, **kw)
        for k, N in pairs:
            with ScheduledRefusals(sched):
                f = check_run(ctx, cfg, dev, kw, ref, k, N, (ref.times[N - 1] + ref.times[N]) / 2, with_model=with_model)
            ctx.count("long_samples")
            first = first or f
    # very small (legitimate) time steps: the time labels of neighbouring frames differ by less than any default
    # floating-point comparison tolerance, and yet each frame has its own time
    tiny = dict(name="fixed_tiny_dt", dev="bar", opts=dict(dt_init=1e-9, adaptive=False), kw=dict(applied_vector_potential=0.4, terminal_currents={"source": 3.0, "drain": -3.0}))
    dev, kw = build(tiny, ctx.rng)
    ref = ReferenceT(dev, runs.options(save_every=1000, solve_time=1e9, **tiny["opts"]), 9, sched=False, **kw)
    for k, N in [(3, 5), (2, 7), (3, 6)] if ctx.quick else [(3, 5), (2, 7), (3, 6), (5, 8), (1, 4), (4, 7)]:
        f = check_run(ctx, tiny, dev, kw, ref, k, N, (ref.times[N - 1] + ref.times[N]) / 2, with_model=with_model)
        ctx.count("tiny_step_samples")
        first = first or f
    return first


def buffer_model(ctx):
    """the per-step record buffer `RunningState` vs the Lean `RState` (Tdgl/RunningState.lean) on random operation
    sequences shaped like the loop's (clear at window starts, at most `width` appends per window, flush before a clear),
    plus the property the theorems state: a flushed row holds the window's values followed by zeros"""
    from tdgl.solver.runner import RunningState

    rng = ctx.rng
    for rep in range(12 if ctx.quick else 120):
        width = int(rng.integers(1, 7))
        rs = RunningState({"dt": 1, "mu": 2}, width)
        ops, rows, ok_rows = [], [], True
        for _ in range(int(rng.integers(1, 6))):
            m = int(rng.integers(0, width + 1))
            vals = rng.uniform(1e-4, 1e-1, size=m)
            rs.clear(); ops.append("c")
            for v in vals:
                rs.append("dt", v); rs.append("mu", np.array([v, -v])); rs.step += 1
                ops.append(f"a{V.bits(float(v))}")
            row = np.array(rs.values["dt"][0], dtype=float)
            rows.append(" ".join(str(V.bits(float(x))) for x in row)); ops.append("f")
            ok_rows = ok_rows and np.array_equal(row, np.concatenate([vals, np.zeros(width - m)])) and np.array_equal(rs.values["mu"][1], np.concatenate([-vals, np.zeros(width - m)]))
        (out,) = V.driver([f"rs {width} | " + " ".join(ops)])
        ctx.traces += 1
        ctx.case(("buffer", width, rep), nontrivial=True)
        ctx.corr(out.strip() == " ; ".join(rows), "RunningState rows vs RState (Lean)", dict(width=width, ops=ops[:12], model=out[:120], impl=" ; ".join(rows)[:120]))
        if not ok_rows:
            ctx.fail("buffer-row", "a frame row of the per-step buffer is not 'the values of its window followed by zeros'", dict(width=width, ops=ops[:20]))


def run(ctx):
    buffer_model(ctx)
    Nmax = 6 if ctx.quick else 12
    for cfg in configs(ctx.quick):
        run_config(ctx, cfg, Nmax)
    long_samples(ctx)
    ctx.extra["bound"] = dict(Nmax=Nmax, k="1..N+2")


def search(ctx):
    f0 = long_samples(ctx, with_model=False)
    if f0 is not None:
        return f0
    for cfg in configs(ctx.quick):
        f = run_config(ctx, cfg, 4, with_model=False, stop_at_first=True)
        if f is not None:
            return f
    return None


def replay(payload):
    ctx = V.Ctx("C05", "quick", int(payload.get("seed", 0)))
    try:
        cfg = next(c for c in configs(False) if c["name"] == payload["config"])
        dev, kw = build(cfg, ctx.rng)
        refopts = runs.options(save_every=1000, solve_time=1e9, **cfg["opts"])
        sched = cfg["name"].startswith("adaptive")
        N, k = int(payload["N"]), int(payload["k"])
        ref = ReferenceT(dev, refopts, N + 1, sched=sched, **kw)
        Tend = 0.0 if N == 0 else (ref.times[N - 1] + ref.times[N]) / 2
        with ScheduledRefusals(sched):
            f = check_run(ctx, cfg, dev, kw, ref, k, N, Tend, with_model=False)
        return f is None
    finally:
        ctx.cleanup()
