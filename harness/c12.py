"""C12 — time steps follow the documented adaptive rule and its bounds.

`TDGLSolver.update` is driven directly on small devices; `solve_for_psi_squared` is wrapped to log every attempt
(dt, refused?) and to add scheduled refusals on top of the genuine ones; after every step the harness reads the
step used, `max|Δ|ψ|²|` and the next tentative step.  The Lean dt controller (`Tdgl.Adaptive`, Float) is replayed
with the same refusal answers.
"""
from __future__ import annotations

import json
import os
import numpy as np

import runs
import vcommon as V
import zoo

LEVEL = "proof"
RULE = (
    "settings (dt_init, dt_max, window in {1,2,10}, multiplier, max_retries in {0,1,3}, adaptive on/off) x drives x "
    "refusal schedules (none / genuine from a strong drive / scheduled bursts up to exhaustion); a case = one step of "
    "one run; non-trivial = a step after the warm-up window or a step with at least one refusal"
)
EXPLANATION = (
    "Lean theorems C12_* (retry = tentative*mult^r, exhaustion and non-adaptive refusal are errors, the documented "
    "rule after warm-up, bounds 0 < dt <= dt_max by induction over the run, fixed step when not adaptive) for every "
    "refusal oracle; the real update is driven step by step and compared with the model replayed on the same answers. "
    "The rule is also evaluated on a history measured by the harness from the states entering and leaving each update "
    "(screened runs included), and a source pin states that the history is appended once per update, outside the "
    "screening loop (C12_bridge_record_site)."
)
ASSUMPTIONS = ["dt_used compared bit for bit; proposed step within 4 ulp (np.mean sums pairwise)"]


class Logger:
    """log attempts of solve_for_psi_squared and inject scheduled refusals"""

    def __init__(self, schedule):
        self.schedule = schedule  # dict step -> number of forced refusals
        self.step = 0
        self.attempts = []  # per step list of (dt, refused)
        self.forced_left = 0

    def __enter__(self):
        from tdgl.solver.solver import TDGLSolver

        self.cls = TDGLSolver
        self.orig = TDGLSolver.__dict__["solve_for_psi_squared"]
        orig = self.orig.__func__
        me = self

        def wrapped(**kw):
            if me.forced_left > 0:
                me.forced_left -= 1
                res = None
            else:
                res = orig(**kw)
            me.cur.append((float(kw["dt"]), res is None))
            return res

        TDGLSolver.solve_for_psi_squared = staticmethod(wrapped)
        return self

    def begin(self, step):
        self.cur = []
        self.forced_left = self.schedule.get(step, 0)

    def end(self):
        self.attempts.append(self.cur)

    def __exit__(self, *a):
        self.cls.solve_for_psi_squared = self.orig


def settings(rng, quick):
    out = []
    for adaptive in (True, False):
        for window in (1, 2, 10) if adaptive else (10,):
            for max_retries in (0, 1, 3):
                out.append(dict(dt_init=float(rng.choice([1e-4, 1e-3, 5e-3])), dt_max=float(rng.choice([1e-2, 5e-2, 0.1])), adaptive=adaptive,
                                adaptive_window=window, adaptive_time_step_multiplier=float(rng.choice([0.25, 0.5, 0.1])), max_solve_retries=max_retries))
    # boundary of the admissible options: dt_init == dt_max with the adaptive rule on (the step cannot grow, but a
    # refused update is still retried with a smaller one)
    out.append(dict(dt_init=5e-3, dt_max=5e-3, adaptive=True, adaptive_window=2, adaptive_time_step_multiplier=0.5, max_solve_retries=3))
    out.append(dict(dt_init=1e-2, dt_max=1e-2, adaptive=True, adaptive_window=1, adaptive_time_step_multiplier=0.25, max_solve_retries=1))
    # a recording shorter than the largest admissible step (long thermalisation, brief recording): dt_max is still dt_max
    out.append(dict(dt_init=1e-3, dt_max=1.0, adaptive=True, adaptive_window=2, adaptive_time_step_multiplier=0.25, max_solve_retries=3, solve_time=0.3))
    return out


def schedule_for(rng, nsteps, max_retries, adaptive, kind):
    if kind == "none":
        return {}
    if not adaptive:
        # with adaptivity off a single refusal is final: the step is never retried with another dt
        return {int(rng.integers(1, nsteps)): 1} if kind == "exhaust" else {}
    if kind == "bursts":
        return {int(s): int(rng.integers(1, max_retries + 2)) for s in rng.choice(nsteps, size=max(1, nsteps // 4), replace=False)}
    if kind == "exhaust":
        s = int(rng.integers(1, nsteps))
        return {s: max_retries + 2}
    return {}


def eval_run(ctx, dev, kw, st, kind, nsteps, with_model=True):
    import tdgl
    from tdgl.solver.runner import RunningState
    from tdgl.solver.solver import TDGLSolver

    rng = ctx.rng
    sched = schedule_for(rng, nsteps, st["max_solve_retries"], st["adaptive"], kind)
    opts = runs.options(**dict(dict(solve_time=1e9), **st))
    first = None

    def fail(key, what, **extra):
        nonlocal first
        rp = dict(settings=st, schedule={str(k): v for k, v in sched.items()}, kind=kind, **extra)
        ctx.fail(key, what, rp)
        if first is None:
            first = dict(key=key, what=what, **rp)

    with Logger(sched) as lg:
        solver = TDGLSolver(device=dev, options=opts, **kw)
        E = solver.num_edges
        values = [solver.psi_init, solver.mu_init, np.zeros(E), np.zeros(E), np.zeros((E, 2))]
        names = ["psi", "mu", "supercurrent", "normal_current", "induced_vector_potential"]
        sizes = {"dt": 1}
        if solver.probe_points is not None:
            sizes.update(mu=len(solver.probe_points), theta=len(solver.probe_points))
        if st.get("include_screening"):
            sizes["screening_iterations"] = 1
        rs = RunningState(sizes, 1)
        dt_prev = opts.dt_init
        t = 0.0
        used, tent, dvals = [], [], []
        own_d = []  # max |change of |psi|^2| of every completed solve step, measured here from the states going in and out
        screening = bool(st.get("include_screening"))
        raised_at = None
        dt_max = opts.dt_max if opts.adaptive else opts.dt_init
        for i in range(nsteps):
            lg.begin(i)
            tent_before = float(solver.tentative_dt)
            try:
                res = solver.update({"step": i, "time": t, "dt": dt_prev}, rs, dt_prev, **dict(zip(names, values)))
            except RuntimeError:
                lg.end()
                raised_at = i
                break
            lg.end()
            old_sq_own = np.abs(np.asarray(values[0])) ** 2
            dt, *values = res
            dt = float(dt)
            own_d.append(float(np.abs(np.abs(np.asarray(values[0])) ** 2 - old_sq_own).max()))
            used.append(dt)
            tent.append(float(solver.tentative_dt))
            dvals.append(float(solver.d_psi_sq_vals[-1]) if opts.adaptive else 0.0)
            att = lg.attempts[-1]
            r = sum(1 for a in att if a[1])
            ctx.case((st["adaptive"], st["adaptive_window"], st["max_solve_retries"], kind, i, V.bits(dt)), nontrivial=(i > st["adaptive_window"] or r > 0))
            ctx.count(f"retries={min(r, 2)}{'+' if r >= 2 else ''}")
            # ---- oracle on the implementation ----
            if not (0 < dt <= dt_max):
                fail("dt-bounds", f"step {i}: dt used {dt} not in (0, dt_max={dt_max}]", step=i, dt=dt)
            if not opts.adaptive and dt != opts.dt_init:
                fail("fixed-step", f"adaptivity off but step {i} used dt={dt} != dt_init={opts.dt_init}", step=i, dt=dt)
            # retry: attempts are tentative * mult^j, all but the last refused
            exp = tent_before
            for j, (adt, refused) in enumerate(att if not screening else ()):  # (a screened step evaluates the update once per iteration)
                if V.ulp_diff(adt, exp) > 2:
                    fail("retry-sequence", f"step {i}: attempt {j} used dt={adt}, expected tentative*mult^{j}={exp}", step=i, attempt=j)
                    break
                if refused != (j < len(att) - 1):
                    fail("retry-sequence", f"step {i}: attempt {j} refused={refused} but it is{' not' if j == len(att)-1 else ''} the last attempt", step=i, attempt=j)
                    break
                exp = exp * opts.adaptive_time_step_multiplier
            if att and dt != att[-1][0]:
                fail("reported-dt-not-used", f"step {i}: the step reports dt={dt} but the accepted attempt used dt={att[-1][0]}", step=i, reported=dt, used=att[-1][0])
            if len(att) > st["max_solve_retries"] + 2 and not screening:
                fail("retries-exceeded", f"step {i}: {len(att)} attempts with max_solve_retries={st['max_solve_retries']}", step=i)
            # documented rule after the warm-up window
            if opts.adaptive and i > opts.adaptive_window:
                w = opts.adaptive_window
                hist = solver.d_psi_sq_vals
                delta = max(1e-10, float(np.mean(hist[-w:])))
                want = min(0.5 * (dt + opts.dt_init / delta), dt_max)
                ctx.tol("proposal_vs_documented_rule(ulp)", V.ulp_diff(tent[-1], want), 4)
                if V.ulp_diff(tent[-1], want) > 4:
                    fail("rule", f"step {i}: proposed step {tent[-1]} but the documented rule gives {want}", step=i, got=tent[-1], want=want)
                # the same with delta = mean over the last w SOLVE STEPS of the change measured here from the states
                # (|psi_new|^2 differs from the root of the quadratic by rounding only: bracket the rule by a relative 1e-5 + 1e-12 in delta; a window over other entries changes it by factors)
                d_own = float(np.mean(own_d[-w:]))
                if screening and tent[-1] < dt_max:
                    ctx.__dict__["_c12_uncapped"] = ctx.__dict__.get("_c12_uncapped", 0) + 1
                lo_ = min(0.5 * (dt + opts.dt_init / max(1e-10, d_own * (1 + 1e-5) + 1e-12)), dt_max) * (1 - 1e-9)
                hi_ = min(0.5 * (dt + opts.dt_init / max(1e-10, d_own * (1 - 1e-5) - 1e-12)), dt_max) * (1 + 1e-9)
                if not (lo_ <= tent[-1] <= hi_):
                    fail("rule:window-of-solve-steps", f"step {i}: proposed step {tent[-1]} but min((dt + dt_init/delta)/2, dt_max) with delta the mean change of |psi|^2 over the last {w} solve steps "
                         f"({d_own:.6e}) is in [{lo_}, {hi_}]", step=i, got=tent[-1], want=[lo_, hi_], window=w)
            elif tent[-1] != tent_before:
                fail("warmup", f"step {i}: tentative step changed during warm-up / with adaptivity off", step=i)
            dt_prev = dt
            t += dt
        # exhaustion must raise, never continue
        for s, nforce in sched.items():
            if nforce >= (st["max_solve_retries"] + 2 if st["adaptive"] else 1) and (raised_at is None or raised_at > s):
                fail("exhaustion-continues", f"step {s}: {nforce} consecutive refusals (max_solve_retries={st['max_solve_retries']}) did not raise", step=s)
        if raised_at is not None:
            ctx.count("runs_raised")
            att = lg.attempts[-1]
            need = st["max_solve_retries"] + 2 if st["adaptive"] else 1
            # (a screened step evaluates the update once per iteration: the refusals that exhaust the retries are the last ones)
            genuine = len(att) >= need and all(a[1] for a in (att[-need:] if screening else att))
            if not genuine:
                fail("spurious-raise", f"step {raised_at}: RuntimeError after attempts {att}", step=raised_at)
    # ---- correspondence with the Lean controller ----
    if with_model and first is None:
        refused = []
        for att in lg.attempts:
            refused.append(" ".join(str(V.bits(a[0])) for a in att if a[1]))
        nst = len(lg.attempts)
        ds = dvals + [0.0] * (nst - len(dvals))
        line = (f"adapt {V.bits(opts.dt_init)} {V.bits(opts.dt_max)} {1 if opts.adaptive else 0} {opts.adaptive_window} "
                f"{V.bits(opts.adaptive_time_step_multiplier)} {opts.max_solve_retries} | " + " ".join(str(V.bits(x)) for x in ds) + " | " + " ; ".join(refused))
        (res,) = V.driver([line])
        ctx.traces += 1
        toks = res.split()
        ok = True
        detail = None
        for i, tk in enumerate(toks):
            if tk.startswith("raise@"):
                ok = ok and raised_at == int(tk[6:])
                if not ok:
                    detail = dict(model=tk, impl_raised_at=raised_at)
                break
            if i >= len(used):
                ok = False
                detail = dict(model_extra=tk)
                break
            a, b = tk.split(":")
            mdt, mt = V.unbits(a), V.unbits(b)
            if mdt != used[i]:
                ok = False
                detail = dict(step=i, model_dt=mdt, impl_dt=used[i])
                break
            ctx.tol("model_tentative_vs_impl(ulp)", V.ulp_diff(mt, tent[i]), 4)
            if V.ulp_diff(mt, tent[i]) > 4:
                ok = False
                detail = dict(step=i, model_tentative=mt, impl_tentative=tent[i])
                break
        if raised_at is None and any(t.startswith("raise@") for t in toks):
            ok = False
            detail = dict(model=res[-60:], impl="no raise")
        ctx.corr(ok, "Adaptive model (Float) vs TDGLSolver.update", dict(settings=st, kind=kind, detail=detail))
        if len(ctx.samples) < 4 and any(len(a) > 1 for a in lg.attempts):
            ctx.samples.append(dict(settings=st, kind=kind, dt_used=used[:8], tentative=tent[:8], attempts=[[list(x) for x in a] for a in lg.attempts[:6]]))
    return first


def screened(ctx):
    """the adaptive rule in screened runs (every solve step evaluates the psi update once per screening iteration):
    the window still counts solve steps"""
    dev = zoo.make_device("ring", ctx.rng, max_edge_length=1.0, lam=0.5)
    first = None
    for st in (dict(dt_init=1e-3, dt_max=1e3, adaptive=True, adaptive_window=2, adaptive_time_step_multiplier=0.25, max_solve_retries=3, include_screening=True, screening_tolerance=1e-3),
               dict(dt_init=5e-4, dt_max=1e3, adaptive=True, adaptive_window=3, adaptive_time_step_multiplier=0.5, max_solve_retries=2, include_screening=True, screening_tolerance=1e-2)):
        first = first or eval_run(ctx, dev, dict(applied_vector_potential=0.7), st, "none", 12 if ctx.quick else 30, with_model=False)
        ctx.count("drive:screened")
        ctx.count("screened_proposals_below_dt_max", int(ctx.__dict__.get("_c12_uncapped", 0)))
        ctx.__dict__["_c12_uncapped"] = 0
    return first


def pinned_nonzero(ctx):
    """the adaptive rule with a NON-ZERO terminal value: delta is the change of |psi|^2 of the state the step ends with (the
    terminal sites are held, so they contribute nothing), also in a quiet film where nothing else changes much"""
    dev = zoo.make_device("bar", ctx.rng, max_edge_length=1.0)
    first = None
    for tp, kw in ((1.0, dict(applied_vector_potential=0.1)), (0.6, dict(applied_vector_potential=0.2, terminal_currents={"source": 0.5, "drain": -0.5}))):
        st = dict(dt_init=1e-3, dt_max=1e3, adaptive=True, adaptive_window=2, adaptive_time_step_multiplier=0.25, max_solve_retries=3, terminal_psi=tp)
        first = first or eval_run(ctx, dev, kw, st, "none", 14 if ctx.quick else 40, with_model=False)
        ctx.count("drive:pinned_nonzero_terminal_value")
    return first


def stepped_bias(t):
    """a bias that changes in steps during the run (a staircase I-V sweep)"""
    i_ = 1.0 + 0.5 * np.floor(t / 0.004)
    return {"source": i_, "drain": -i_}


def devices(ctx):
    dev = zoo.make_device("bar", ctx.rng, max_edge_length=1.0)
    weak = dict(applied_vector_potential=0.3, terminal_currents={"source": 2.0, "drain": -2.0})
    strong = dict(applied_vector_potential=2.5, terminal_currents={"source": 40.0, "drain": -40.0})
    # a time-dependent bias: what the drive does must not enter the step-size rule except through max|change of |psi|^2|
    stepped = dict(applied_vector_potential=0.3, terminal_currents=stepped_bias)
    return dev, [("weak", weak), ("strong", strong), ("stepped_bias", stepped)]


def seeded_bounds(ctx):
    """a run continued from a seed solution obeys the same rule: warm-up steps equal ITS dt_init, every step is at most
    ITS dt_max, whatever time step the seed had reached"""
    import tdgl
    import runs

    first = None
    dev, drives = devices(ctx)
    kw = drives[0][1]
    seed = tdgl.solve(dev, runs.options(solve_time=1.0, dt_init=1e-3, dt_max=0.1, adaptive=True, adaptive_window=2, save_every=50), **kw)
    seed_dt = float(np.asarray(seed.dynamics.dt)[-1])
    for adaptive, dt_init, dt_max, window in ((True, 1e-4, 1e-3, 3), (True, 2e-4, 5e-2, 2), (False, 5e-4, 1e-2, 5)):
        sol = tdgl.solve(dev, runs.options(solve_time=0.02 if adaptive else 0.005, dt_init=dt_init, dt_max=dt_max, adaptive=adaptive, adaptive_window=window, save_every=5), seed_solution=seed, **kw)
        dts = np.asarray(sol.dynamics.dt, dtype=float)
        ctx.case(("seeded", adaptive, dt_init, dt_max, window), nontrivial=seed_dt > dt_max)
        ctx.count("seeded_runs")
        bad = None
        if dts.max() > dt_max:
            bad = f"a step of the seeded run is {dts.max():.3e} > dt_max = {dt_max}"
        elif not np.all(dts[: window + 1] == dt_init):
            bad = f"the warm-up steps of the seeded run are {dts[: window + 1].tolist()}, not dt_init = {dt_init}"
        elif not adaptive and not np.all(dts == dt_init):
            bad = "a non-adaptive seeded run changed its step"
        if bad:
            rp = dict(adaptive=adaptive, dt_init=dt_init, dt_max=dt_max, window=window, seed_last_dt=seed_dt, first_steps=dts[:6].tolist())
            ctx.fail("seeded-run-bounds", bad + f" (the seed's last step was {seed_dt:.3e})", rp)
            first = first or dict(key="seeded-run-bounds", what=bad, **rp)
    return first


def _whole_update_bias(t):
    i_ = 6.0 + 3.0 * np.sin(1.3 * t)
    return {"source": i_, "drain": -i_}


def whole_update(ctx):
    """Tie A for the COMPOSITION of one adaptive update (Tdgl/AdaptiveRun.lean `adaptiveStep`, driver op `astep`): real
    `TDGLSolver.update` calls on a small driven film, with time steps large enough that the site equation is refused
    naturally; every update is replayed on the model from the solver's own pre-state (order parameter, potential, tentative
    step, history of the windowed mean, boundary data).  The sparse solve is external to the model: its answer is handed in.
    Compared: the time step used (retry loop), the proposed next step and the recorded change (controller), the new order
    parameter (Euler step + terminal re-imposition), supercurrent and normal current (observables); a raise must be a raise."""
    import runs
    from tdgl.solver.solver import TDGLSolver
    from tdgl.solver.runner import RunningState

    dev = zoo.make_device("bar", ctx.rng, max_edge_length=0.9 if ctx.quick else 0.7, gamma=10.0)
    mesh = dev.mesh
    n, E = len(mesh.sites), len(mesh.edge_mesh.edges)
    cases = [dict(dt_init=1e-3, dt_max=5.0, window=3, mult=0.25, retries=10, tp=0.0, steps=10),
             dict(dt_init=0.5, dt_max=5.0, window=2, mult=0.25, retries=10, tp=None, steps=8),
             dict(dt_init=3.0, dt_max=5.0, window=3, mult=0.5, retries=12, tp=0.4, steps=8),
             dict(dt_init=3.0, dt_max=3.0, window=3, mult=0.5, retries=1, tp=0.0, steps=3),      # the retries run out
             dict(dt_init=2e-3, dt_max=2e-3, window=1, mult=0.25, retries=3, tp=0.0, steps=5, adaptive=False),
             # a bias that changes at every step: the boundary data of the Poisson problem are those of the step's own time
             dict(dt_init=0.2, dt_max=2.0, window=2, mult=0.5, retries=10, tp=0.0, steps=8, bias="timedep")]
    if not ctx.quick:
        cases += [dict(dt_init=1e-2, dt_max=50.0, window=5, mult=0.1, retries=6, tp=None, steps=25),
                  dict(dt_init=1.0, dt_max=9.0, window=1, mult=0.7, retries=30, tp=1.0, steps=20)]
    worst = dict(dt=0.0, tentative=0.0, delta=0.0, psi=0.0, js=0.0, jn=0.0)
    for c in cases:
        adaptive = c.get("adaptive", True)
        opts = runs.options(solve_time=1.0, dt_init=c["dt_init"], dt_max=c["dt_max"], adaptive=adaptive, adaptive_window=c["window"],
                            max_solve_retries=c["retries"], adaptive_time_step_multiplier=c["mult"], terminal_psi=c["tp"])
        solver = TDGLSolver(device=dev, options=opts, applied_vector_potential=0.3, terminal_currents=(_whole_update_bias if c.get("bias") else dict(source=8.0, drain=-8.0)))
        tsites = np.asarray(solver.normal_boundary_index, dtype=int)
        mask = np.zeros(n, dtype=int)
        if c["tp"] is not None:
            mask[tsites] = 1
        A = np.asarray(solver.current_A_applied)
        theta = np.einsum("ij, ij -> i", A, mesh.edge_mesh.directions)
        eps = np.asarray(solver.epsilon, dtype=float) * np.ones(n)
        vals = [solver.psi_init, solver.mu_init, np.zeros(E), np.zeros(E), np.zeros((E, 2))]
        sizes = {"dt": 1}
        if solver.probe_points is not None:
            sizes.update(mu=len(solver.probe_points), theta=len(solver.probe_points))
        rs = RunningState(sizes, 1)
        t, dtp = 0.0, opts.dt_init
        lines, want = [zoo.mesh_line(mesh)], []
        for i in range(c["steps"]):
            pre = dict(psi=np.array(vals[0], dtype=complex), mu=np.array(vals[1], dtype=float), tentative=float(solver.tentative_dt), hist=[float(x) for x in solver.d_psi_sq_vals])
            try:
                res = solver.update({"step": i, "time": t, "dt": dtp}, rs, dtp, psi=vals[0], mu=vals[1], supercurrent=vals[2], normal_current=vals[3], induced_vector_potential=vals[4])
            except RuntimeError as e:
                if "failed to converge" not in str(e):
                    raise
                res = None
            mb = np.asarray(solver.mu_boundary, dtype=float)  # boundary data of THIS update (set at its start)
            tp = "-" if c["tp"] is None else f"{V.bits(float(np.real(c['tp'])))},{V.bits(float(np.imag(c['tp'])))}"
            mu_new = np.zeros(n) if res is None else np.asarray(res[2], dtype=float)
            lines.append(f"astep {V.bits(solver.gamma)} {V.bits(solver.u)} {V.bits(opts.dt_init)} {V.bits(opts.dt_max)} {int(adaptive)} {c['window']} {V.bits(c['mult'])} {c['retries']} {i} "
                         f"{V.bits(pre['tentative'])} {tp} | " + " ".join(map(str, mask)) + f" | {zoo.fl(theta)} | {zoo.cfl(pre['psi'])} | {zoo.fl(pre['mu'])} | {zoo.fl(eps)} | {zoo.fl(mb)} | "
                         f"{zoo.fl(np.array(pre['hist']))} | {zoo.fl(mu_new)}")
            if res is None:
                want.append(None)
                ctx.count("whole_updates_raising")
                break
            dtp, *vals = res
            t += dtp
            want.append(dict(dt=float(dtp), tentative=float(solver.tentative_dt), hist=[float(x) for x in solver.d_psi_sq_vals], psi=np.array(vals[0]), js=np.array(vals[2]), jn=np.array(vals[3]),
                             retried=float(dtp) != pre["tentative"]))
        out = V.driver(lines)[1:]
        ctx.traces += 1
        for i, (w, o) in enumerate(zip(want, out)):
            tag = dict(case={k: v for k, v in c.items()}, step=i, sites=n)
            ctx.case(("whole-update", json.dumps(c, sort_keys=True, default=str), i), nontrivial=True)
            ctx.count("whole_updates_replayed_on_the_model")
            if w is None or o == "raise":
                ctx.corr(w is None and o == "raise", "whole update: the model raises exactly when TDGLSolver.update raises (retries exhausted / refusal with adaptivity off)", dict(tag, model=o[:40], impl="raise" if w is None else "answered"))
                continue
            if w["retried"]:
                ctx.count("whole_updates_with_natural_retries")
            secs = o.split("|")
            h = secs[0].split()
            m_dt, m_tent, m_d, m_len = V.unbits(h[0]), V.unbits(h[1]), V.unbits(h[2]), int(h[3])
            rel = lambda a, b_: abs(a - b_) / max(abs(b_), 1e-300)
            ctx.corr(m_dt == w["dt"], "whole update: time step used (retry loop) is bit-identical", dict(tag, model=m_dt, impl=w["dt"]))
            worst["dt"] = max(worst["dt"], rel(m_dt, w["dt"]))
            ctx.corr(m_len == len(w["hist"]), "whole update: one entry of the windowed-mean history per update (none when adaptivity is off)", dict(tag, model=m_len, impl=len(w["hist"])))
            if w["hist"]:
                worst["delta"] = max(worst["delta"], abs(m_d - w["hist"][-1]) / max(abs(w["hist"][-1]), 1e-6))
            worst["tentative"] = max(worst["tentative"], rel(m_tent, w["tentative"]))
            mp = np.array([V.unbits(x) for x in secs[1].split()]).reshape(-1, 2)
            mp = mp[:, 0] + 1j * mp[:, 1]
            worst["psi"] = max(worst["psi"], float(np.abs(mp - w["psi"]).max() / max(np.abs(w["psi"]).max(), 1e-300)))
            if c["tp"] is not None and len(tsites):
                ctx.corr(bool((mp[tsites] == c["tp"]).all() and (w["psi"][tsites] == c["tp"]).all()), "whole update: terminal sites carry exactly the terminal value in model and implementation", tag)
            mj = np.array([V.unbits(x) for x in secs[2].split()])
            mn = np.array([V.unbits(x) for x in secs[3].split()])
            worst["js"] = max(worst["js"], float(np.abs(mj - w["js"]).max() / max(np.abs(w["js"]).max(), 1e-12)))
            worst["jn"] = max(worst["jn"], float(np.abs(mn - w["jn"]).max() / max(np.abs(w["jn"]).max(), 1e-12)))
    for k, v in worst.items():
        ctx.tol(f"whole update (Lean adaptiveStep, Float) vs TDGLSolver.update: {k} (rel)", v, 1e-8)
    ctx.corr(all(v <= 1e-8 for v in worst.values()), "whole update (adaptiveStep): step, proposal, recorded change, psi, supercurrent, normal current agree with TDGLSolver.update", dict(worst=worst))


def solve_level_exhaustion(ctx):
    """"exhausting the retries raises an error instead of continuing" for the WHOLE call: `tdgl.solve` on a strongly driven film
    with a first step far too large must raise when the retry budget is too small (the same problem runs when the budget is
    generous: the control), in the recorded stage and in the thermalisation stage, and at once with adaptivity off."""
    import tdgl
    import runs

    dev = zoo.make_device("bar", ctx.rng, max_edge_length=0.9, gamma=10.0)
    kw = dict(applied_vector_potential=0.3, terminal_currents=dict(source=8.0, drain=-8.0))
    base = dict(solve_time=0.3, dt_init=3.0, dt_max=5.0, adaptive_time_step_multiplier=0.5, save_every=1)
    ctl = tdgl.solve(dev, runs.options(adaptive=True, max_solve_retries=30, **base), **kw)
    first_dt = float(np.asarray(ctl.dynamics.dt)[0])
    needed = int(round(np.log(first_dt / 3.0) / np.log(0.5)))
    ctx.count("solve_level_reductions_needed_by_the_first_step", needed)
    first = None
    for retries, adaptive, skip in ((0, True, 0.0), (1, True, 0.0), (max(needed - 2, 0), True, 0.0), (1, True, 0.2), (5, False, 0.0)):
        if adaptive and retries + 1 >= needed:
            continue
        out = os.path.join(str(ctx.work), f"c12_exh_{retries}_{int(adaptive)}_{skip}.h5")
        ctx.case(("solve-level-exhaustion", retries, adaptive, skip), nontrivial=True)
        ctx.count("solve_level_exhaustion_runs")
        try:
            sol = tdgl.solve(dev, runs.options(adaptive=adaptive, max_solve_retries=retries, skip_time=skip, output_file=out, **base), **kw)
        except RuntimeError as e:
            if "failed to converge" in str(e):
                continue
            raise
        rp = dict(max_solve_retries=retries, adaptive=adaptive, skip_time=skip, reductions_needed=needed,
                  returned=("None" if sol is None else f"a Solution with data_range {getattr(sol, 'data_range', None)}"))
        ctx.fail("exhaustion-swallowed-by-solve", f"tdgl.solve with max_solve_retries={retries}, adaptive={adaptive}, skip_time={skip}: the first step needs {needed} reductions of the time step, "
                 f"yet no error was raised; it returned {rp['returned']}", rp)
        first = first or dict(key="exhaustion-swallowed-by-solve", **rp)
    return first


def run(ctx):
    whole_update(ctx)
    solve_level_exhaustion(ctx)
    seeded_bounds(ctx)
    screened(ctx)
    pinned_nonzero(ctx)
    dev, drives = devices(ctx)
    nsteps = 14 if ctx.quick else 40
    sts = settings(ctx.rng, ctx.quick)
    for st in sts:
        for dname, kw in drives:
            for kind in ("none", "bursts", "exhaust"):
                if ctx.quick and dname in ("strong", "stepped_bias") and kind == "exhaust":
                    continue
                eval_run(ctx, dev, kw, st, kind, nsteps)
                ctx.count(f"drive:{dname}")
                ctx.count(f"schedule:{kind}")


def search(ctx):
    f = screened(ctx) or pinned_nonzero(ctx)
    if f:
        return f
    dev, drives = devices(ctx)
    ctx.rng = np.random.default_rng(ctx.seed + 31337)
    for st in settings(ctx.rng, False):
        for dname, kw in drives:
            for kind in ("none", "bursts", "exhaust"):
                f = eval_run(ctx, dev, kw, st, kind, 16, with_model=False)
                if f:
                    return f
    return None


def replay(payload):
    ctx = V.Ctx("C12", "quick", int(payload.get("seed", 0)))
    try:
        dev, drives = devices(ctx)
        st = payload["settings"]
        for dname, kw in drives:
            for kind in ("none", "bursts", "exhaust"):
                eval_run(ctx, dev, kw, st, kind, 16, with_model=False)
        return not any(f["key"] == payload.get("key") for f in ctx.oracle_fails)
    finally:
        ctx.cleanup()
