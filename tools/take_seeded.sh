#!/bin/bash
# tools/take_seeded.sh <worktree> Cxx <short-name> : import a seeded change from an agent's worktree, remove the worktree,
# evaluate it against the property's quick check
set -e
wt=$1; dst=/verif/seeded/$2-$3
mkdir -p $dst
cp $wt/MUTATION/patch.diff $wt/MUTATION/demo.py $wt/MUTATION/meta.json $dst/
git -C /repo worktree remove --force $wt
cd /verif && tools/eval_seeded.py $2-$3 2>&1 | tail -3 | cut -c1-420
