#!/usr/bin/env python3
"""Regenerate the detection matrix in DESIGN.md §10.4 from /verif/seeded/*/meta.json + result.json."""
import glob, json, os, re
ROOT = os.path.dirname(os.path.dirname(os.path.abspath(__file__)))
rows = []
for d in sorted(glob.glob(os.path.join(ROOT, "seeded", "*"))):
    mp, rp = os.path.join(d, "meta.json"), os.path.join(d, "result.json")
    if not os.path.exists(mp):
        continue
    m = json.load(open(mp))
    r = json.load(open(rp))["latest"] if os.path.exists(rp) else {}
    caught = r.get("caught_by", [])
    first = ""
    for c in caught[:1]:
        fr = r["checks"][c].get("first_replay", {})
        first = (fr.get("key") or fr.get("kind") or "")[:60]
    rows.append(f"| `{os.path.basename(d)}` | {m['property']} | {m.get('summary','')[:150]} | {m.get('needs_to_manifest','')[:130]} | "
                f"{'yes' if r.get('demo_ok') else ('n/a' if 'demo_ok' not in r else 'NO')} | {', '.join(caught) if caught else '**missed**'} | {first} |")
table = ("| seeded change | property | what it does | needs, to manifest | demo confirmed | caught by (quick tier) | first replay key |\n|---|---|---|---|---|---|---|\n" + "\n".join(rows)) if rows else "(no seeded change kept yet)"
p = os.path.join(ROOT, "DESIGN.md")
s = open(p).read()
begin, end = "<!-- SEEDED_TABLE_BEGIN -->", "<!-- SEEDED_TABLE_END -->"
if "SEEDED_TABLE_PLACEHOLDER" in s:
    s = s.replace("SEEDED_TABLE_PLACEHOLDER", f"{begin}\n{table}\n{end}")
else:
    s = re.sub(re.escape(begin) + r".*?" + re.escape(end), lambda _: f"{begin}\n{table}\n{end}", s, flags=re.S)
open(p, "w").write(s)
print(table)
