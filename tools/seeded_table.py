#!/usr/bin/env python3
"""Regenerate the detection matrix in DESIGN.md §10.4 from /verif/seeded/*/meta.json + result.json."""
import glob, json, os, re
ROOT = os.path.dirname(os.path.dirname(os.path.abspath(__file__)))
rows = []
for d in sorted(glob.glob(os.path.join(ROOT, "seeded", "*"))):
    mp, rp = os.path.join(d, "meta.json"), os.path.join(d, "result.json")
    if not os.path.exists(mp):
        continue
    m = json.load(open(mp))
    full = json.load(open(rp)) if os.path.exists(rp) else {}
    r = full.get("latest", {})
    hist = full.get("history", [])
    demo_ok = bool(full.get("demo_confirmed")) or any(h.get("demo_ok") for h in hist)
    h0 = full.get("first") or (hist[0] if hist else {})
    own = h0.get("checks", {}).get(m["property"], {})
    k0 = (own.get("first_replay") or {})
    first_sight = "yes" if own.get("rc") == 1 and k0.get("kind") != "no-failing-input-found" else ("pins only" if own.get("rc") == 1 else "no")
    sp = os.path.join(d, "suite.txt")
    suite = "?"
    if os.path.exists(sp):
        t = open(sp).read()
        mm = re.search(r"stable_pass=(\d+) passed_now=(\d+) missing=(\d+)", t)
        suite = (f"{mm.group(2)}/{mm.group(1)}" if mm else "running")
    caught = r.get("caught_by", [])
    first = ""
    for c in caught[:1]:
        fr = r["checks"][c].get("first_replay", {})
        first = (fr.get("key") or fr.get("kind") or "")[:60]
    rows.append(f"| `{os.path.basename(d)}` | {m['property']} | {m.get('summary','')[:150].replace('|', '∣')} | {m.get('needs_to_manifest','')[:130].replace('|', '∣')} | "
                f"{'yes' if demo_ok else 'NO'} | {suite} | {first_sight} | {', '.join(caught) if caught else '**missed**'} | {first} |")
table = ("| seeded change | property | what it does | needs, to manifest | demo confirmed | pinned suite with the change | caught when first evaluated | caught now by (quick tier) | first replay key |\n|---|---|---|---|---|---|---|---|---|\n" + "\n".join(rows)) if rows else "(no seeded change kept yet)"
p = os.path.join(ROOT, "DESIGN.md")
s = open(p).read()
begin, end = "<!-- SEEDED_TABLE_BEGIN -->", "<!-- SEEDED_TABLE_END -->"
if "SEEDED_TABLE_PLACEHOLDER" in s:
    s = s.replace("SEEDED_TABLE_PLACEHOLDER", f"{begin}\n{table}\n{end}")
else:
    s = re.sub(re.escape(begin) + r".*?" + re.escape(end), lambda _: f"{begin}\n{table}\n{end}", s, flags=re.S)
# statistics paragraph
n = len(rows)
fs = [r.split(" | ")[-3].strip() for r in rows]
yes, pins, no = fs.count("yes"), fs.count("pins only"), fs.count("no")
now_missed = sum("**missed**" in r for r in rows)
rej = len(glob.glob(os.path.join(ROOT, "seeded_rejected", "*", "patch.diff")))
stats = (f"{n} changes are kept (one per property and round, several rounds; {rej} further change(s) were rejected — the pinned suite does not pass "
         f"with one, the other no longer breaks its property on the repaired tree (it relied on the genuine defect F25) —, see `seeded_rejected/`). When first evaluated, {yes} were caught with a failing input, {pins} only through a broken "
         f"source pin (`no-failing-input-found`), and {no} were missed; after the additions below "
         + ("all of them are" if now_missed == 0 else f"all but {now_missed} are") +
         " caught by the quick tier of their own property's check with a failing input (`tools/regress_seeded.sh` re-evaluates every kept change against "
         "the final checks). The first-sight rate stayed between a third and forty per cent in every round (the figures here are those of the very first evaluation of each change, kept in `result.json` under `first`): that is the honest measure of how much of the "
         "input / history / configuration space a fresh, targeted change can still find outside what the correspondence and the oracles exercise at "
         "any given moment; the theorems are unaffected by it (they are about the model) — it measures the tie to the code, and each round moved it.")
sb, se = "<!-- SEEDED_STATS_BEGIN -->", "<!-- SEEDED_STATS_END -->"
if sb in s:
    s = re.sub(re.escape(sb) + r".*?" + re.escape(se), lambda _: f"{sb}\n{stats}\n{se}", s, flags=re.S)
open(p, "w").write(s)
print(table)
