#!/usr/bin/env python3
"""Tie B — a narrow translator from straight-line numpy code in /repo to Lean definitions.

Regenerates, from the *current source text* of /repo, the files under lean/Tdgl/Generated/:

  StepGen.lean      from tdgl/solver/solver.py :: TDGLSolver.solve_for_psi_squared
                    (the per-site arithmetic: U, z, w, c, two_c_1, w2, discriminant, the refusal test,
                    new_sq_psi, psi), one Lean `def` per assigned name, over the generic scalar `K`.
  AdaptGen.lean     from TDGLSolver.update (the two lines of the windowed rule) and
                    TDGLSolver.adaptive_euler_step (the retry update `dt * multiplier`).
  ValidateGen.lean  from tdgl/solver/options.py :: SolverOptions.validate (the `if …: raise` chain, in order).

The bridge theorems in lean/Tdgl/Props/*Bridge.lean state `generated = hand-written model` and are re-checked by
`lake build` on every run.  Supported subset: names, numeric constants, `+ - * / **` (exponent 2), unary minus,
`.real/.imag`, `xp.exp(-1j * x)`, `xp.sqrt`, `xp.absolute`, `A @ psi` (becomes the symbol `lap`), comparisons,
`xp.any(cond)`, `if cond: return None / raise`.  Anything else raises `Unsupported` — a broken proof obligation.
"""
from __future__ import annotations

import ast
import re
import hashlib
import os
import sys
import textwrap

REPO = os.environ.get("VERIF_REPO", "/repo")
ROOT = os.path.dirname(os.path.dirname(os.path.abspath(__file__)))
GEN = os.path.join(os.environ.get("VERIF_LEAN_DIR") or os.path.join(ROOT, "lean"), "Tdgl", "Generated")


class Unsupported(Exception):
    pass


def find_func(tree, cls, name):
    for node in ast.walk(tree):
        if isinstance(node, ast.ClassDef) and node.name == cls:
            for f in node.body:
                if isinstance(f, ast.FunctionDef) and f.name == name:
                    return f
    raise Unsupported(f"{cls}.{name} not found")


def flatten(stmts):
    """statements in source order, looking through `with` and `try` wrappers"""
    out = []
    for s in stmts:
        if isinstance(s, ast.With):
            out += flatten(s.body)
        elif isinstance(s, ast.Try):
            out += flatten(s.body)
        else:
            out.append(s)
    return out


# ------------------------------------------------------------------------------------------------------------
#  expression translation with a two-sorted type system: "R" (real scalar) and "C" (complex, `Cx K`)
# ------------------------------------------------------------------------------------------------------------
class ExprGen:
    def __init__(self, types, subst):
        self.types = dict(types)  # python name -> "R" | "C"
        self.subst = dict(subst)  # python name -> lean term

    def lit(self, v):
        if isinstance(v, bool) or not isinstance(v, (int, float)):
            raise Unsupported(f"constant {v!r}")
        if float(v) == int(v) and 0 <= int(v) <= 4 and int(v) != 3:
            return f"({int(v)} : K)"
        raise Unsupported(f"numeric literal {v!r} outside the supported set")

    def is_neg_1j(self, n):
        return isinstance(n, ast.UnaryOp) and isinstance(n.op, ast.USub) and isinstance(n.operand, ast.Constant) and n.operand.value == 1j

    def strip_neg1j(self, n):
        """`-1j * a * b` (left-assoc product) -> product a*b ; returns None if the pattern does not match"""
        factors = []
        while isinstance(n, ast.BinOp) and isinstance(n.op, ast.Mult):
            factors.append(n.right)
            n = n.left
        if not self.is_neg_1j(n):
            return None
        factors.reverse()
        if not factors:
            return None
        e = factors[0]
        for f in factors[1:]:
            e = ast.BinOp(left=e, op=ast.Mult(), right=f)
        return e

    def tr(self, n):
        """returns (lean_term, type)"""
        if isinstance(n, ast.Name):
            if n.id not in self.types:
                raise Unsupported(f"unknown name {n.id}")
            return self.subst.get(n.id, n.id), self.types[n.id]
        if isinstance(n, ast.Constant):
            return self.lit(n.value), "R"
        if isinstance(n, ast.UnaryOp) and isinstance(n.op, ast.USub):
            t, ty = self.tr(n.operand)
            return (f"(-{t})", "R") if ty == "R" else (f"(Cx.neg {t})", "C")
        if isinstance(n, ast.Attribute) and n.attr in ("real", "imag"):
            t, ty = self.tr(n.value)
            if ty != "C":
                raise Unsupported(".real/.imag of a real")
            return f"({t}).{'re' if n.attr == 'real' else 'im'}", "R"
        if isinstance(n, ast.Call):
            fn = n.func
            name = fn.attr if isinstance(fn, ast.Attribute) else (fn.id if isinstance(fn, ast.Name) else None)
            if name == "exp" and len(n.args) == 1:
                inner = self.strip_neg1j(n.args[0])
                if inner is None:
                    raise Unsupported("exp of something that is not -1j * x")
                t, ty = self.tr(inner)
                if ty != "R":
                    raise Unsupported("exp(-1j * complex)")
                return f"(Cx.expNegI {t})", "C"
            if name == "sqrt" and len(n.args) == 1:
                t, ty = self.tr(n.args[0])
                if ty != "R":
                    raise Unsupported("sqrt of a complex")
                return f"(HasSqrt.sqrt {t})", "R"
            if name == "absolute" and len(n.args) == 1:
                t, ty = self.tr(n.args[0])
                if ty != "C":
                    raise Unsupported("absolute of a real")
                return f"(HasSqrt.sqrt (Cx.normSq {t}))", "R"
            raise Unsupported(f"call {ast.dump(fn)[:60]}")
        if isinstance(n, ast.BinOp):
            if isinstance(n.op, ast.MatMult):
                return "lap", "C"
            if isinstance(n.op, ast.Pow):
                if not (isinstance(n.right, ast.Constant) and n.right.value == 2):
                    raise Unsupported("** with exponent other than 2")
                # absolute(x) ** 2  is the model's absSq
                if isinstance(n.left, ast.Call) and getattr(n.left.func, "attr", None) == "absolute":
                    t, ty = self.tr(n.left.args[0])
                    return f"(absSq {t})", "R"
                t, ty = self.tr(n.left)
                if ty != "R":
                    raise Unsupported("complex ** 2")
                return f"({t} * {t})", "R"
            a, ta = self.tr(n.left)
            b, tb = self.tr(n.right)
            op = type(n.op)
            if ta == "R" and tb == "R":
                sym = {ast.Add: "+", ast.Sub: "-", ast.Mult: "*", ast.Div: "/"}.get(op)
                if sym is None:
                    raise Unsupported(f"operator {op.__name__}")
                return f"({a} {sym} {b})", "R"
            if op is ast.Mult:
                if ta == "C" and tb == "C":
                    return f"(Cx.mul {a} {b})", "C"
                return (f"(Cx.smul {b} {a})", "C") if ta == "C" else (f"(Cx.smul {a} {b})", "C")
            if op is ast.Div and ta == "C" and tb == "R":
                return f"(Cx.smul ((1 : K) / {b}) {a})", "C"
            if op in (ast.Add, ast.Sub) and ta == "C" and tb == "C":
                return f"(Cx.{'add' if op is ast.Add else 'sub'} {a} {b})", "C"
            raise Unsupported(f"{ta} {op.__name__} {tb}")
        raise Unsupported(ast.dump(n)[:80])


HEADER = """/-
  GENERATED by tools/pyexpr2lean.py from {src} (sha256 {sha}) — do not edit.
  Regenerated from the current source text of /repo on every run of the checks (DESIGN.md §2.2, Tie B).
-/
"""


def sha_of(path):
    return hashlib.sha256(open(path, "rb").read()).hexdigest()[:16]


def gen_step():
    """Name-agnostic translation of `solve_for_psi_squared`: every assignment (whatever its local name) becomes a
    Lean definition; the ROLES the bridge theorems need are found by structure, not by name:
      * the returned pair is `(P, X)`; `P` is (assigned as) `W - Z * X` with complex W, Z and real X -> roles w, z, root;
      * the refusal guard is `if xp.any(D < 0): return None` -> role discriminant.
    Role definitions get canonical names (`gen_z`, `gen_w`), all others `gen_v<k>`; two macros list what to unfold."""
    src = os.path.join(REPO, "tdgl/solver/solver.py")
    tree = ast.parse(open(src).read())
    f = find_func(tree, "TDGLSolver", "solve_for_psi_squared")
    stmts = flatten(f.body)
    inputs = [("psi", "C"), ("abs_sq_psi", "R"), ("mu", "R"), ("epsilon", "R"), ("gamma", "R"), ("u", "R"), ("dt", "R"), ("lap", "C")]
    params = " ".join(f"({n} : {'Cx K' if t == 'C' else 'K'})" for n, t in inputs)
    args = " ".join(n for n, _ in inputs)
    types = dict(inputs)
    types["psi_laplacian"] = "M"
    current = {}      # python name -> index of the assignment that currently binds it
    assigns = []      # dicts(name, value ast, py text)
    guard_ast = None
    guard_pos = None
    ret_ast = None
    for s in stmts:
        if isinstance(s, ast.Assign) and len(s.targets) == 1 and isinstance(s.targets[0], ast.Name):
            name = s.targets[0].id
            if name == "xp":
                continue  # array-module selection (numpy / cupy), no arithmetic
            assigns.append(dict(name=name, value=s.value, py=ast.unparse(s)))
        elif isinstance(s, ast.If):
            test = s.test
            if isinstance(test, ast.Call) and getattr(test.func, "id", None) == "isinstance":
                continue  # `if isinstance(psi, np.ndarray): xp = np else: ...`
            if isinstance(test, ast.UnaryOp) and isinstance(test.op, ast.Not) and isinstance(test.operand, ast.Call) and getattr(test.operand.func, "id", None) == "isinstance":
                continue
            if not (len(s.body) == 1 and isinstance(s.body[0], ast.Return) and isinstance(s.body[0].value, ast.Constant) and s.body[0].value.value is None):
                raise Unsupported("if-statement that is not a `return None` guard")
            if not (isinstance(test, ast.Call) and getattr(test.func, "attr", None) == "any" and len(test.args) == 1 and isinstance(test.args[0], ast.Compare)):
                raise Unsupported("guard that is not xp.any(<comparison>)")
            cmp_ = test.args[0]
            if not (len(cmp_.ops) == 1 and isinstance(cmp_.ops[0], ast.Lt) and isinstance(cmp_.comparators[0], ast.Constant) and cmp_.comparators[0].value == 0):
                raise Unsupported("guard comparison other than `< 0`")
            if guard_ast is not None:
                raise Unsupported("more than one refusal guard")
            guard_ast, guard_pos = cmp_.left, len(assigns)
        elif isinstance(s, ast.Return):
            if not (isinstance(s.value, ast.Tuple) and len(s.value.elts) == 2):
                raise Unsupported("return value is not a pair")
            ret_ast = s.value
        elif isinstance(s, (ast.Expr, ast.Assert)):
            continue  # docstring, logger call, assert
        else:
            raise Unsupported(f"statement {type(s).__name__}")
    if guard_ast is None or ret_ast is None:
        raise Unsupported(f"guard={guard_ast is not None}; return={ret_ast is not None}")

    # ---- roles by structure ---------------------------------------------------------------------------------------
    def binding_before(name, pos):
        """index of the last assignment to `name` among assigns[:pos], or None (an input)"""
        for k in range(pos - 1, -1, -1):
            if assigns[k]["name"] == name:
                return k
        return None

    def resolve(node, pos):
        """follow a bare name to the expression assigned to it (one level)"""
        if isinstance(node, ast.Name):
            k = binding_before(node.id, pos)
            if k is not None:
                return assigns[k]["value"], k
        return node, None

    p_ast, p_idx = resolve(ret_ast.elts[0], len(assigns))
    if not (isinstance(p_ast, ast.BinOp) and isinstance(p_ast.op, ast.Sub) and isinstance(p_ast.left, ast.Name)
            and isinstance(p_ast.right, ast.BinOp) and isinstance(p_ast.right.op, ast.Mult)
            and isinstance(p_ast.right.left, ast.Name) and isinstance(p_ast.right.right, ast.Name)):
        raise Unsupported("the returned psi is not of the form W - Z * X with three names")
    pos_p = p_idx if p_idx is not None else len(assigns)
    role_idx = {"w": binding_before(p_ast.left.id, pos_p)}
    cand = [p_ast.right.left.id, p_ast.right.right.id]

    # ---- definitions in order ---------------------------------------------------------------------------------------
    subst = {}
    defs = []
    lean_of = {}
    ty_of = {}
    for k, a in enumerate(assigns):
        g = ExprGen(types, subst)
        term, ty = g.tr(a["value"])
        ty_of[k] = ty
        types[a["name"]] = ty
        lean_of[k] = None
        defs.append([k, ty, term, a["py"]])
        subst[a["name"]] = f"(@@{k}@@ {args})"
    zs = [n for n in cand if binding_before(n, pos_p) is not None and ty_of[binding_before(n, pos_p)] == "C"]
    xs = [n for n in cand if binding_before(n, pos_p) is not None and ty_of[binding_before(n, pos_p)] == "R"]
    if len(zs) != 1 or len(xs) != 1 or role_idx["w"] is None or ty_of[role_idx["w"]] != "C":
        raise Unsupported("cannot identify the roles of w, z and the root in the returned expression")
    role_idx["z"] = binding_before(zs[0], pos_p)
    names = {}
    for k, _, _, _ in defs:
        names[k] = "gen_z" if k == role_idx["z"] else ("gen_w" if k == role_idx["w"] else f"gen_v{k}")

    def fin(term):
        return re.sub(r"@@(\d+)@@", lambda m: names[int(m.group(1))], term)

    # guard and return, translated at their positions
    def tr_at(node, pos):
        sub = {}
        ty = dict(inputs)
        ty["psi_laplacian"] = "M"
        for k in range(pos):
            sub[assigns[k]["name"]] = f"({names[k]} {args})"
            ty[assigns[k]["name"]] = ty_of[k]
        return ExprGen(ty, sub).tr(node)

    gl, gt = tr_at(guard_ast, guard_pos)
    if gt != "R":
        raise Unsupported("complex comparison")
    ra, ta = tr_at(ret_ast.elts[0], len(assigns))
    rb, tb = tr_at(ret_ast.elts[1], len(assigns))
    if (ta, tb) != ("C", "R"):
        raise Unsupported("return types")
    # the refusal must be decided before the root is divided out: the root's definition may not precede the guard
    x_idx = binding_before(xs[0], pos_p)
    if x_idx is not None and x_idx < guard_pos:
        raise Unsupported("the root is computed before the refusal guard")
    out = [HEADER.format(src="tdgl/solver/solver.py :: TDGLSolver.solve_for_psi_squared", sha=sha_of(src)),
           "import Tdgl.Scalar\nimport Tdgl.Step\n\nnamespace Tdgl.Gen\nvariable {K : Type} [Add K] [Sub K] [Mul K] [Div K] [Neg K]\n"
           "  [OfNat K 0] [OfNat K 1] [OfNat K 2] [OfNat K 4] [LT K] [DecidableLT K] [HasSqrt K] [HasTrig K]\n"]
    for k, ty, term, py in defs:
        out.append(f"/-- `{py}` -/\ndef {names[k]} {params} : {'Cx K' if ty == 'C' else 'K'} :=\n  {fin(term)}\n")
    out.append(f"/-- `if xp.any({ast.unparse(guard_ast)} < 0): return None` … `return {ast.unparse(ret_ast)}` -/\ndef stepSiteGen {params} : Option (Cx K × K) :=\n"
               f"  if {gl} < (0 : K) then none else some ({ra}, {rb})\n")
    out.append("end Tdgl.Gen\n")
    allnames = [names[k] for k, *_ in defs]
    rest = [n for n in allnames if n not in ("gen_z", "gen_w")]
    out.append("/-- unfold every generated definition (the local names of the source do not matter to the bridge proofs) -/\n"
               "macro \"gen_unfold_all\" : tactic => `(tactic| simp only [" + ", ".join(f"Tdgl.Gen.{n}" for n in ["stepSiteGen"] + allnames) + "])\n")
    out.append("/-- … all except the two whose roles (z and w of the documented equation) were identified by structure -/\n"
               "macro \"gen_unfold_rest\" : tactic => `(tactic| simp only [" + ", ".join(f"Tdgl.Gen.{n}" for n in ["stepSiteGen"] + rest) + "])\n")
    return "\n".join(out)


# ------------------------------------------------------------------------------------------------------------
#  SolverOptions.validate : the `if cond: raise` chain
# ------------------------------------------------------------------------------------------------------------
def gen_validate():
    src = os.path.join(REPO, "tdgl/solver/options.py")
    tree = ast.parse(open(src).read())
    f = find_func(tree, "SolverOptions", "validate")
    field = {"dt_init": "o.dtInit", "dt_max": "o.dtMax", "adaptive_time_step_multiplier": "o.mult", "screening_step_drag": "o.drag",
             "screening_step_size": "o.stepSize", "screening_tolerance": "o.tol"}

    def term(n):
        if isinstance(n, ast.Attribute) and isinstance(n.value, ast.Name) and n.value.id == "self" and n.attr in field:
            return field[n.attr]
        if isinstance(n, ast.Constant) and n.value in (0, 1):
            return f"({int(n.value)} : K)"
        raise Unsupported(f"validate: term {ast.unparse(n)}")

    def cond(n):
        """Bool-valued Lean term for a python condition"""
        if isinstance(n, ast.UnaryOp) and isinstance(n.op, ast.Not):
            return f"!({cond(n.operand)})"
        if isinstance(n, ast.Compare):
            parts = []
            left = n.left
            for op, right in zip(n.ops, n.comparators):
                sym = {ast.Lt: "<", ast.LtE: "≤", ast.Gt: ">", ast.GtE: "≥"}.get(type(op))
                if sym is None:
                    raise Unsupported("validate: comparison operator")
                a, b = term(left), term(right)
                if sym == ">":
                    a, b, sym = b, a, "<"
                if sym == "≥":
                    a, b, sym = b, a, "≤"
                parts.append(f"decide ({a} {sym} {b})")
                left = right
            return " && ".join(parts) if len(parts) > 1 else parts[0]
        raise Unsupported(f"validate: condition {ast.unparse(n)}")

    # local aliases of option fields (`terminal_psi = self.terminal_psi`) are inlined before the tests are read
    aliases = {}

    class Inline(ast.NodeTransformer):
        def visit_Name(self, node):
            return ast.copy_location(aliases[node.id], node) if node.id in aliases else node

    chain = []
    for s in f.body:
        if isinstance(s, ast.Assign) and len(s.targets) == 1 and isinstance(s.targets[0], ast.Name) and isinstance(s.value, ast.Attribute) \
                and isinstance(s.value.value, ast.Name) and s.value.value.id == "self":
            aliases[s.targets[0].id] = s.value
            continue
        if isinstance(s, ast.If):
            s = ast.fix_missing_locations(Inline().visit(s))
            src_txt = ast.unparse(s.test)
            norm = src_txt.replace("(", "").replace(")", "").replace(" ", "")
            raises = any(isinstance(x, ast.Raise) for x in ast.walk(s))
            if not raises:
                # the solver-string normalisation block (`if isinstance(solver, str): …`) also raises inside
                raise Unsupported(f"validate: if without raise: {src_txt}")
            t = s.test
            if src_txt == "self.dt_init > self.dt_max":
                chain.append(("dtInitGtMax", cond(t), src_txt))
            elif norm == "self.terminal_psiisnotNoneandnot0<=absself.terminal_psi<=1":
                chain.append(("terminalPsi", "(match o.terminalPsiAbs with | none => false | some a => !(decide ((0 : K) ≤ a) && decide (a ≤ (1 : K))))", src_txt))
            elif "adaptive_time_step_multiplier" in src_txt:
                chain.append(("multiplier", cond(t), src_txt))
            elif "screening_step_drag" in src_txt:
                chain.append(("drag", cond(t), src_txt))
            elif "screening_step_size" in src_txt:
                chain.append(("stepSize", cond(t), src_txt))
            elif "screening_tolerance" in src_txt:
                chain.append(("tolerance", cond(t), src_txt))
            elif src_txt == "self.gpu":
                chain.append(("gpuNoCupy", "o.gpu && !o.haveCupy", src_txt))
            elif src_txt in ("isinstance(solver, str)", "isinstance(self.sparse_solver, str)"):
                chain.append(("unknownSolver", "decide (o.solver = SolverKind.unknown)", src_txt))
            elif src_txt == "self.sparse_solver is SparseSolver.UMFPACK":
                chain.append(("noUmfpack", "decide (o.solver = SolverKind.umfpack) && !o.haveUmfpack", src_txt))
            elif src_txt == "self.sparse_solver is SparseSolver.PARDISO":
                chain.append(("noPardiso", "decide (o.solver = SolverKind.pardiso) && !o.havePardiso", src_txt))
            elif src_txt == "self.sparse_solver is SparseSolver.CUPY and (not self.gpu)" or norm == "self.sparse_solverisSparseSolver.CUPYandnotself.gpu":
                chain.append(("cupyNeedsGpu", "decide (o.solver = SolverKind.cupy) && !o.gpu", src_txt))
            elif src_txt == "self.sparse_solver is SparseSolver.CUPY":
                inner = [x for x in s.body if isinstance(x, ast.If)]
                if not (len(inner) == 1 and ast.unparse(inner[0].test) == "not self.gpu"):
                    raise Unsupported("validate: CUPY block")
                chain.append(("cupyNeedsGpu", "decide (o.solver = SolverKind.cupy) && !o.gpu", src_txt))
            else:
                raise Unsupported(f"validate: unrecognised check: {src_txt}")
        elif isinstance(s, (ast.Expr, ast.Assign)):
            continue
        else:
            raise Unsupported(f"validate: statement {type(s).__name__}")
    body = ""
    for err, c, txt in chain:
        body += f"  -- if {txt}: raise\n  if ({c}) = true then some OptErr.{err} else\n"
    body += "  none\n"
    return (HEADER.format(src="tdgl/solver/options.py :: SolverOptions.validate", sha=sha_of(src))
            + "import Tdgl.Options\n\nnamespace Tdgl.Gen\nvariable {K : Type} [LT K] [DecidableLT K] [LE K] [DecidableLE K] [OfNat K 0] [OfNat K 1]\n\n"
            + "def validateGen (o : Opts K) : Option OptErr :=\n" + body + "\nend Tdgl.Gen\n")


# ------------------------------------------------------------------------------------------------------------
#  the adaptive rule and the retry update (constants are extracted, the structure is fixed)
# ------------------------------------------------------------------------------------------------------------

# ------------------------------------------------------------------------------------------------------------
#  normal form for source pins: single-assignment locals are inlined, so that naming a sub-expression, hoisting an
#  attribute into a local or renaming a temporary does not change the pinned text
# ------------------------------------------------------------------------------------------------------------
def inlined_values(func, depth=8):
    """[(target text, value text with every single-assignment local of `func` replaced by its own value)]"""
    counts, value = {}, {}
    params = {a.arg for a in func.args.args + func.args.kwonlyargs}
    loopvars = set()
    for n in ast.walk(func):
        if isinstance(n, (ast.For, ast.comprehension)):
            for t in ast.walk(n.target):
                if isinstance(t, ast.Name):
                    loopvars.add(t.id)
        if isinstance(n, ast.Assign):
            for t in n.targets:
                for x in ast.walk(t):
                    if isinstance(x, ast.Name) and isinstance(x.ctx, ast.Store):
                        counts[x.id] = counts.get(x.id, 0) + 1
            if len(n.targets) == 1 and isinstance(n.targets[0], ast.Name):
                value[n.targets[0].id] = n.value
        if isinstance(n, (ast.AugAssign, ast.AnnAssign)) and isinstance(n.target, ast.Name):
            counts[n.target.id] = counts.get(n.target.id, 0) + 2
    single = {k for k, c in counts.items() if c == 1 and k in value and k not in params and k not in loopvars}

    def inline(node, d):
        class T(ast.NodeTransformer):
            def visit_Name(self, x):
                if isinstance(x.ctx, ast.Load) and x.id in single and d > 0:
                    import copy
                    return inline(copy.deepcopy(value[x.id]), d - 1)
                return x
        return T().visit(node)

    out = []
    for n in ast.walk(func):
        if isinstance(n, ast.Assign):
            import copy
            out.append((ast.unparse(n.targets[0]), ast.unparse(inline(copy.deepcopy(n.value), depth))))
    return out


def inlined_calls(func, prefix, depth=8):
    """[(inside a loop of `func`?, text of the call with single-assignment locals inlined)] for every expression
    statement of `func` that is a call whose text starts with `prefix`"""
    import copy

    vals = {}
    counts = {}
    params = {a.arg for a in func.args.args + func.args.kwonlyargs}
    for n in ast.walk(func):
        if isinstance(n, ast.Assign):
            for t in n.targets:
                for x in ast.walk(t):
                    if isinstance(x, ast.Name) and isinstance(x.ctx, ast.Store):
                        counts[x.id] = counts.get(x.id, 0) + 1
            if len(n.targets) == 1 and isinstance(n.targets[0], ast.Name):
                vals[n.targets[0].id] = n.value
        if isinstance(n, (ast.AugAssign, ast.AnnAssign)) and isinstance(n.target, ast.Name):
            counts[n.target.id] = counts.get(n.target.id, 0) + 2
    single = {k for k, c in counts.items() if c == 1 and k in vals and k not in params}

    def inline(node, d):
        class T(ast.NodeTransformer):
            def visit_Name(self, x):
                if isinstance(x.ctx, ast.Load) and x.id in single and d > 0:
                    return inline(copy.deepcopy(vals[x.id]), d - 1)
                return x
        return T().visit(node)

    out = []

    def walk(body, in_loop):
        for st in body:
            if isinstance(st, ast.Expr) and isinstance(st.value, ast.Call) and ast.unparse(st.value).startswith(prefix):
                out.append((in_loop, ast.unparse(inline(copy.deepcopy(st.value), depth))))
            for fld in ("body", "orelse", "finalbody"):
                sub = getattr(st, fld, None)
                if isinstance(sub, list):
                    walk(sub, in_loop or isinstance(st, (ast.For, ast.While)))
            for h in getattr(st, "handlers", []) or []:
                walk(h.body, in_loop)

    walk(func.body, False)
    return out


def maximal(texts):
    """drop every text that occurs inside another one (a named temporary and the expression it was inlined into)"""
    texts = sorted(set(texts))
    return [t for t in texts if not any(t != u and t in u for u in texts)]


def class_funcs(tree, cls):
    for n in ast.walk(tree):
        if isinstance(n, ast.ClassDef) and n.name == cls:
            return [x for x in n.body if isinstance(x, ast.FunctionDef)]
    raise Unsupported(f"class {cls} not found")


def gen_adapt():
    src = os.path.join(REPO, "tdgl/solver/solver.py")
    tree = ast.parse(open(src).read())
    upd = find_func(tree, "TDGLSolver", "update")
    step = find_func(tree, "TDGLSolver", "adaptive_euler_step")
    new_dt = tent = None
    window_test = None
    # the rule may live in `update` or in a helper it calls: look at every method of the solver class; the text is
    # taken with single-assignment locals inlined
    for fn in class_funcs(tree, "TDGLSolver"):
        for tgt, val in inlined_values(fn):
            if tgt == "self.tentative_dt" and "np.clip(" in val:
                tent = val
        for n in ast.walk(fn):
            if isinstance(n, ast.If) and ast.unparse(n.test) in ("step > window", "step > options.adaptive_window", "step > self.options.adaptive_window"):
                window_test = "step > window"
    new_dt = "inlined into the clip expression"
    # where the change of |psi|^2 is recorded for the windowed mean: once per solve step (in `update`, outside the
    # screening loop), and what is recorded
    rec = []
    funcs = class_funcs(tree, "TDGLSolver")
    for fn in funcs:
        for in_loop, txt in inlined_calls(fn, "self.d_psi_sq_vals.append("):
            where = "update" if fn.name == "update" else f"method {fn.name}"
            # a helper that appends one of its own parameters: look through it to its call sites (the statement is
            # then reported where the helper is called, with the argument that is passed)
            arg = txt[len("self.d_psi_sq_vals.append("):-1]
            params = [a.arg for a in fn.args.args if a.arg != "self"]
            sites = []
            if fn.name != "update" and arg in params and not in_loop:
                for caller in funcs:
                    for c_loop, c_txt in inlined_calls(caller, f"self.{fn.name}("):
                        call = ast.parse(c_txt).body[0].value
                        bound = {p_: ast.unparse(a_) for p_, a_ in zip(params, call.args)}
                        bound.update({k_.arg: ast.unparse(k_.value) for k_ in call.keywords})
                        if arg in bound:
                            cw = "update" if caller.name == "update" else f"method {caller.name}"
                            sites.append(f"{cw}, {'inside a loop' if c_loop else 'once per call'}: self.d_psi_sq_vals.append({bound[arg]})")
            if sites:
                rec += sites
            else:
                rec.append(f"{where}, {'inside a loop' if in_loop else 'once per call'}: {txt}")
    record = " ; ".join(sorted(rec))
    retry = None
    cond = None
    for n in ast.walk(step):
        if isinstance(n, ast.If) and "max_solve_retries" in ast.unparse(n.test):
            cond = ast.unparse(n.test)
    for tgt, val in inlined_values(step):
        if tgt in ("kwargs['dt']", "dt") and "adaptive_time_step_multiplier" in val:
            retry = val
    want = dict(new_dt="inlined into the clip expression",
                tent="np.clip(0.5 * (self.options.dt_init / max(1e-10, np.mean(self.d_psi_sq_vals[-self.options.adaptive_window:])) + dt), 0, self.dt_max)",
                window_test="step > window", retry="dt * self.options.adaptive_time_step_multiplier", cond="not options.adaptive or retries > options.max_solve_retries",
                record="update, once per call: self.d_psi_sq_vals.append(float(self.xp.absolute(abs_sq_psi - self.xp.absolute(psi) ** 2).max()))")
    got = dict(new_dt=new_dt, tent=tent, window_test=window_test, retry=retry, cond=cond, record=record)
    # the structure is matched textually (after ast normalisation); the numeric constants are carried into Lean
    import re

    def consts(txt):
        return re.findall(r"(?<![\w.])(\d+\.?\d*(?:e-?\d+)?)", txt or "")

    lines = [HEADER.format(src="tdgl/solver/solver.py :: TDGLSolver.update / adaptive_euler_step (time-step lines)", sha=sha_of(src)),
             "namespace Tdgl.Gen\n",
             "/-- the source lines of the time-step logic, as normalised by Python's `ast.unparse` -/"]
    for k in ("new_dt", "tent", "window_test", "retry", "cond", "record"):
        lines.append(f"def src_{k} : String := {lean_str(got[k])}")
    lines.append("\n/-- what the hand-written model `Tdgl.Adaptive` was written against -/")
    for k in ("new_dt", "tent", "window_test", "retry", "cond", "record"):
        lines.append(f"def model_{k} : String := {lean_str(want[k])}")
    lines.append("\nend Tdgl.Gen\n")
    return "\n".join(lines)


def gen_pins():
    """source pins: the normalised text / statement order of a few anchors whose models are written by hand"""
    solver = os.path.join(REPO, "tdgl/solver/solver.py")
    runner = os.path.join(REPO, "tdgl/solver/runner.py")
    st = ast.parse(open(solver).read())
    rt = ast.parse(open(runner).read())
    out = {}
    # --- Polyak update and the relative error (C13) ---
    f = find_func(st, "TDGLSolver", "get_induced_vector_potential")
    keep = []
    for n in ast.walk(f):
        if isinstance(n, ast.Assign):
            t = ast.unparse(n.targets[0])
            if t in ("dA", "A_induced", "numerator", "denominator", "screening_error"):
                keep.append(ast.unparse(n))
        if isinstance(n, ast.Expr) and "velocity.append" in ast.unparse(n):
            keep.append(ast.unparse(n))
    out["polyak"] = " ; ".join(sorted(set(keep)))
    # --- the screening loop header of update: exit test before the iteration-count test (C13) ---
    u = find_func(st, "TDGLSolver", "update")
    loop = [n for n in ast.walk(u) if isinstance(n, ast.For) and "screening_iteration" in ast.unparse(n.target)]
    if len(loop) != 1:
        raise Unsupported("screening loop not found")
    heads = [ast.unparse(x.test) for x in loop[0].body if isinstance(x, ast.If)][:2]
    out["screen_loop_head"] = " ; ".join(heads)
    # --- terminal current density (C01): the expression assigned inside update_mu_boundary that divides by the terminal length ---
    f = find_func(st, "TDGLSolver", "update_mu_boundary")
    dens = maximal([v for _, v in inlined_values(f) if ".length" in v and "sum(" in v])
    out["terminal_density"] = " ; ".join(dens)
    # --- solve_for_observables (C01): every expression that applies one of the operators (targets dropped, temporaries inlined) ---
    f = find_func(st, "TDGLSolver", "solve_for_observables")
    obs = maximal([v for _, v in inlined_values(f) if ("divergence @" in v or "mu_gradient @" in v or "get_supercurrent(" in v) and "asnumpy" not in v and "asarray" not in v])
    out["observables"] = " ; ".join(obs)
    # --- order of the steps of one loop iteration in Runner._run_stage (C05) ---
    f = find_func(rt, "Runner", "_run_stage")
    loops = [n for n in ast.walk(f) if isinstance(n, ast.For)]
    if len(loops) != 1:
        raise Unsupported("_run_stage: expected exactly one for-loop")
    tr = [n for n in loops[0].body if isinstance(n, ast.Try)]
    if len(tr) != 1:
        raise Unsupported("_run_stage: loop body is not a single try")
    order = []
    for stmt in tr[0].body:
        txt = ast.unparse(stmt)
        if isinstance(stmt, ast.If) and "save_every == 0" in ast.unparse(stmt.test):
            order.append("save-if-multiple")
        elif isinstance(stmt, ast.If) and ast.unparse(stmt.test) == "self.time >= end_time" and any(isinstance(x, ast.Break) for x in stmt.body):
            order.append("stop-test")
        elif "self.function(" in txt and isinstance(stmt, ast.Assign):
            order.append("update")
        elif txt.replace(" ", "") == "self.time+=self.dt":
            order.append("advance-clock")
        elif txt.replace(" ", "") == "self.running_state.step+=1":
            order.append("advance-buffer")
        elif txt.replace(" ", "") == "self.dt=new_dt":
            order.append("set-dt")
    out["loop_order"] = " ; ".join(order)
    after = [ast.unparse(n.test) for n in ast.walk(f) if isinstance(n, ast.If) and "save and i % self.options.save_every" in ast.unparse(n.test)]
    out["final_save"] = " ; ".join(after)
    # --- the refresh decision for a time-dependent potential (C10, model Tdgl/Refresh.lean): the comparison, what is done
    #     when it says "changed", that the new potential is stored AFTER that, and every place that stores it ---
    u = find_func(st, "TDGLSolver", "update")
    dec = []

    def walk_blocks(body):
        for i, stn in enumerate(body):
            if isinstance(stn, ast.If) and any(ast.unparse(x.value).endswith("set_link_exponents(current_A_applied)") if isinstance(x, ast.Expr) else False for x in stn.body):
                dec.append("if " + ast.unparse(stn.test) + ": " + " ; ".join(ast.unparse(x) for x in stn.body if isinstance(x, ast.Expr)))
            for fld in ("body", "orelse"):
                sub = getattr(stn, fld, None)
                if isinstance(sub, list) and not isinstance(stn, (ast.FunctionDef,)):
                    walk_blocks(sub)

    walk_blocks(u.body)
    flat = [ast.unparse(n) for n in ast.walk(u) if isinstance(n, (ast.Assign, ast.Expr))]
    order = "?"
    try:
        lines_ = {ast.unparse(n): n.lineno for n in ast.walk(u) if isinstance(n, (ast.Assign, ast.Expr))}
        order = "refresh before commit" if lines_["operators.set_link_exponents(current_A_applied)"] < lines_["self.current_A_applied = current_A_applied"] else "commit before refresh"
    except KeyError:
        order = "refresh or commit statement not found"
    stores = []
    for fn in class_funcs(st, "TDGLSolver"):
        for n in ast.walk(fn):
            if isinstance(n, ast.Assign) and any("self.current_A_applied" in ast.unparse(t) for t in n.targets):
                stores.append(f"{fn.name}: {ast.unparse(n)}")
    out["refresh"] = " | ".join(dec) + " || " + order + " || stored in: " + " ; ".join(sorted(stores))
    # --- with screening: inside the screening loop the link variables are rebuilt from applied + induced BEFORE the psi step
    #     of the iteration (C10, Tdgl/Props/C10Screen.lean), and that rebuild happens nowhere else ---
    loop = [n for n in ast.walk(u) if isinstance(n, ast.For) and "screening_iteration" in ast.unparse(n.target)]
    seq = []
    if len(loop) == 1:
        for n in ast.walk(loop[0]):
            if isinstance(n, ast.Expr) and "set_link_exponents(current_A_applied + A_induced)" in ast.unparse(n):
                seq.append((n.lineno, "rebuild(applied + induced)"))
            if isinstance(n, ast.Assign) and "self.adaptive_euler_step(" in ast.unparse(n.value):
                seq.append((n.lineno, "psi step"))
            if isinstance(n, ast.Assign) and "self.get_induced_vector_potential(" in ast.unparse(n.value):
                seq.append((n.lineno, "induced update"))
    elsewhere = []
    for fn in class_funcs(st, "TDGLSolver"):
        for n in ast.walk(fn):
            if isinstance(n, ast.Expr) and "set_link_exponents(" in ast.unparse(n) and "A_induced" in ast.unparse(n):
                inside = len(loop) == 1 and fn.name == "update" and loop[0].lineno <= n.lineno <= loop[0].end_lineno
                if not inside:
                    elsewhere.append(fn.name)
    out["screen_refresh"] = " -> ".join(t for _, t in sorted(seq)) + " || elsewhere: " + (" ; ".join(sorted(elsewhere)) or "none")
    # --- the induced vector potential a run STARTS from (C13, Tdgl/Screening.lean `initialInduced`): every value `solve` gives
    #     to "induced_vector_potential" before the stages run, with the condition it is given under ---
    sv = find_func(st, "TDGLSolver", "solve")
    starts = []

    def terminates(body):
        return bool(body) and isinstance(body[-1], (ast.Return, ast.Raise))

    def walk_solve(body, conds):
        conds = list(conds)
        for stn in body:
            for n in ast.walk(stn) if not isinstance(stn, (ast.If, ast.With, ast.For, ast.While, ast.Try)) else []:
                if isinstance(n, ast.Dict):
                    for k_, v_ in zip(n.keys, n.values):
                        if isinstance(k_, ast.Constant) and k_.value == "induced_vector_potential":
                            starts.append((" and ".join(conds) or "always") + ": " + ast.unparse(v_))
            if isinstance(stn, ast.Assign) and any(isinstance(t, ast.Subscript) and "induced_vector_potential" in ast.unparse(t) for t in stn.targets):
                starts.append((" and ".join(conds) or "always") + ": " + ast.unparse(stn.value))
            if isinstance(stn, ast.If):
                walk_solve(stn.body, conds + [ast.unparse(stn.test)])
                walk_solve(stn.orelse, conds + ["not (" + ast.unparse(stn.test) + ")"])
                # an `if` whose body ends in return / raise guards everything after it (early-return style = else branch)
                if terminates(stn.body) and not stn.orelse:
                    conds = conds + ["not (" + ast.unparse(stn.test) + ")"]
            elif isinstance(stn, (ast.With, ast.For, ast.While)):
                walk_solve(stn.body, conds)
            elif isinstance(stn, ast.Try):
                walk_solve(stn.body, conds)

    walk_solve(sv.body, [])
    # helper methods called from `solve` as self.<name>(...) are looked through (one level)
    methods = {fn.name: fn for fn in class_funcs(st, "TDGLSolver")}
    for n in ast.walk(sv):
        if isinstance(n, ast.Call) and isinstance(n.func, ast.Attribute) and isinstance(n.func.value, ast.Name) and n.func.value.id == "self" \
                and n.func.attr in methods and n.func.attr not in ("solve", "update") and "induced_vector_potential" in ast.unparse(methods[n.func.attr]):
            walk_solve(methods[n.func.attr].body, [])
    # alias-insensitive normal form: `self.x` and a local `x` hoisted from it read the same
    # (the drop of duplicates keeps a dict literal that `ast.walk` meets both in an assignment and in a return once)
    out["seed_induced"] = re.sub(r"\bself\.", "", " ; ".join(dict.fromkeys(starts)))
    lines = [HEADER.format(src="tdgl/solver/solver.py, tdgl/solver/runner.py (source pins)", sha=sha_of(solver) + "/" + sha_of(runner)), "namespace Tdgl.Gen\n"]
    for k, v in out.items():
        lines.append(f"def pin_{k} : String := {lean_str(v)}")
    lines.append("\nend Tdgl.Gen\n")
    return "\n".join(lines)


def lean_str(s):
    if s is None:
        return '"<missing>"'
    return '"' + s.replace("\\", "\\\\").replace('"', '\\"') + '"'


def write_if_changed(path, text):
    os.makedirs(os.path.dirname(path), exist_ok=True)
    old = open(path).read() if os.path.exists(path) else None
    if old != text:
        with open(path, "w") as f:
            f.write(text)
        return True
    return False


def main():
    status = {}
    for name, fn in (("StepGen", gen_step), ("ValidateGen", gen_validate), ("AdaptGen", gen_adapt), ("SourcePins", gen_pins)):
        path = os.path.join(GEN, f"{name}.lean")
        try:
            text = fn()
            status[name] = "regenerated" if write_if_changed(path, text) else "unchanged"
        except Unsupported as e:
            # a construct outside the subset: emit a file that makes the bridge fail to build, and say why
            text = (HEADER.format(src=name, sha="-") + f"-- UNSUPPORTED: {e}\nnamespace Tdgl.Gen\ndef translator_failed_{name} : String := {lean_str(str(e))}\nend Tdgl.Gen\n")
            write_if_changed(path, text)
            status[name] = f"unsupported: {e}"
    import json

    print(json.dumps(status))
    return 0


if __name__ == "__main__":
    sys.exit(main())
