#!/usr/bin/env python3
"""tools/eval_benign.py <tag> : /verif/benign/<tag>/patch.diff is a behaviour-preserving refactoring. Apply it in a scratch
worktree, run every quick check against it and report each VIOLATION: a failing-input report is a FALSE ALARM of the
machinery (to be corrected); `no-failing-input-found` is the documented consequence of a broken textual pin / bridge."""
import json, os, subprocess, sys, time

ROOT = os.path.dirname(os.path.dirname(os.path.abspath(__file__)))


def sh(cmd, cwd=None, env=None, timeout=7200):
    p = subprocess.run(cmd, shell=True, cwd=cwd, env=env, stdout=subprocess.PIPE, stderr=subprocess.STDOUT, text=True, timeout=timeout)
    return p.returncode, p.stdout


def main():
    tag = sys.argv[1]
    only = sys.argv[2].split(",") if len(sys.argv) > 2 else None
    d = os.path.join(ROOT, "benign", tag)
    wt = f"/tmp/evalbenign_{tag}_{os.getpid()}"
    sh(f"git worktree add -q {wt} HEAD", cwd="/repo")
    rc, out = sh(f"git apply {d}/patch.diff", cwd=wt)
    if rc != 0:
        print("patch does not apply:", out)
        sh(f"git worktree remove --force {wt}", cwd="/repo")
        return 2
    ev = os.path.join(ROOT, ".work", "evidence_benign")
    os.makedirs(ev, exist_ok=True)
    res = {}
    checks = only or [c["property_id"] for c in json.load(open(os.path.join(ROOT, "MANIFEST.json")))["checks"]]
    leandir = f"/tmp/evallean_{tag}_{os.getpid()}"
    sh(f"cp -r {ROOT}/lean {leandir}")
    os.environ["VERIF_LEAN_DIR"] = leandir
    try:
        for c in checks:
            t0 = time.time()
            rc, out = sh(f"./check {c} --tier quick", cwd=ROOT, env=dict(os.environ, VERIF_EVIDENCE_DIR=ev, VERIF_REPO=wt))
            lines = [l for l in out.splitlines() if l.startswith(("VIOLATION", "INFRA", "KNOWN-FINDING"))]
            kinds = []
            for l in lines:
                if l.startswith("VIOLATION") and "replay=" in l:
                    try:
                        r = json.load(open(os.path.join(ROOT, l.split("replay=")[1].split()[0])))
                        kinds.append(dict(kind=r.get("kind"), key=r.get("key"), what=str(r.get("what"))[:200], broken=str(r.get("broken"))[:500] if r.get("broken") else None))
                    except Exception as e:  # noqa
                        kinds.append(dict(kind="?", err=str(e)))
                elif l.startswith("INFRA"):
                    kinds.append(dict(kind="INFRA", what=l[:200]))
            res[c] = dict(rc=rc, seconds=round(time.time() - t0, 1), reports=kinds)
            print(c, "rc=", rc, kinds if rc else "")
    finally:
        sh(f"git worktree remove --force {wt}", cwd="/repo")
        sh(f"rm -rf {leandir}")
    json.dump(res, open(os.path.join(d, "result.json"), "w"), indent=1)
    false_alarms = {c: v for c, v in res.items() if any(k.get("kind") not in ("no-failing-input-found",) for k in v["reports"]) and v["rc"] != 0}
    print("FALSE ALARMS / INFRA:", list(false_alarms) or "none", "| pin-only reports:", [c for c, v in res.items() if v["rc"] == 1 and c not in false_alarms])
    return 0


if __name__ == "__main__":
    sys.exit(main())
