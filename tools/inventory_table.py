#!/usr/bin/env python3
"""Regenerate the theorem inventory table of DESIGN.md §10.1 from lean/Tdgl/Props/*.lean (between the
INVENTORY_TABLE markers)."""
import glob, os, re

ROOT = os.path.dirname(os.path.dirname(os.path.abspath(__file__)))
rows = []
for i in range(1, 21):
    pid = f"C{i:02d}"
    files = sorted(glob.glob(os.path.join(ROOT, "lean", "Tdgl", "Props", f"{pid}*.lean")))
    parts, total = [], 0
    for f in files:
        names = re.findall(r"^theorem\s+(C\d\d_[A-Za-z0-9_']+)", open(f).read(), flags=re.M)
        if not names:
            continue
        total += len(names)
        parts.append(f"*{os.path.basename(f)[:-5]}*: " + ", ".join(f"`{n[4:]}`" for n in names))
    rows.append(f"| {pid} | {total} | " + "; ".join(parts) + " |")
table = "| property | theorems | file: names (prefix `Cxx_` dropped) |\n|---|---|---|\n" + "\n".join(rows)
p = os.path.join(ROOT, "DESIGN.md")
s = open(p).read()
b, e = "<!-- INVENTORY_TABLE_BEGIN -->", "<!-- INVENTORY_TABLE_END -->"
if b in s:
    s = s[: s.index(b) + len(b)] + "\n" + table + "\n" + s[s.index(e):]
    open(p, "w").write(s)
print(table)
