#!/bin/bash
# tools/run_on_seeded.sh <seeded-name> Cxx [tier] : run one check against a scratch worktree with the seeded patch; full output
name=$1; prop=$2; tier=${3:-quick}; wt=/tmp/dbg_$$
git -C /repo worktree add -q $wt HEAD && (cd $wt && git apply /verif/seeded/$name/patch.diff)
cd /verif && VERIF_REPO=$wt VERIF_EVIDENCE_DIR=/verif/.work/evidence_seeded ./check $prop --tier $tier --no-lean 2>&1 | grep -v "Warn\|it/s\]" | tail -${4:-12}
git -C /repo worktree remove --force $wt
