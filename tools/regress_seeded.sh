#!/bin/bash
# re-evaluate every kept seeded change against the current checks (quick tier), P at a time (each evaluation has its own
# scratch worktree of /repo and its own copy of the Lean project); prints one line per change
cd /verif
P=${1:-4}
ls seeded | xargs -P $P -I{} bash -c 'out=$(tools/eval_seeded.py {} --skip-demo 2>&1 | tail -1); echo "{} :: $out"'
