#!/bin/bash
# re-evaluate every kept seeded change against the current checks (quick tier); prints the ones that are not caught
cd /verif
for d in seeded/*/; do
  n=$(basename $d)
  out=$(tools/eval_seeded.py $n --skip-demo 2>&1 | tail -1)
  echo "$n :: $out"
done
