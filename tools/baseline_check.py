#!/usr/bin/env python3
"""Run the repository's pinned test-suite (command of /root/.vp/BASELINE.json, guard OFF) and
compare the passing set with BASELINE.json's stable_pass list.  Exit 0 iff every stable test passes."""
import json, os, subprocess, sys, tempfile, xml.etree.ElementTree as ET

base = json.load(open("/root/.vp/BASELINE.json"))
out = tempfile.mktemp(suffix=".junit.xml", dir=os.environ.get("VERIF_WORK", "/verif/.work") if os.path.isdir("/verif/.work") else None)
cmd = base["cmd"].replace("<file>", out)
repo = os.environ.get("VERIF_REPO")
if repo:
    cmd = cmd.replace("cd /repo", f"cd {repo}")
env = dict(os.environ)
env.pop("PY_TDGL_VERIF", None)
extra = sys.argv[1:]
p = subprocess.run(cmd + " " + " ".join(extra), shell=True, env=env, stdout=subprocess.PIPE, stderr=subprocess.STDOUT, text=True)
passed = set()
for tc in ET.parse(out).getroot().iter("testcase"):
    ok = not any(ch.tag in ("failure", "error", "skipped") for ch in tc)
    name = f"{tc.get('classname')}::{tc.get('name')}"
    if ok:
        passed.add(name)
os.remove(out)
stable = set(base["stable_pass"])
missing = sorted(stable - passed)
print(f"stable_pass={len(stable)} passed_now={len(passed)} missing={len(missing)}")
for m in missing[:40]:
    print("MISSING", m)
sys.exit(1 if missing else 0)
