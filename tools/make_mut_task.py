#!/usr/bin/env python3
"""tools/make_mut_task.py <round> Cxx [Cyy ...] : create a scratch worktree /tmp/mut<round>_Cxx of /repo (HEAD) with a
TASK.md for a fresh sub-agent that is to seed ONE realistic property-breaking change. The agent is given the property
text only (nothing from /verif); summaries of changes already kept for the property are listed so that it picks a
different mechanism."""
import glob, json, os, subprocess, sys

ROOT = os.path.dirname(os.path.dirname(os.path.abspath(__file__)))

T = """You are helping to evaluate a verification effort for the open-source Python package py-tdgl (loganbvh/py-tdgl: a finite-volume solver for the 2D generalized time-dependent Ginzburg-Landau equation). You work ONLY inside your own scratch git worktree of the repository: {wt} (do not touch /repo, do not look at or use anything under /verif, do not read other /tmp/mut* directories). Python: /venv/bin/python. IMPORTANT: a script that lives in {wt}/MUTATION/ imports the copy of tdgl installed from /repo unless the worktree root is first on sys.path, so start demo.py with `import sys, os; sys.path.insert(0, os.path.dirname(os.path.dirname(os.path.abspath(__file__))))` and verify with `print(tdgl.__file__)` that YOUR copy is imported. There is no network. The machine is shared and loaded: set NUMBA_NUM_THREADS=2 and OMP_NUM_THREADS=2 for everything you run.

Here is a semantic property that the package is supposed to satisfy:

PROPERTY {id}: {title}
STATEMENT: {statement}
QUANTIFIED OVER: {quant}
WHY THE EXISTING TESTS CANNOT SETTLE IT: {why}
CODE ANCHORS: {anchors}

YOUR TASK: craft ONE realistic change (a plausible bug or well-meant refactoring/optimisation a developer could make) to the package source under {wt}/tdgl that BREAKS this property, while (1) the package still imports and (2) the repository's existing test-suite still passes. Do NOT run the whole test-suite (it takes very long on this loaded machine and the orchestrator will run it afterwards): run only the test files that exercise the code you touched, e.g. `cd {wt} && NUMBA_NUM_THREADS=2 /venv/bin/python -m pytest tdgl/test/test_solve.py -q -x -p no:cacheprovider --timeout=3000` (not tdgl/test/test_visualization.py unless you touched visualisation; there are a few pre-existing failures unrelated to any change, e.g. numpy-2 `np.trapz`/`np.cross` errors, missing meshio, "Expected a simply-connected polygon" in test_device.py — compare with the unmodified code if in doubt: save your change with `git diff -- tdgl > /tmp/<your worktree name>.diff`, `git apply -R` it, run, `git apply` it again; NEVER use `git stash`: the stash is shared by all worktrees of the repository and other people are working in theirs). The change must NOT be something that ordinary use exposes at once: prefer a breakage that needs something specific to manifest — a particular multi-step sequence of operations, a particular crash/fault/interrupt point, an unusual but legitimate input (boundary values such as 0 or None, three or four terminals, a hole, save_every not dividing the run length, a time-dependent parameter nested in a composite, a pre-existing file, screening on, adaptive retries, a second gauge, different units, a reloaded object), or two cooperating code sites that each look fine alone. Keep the diff small (a few lines to a few dozen) and do not edit tests.
{avoid}
DELIVERABLES (all inside {wt}/MUTATION/, create the directory):
 1. patch.diff — `git -C {wt} diff -- tdgl > MUTATION/patch.diff` of your change to the package source only (no test edits, not including the MUTATION directory).
 2. demo.py — a small standalone program (run as `cd {wt} && /venv/bin/python MUTATION/demo.py`) that exits 0 and prints PASS on the UNMODIFIED code and exits 1 and prints FAIL (with a short explanation of what it observed) on the code WITH your change. It must check the property's observable behaviour through the public API (not internal identifiers you introduced). Keep its run time under ~60 s.
 3. meta.json — {{"property": "{id}", "summary": "<one sentence: what the change does>", "needs_to_manifest": "<what specific input/sequence/fault is needed>", "files_changed": [...], "tests_run": "<what you ran and the result>"}}.
Verify both directions yourself: `git apply -R MUTATION/patch.diff` → demo prints PASS; re-apply → demo prints FAIL. Leave the worktree WITH the change applied when you finish. In your final message report: the summary, what is needed to manifest, the tests you ran with the change, and the two demo outputs.
"""


def main():
    rnd = sys.argv[1]
    props = {}
    for line in open(os.path.join(ROOT, "properties.jsonl")):
        d = json.loads(line)
        props[d["id"]] = d
    for pid in sys.argv[2:]:
        d = props[pid]
        wt = f"/tmp/mut{rnd}_{pid}"
        if not os.path.exists(wt):
            subprocess.run(["git", "-C", "/repo", "worktree", "add", "-q", wt, "HEAD"], check=True)
        prev = []
        for m in sorted(glob.glob(os.path.join(ROOT, "seeded", f"{pid}-*", "meta.json"))):
            try:
                prev.append(json.load(open(m))["summary"])
            except Exception:
                pass
        avoid = ""
        if prev:
            avoid = "\nChanges of the following kinds have ALREADY been made by others for this property; choose a DIFFERENT mechanism, in a different function (ideally a different file or a different clause of the statement):\n" + "".join(f" - {p}\n" for p in prev)
        anchors = d.get("anchors") or d.get("code_anchors") or ""
        if isinstance(anchors, dict):
            anchors = "files " + ", ".join(anchors.get("files", [])) + "; mechanisms: " + "; ".join(
                f"{m.get('name', '')} @ {m.get('where', '')}" for m in anchors.get("mechanism", []))
        txt = T.format(wt=wt, id=pid, title=d.get("title", ""), statement=d.get("statement", ""), quant=(d["quantifier"]["text"] if isinstance(d.get("quantifier"), dict) else d.get("quantifier", "")),
                       why=d.get("why_tests_cant", ""), anchors=anchors, avoid=avoid)
        open(os.path.join(wt, "TASK.md"), "w").write(txt)
        print(wt)


if __name__ == "__main__":
    main()
