#!/usr/bin/env python3
"""Evaluate a seeded breaking change kept under /verif/seeded/<name>/ (patch.diff, demo.py, meta.json):
 1. in a scratch worktree of /repo (under /tmp): demo passes without the patch and fails with it;
 2. apply the patch to /repo, run the named checks (default: the property's quick check), undo it straight afterwards.
Usage: tools/eval_seeded.py <name> [--checks C05,C11 | --all] [--tier quick] [--skip-demo]
Writes /verif/seeded/<name>/result.json."""
import argparse, json, os, subprocess, sys, shutil, time

ROOT = os.path.dirname(os.path.dirname(os.path.abspath(__file__)))
REPO = "/repo"


def sh(cmd, cwd=None, timeout=3600, env=None):
    p = subprocess.run(cmd, shell=True, cwd=cwd, stdout=subprocess.PIPE, stderr=subprocess.STDOUT, text=True, timeout=timeout, env=env)
    return p.returncode, p.stdout


def main():
    ap = argparse.ArgumentParser()
    ap.add_argument("name")
    ap.add_argument("--checks")
    ap.add_argument("--all", action="store_true")
    ap.add_argument("--tier", default="quick")
    ap.add_argument("--skip-demo", action="store_true")
    a = ap.parse_args()
    d = os.path.join(ROOT, "seeded", a.name)
    meta = json.load(open(os.path.join(d, "meta.json")))
    prop = meta["property"]
    patch = os.path.join(d, "patch.diff")
    res = dict(name=a.name, property=prop, time=time.strftime("%Y-%m-%d %H:%M:%S"))
    if not a.skip_demo:
        wt = f"/tmp/evalseed_{a.name}_{os.getpid()}"
        sh(f"git worktree add -q {wt} HEAD", cwd=REPO)
        try:
            shutil.copytree(d, os.path.join(wt, "MUTATION"), dirs_exist_ok=True)
            rc0, o0 = sh("/venv/bin/python MUTATION/demo.py", cwd=wt, timeout=900)
            rca, oa = sh(f"git apply {patch}", cwd=wt)
            rc1, o1 = sh("/venv/bin/python MUTATION/demo.py", cwd=wt, timeout=900)
            res["demo"] = dict(without_patch=dict(rc=rc0, tail=o0[-300:]), apply_rc=rca, with_patch=dict(rc=rc1, tail=o1[-300:]))
            res["demo_ok"] = (rc0 == 0 and rca == 0 and rc1 != 0)
        finally:
            sh(f"git worktree remove --force {wt}", cwd=REPO)
        print("demo:", "OK (passes without, fails with)" if res["demo_ok"] else f"NOT CONFIRMED {res['demo']}")
    checks = [c["property_id"] for c in json.load(open(os.path.join(ROOT, "MANIFEST.json")))["checks"]] if a.all else (a.checks.split(",") if a.checks else [prop])
    # the checks run against a scratch worktree of /repo with the patch applied (VERIF_REPO; ./check puts it first
    # on PYTHONPATH), which is the same tree as `git -C /repo apply patch.diff` gives, without touching /repo
    evalrepo = f"/tmp/evalrepo_{a.name}_{os.getpid()}"
    sh(f"git worktree add -q {evalrepo} HEAD", cwd=REPO)
    rc, out = sh(f"git apply {patch}", cwd=evalrepo)
    if rc != 0:
        print("patch does not apply:", out)
        sh(f"git worktree remove --force {evalrepo}", cwd=REPO)
        return 2
    caught = {}
    # a private copy of the Lean project (48 MB with its build): the translator rewrites Tdgl/Generated from the
    # patched tree, so evaluations running side by side must not share it
    leandir = f"/tmp/evallean_{a.name}_{os.getpid()}"
    sh(f"cp -r {ROOT}/lean {leandir}")
    os.environ["VERIF_LEAN_DIR"] = leandir
    try:
        for c in checks:
            t0 = time.time()
            ev = os.path.join(ROOT, ".work", "evidence_seeded")
            os.makedirs(ev, exist_ok=True)
            rc, out = sh(f"./check {c} --tier {a.tier}", cwd=ROOT, timeout=7200, env=dict(os.environ, VERIF_EVIDENCE_DIR=ev, VERIF_REPO=evalrepo))
            lines = [l for l in out.splitlines() if l.startswith("VIOLATION") or l.startswith("KNOWN-FINDING") or l.startswith("INFRA") or l.startswith("[C")]
            caught[c] = dict(rc=rc, seconds=round(time.time() - t0, 1), lines=[l[:300] for l in lines][:8])
            rep = [l.split("replay=")[1].split()[0] for l in lines if l.startswith("VIOLATION") and "replay=" in l]
            if rep:
                try:
                    r = json.load(open(os.path.join(ROOT, rep[0])))
                    caught[c]["first_replay"] = {k: (str(v)[:200]) for k, v in r.items() if k in ("key", "what", "kind")}
                except Exception:
                    pass
            print(c, "rc=", rc, "VIOLATION" if rc == 1 else "", caught[c].get("first_replay", ""))
    finally:
        sh(f"git worktree remove --force {evalrepo}", cwd=REPO)
        sh(f"rm -rf {leandir}")
    res["checks"] = caught
    res["caught_by"] = [c for c, v in caught.items() if v["rc"] == 1]
    res["tier"] = a.tier
    old = {}
    rp = os.path.join(d, "result.json")
    if os.path.exists(rp):
        old = json.load(open(rp))
    hist = old.get("history", [])
    hist.append(res)
    # the first evaluation (what the checks saw when the change was imported) and the demo confirmation are kept for good;
    # the rolling history keeps the last six evaluations
    first = old.get("first") or hist[0]
    demo = bool(old.get("demo_confirmed")) or any(h.get("demo_ok") for h in hist)
    json.dump(dict(latest=res, first=first, demo_confirmed=demo, history=hist[-6:]), open(rp, "w"), indent=1)
    print("caught by:", res["caught_by"])
    return 0


if __name__ == "__main__":
    sys.exit(main())
