#!/bin/bash
# run every registered quick (or thorough) check; usage: tools/run_all.sh [quick|thorough] [seed]
cd "$(dirname "$0")/.."
tier=${1:-quick}; seed=${2:-0}
fail=0
for p in $(python3 -c "import json; print(' '.join(c['property_id'] for c in json.load(open('MANIFEST.json'))['checks']))"); do
  s=$(date +%s)
  out=$(VERIF_SEED=$seed ./check $p --tier $tier 2>&1); rc=$?
  e=$(( $(date +%s) - s ))
  echo "$p rc=$rc ${e}s :: $(echo "$out" | grep -E '^\[C|VIOLATION|KNOWN-FINDING|INFRA' | cut -c1-220 | tr '\n' ' ')"
  [ $rc -ne 0 ] && fail=1
done
exit $fail
