#!/bin/bash
# tools/confirm_seeded.sh <name> : in a scratch worktree, apply the seeded patch and run the pinned test-suite (xdist);
# writes /verif/seeded/<name>/suite.txt with the comparison against BASELINE.json's stable_pass list.
name=$1; wt=/tmp/confirm_$name
git -C /repo worktree add -q $wt HEAD && cd $wt && git apply /verif/seeded/$name/patch.diff \
 && VERIF_REPO=$wt /venv/bin/python /verif/tools/baseline_check.py -n 4 > /verif/seeded/$name/suite.txt 2>&1
rc=$?
cd /; git -C /repo worktree remove --force $wt
echo "$name suite rc=$rc: $(tail -1 /verif/seeded/$name/suite.txt | head -c 200)"
