#!/usr/bin/env python3
"""tools/make_benign_task.py <tag> Cxx [Cyy ...] : scratch worktree /tmp/benign_<tag> + TASK.md asking a fresh sub-agent for
BEHAVIOUR-PRESERVING refactorings of the code the listed properties are anchored in (to measure false alarms)."""
import json, os, subprocess, sys

ROOT = os.path.dirname(os.path.dirname(os.path.abspath(__file__)))
T = """You are helping to evaluate a verification effort for the open-source Python package py-tdgl (loganbvh/py-tdgl: a finite-volume solver for the 2D generalized time-dependent Ginzburg-Landau equation). You work ONLY inside your own scratch git worktree of the repository: {wt} (do not touch /repo, do not look at or use anything under /verif, do not read other /tmp/mut* or /tmp/benign* directories). Python: /venv/bin/python. A script outside the worktree root imports the copy of tdgl installed from /repo unless the worktree root is first on sys.path; when you run things, `cd {wt}` first (then `import tdgl` imports YOUR copy — verify with `/venv/bin/python -c "import tdgl; print(tdgl.__file__)"`). There is no network. The machine is shared: set NUMBA_NUM_THREADS=2 and OMP_NUM_THREADS=2 for everything you run. NEVER use `git stash` (it is shared between worktrees).

YOUR TASK: make a series of BEHAVIOUR-PRESERVING changes — the kind of clean-up, refactoring or micro-optimisation a careful maintainer would make and a reviewer would accept as "no functional change" — to the parts of the package that the following semantic properties are about. Every property must STILL HOLD after your changes, for every input, and the public behaviour (return values, files written, exceptions and their types, what is recorded) must be unchanged; results should be bit-identical where the original is deterministic (re-associating floating-point sums or changing the order of floating-point operations is NOT allowed; renaming public functions/attributes/options is NOT allowed).

{props}

Make 6 to 12 separate edits across the anchored functions, of varied kinds, for example: rename local variables; extract a private helper function or inline one; replace a loop by a comprehension or vice versa; reorder statements that do not depend on each other; replace `if x is not None: ... else: ...` by an early return; turn repeated attribute lookups into locals; replace a dict/list construction by an equivalent one; add type hints or docstrings; change string formatting of log/debug messages that are not part of the checked behaviour (do NOT change exception types; exception message wording may be reformatted only trivially); move a constant to module level; replace `np.concatenate([a, b])` by an equivalent call giving the same array and dtype; use a context manager where a try/finally was used with identical semantics. Be careful: the aim is ZERO behaviour change, also for unusual inputs (None values, zero values, empty lists, several terminals, pre-existing files, repeated calls on the same objects, interrupts).

Then check yourself: run the test files that exercise what you touched, e.g. `cd {wt} && NUMBA_NUM_THREADS=2 /venv/bin/python -m pytest tdgl/test/test_solve.py tdgl/test/test_solution.py tdgl/test/test_parameter.py -q -p no:cacheprovider --timeout=3000` (there are pre-existing failures unrelated to any change: numpy-2 `np.trapz`/`np.cross`, missing meshio, "Expected a simply-connected polygon"; the set of failing test ids must be the same with and without your change: compare by `git diff -- tdgl > /tmp/{tag}.diff; git apply -R /tmp/{tag}.diff`, run, `git apply /tmp/{tag}.diff`). Also write a small script MUTATION/equiv.py that runs two or three short simulations / operations touching the code you changed and prints a sha256 of the results, and confirm that it prints the same hashes with and without your change.

DELIVERABLES (inside {wt}/MUTATION/, create the directory): patch.diff (`git -C {wt} diff -- tdgl > MUTATION/patch.diff`), equiv.py, meta.json = {{"properties": [...], "summary": "<list of the edits, one line each, with file:function>", "files_changed": [...], "tests_run": "<what you ran, result with and without>"}}. Leave the worktree WITH the change applied. In your final message list every edit (file, function, what) and say how you convinced yourself that each one changes no behaviour.
"""


def main():
    tag = sys.argv[1]
    props = {}
    for line in open(os.path.join(ROOT, "properties.jsonl")):
        d = json.loads(line)
        props[d["id"]] = d
    wt = f"/tmp/benign_{tag}"
    if not os.path.exists(wt):
        subprocess.run(["git", "-C", "/repo", "worktree", "add", "-q", wt, "HEAD"], check=True)
    parts = []
    for pid in sys.argv[2:]:
        d = props[pid]
        a = d["anchors"]
        anchors = "files " + ", ".join(a.get("files", [])) + "; mechanisms: " + "; ".join(f"{m.get('name', '')} @ {m.get('where', '')}" for m in a.get("mechanism", []))
        parts.append(f"PROPERTY {pid}: {d['title']}\nSTATEMENT: {d['statement']}\nCODE ANCHORS: {anchors}\n")
    open(os.path.join(wt, "TASK.md"), "w").write(T.format(wt=wt, tag=tag, props="\n".join(parts)))
    print(wt)


if __name__ == "__main__":
    main()
