#!/bin/bash
# tools/import_seeded.sh Cxx <short-name> : copy /tmp/mut_Cxx/MUTATION/{patch.diff,demo.py,meta.json} into /verif/seeded/Cxx-<short-name>/
set -e
src=/tmp/mut_$1/MUTATION; dst=/verif/seeded/$1-$2
mkdir -p $dst
cp $src/patch.diff $src/demo.py $src/meta.json $dst/
echo "imported into $dst"
