#!/usr/bin/env python3
"""Regenerates /verif/MANIFEST.json from the table below (kept in one place so it stays valid)."""
import json, os, sys
ROOT = os.path.dirname(os.path.dirname(os.path.abspath(__file__)))
props = [json.loads(l) for l in open(os.path.join(ROOT, "properties.jsonl"))]

# property -> (category, technique, level text, level note, design ref)
NOTE = "Exact-arithmetic theorems about a hand-written Lean model; the model-code tie is the seeded correspondence run of this check (Float interpretation of the same definitions through the native driver) plus the property oracle evaluated on the implementation; floating point to the tolerances recorded in the evidence; external libraries (SuperLU, scipy.sparse, h5py, numba, Triangle, shapely) are modelled or validated at run time, not verified."
def P(tech, text, ref, cat="proof", note=NOTE):
    return (cat, tech, text, note, ref)
CLAIMED = {
 "C01": P("Lean 4 theorems over any field (cell continuity for any μ solving the Poisson equation; shares; units) + Float-model correspondence with solve_for_observables + SI continuity oracle on saved frames",
          "Per-cell continuity, zero outflow away from terminals, balanced terminal density and the unit conversion are machine-checked for every mesh; real runs (2-4 terminals, holes, ramped fields, time-dependent currents, screening) are checked frame by frame against the injection computed independently from the requested currents in SI; acceptance of balanced assignments is exercised on the real constructor.", "§5 C01"),
 "C02": P("Lean 4 theorems over ℝ about the per-site root, lifted to the whole adaptive update and to runs (C02Run) + Float-model/numpy correspondence (sites, whole TDGLSolver.update calls replayed on the model) + extended-precision oracle",
          "Machine-checked theorems (soundness, exact refusal, physical branch, all-sites, documented equation) about the Lean model of solve_for_psi_squared, for every complex z, w; the model's Float interpretation is compared site by site with the implementation and an independent extended-precision oracle evaluates the theorems' conclusions on the implementation's own answers.", "§5 C02"),
 "C03": P("Lean 4 theorems over any (ordered) field for every well-formed mesh + Float-model correspondence with the scipy-assembled operators + identity residuals on the implementation matrices",
          "L = D∘G, Σ a·(DF) = 0, boundary flux, Green identity, symmetry, negative semidefiniteness, kernel = constants on connected meshes, Hermitian covariant Laplacian and exact gradient of linear functions are theorems for all meshes/weights/fields; the four builders are compared with the model's row functions on a mesh zoo.", "§5 C03"),
 "C04": P("Lean 4 theorems over ℝ (gauge covariance of gradient, Laplacian, Euler step; invariance of Js, μ, Jn; whole run by induction) + operator-level and paired-run correspondence",
          "Covariance for arbitrary site functions χ and invariance of all observables over whole runs are machine-checked for the model; the implementation's matrices are checked for covariance with random χ and paired real runs in shifted gauges (gauge-related initial data) are compared in gauge-invariant quantities at every frame.", "§5 C04"),
 "C05": P("Lean 4 theorems (loop invariant by induction over iterations, any physics, any k, any T) + exhaustive bounded correspondence of real tdgl.solve traces with an executable specification and with the Lean loop model",
          "Frame labels, frame contents, clock, one record per step, stop step and thermalisation are theorems about the loop model for every update function; every (k, N) in the property's bound is run for real and its HDF5 trace compared bit for bit with a bare-update reference trajectory and with the model's trace; the per-step record buffer (RunningState) and the reader's dt>0 mask are modelled and proved to return each record exactly once, and the recorded dt is tied to the dt of the answered site update.", "§5 C05"),
 "C06": P("Lean 4 theorems (identity rows before/after refresh, unpinned rows untouched, None = free, ψ=0 and any terminal value held) + real runs checked on every frame + Euler-step correspondence on all sites",
          "Pinning is a theorem about the operator and update model for every mesh and vector potential; real runs with terminal_psi in {0, None, 0.5, 1, 0.6i} are checked for exact equality on terminal sites and free evolution elsewhere.", "§5 C06"),
 "C10": P("Lean 4 theorems over any field (refresh = rebuild entrywise, any history, pinned rows, entries are the matrix of the row action) + MeshOperators driven through sequences vs fresh builds and vs the model's refreshed entries",
          "For every well-formed mesh, pinned set and finite history the refreshed matrices equal the rebuilt ones (theorem); the implementation is driven through sequences of length 1..6 and compared entry by entry.", "§5 C10"),
 "C11": P("Lean 4 theorems (frames lie on one trajectory whatever k; records/probes do not feed back; resumption) + pairwise bit-for-bit comparison of real runs differing in one recording option and of all split points of a resumed run",
          "Observer independence and resumption are theorems about the loop model for every physics; the implementation is compared pairwise, bit for bit.", "§5 C11"),
 "C12": P("Lean 4 theorems over ordered fields (retry law, exhaustion, non-adaptive refusal, documented rule, bounds by induction over the run, fixed step; the physical adaptive update refines the controller model) + step-by-step replay of TDGLSolver.update against the Lean controller",
          "The dt controller is proved for every refusal oracle and history; the real update is driven with genuine and scheduled refusals and compared bit for bit (dt used) with the model replayed on the same answers.", "§5 C12"),
 "C17": P("Lean 4 theorems over ℝ (Laplacian of constants vanishes at A=0, per-site fixed point for all γ,u,dt, whole-update fixed point, induction over steps) + undriven real runs and dt sequence vs the Lean controller",
          "Stationarity of the uniform state is a theorem for every mesh given only solve(0)=0; undriven real runs on irregular/holed/smoothed meshes stay at the uniform state to 1e-15 (also after a pinned run on the same device, with screening, and over 5 tau) and the adaptive step reaches dt_max as the model predicts. Known finding F17: with dt_max beyond the explicit stability limit dt*lambda_max/(u*sqrt(1+gamma^2)) < 2 rounding residue is amplified (bar_hole, gamma=0, u=1, dt_max=0.1).", "§5 C17"),
 "C07": P("Lean 4 theorems over any (ordered) field (circumcentre equidistant and labelling-independent, kites tile the triangle, dual edges on bisectors, edge geometry; coded dual length = |signed face|, signed face >= 0 iff locally Delaunay / unencroached, finite-volume area identity) + per-mesh validation of the external mesher + cell areas / dual lengths vs an independently clipped Voronoi diagram",
          "PARTIAL: the repo's own geometry (circumcentres, kite areas, dual lengths, edge vectors) and connectivity (edge list = the sides of the triangles once each in lexicographic order, boundary flags = sides of exactly one triangle, boundary sites) are proved; the triangulation comes from Triangle/qhull/shapely and is validated on every generated mesh (orientation, tiling area, outlines, Euler relation, terminal lengths); cell areas and dual edge lengths are compared with an independent half-plane construction of the clipped Voronoi diagram on locally Delaunay cells.", "§5 C07"),
 "C08": P("Lean 4 theorems over any field (all dimensionless solver inputs are functions of SI values only; flux per triangle) + scale factors of the real constructor vs the Lean Units model for 27 unit triples + paired real runs on a shared dimensionless mesh",
          "Unit independence of Bc2/A0/K0, link exponents, terminal densities and screening weights is proved; the real constructor is compared with the model for every unit triple and real runs in different unit systems agree to 1e-9 on a shared mesh. Known finding: make_mesh itself is not scale invariant (Triangle).", "§5 C08"),
 "C09": P("Lean 4 theorems (schedule independence / full overwrite of the parallel kernels' output) + fresh-process bit-for-bit comparison across thread counts and output locations",
          "OTHER/PARTIAL: race-freedom of the modelled prange kernels is machine-checked; bit-reproducibility of numba, SuperLU, Triangle and h5py across processes and thread counts is observed by hashing meshes, every dataset and kernel outputs, not proved.", "§5 C09", cat="other"),
 "C13": P("Lean 4 theorems over K-modules (exact mismatch identity of the heavy-ball update, exit only below tolerance with the tested state, non-convergence raises, disabled = zero) + numba kernel vs the Lean fold and an independent double sum + stored potential recomputed from stored currents in SI + loop replay",
          "Loop logic and the identity are proved for any physics/kernel/error functional; the accelerated kernel equals the direct double sum to rounding; on real screened runs the stored potential reproduces the SI sum within 0.6 tol (bound 3 tol, empirical 'modest multiple'); the Lean loop replayed on logged errors matches iteration counts.", "§5 C13"),
 "C14": P("Lean 4 theorems (decode∘encode = id for layer/polygon/options incl. None-valued fields/mesh full and compressed/device canonical form; parameter round trip in C16) + real to_hdf5/from_hdf5 and pickle round trips compared field by field + key-set correspondence",
          "Round trips are proved over an abstract HDF5 store with opaque payloads; real devices, meshes, solutions (option covering array incl. every None) and parameters are written, read back, compared by == and field by field and exercised.", "§5 C14"),
 "C15": P("Lean 4 theorems (fresh name, existing files untouched, cleanup on every exit path, frames truthful and increasing under arbitrary faults, no-fault refinement of the loop model, cancellation returns a solution) + exhaustive fault injection on bounded real runs + model/implementation correspondence of result, name, frames",
          "Cleanup, truthfulness and naming are proved for every placement of faults in the file-system/handler model; every injection point (update and frame writer, both stages, both kinds) of bounded real runs is exercised with pre-existing files and the aftermath compared with the model.", "§5 C15"),
 "C16": P("Lean 4 theorems by structural induction over expression trees of any depth (pointwise evaluation with t dispatched to time-dependent operands only, td flag, structural equality, total construction/clearing/pickling, reachability invariant on attribute presence) + exhaustive depth<=2 (62k trees) and sampled depth-3 correspondence with the real overloads",
          "The expression language is proved for all depths; all trees of depth <= 2 and a dimension-consistent sample of depth 3 are built with the real operators and compared with the Lean model (values bit for bit for + - * /) and with an independent pointwise evaluation; composites are handed to tdgl.solve.", "§5 C16"),
 "C18": P("Lean 4 theorems (shoelace area under any affine map for any vertex count, rotation/translation/scaling/reversal, orientation, closing; chains of set operations and device membership under the kernel laws) + generated shapes with probe points, alias/mutation checks, Lean area model vs shapely",
          "The repo's own geometry logic is proved; shapely/matplotlib semantics are a stated assumption validated by sampling probe points away from boundaries.", "§5 C18"),
 "C19": P("Lean 4 theorems (validate accepts exactly the consistent option sets; balance test thresholds; failing pre-check leaves the file system unchanged and reports the first failure) + every enumerated class exercised on the real constructor/solve with directory listings + validate/currents correspondence on random option sets",
          "Decision logic of the input validation is proved outright; each class of ill-posed input is instantiated at magnitudes from gross to 1e-6 with and without output path and must raise the documented error leaving no file behind; Device.__eq__ and the seed-solution guard are modelled (equality up to the order of holes/terminals, never for one more or fewer) and compared with the implementation on device pairs.", "§5 C19"),
 "C20": P("Lean 4 theorems (linearity of the Biot-Savart and Coulomb kernels for any weights, scalar = z of vector, sum of parts, H<->B round trip, sqeuclidean = euclidean^2) + numba kernels vs Lean folds and an extended-precision SI double sum + assembled fields of real solutions",
          "Linearity/decomposition/prefactor statements are proved; kernels and Solution methods (in several unit systems) are compared with an independent SI double sum; the edge-to-site reconstruction get_quantity_on_site is modelled, proved linear and local, and compared; the elliptic-integral loop formula is checked numerically against quadrature only (PARTIAL: Mathlib has no complete elliptic integrals).", "§5 C20"),
}
PENDING_REASON = "check not yet built in this revision (work in progress; see DESIGN.md §9 order of work)"

checks = []
for p in props:
    pid = p["id"]
    if pid not in CLAIMED:
        continue
    cat, tech, text, note, ref = CLAIMED[pid]
    checks.append({
        "property_id": pid,
        "quick_cmd": f"./check {pid} --tier quick",
        "thorough_cmd": f"./check {pid} --tier thorough",
        "evidence_file": f"/verif/evidence/{pid}.json",
        "replay_cmd_template": f"./check {pid} --replay {{path}}",
        "engine": "lean4+correspondence",
        "level_claimed": {"category": cat, "text": text, "design_ref": ref},
        "level_note": note,
        "technique": tech,
    })
NA = json.load(open(os.path.join(ROOT, "tools", "not_applicable.json"))) if os.path.exists(os.path.join(ROOT, "tools", "not_applicable.json")) else {}
not_app = [{"property_id": p["id"], "reason": NA.get(p["id"], PENDING_REASON)} for p in props if p["id"] not in CLAIMED]
man = {
 "version": 1,
 "setup_cmd": "cd lean && lake build",
 "hooks": {
   "guard": "PY_TDGL_VERIF",
   "enable": "export PY_TDGL_VERIF=1 (set by ./check); no source hook exists so far: injections are monkeypatches made by the harness process",
   "baseline_off_cmd": "/venv/bin/python tools/baseline_check.py",
   "source_commits": [],
   "add_only": True,
 },
 "engines": [
   {"name": "lean4+correspondence", "path": "lean/ (Lake project), harness/ (Python), check",
    "serves_properties": [c["property_id"] for c in checks],
    "kind_free_text": "Lean 4 model + theorems (kernel-checked, axioms audited each run); hand-written model tied to /repo by a differential correspondence run through a native line-protocol driver; property oracle evaluated on the implementation for replays"},
 ],
 "checks": checks,
 "not_applicable": not_app,
 "notes": "See DESIGN.md. Every check: lake build + source audit + #print axioms audit + correspondence + oracle; violation protocol in DESIGN.md §4.2.",
}
json.dump(man, open(os.path.join(ROOT, "MANIFEST.json"), "w"), indent=1, ensure_ascii=False)
print("claimed:", [c["property_id"] for c in checks])
