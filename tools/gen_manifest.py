#!/usr/bin/env python3
"""Regenerates /verif/MANIFEST.json from the table below (kept in one place so it stays valid)."""
import json, os, sys
ROOT = os.path.dirname(os.path.dirname(os.path.abspath(__file__)))
props = [json.loads(l) for l in open(os.path.join(ROOT, "properties.jsonl"))]

# property -> (category, technique, level text, level note, design ref)
NOTE = "Exact-arithmetic theorems about a hand-written Lean model; the model-code tie is the seeded correspondence run of this check (Float interpretation of the same definitions through the native driver) plus the property oracle evaluated on the implementation; floating point to the tolerances recorded in the evidence; external libraries (SuperLU, scipy.sparse, h5py, numba, Triangle, shapely) are modelled or validated at run time, not verified."
def P(tech, text, ref, cat="proof", note=NOTE):
    return (cat, tech, text, note, ref)
CLAIMED = {
 "C01": P("Lean 4 theorems over any field (cell continuity for any μ solving the Poisson equation; shares; units) + Float-model correspondence with solve_for_observables + SI continuity oracle on saved frames",
          "Per-cell continuity, zero outflow away from terminals, balanced terminal density and the unit conversion are machine-checked for every mesh; real runs (2-4 terminals, holes, ramped fields, time-dependent currents, screening) are checked frame by frame against the injection computed independently from the requested currents in SI; acceptance of balanced assignments is exercised on the real constructor.", "§5 C01"),
 "C02": P("Lean 4 theorems over ℝ about the per-site root + Float-model/numpy correspondence + extended-precision oracle",
          "Machine-checked theorems (soundness, exact refusal, physical branch, all-sites, documented equation) about the Lean model of solve_for_psi_squared, for every complex z, w; the model's Float interpretation is compared site by site with the implementation and an independent extended-precision oracle evaluates the theorems' conclusions on the implementation's own answers.", "§5 C02"),
 "C03": P("Lean 4 theorems over any (ordered) field for every well-formed mesh + Float-model correspondence with the scipy-assembled operators + identity residuals on the implementation matrices",
          "L = D∘G, Σ a·(DF) = 0, boundary flux, Green identity, symmetry, negative semidefiniteness, kernel = constants on connected meshes, Hermitian covariant Laplacian and exact gradient of linear functions are theorems for all meshes/weights/fields; the four builders are compared with the model's row functions on a mesh zoo.", "§5 C03"),
 "C04": P("Lean 4 theorems over ℝ (gauge covariance of gradient, Laplacian, Euler step; invariance of Js, μ, Jn; whole run by induction) + operator-level and paired-run correspondence",
          "Covariance for arbitrary site functions χ and invariance of all observables over whole runs are machine-checked for the model; the implementation's matrices are checked for covariance with random χ and paired real runs in shifted gauges (gauge-related initial data) are compared in gauge-invariant quantities at every frame.", "§5 C04"),
 "C05": P("Lean 4 theorems (loop invariant by induction over iterations, any physics, any k, any T) + exhaustive bounded correspondence of real tdgl.solve traces with an executable specification and with the Lean loop model",
          "Frame labels, frame contents, clock, one record per step, stop step and thermalisation are theorems about the loop model for every update function; every (k, N) in the property's bound is run for real and its HDF5 trace compared bit for bit with a bare-update reference trajectory and with the model's trace.", "§5 C05"),
 "C06": P("Lean 4 theorems (identity rows before/after refresh, unpinned rows untouched, None = free, ψ=0 and any terminal value held) + real runs checked on every frame + Euler-step correspondence on all sites",
          "Pinning is a theorem about the operator and update model for every mesh and vector potential; real runs with terminal_psi in {0, None, 0.5, 1, 0.6i} are checked for exact equality on terminal sites and free evolution elsewhere.", "§5 C06"),
 "C10": P("Lean 4 theorems over any field (refresh = rebuild entrywise, any history, pinned rows, entries are the matrix of the row action) + MeshOperators driven through sequences vs fresh builds and vs the model's refreshed entries",
          "For every well-formed mesh, pinned set and finite history the refreshed matrices equal the rebuilt ones (theorem); the implementation is driven through sequences of length 1..6 and compared entry by entry.", "§5 C10"),
 "C11": P("Lean 4 theorems (frames lie on one trajectory whatever k; records/probes do not feed back; resumption) + pairwise bit-for-bit comparison of real runs differing in one recording option and of all split points of a resumed run",
          "Observer independence and resumption are theorems about the loop model for every physics; the implementation is compared pairwise, bit for bit.", "§5 C11"),
 "C12": P("Lean 4 theorems over ordered fields (retry law, exhaustion, non-adaptive refusal, documented rule, bounds by induction over the run, fixed step) + step-by-step replay of TDGLSolver.update against the Lean controller",
          "The dt controller is proved for every refusal oracle and history; the real update is driven with genuine and scheduled refusals and compared bit for bit (dt used) with the model replayed on the same answers.", "§5 C12"),
 "C17": P("Lean 4 theorems over ℝ (Laplacian of constants vanishes at A=0, per-site fixed point for all γ,u,dt, whole-update fixed point, induction over steps) + undriven real runs and dt sequence vs the Lean controller",
          "Stationarity of the uniform state is a theorem for every mesh given only solve(0)=0; undriven real runs on irregular/holed/smoothed meshes stay at the uniform state to 1e-15 and the adaptive step reaches dt_max as the model predicts.", "§5 C17"),
}
PENDING_REASON = "check not yet built in this revision (work in progress; see DESIGN.md §9 order of work)"

checks = []
for p in props:
    pid = p["id"]
    if pid not in CLAIMED:
        continue
    cat, tech, text, note, ref = CLAIMED[pid]
    checks.append({
        "property_id": pid,
        "quick_cmd": f"./check {pid} --tier quick",
        "thorough_cmd": f"./check {pid} --tier thorough",
        "evidence_file": f"/verif/evidence/{pid}.json",
        "replay_cmd_template": f"./check {pid} --replay {{path}}",
        "engine": "lean4+correspondence",
        "level_claimed": {"category": cat, "text": text, "design_ref": ref},
        "level_note": note,
        "technique": tech,
    })
NA = json.load(open(os.path.join(ROOT, "tools", "not_applicable.json"))) if os.path.exists(os.path.join(ROOT, "tools", "not_applicable.json")) else {}
not_app = [{"property_id": p["id"], "reason": NA.get(p["id"], PENDING_REASON)} for p in props if p["id"] not in CLAIMED]
man = {
 "version": 1,
 "setup_cmd": "cd lean && lake build",
 "hooks": {
   "guard": "PY_TDGL_VERIF",
   "enable": "export PY_TDGL_VERIF=1 (set by ./check); no source hook exists so far: injections are monkeypatches made by the harness process",
   "baseline_off_cmd": "/venv/bin/python tools/baseline_check.py",
   "source_commits": [],
   "add_only": True,
 },
 "engines": [
   {"name": "lean4+correspondence", "path": "lean/ (Lake project), harness/ (Python), check",
    "serves_properties": [c["property_id"] for c in checks],
    "kind_free_text": "Lean 4 model + theorems (kernel-checked, axioms audited each run); hand-written model tied to /repo by a differential correspondence run through a native line-protocol driver; property oracle evaluated on the implementation for replays"},
 ],
 "checks": checks,
 "not_applicable": not_app,
 "notes": "See DESIGN.md. Every check: lake build + source audit + #print axioms audit + correspondence + oracle; violation protocol in DESIGN.md §4.2.",
}
json.dump(man, open(os.path.join(ROOT, "MANIFEST.json"), "w"), indent=1, ensure_ascii=False)
print("claimed:", [c["property_id"] for c in checks])
