#!/usr/bin/env python3
"""Regenerates /verif/MANIFEST.json from the table below (kept in one place so it stays valid)."""
import json, os, sys
ROOT = os.path.dirname(os.path.dirname(os.path.abspath(__file__)))
props = [json.loads(l) for l in open(os.path.join(ROOT, "properties.jsonl"))]

# property -> (category, technique, level text, level note, design ref)
CLAIMED = {
 "C02": ("proof", "Lean 4 theorems over ℝ about the per-site root + Float-model/numpy correspondence + extended-precision oracle",
         "Machine-checked theorems (soundness, exact refusal, physical branch, all-sites, documented equation) about the Lean model of solve_for_psi_squared, for every complex z, w; the model's Float interpretation is compared site by site with the implementation and an independent extended-precision oracle evaluates the theorems' conclusions on the implementation's own answers.",
         "Exact-arithmetic theorems; floating-point agreement is to the stated tolerance; the model-code tie is the sampled correspondence run; overflow/underflow regime not claimed.", "§5 C02"),
}
PENDING_REASON = "check not yet built in this revision (work in progress; see DESIGN.md §9 order of work)"

checks = []
for p in props:
    pid = p["id"]
    if pid not in CLAIMED:
        continue
    cat, tech, text, note, ref = CLAIMED[pid]
    checks.append({
        "property_id": pid,
        "quick_cmd": f"./check {pid} --tier quick",
        "thorough_cmd": f"./check {pid} --tier thorough",
        "evidence_file": f"/verif/evidence/{pid}.json",
        "replay_cmd_template": f"./check {pid} --replay {{path}}",
        "engine": "lean4+correspondence",
        "level_claimed": {"category": cat, "text": text, "design_ref": ref},
        "level_note": note,
        "technique": tech,
    })
NA = json.load(open(os.path.join(ROOT, "tools", "not_applicable.json"))) if os.path.exists(os.path.join(ROOT, "tools", "not_applicable.json")) else {}
not_app = [{"property_id": p["id"], "reason": NA.get(p["id"], PENDING_REASON)} for p in props if p["id"] not in CLAIMED]
man = {
 "version": 1,
 "setup_cmd": "cd lean && lake build",
 "hooks": {
   "guard": "PY_TDGL_VERIF",
   "enable": "export PY_TDGL_VERIF=1 (set by ./check); no source hook exists so far: injections are monkeypatches made by the harness process",
   "baseline_off_cmd": "/venv/bin/python tools/baseline_check.py",
   "source_commits": [],
   "add_only": True,
 },
 "engines": [
   {"name": "lean4+correspondence", "path": "lean/ (Lake project), harness/ (Python), check",
    "serves_properties": [c["property_id"] for c in checks],
    "kind_free_text": "Lean 4 model + theorems (kernel-checked, axioms audited each run); hand-written model tied to /repo by a differential correspondence run through a native line-protocol driver; property oracle evaluated on the implementation for replays"},
 ],
 "checks": checks,
 "not_applicable": not_app,
 "notes": "See DESIGN.md. Every check: lake build + source audit + #print axioms audit + correspondence + oracle; violation protocol in DESIGN.md §4.2.",
}
json.dump(man, open(os.path.join(ROOT, "MANIFEST.json"), "w"), indent=1, ensure_ascii=False)
print("claimed:", [c["property_id"] for c in checks])
