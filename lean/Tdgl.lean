-- Root of the `Tdgl` library: models (no Mathlib) and property theorems.
import Tdgl.Scalar
import Tdgl.Step
import Tdgl.Lemmas.RealInst
import Tdgl.Lemmas.Quadratic
import Tdgl.Props.C02
