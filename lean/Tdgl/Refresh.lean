/-
  Model of the decision, inside `TDGLSolver.update`, whether the covariant operators are refreshed for a
  time-dependent applied vector potential (tdgl/solver/solver.py, after the repair F19):

      current_A_applied = self.update_applied_vector_potential(time)
      if not xp.array_equal(current_A_applied, self.current_A_applied):
          operators.set_link_exponents(current_A_applied)
      self.current_A_applied = current_A_applied

  `stored` is `self.current_A_applied`, `link` is the potential the operators' link variables were last built from.
  `TDGLSolver.__init__` evaluates the potential at t = 0, builds the link variables from it and stores it.
  The clock is arbitrary: a run with a thermalisation stage restarts it at 0 between the stages.
-/
namespace Tdgl

structure RefState (A : Type) where
  stored : A
  link : A

/-- `__init__` -/
def RefState.init {A T : Type} (Aof : T → A) (t0 : T) : RefState A := ⟨Aof t0, Aof t0⟩

/-- the refresh decision of one update called at clock `t`, with `same` the comparison used -/
def refreshWith {A T : Type} (same : A → A → Bool) (Aof : T → A) (s : RefState A) (t : T) : RefState A :=
  let a := Aof t
  ⟨a, if same a s.stored then s.link else a⟩

/-- the decision as coded: exact comparison -/
def refreshStep {A T : Type} [DecidableEq A] (Aof : T → A) (s : RefState A) (t : T) : RefState A :=
  refreshWith (fun a b => decide (a = b)) Aof s t

/-- the updates of a run, called at the clocks `ts` (both stages, in order) -/
def refreshRun {A T : Type} [DecidableEq A] (Aof : T → A) (t0 : T) (ts : List T) : RefState A :=
  ts.foldl (refreshStep Aof) (RefState.init Aof t0)

end Tdgl
