/-
  Model of what is read back from an output file (tdgl/solution/data.py:369-429 `DynamicsData.from_hdf5`,
  tdgl/solution/solution.py:137-151 `Solution.times`, after the fixes):

  * each frame's running-state group holds the whole buffer of `k = save_every` slots: the valid records
    followed by zero padding (`RunningState.clear` zero-fills); the reader concatenates all buffers in frame
    order and keeps the entries with `dt > 0`;
  * `Solution.times`: `times = [0] ++ cumsum(dt)`, `saved = times[::k]`, plus the last time when
    `(len(times) - 1) % k != 0`.
-/
import Tdgl.Scalar
import Tdgl.Runner

namespace Tdgl
variable {K S R : Type}

/-- the buffer as written to disk: valid records, then zero padding up to `k` slots -/
def padTo (k : Nat) (zero : R) (l : List R) : List R := l ++ List.replicate (k - l.length) zero

/-- `DynamicsData.from_hdf5`: concatenate the buffers of all frames that have one, keep `dt > 0` -/
def readRecords [OfNat K 0] [LT K] [DecidableLT K] (dtOf : R → K) (k : Nat) (zero : R)
    (frames : List (Frame K S R)) : List R :=
  (frames.flatMap (fun f => match f.recs with
    | none => []
    | some l => padTo k zero l)).filter (fun r => decide ((0 : K) < dtOf r))

/-- `np.cumsum` started from `t` -/
def cumsumFrom [Add K] (t : K) : List K → List K
  | [] => []
  | d :: ds => (t + d) :: cumsumFrom (t + d) ds

/-- `l[::k]` for `k ≥ 1` -/
def everyKth (k : Nat) (l : List K) : List K :=
  (List.range l.length).filterMap (fun i => if i % k = 0 then l[i]? else none)

/-- `Solution.times` (repaired) -/
def solutionTimes [Add K] [OfNat K 0] (k : Nat) (dts : List K) : List K :=
  let times := (0 : K) :: cumsumFrom 0 dts
  let saved := everyKth k times
  if (times.length - 1) % k = 0 then saved
  else saved ++ (match times.getLast? with | some t => [t] | none => [])

/-- `Solution.times` of the pinned upstream tree: `cumsum(dt)[::k]` plus the last one if different -/
def solutionTimesOld [Add K] [OfNat K 0] [DecidableEq K] (k : Nat) (dts : List K) : List K :=
  let times := cumsumFrom 0 dts
  let saved := everyKth k times
  match saved.getLast?, times.getLast? with
  | some a, some b => if a = b then saved else saved ++ [b]
  | _, _ => saved

end Tdgl
