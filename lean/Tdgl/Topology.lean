/-
  Model of the mesh connectivity computed from the triangle list
  (tdgl/finite_volume/util.py:15-28 `get_edges`, tdgl/finite_volume/mesh.py:153-166 `find_boundary_indices`,
   tdgl/finite_volume/edge_mesh.py:73-75 `boundary_edge_indices`, tdgl/finite_volume/util.py:127-147 and 81-97:
   the triangles adjacent to an edge that select the dual edge length).

  * `allSides ts`  = `np.concatenate([elements[:, e] for e in [(0, 1), (1, 2), (2, 0)]])` followed by
                     `np.sort(axis=1)`: every side of every triangle as an ordered pair (smaller index first);
  * `getEdges ts`  = `np.unique(…, axis=0)`: the distinct sides in lexicographic order;
  * `isBoundary`   = `counts == 1`;
  * `boundaryEdgeIndices` = `np.where(is_boundary)[0]`;
  * `boundarySites` = `np.unique(boundary_edges.flatten())`;
  * `adjacentTris e` = the triangles that have `e` as a side (1 → boundary edge: dual edge runs from the
                     circumcentre to the edge midpoint; 2 → interior edge: between two circumcentres).
-/

namespace Tdgl

abbrev Tri := Nat × Nat × Nat
abbrev Edge := Nat × Nat

def sortPair (a b : Nat) : Edge := if a ≤ b then (a, b) else (b, a)

def allSides (ts : List Tri) : List Edge :=
  ts.map (fun t => sortPair t.1 t.2.1) ++ ts.map (fun t => sortPair t.2.1 t.2.2) ++ ts.map (fun t => sortPair t.2.2 t.1)

/-- lexicographic order on pairs, as a Boolean relation -/
def edgeLe (a b : Edge) : Bool := a.1 < b.1 || (a.1 == b.1 && a.2 ≤ b.2)

/-- remove adjacent duplicates (of a sorted list) -/
def dedupAdj : List Edge → List Edge
  | [] => []
  | [a] => [a]
  | a :: b :: rest => if a = b then dedupAdj (b :: rest) else a :: dedupAdj (b :: rest)

def getEdges (ts : List Tri) : List Edge := dedupAdj ((allSides ts).mergeSort edgeLe)

def sideCount (ts : List Tri) (e : Edge) : Nat := (allSides ts).count e

def isBoundary (ts : List Tri) (e : Edge) : Bool := sideCount ts e == 1

/-- positions in `getEdges` of the boundary edges -/
def boundaryEdgeIndices (ts : List Tri) : List Nat :=
  ((getEdges ts).zipIdx.filter (fun p => isBoundary ts p.1)).map (·.2)

def dedupNat : List Nat → List Nat
  | [] => []
  | [a] => [a]
  | a :: b :: rest => if a = b then dedupNat (b :: rest) else a :: dedupNat (b :: rest)

/-- sorted distinct end points of the boundary edges -/
def boundarySites (ts : List Tri) : List Nat :=
  let be := (getEdges ts).filter (isBoundary ts)
  dedupNat ((be.flatMap (fun e => [e.1, e.2])).mergeSort (fun a b => decide (a ≤ b)))

def hasSide (t : Tri) (e : Edge) : Bool :=
  sortPair t.1 t.2.1 == e || sortPair t.2.1 t.2.2 == e || sortPair t.2.2 t.1 == e

/-- indices of the triangles adjacent to an edge -/
def adjacentTris (ts : List Tri) (e : Edge) : List Nat :=
  (ts.zipIdx.filter (fun p => hasSide p.1 e)).map (·.2)

end Tdgl
