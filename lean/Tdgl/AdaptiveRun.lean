/-
  Model of a whole adaptive (un-screened, static field) solver update and of a run of such updates
  (tdgl/solver/solver.py, `TDGLSolver.update` with `options.adaptive`):

      old_sq_psi = |psi|**2
      dt = self.tentative_dt
      psi, abs_sq_psi, dt = self.adaptive_euler_step(step, psi, old_sq_psi, mu, epsilon, dt)   # retry loop
      if options.terminal_psi is not None: psi[fixed] = terminal_psi; abs_sq_psi[fixed] = |terminal_psi|**2
      mu, supercurrent, normal_current = self.solve_for_observables(psi, dA_dt)
      if options.adaptive:
          self.d_psi_sq_vals.append(float(xp.absolute(abs_sq_psi - old_sq_psi).max()))
          ... windowed rule -> self.tentative_dt

  It composes pieces that are each tied to the code separately: `eulerPinnedFn` (Update.lean), the retry
  loop and the windowed rule (Adaptive.lean).  The sparse solve is the parameter `solve`.
-/
import Tdgl.Update
import Tdgl.Adaptive

namespace Tdgl
variable {K : Type} [Add K] [Sub K] [Mul K] [Div K] [Neg K]
  [OfNat K 0] [OfNat K 1] [OfNat K 2] [OfNat K 4] [LT K] [DecidableLT K] [HasSqrt K] [HasTrig K] [NatCast K]

/-- `np.absolute` of a real -/
def absVal (x : K) : K := if x < 0 then -x else x

/-- `float(xp.absolute(abs_sq_psi - old_sq_psi).max())` over the sites `r < n` -/
def maxChange (n : Nat) (newSq oldSq : Nat → K) : K :=
  (List.range n).foldl (fun acc r => pyMax acc (absVal (newSq r - oldSq r))) 0

/-- solver state between adaptive steps: the fields and the controller (`tentative_dt`, `d_psi_sq_vals`) -/
structure AState (K : Type) where
  phys : MState K
  ctl : AdaptState K

/-- one adaptive update at step index `i`; returns the time step used and the new state,
    `none` = the retries are exhausted (`RuntimeError`) -/
def adaptiveStep (m : FVMesh K) (fixed : Nat → Bool) (tp : Option (Cx K)) (U : Nat → Cx K)
    (solve : (Nat → K) → (Nat → K)) (eps : Nat → K) (gamma u : K) (mb : Nat → K) (o : AdaptOpts K)
    (i : Nat) (s : AState K) : Option (K × AState K) :=
  let a := fun r => absSq (s.phys.psi r)
  let ok := fun dt => (eulerPinnedFn m fixed tp U s.phys.psi a s.phys.mu eps gamma u dt).isSome
  match dtUsed o ok s.ctl.tentative with
  | none => none
  | some dt =>
    match eulerPinnedFn m fixed tp U s.phys.psi a s.phys.mu eps gamma u dt with
    | none => none
    | some out =>
      let psi' := fun r => (out r).1
      let d := maxChange m.n (fun r => (out r).2) a
      let ob := observables m solve U psi' (fun _ => 0) mb
      some (dt, ⟨⟨psi', ob.1, ob.2.1, ob.2.2⟩, adaptAfter o s.ctl i dt d⟩)

/-- `n` adaptive updates starting at step index `i`: the time steps used and the final state -/
def adaptiveRun (m : FVMesh K) (fixed : Nat → Bool) (tp : Option (Cx K)) (U : Nat → Cx K)
    (solve : (Nat → K) → (Nat → K)) (eps : Nat → K) (gamma u : K) (mb : Nat → K) (o : AdaptOpts K) :
    Nat → Nat → AState K → Option (List K × AState K)
  | 0, _, s => some ([], s)
  | n+1, i, s =>
    match adaptiveStep m fixed tp U solve eps gamma u mb o i s with
    | none => none
    | some (dt, s') =>
      match adaptiveRun m fixed tp U solve eps gamma u mb o n (i+1) s' with
      | none => none
      | some (dts, s'') => some (dt :: dts, s'')

end Tdgl
