/-
  Model of `Runner._run_stage` / `Runner.run` (tdgl/solver/runner.py) with the physics abstract.

  `upd s i t = (dt, s', r)` is one call of the update function at loop index `i`, clock `t`, on
  solver state `s` (values *and* the solver's internal state): it returns the time step used,
  the new state and the per-step record appended to the running-state buffer.

  One loop iteration, as coded (after the fix that puts the stop test before the update):
      label the state (step i, time t)
      if i % k == 0:  (save a frame if `save`) ; clear the buffer
      if t >= T: break
      (dt, s, r) = update ; buffer.append(r) ; t += dt ; i += 1
  after the loop:  if save and i % k != 0: save a frame
  A frame written at step 0 carries no buffer (`running_state = None`).

  `runStageOld` is the loop of the pinned upstream tree (update *before* the stop test), kept to
  state what was wrong with it.
-/
import Tdgl.Scalar

namespace Tdgl
variable {K S R : Type} [Add K] [LE K] [DecidableLE K] [OfNat K 0]

/-- a saved frame: label, clock, snapshot, and the buffer of per-step records written with it
    (`none` for the frame written at step 0) -/
structure Frame (K S R : Type) where
  step : Nat
  time : K
  snap : S
  recs : Option (List R)

/-- loop variables at the end of a stage -/
structure StageEnd (K S R : Type) where
  steps : Nat
  time : K
  state : S
  frames : List (Frame K S R)

def mkFrame (i : Nat) (t : K) (s : S) (buf : List R) : Frame K S R :=
  ⟨i, t, s, if i = 0 then none else some buf⟩

/-- the repaired loop; `fuel` bounds the number of iterations (`none` = did not finish) -/
def runStage (upd : S → Nat → K → K × S × R) (save : Bool) (k : Nat) (T : K) :
    Nat → Nat → K → S → List R → List (Frame K S R) → Option (StageEnd K S R)
  | 0, _, _, _, _, _ => none
  | fuel+1, i, t, s, buf, fr =>
    let fr' := if i % k = 0 ∧ save = true then fr ++ [mkFrame i t s buf] else fr
    let buf' := if i % k = 0 then [] else buf
    if T ≤ t then
      some ⟨i, t, s, if save = true ∧ i % k ≠ 0 then fr' ++ [mkFrame i t s buf'] else fr'⟩
    else
      let r := upd s i t
      runStage upd save k T fuel (i+1) (t + r.1) r.2.1 (buf' ++ [r.2.2]) fr'

/-- the loop of the pinned upstream tree: update first, stop test afterwards -/
def runStageOld (upd : S → Nat → K → K × S × R) (save : Bool) (k : Nat) (T : K) :
    Nat → Nat → K → S → List R → List (Frame K S R) → Option (StageEnd K S R)
  | 0, _, _, _, _, _ => none
  | fuel+1, i, t, s, buf, fr =>
    let fr' := if i % k = 0 ∧ save = true then fr ++ [mkFrame i t s buf] else fr
    let buf' := if i % k = 0 then [] else buf
    let r := upd s i t
    if T ≤ t then
      some ⟨i, t, r.2.1,
        if save = true ∧ i % k ≠ 0 then fr' ++ [mkFrame i t r.2.1 (buf' ++ [r.2.2])] else fr'⟩
    else
      runStageOld upd save k T fuel (i+1) (t + r.1) r.2.1 (buf' ++ [r.2.2]) fr'

/-- outcome of `Runner.run` -/
inductive RunResult (K S R : Type) where
  | zeroDivision                        -- `i % save_every` with `save_every = 0`
  | outOfFuel
  | done (frames : List (Frame K S R)) (final : S)

/-- `Runner.run`: optional thermalisation stage (never saved), clock and step restart at 0, buffer
    cleared, then the recorded stage. `skip = none` models a falsy `skip_time`. -/
def run (upd : S → Nat → K → K × S × R) (k : Nat) (skip : Option K) (T : K) (fuel : Nat) (s0 : S) :
    RunResult K S R :=
  if k = 0 then .zeroDivision else
  let s1 : Option S :=
    match skip with
    | none => some s0
    | some Ts => (runStage upd false k Ts fuel 0 0 s0 [] []).map (·.state)
  match s1 with
  | none => .outOfFuel
  | some s1 =>
    match runStage upd true k T fuel 0 0 s1 [] [] with
    | none => .outOfFuel
    | some e => .done e.frames e.state

/-- the trajectory of the physics alone: clock, state and record list after `n` updates -/
def traj (upd : S → Nat → K → K × S × R) (s0 : S) : Nat → K × S
  | 0 => (0, s0)
  | n+1 => let p := traj upd s0 n; let r := upd p.2 n p.1; (p.1 + r.1, r.2.1)

/-- the record produced by update number `n` (0-based) -/
def recAt (upd : S → Nat → K → K × S × R) (s0 : S) (n : Nat) : R :=
  let p := traj upd s0 n; (upd p.2 n p.1).2.2

/-- what the reader reassembles: the concatenation of all frames' buffers, in frame order -/
def allRecs (frames : List (Frame K S R)) : List R :=
  frames.flatMap (fun f => f.recs.getD [])

end Tdgl
