/-
  Scalar layer shared by every model file.

  Models are written once over an arbitrary scalar type `K` carrying only notation
  classes, and are read at `K := Float` (executable, next to numpy) and at `K := ℝ`
  (Mathlib's instances; property theorems).  This file imports nothing from Mathlib.
-/

/-- Square-root capability (`np.sqrt`). No laws: `ℝ` gets `Real.sqrt`, `Float` gets `Float.sqrt`. -/
class HasSqrt (K : Type) where
  sqrt : K → K

/-- Trigonometric capability (`np.exp(-1j * x)` is `(cos x, -sin x)`). No laws. -/
class HasTrig (K : Type) where
  cos : K → K
  sin : K → K

instance : HasSqrt Float := ⟨Float.sqrt⟩
instance : HasTrig Float := ⟨Float.cos, Float.sin⟩

namespace Tdgl

/-- Complex numbers as pairs, so that one definition runs on `Float` and is reasoned about on `ℝ`. -/
structure Cx (K : Type) where
  re : K
  im : K
deriving Repr, DecidableEq

namespace Cx
variable {K : Type}

section ops
variable [Add K] [Sub K] [Mul K] [Neg K]

def add (a b : Cx K) : Cx K := ⟨a.re + b.re, a.im + b.im⟩
def sub (a b : Cx K) : Cx K := ⟨a.re - b.re, a.im - b.im⟩
def mul (a b : Cx K) : Cx K := ⟨a.re * b.re - a.im * b.im, a.re * b.im + a.im * b.re⟩
def neg (a : Cx K) : Cx K := ⟨-a.re, -a.im⟩
def conj (a : Cx K) : Cx K := ⟨a.re, -a.im⟩
/-- real scalar times complex -/
def smul (r : K) (a : Cx K) : Cx K := ⟨r * a.re, r * a.im⟩
def normSq (a : Cx K) : K := a.re * a.re + a.im * a.im
def ofReal [OfNat K 0] (r : K) : Cx K := ⟨r, 0⟩
def zero [OfNat K 0] : Cx K := ⟨0, 0⟩
def one [OfNat K 0] [OfNat K 1] : Cx K := ⟨1, 0⟩
end ops

/-- `exp(-i x)` as numpy evaluates `np.exp(-1j * x)`: `(cos x, -sin x)`. -/
def expNegI [Neg K] [HasTrig K] (x : K) : Cx K := ⟨HasTrig.cos x, -HasTrig.sin x⟩

end Cx

/-- executable finite sum `f 0 + … + f (n-1)`, left to right -/
def sumTo {K : Type} [Add K] [OfNat K 0] (f : Nat → K) : Nat → K
  | 0 => 0
  | n+1 => sumTo f n + f n

/-- complex finite sum -/
def csumTo {K : Type} [Add K] [OfNat K 0] (f : Nat → Cx K) : Nat → Cx K
  | 0 => ⟨0, 0⟩
  | n+1 => Cx.add (csumTo f n) (f n)

end Tdgl
