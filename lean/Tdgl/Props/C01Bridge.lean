/-
  Tie B for C01: source pins.  The model was written against exactly these expressions: the terminal current
  density and the two operator expressions of solve_for_observables (normal current; Poisson right-hand side with the
  supercurrent inlined).  They are taken in a normal form in which single-assignment locals are inlined and
  assignment targets dropped, so naming a sub-expression or hoisting an attribute into a local does not change them.
  `Tdgl/Generated/SourcePins.lean` is regenerated from /repo on every run; if the source changes, this file no
  longer checks and the check searches for a failing input (DESIGN.md §4.2).
-/
import Tdgl.Generated.SourcePins

open Tdgl.Gen

namespace Tdgl.C01

theorem C01_bridge_source_pins :
    pin_terminal_density = "-1 / terminal.length * sum((self.current_func(time).get(name, 0) for name in self.terminal_names if name != terminal.name))" ∧
    pin_observables = "-(self.operators.mu_gradient @ mu) - dA_dt ; self.operators.divergence @ (self.operators.get_supercurrent(psi) - dA_dt) - self.operators.mu_boundary_laplacian @ self.mu_boundary" := by
  refine ⟨?_, ?_⟩ <;> rfl

end Tdgl.C01
