/-
  Tie B for C01: source pins.  The model was written against exactly these source lines / this
  statement order: the terminal current density expression and the three lines of solve_for_observables
  (supercurrent, Poisson right-hand side, normal current).
  `Tdgl/Generated/SourcePins.lean` is regenerated from /repo on every run; if the source changes, this file no
  longer checks and the check searches for a failing input (DESIGN.md §4.2).
-/
import Tdgl.Generated.SourcePins

open Tdgl.Gen

namespace Tdgl.C01

theorem C01_bridge_source_pins :
    pin_terminal_density = "current_density = -1 / terminal.length * sum((currents.get(name, 0) for name in self.terminal_names if name != terminal.name))" ∧
    pin_observables = "supercurrent = operators.get_supercurrent(psi) ; rhs = operators.divergence @ (supercurrent - dA_dt) - operators.mu_boundary_laplacian @ self.mu_boundary ; normal_current = -(operators.mu_gradient @ mu) - dA_dt ; rhs = cupy.asnumpy(rhs)" := by
  refine ⟨?_, ?_⟩ <;> rfl

end Tdgl.C01
