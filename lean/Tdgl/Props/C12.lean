/-
  C12 — time steps follow the documented adaptive rule and its bounds.
  Model: Tdgl/Adaptive.lean.  Ordered field; for every refusal oracle, every history.
-/
import Mathlib.Algebra.Order.Field.Basic
import Mathlib.Tactic.Ring
import Mathlib.Tactic.Linarith
import Mathlib.Tactic.Positivity
import Tdgl.Adaptive

open Tdgl

namespace Tdgl.C12

variable {K : Type} [Field K] [LinearOrder K] [IsStrictOrderedRing K]

/-- the options are sane (what `SolverOptions.validate` enforces, plus positivity of `dt_init`) -/
structure Sane (o : AdaptOpts K) : Prop where
  init_pos : 0 < o.dtInit
  init_le : o.dtInit ≤ o.dtMaxOpt
  mult_pos : 0 < o.mult
  mult_lt : o.mult < 1
  floor_pos : 0 < o.floor
  half_eq : o.half = 1 / 2

omit [Field K] [IsStrictOrderedRing K] in
private theorem pyMax_eq (a b : K) : pyMax a b = max a b := by
  unfold pyMax
  split_ifs with h
  · exact (max_eq_right h.le).symm
  · exact (max_eq_left (not_lt.mp h)).symm

omit [Field K] [IsStrictOrderedRing K] in
private theorem clip_eq (x lo hi : K) : clip x lo hi = min (max x lo) hi := by
  unfold clip
  have e : (if x < lo then lo else x) = max x lo := by
    split_ifs with h
    · exact (max_eq_right h.le).symm
    · exact (max_eq_left (not_lt.mp h)).symm
  simp only [e]
  split_ifs with h
  · exact (min_eq_right h.le).symm
  · exact (min_eq_left (not_lt.mp h)).symm

omit [LinearOrder K] [IsStrictOrderedRing K] in
private theorem eulerRetry_some (ok : K → Bool) (adaptive : Bool) (mult : K) :
    ∀ (b : ℕ) (t dt : K), eulerRetry ok adaptive mult b t = some dt →
    ∃ r, r ≤ b ∧ dt = t * mult ^ r ∧ ok dt = true ∧
      (∀ j, j < r → ok (t * mult ^ j) = false) ∧ (0 < r → adaptive = true) := by
  intro b
  induction b with
  | zero =>
    intro t dt h
    rw [eulerRetry] at h
    split_ifs at h with h1 h2
    · injection h with h
      subst h
      exact ⟨0, le_refl _, by simp, h1, by simp, by simp⟩
  | succ b ih =>
    intro t dt h
    rw [eulerRetry] at h
    split_ifs at h with h1 h2
    · injection h with h
      subst h
      exact ⟨0, Nat.zero_le _, by simp, h1, by simp, by simp⟩
    · obtain ⟨r, hr, hdt, hok, hall, _⟩ := ih _ _ h
      refine ⟨r + 1, by omega, ?_, hok, ?_, ?_⟩
      · rw [hdt, pow_succ', mul_assoc]
      · intro j hj
        cases j with
        | zero => simpa using h1
        | succ j =>
          have := hall j (by omega)
          rwa [pow_succ', ← mul_assoc]
      · intro _
        cases adaptive <;> simp_all

omit [LinearOrder K] [IsStrictOrderedRing K] in
private theorem eulerRetry_none (ok : K → Bool) (adaptive : Bool) (mult : K) :
    ∀ (b : ℕ) (t : K), (∀ j, j ≤ b → ok (t * mult ^ j) = false) →
      eulerRetry ok adaptive mult b t = none := by
  intro b
  induction b with
  | zero =>
    intro t h
    have h0 : ok t = false := by simpa using h 0 (le_refl _)
    rw [eulerRetry]
    simp [h0]
  | succ b ih =>
    intro t h
    have h0 : ok t = false := by simpa using h 0 (Nat.zero_le _)
    rw [eulerRetry, if_neg (by simp [h0])]
    split_ifs with h2
    · rfl
    · apply ih
      intro j hj
      have := h (j + 1) (by omega)
      rwa [pow_succ', ← mul_assoc] at this

/-- A refused update is retried with the step multiplied by the configured factor: the step used is
    `tentative · mult^r` where `r ≤ max_retries + 1` is the number of refusals, all earlier attempts
    were refused and the used one accepted. -/
theorem C12_retry (o : AdaptOpts K) (ok : K → Bool) (t dt : K) (h : dtUsed o ok t = some dt) :
    ∃ r, r ≤ o.maxRetries + 1 ∧ dt = t * o.mult ^ r ∧ ok dt = true ∧
      (∀ j, j < r → ok (t * o.mult ^ j) = false) ∧ (0 < r → o.adaptive = true) := by
  exact eulerRetry_some _ _ _ _ _ _ h

/-- Exhausting the retries raises an error instead of continuing: if the first `max_retries + 2`
    attempts are all refused, no time step is returned. -/
theorem C12_exhaustion (o : AdaptOpts K) (ok : K → Bool) (t : K)
    (h : ∀ j, j ≤ o.maxRetries + 1 → ok (t * o.mult ^ j) = false) :
    dtUsed o ok t = none := by
  exact eulerRetry_none _ _ _ _ _ h

/-- With adaptivity off, a refused update is an error (no retry). -/
theorem C12_nonadaptive_refusal_is_error (o : AdaptOpts K) (ok : K → Bool) (t : K)
    (ha : o.adaptive = false) (h : ok t = false) : dtUsed o ok t = none := by
  unfold dtUsed
  rw [eulerRetry]
  simp [h, ha]

private theorem proposal_pos (o : AdaptOpts K) (hs : Sane o) (l : List K) (dt : K) (hdt : 0 < dt) :
    0 < o.half * (o.dtInit / pyMax o.floor (mean l) + dt) := by
  have hm : 0 < pyMax o.floor (mean l) := by
    rw [pyMax_eq]
    exact lt_of_lt_of_le hs.floor_pos (le_max_left _ _)
  have h1 : 0 < o.dtInit / pyMax o.floor (mean l) := div_pos hs.init_pos hm
  rw [hs.half_eq]
  have : (0 : K) < 1 / 2 := by norm_num
  exact mul_pos this (add_pos h1 hdt)

/-- The documented rule: after the warm-up window the proposed step is
    `min(½ (dt + dt_init/δ), dt_max)` with `δ = max(1e-10, mean of the last `window` changes)`. -/
theorem C12_rule (o : AdaptOpts K) (hs : Sane o) (st : AdaptState K) (step : ℕ) (dt d : K)
    (ha : o.adaptive = true) (hw : o.window < step) (hdt : 0 < dt) :
    (adaptAfter o st step dt d).tentative
      = min (1 / 2 * (dt + o.dtInit / max o.floor (mean (lastN (st.hist ++ [d]) o.window)))) o.dtMaxOpt := by
  have hp := proposal_pos o hs (lastN (st.hist ++ [d]) o.window) dt hdt
  have hmax : o.dtMax = o.dtMaxOpt := by simp [AdaptOpts.dtMax, ha]
  unfold adaptAfter
  simp only [ha, hw, if_true]
  rw [clip_eq, max_eq_left hp.le, hmax, hs.half_eq, pyMax_eq, add_comm]

/-- Before the warm-up window is over (and always with adaptivity off) the proposal is unchanged. -/
theorem C12_warmup (o : AdaptOpts K) (st : AdaptState K) (step : ℕ) (dt d : K)
    (h : o.adaptive = false ∨ step ≤ o.window) :
    (adaptAfter o st step dt d).tentative = st.tentative := by
  unfold adaptAfter
  rcases h with h | h
  · simp [h]
  · have : ¬ o.window < step := not_lt.mpr h
    split_ifs <;> rfl

/-- Invariant of the controller: the tentative step stays in `(0, dt_max]`. -/
theorem C12_tentative_bounds (o : AdaptOpts K) (hs : Sane o) (st : AdaptState K) (step : ℕ) (dt d : K)
    (hst : 0 < st.tentative ∧ st.tentative ≤ o.dtMax) (hdt : 0 < dt) (hd : 0 ≤ d)
    (hh : ∀ x ∈ st.hist, 0 ≤ x) :
    0 < (adaptAfter o st step dt d).tentative ∧ (adaptAfter o st step dt d).tentative ≤ o.dtMax ∧
    (∀ x ∈ (adaptAfter o st step dt d).hist, 0 ≤ x) := by
  have hmaxpos : 0 < o.dtMax := lt_of_lt_of_le hst.1 hst.2
  have hhist : ∀ x ∈ st.hist ++ [d], 0 ≤ x := by
    intro x hx
    rcases List.mem_append.mp hx with hx | hx
    · exact hh x hx
    · rw [List.mem_singleton.mp hx]; exact hd
  unfold adaptAfter
  split_ifs with ha hw
  · have hp := proposal_pos o hs (lastN (st.hist ++ [d]) o.window) dt hdt
    refine ⟨?_, ?_, hhist⟩
    · show 0 < clip _ _ _
      rw [clip_eq, max_eq_left hp.le]
      exact lt_min hp hmaxpos
    · show clip _ _ _ ≤ _
      rw [clip_eq]
      exact min_le_right _ _
  · exact ⟨hst.1, hst.2, hhist⟩
  · exact ⟨hst.1, hst.2, hh⟩

private theorem dtUsed_bounds (o : AdaptOpts K) (hs : Sane o) (ok : K → Bool) (t dt : K) (ht : 0 < t)
    (h : dtUsed o ok t = some dt) : 0 < dt ∧ dt ≤ t := by
  obtain ⟨r, _, hdt, _⟩ := C12_retry o ok t dt h
  subst hdt
  refine ⟨mul_pos ht (pow_pos hs.mult_pos r), ?_⟩
  exact mul_le_of_le_one_right ht.le (pow_le_one₀ hs.mult_pos.le hs.mult_lt.le)

/-- Every time step used in a run is positive and at most the configured maximum
    (`dt_max`, or `dt_init` when adaptivity is off), for every refusal oracle and every history of
    non-negative changes. -/
theorem C12_bounds (o : AdaptOpts K) (hs : Sane o) (ok : ℕ → K → Bool) (d : ℕ → K) (hd : ∀ i, 0 ≤ d i)
    (n i : ℕ) (st : AdaptState K) (hst : 0 < st.tentative ∧ st.tentative ≤ o.dtMax)
    (hh : ∀ x ∈ st.hist, 0 ≤ x) (dts : List K) (st' : AdaptState K)
    (h : adaptRun o ok d n i st = some (dts, st')) :
    dts.length = n ∧ ∀ x ∈ dts, 0 < x ∧ x ≤ o.dtMax := by
  induction n generalizing i st dts st' with
  | zero =>
    rw [adaptRun] at h
    injection h with h
    injection h with h1 h2
    subst h1
    simp
  | succ n ih =>
    rw [adaptRun] at h
    cases hu : dtUsed o (ok i) st.tentative with
    | none => rw [hu] at h; simp at h
    | some dt =>
      rw [hu] at h
      simp only at h
      have hb := dtUsed_bounds o hs (ok i) st.tentative dt hst.1 hu
      have htb := C12_tentative_bounds o hs st i dt (d i) hst hb.1 (hd i) hh
      cases hr : adaptRun o ok d n (i + 1) (adaptAfter o st i dt (d i)) with
      | none => rw [hr] at h; simp at h
      | some p =>
        obtain ⟨dts0, st0⟩ := p
        rw [hr] at h
        simp only at h
        injection h with h
        injection h with h1 h2
        subst h1
        have := ih (i + 1) _ ⟨htb.1, htb.2.1⟩ htb.2.2 dts0 st0 hr
        refine ⟨by simp [this.1], ?_⟩
        intro x hx
        rcases List.mem_cons.mp hx with hx | hx
        · rw [hx]; exact ⟨hb.1, le_trans hb.2 hst.2⟩
        · exact this.2 x hx

private theorem fixed_aux (o : AdaptOpts K) (ok : ℕ → K → Bool) (d : ℕ → K) (ha : o.adaptive = false)
    (n i : ℕ) (st : AdaptState K) (hst : st.tentative = o.dtInit) (dts : List K) (st' : AdaptState K)
    (h : adaptRun o ok d n i st = some (dts, st')) :
    ∀ x ∈ dts, x = o.dtInit := by
  induction n generalizing i st dts st' with
  | zero =>
    rw [adaptRun] at h
    injection h with h
    injection h with h1 h2
    subst h1
    simp
  | succ n ih =>
    rw [adaptRun] at h
    cases hu : dtUsed o (ok i) st.tentative with
    | none => rw [hu] at h; simp at h
    | some dt =>
      rw [hu] at h
      simp only at h
      have hdt : dt = o.dtInit := by
        obtain ⟨r, _, hdt, _, _, hr⟩ := C12_retry o (ok i) st.tentative dt hu
        have hr0 : r = 0 := by
          rcases Nat.eq_zero_or_pos r with h0 | h0
          · exact h0
          · have := hr h0; rw [ha] at this; cases this
        subst hr0
        rw [hdt, hst]; simp
      have hA : adaptAfter o st i dt (d i) = st := by
        unfold adaptAfter; simp [ha]
      rw [hA] at h
      cases hr : adaptRun o ok d n (i + 1) st with
      | none => rw [hr] at h; simp at h
      | some p =>
        obtain ⟨dts0, st0⟩ := p
        rw [hr] at h
        simp only at h
        injection h with h
        injection h with h1 h2
        subst h1
        have := ih (i + 1) st hst dts0 st0 hr
        intro x hx
        rcases List.mem_cons.mp hx with hx | hx
        · rw [hx]; exact hdt
        · exact this x hx

/-- With adaptivity off every step equals the initial step. -/
theorem C12_fixed (o : AdaptOpts K) (ok : ℕ → K → Bool) (d : ℕ → K) (ha : o.adaptive = false)
    (n i : ℕ) (dts : List K) (st' : AdaptState K)
    (h : adaptRun o ok d n i (AdaptState.init o) = some (dts, st')) :
    ∀ x ∈ dts, x = o.dtInit := by
  exact fixed_aux o ok d ha n i (AdaptState.init o) rfl dts st' h

end Tdgl.C12
