/-
  C05 — recorded frames, times and per-step records are consistent.
  Model: Tdgl/Runner.lean (`runStage`, `run`, `traj`, `recAt`, `allRecs`).  For every physics `upd`,
  every save interval `k ≥ 1`, every end time `T`, every finished run (any fuel).
-/
import Mathlib.Data.List.Basic
import Mathlib.Order.Basic
import Mathlib.Tactic.Common
import Tdgl.Runner

open Tdgl

namespace Tdgl.C05

variable {K S R : Type} [Add K] [LE K] [DecidableLE K] [OfNat K 0]

/-- `N` is the first loop index whose clock has reached `T` -/
def StopsAt (upd : S → ℕ → K → K × S × R) (s0 : S) (T : K) (N : ℕ) : Prop :=
  T ≤ (traj upd s0 N).1 ∧ ∀ j, j < N → ¬ T ≤ (traj upd s0 j).1


/-! ### helper lemmas -/

omit [Add K] [LE K] [DecidableLE K] [OfNat K 0] in
private theorem allRecs_snoc (fr : List (Frame K S R)) (f : Frame K S R) :
    allRecs (fr ++ [f]) = allRecs fr ++ f.recs.getD [] := by
  simp [allRecs]

omit [Add K] [LE K] [DecidableLE K] [OfNat K 0] in
private theorem mkFrame_recs (i : ℕ) (t : K) (s : S) (buf : List R) :
    (mkFrame i t s buf).recs.getD [] = if i = 0 then [] else buf := by
  unfold mkFrame; split <;> simp

/-- loop invariant at the top of iteration `i` -/
private structure Inv (upd : S → ℕ → K → K × S × R) (s0 : S) (k : ℕ) (save : Bool) (i : ℕ)
    (buf : List R) (fr : List (Frame K S R)) : Prop where
  steps : save = true → fr.map (·.step) = (List.range i).filter (fun j => j % k = 0)
  onTraj : ∀ f, f ∈ fr → f.time = (traj upd s0 f.step).1 ∧ f.snap = (traj upd s0 f.step).2
  recs : save = true → allRecs fr ++ buf = (List.range i).map (recAt upd s0)
  unsaved : save = false → fr = []

/-- the invariant after the "save / clear" part of iteration `i` -/
private structure Mid (upd : S → ℕ → K → K × S × R) (s0 : S) (k : ℕ) (save : Bool) (i : ℕ)
    (buf : List R) (fr : List (Frame K S R)) : Prop where
  steps : save = true → fr.map (·.step) = (List.range (i+1)).filter (fun j => j % k = 0)
  onTraj : ∀ f, f ∈ fr → f.time = (traj upd s0 f.step).1 ∧ f.snap = (traj upd s0 f.step).2
  recs : save = true → allRecs fr ++ buf = (List.range i).map (recAt upd s0)
  unsaved : save = false → fr = []

omit [LE K] [DecidableLE K] in
private theorem Inv.mid {upd : S → ℕ → K → K × S × R} {s0 : S} {k : ℕ} {save : Bool} {i : ℕ}
    {buf : List R} {fr : List (Frame K S R)} (h : Inv upd s0 k save i buf fr) :
    Mid upd s0 k save i (if i % k = 0 then [] else buf)
      (if i % k = 0 ∧ save = true then
        fr ++ [mkFrame i (traj upd s0 i).1 (traj upd s0 i).2 buf] else fr) := by
  constructor
  · intro hs
    rw [List.range_succ, List.filter_append, ← h.steps hs]
    by_cases hk : i % k = 0 <;> simp [hk, hs, mkFrame]
  · intro f hf
    split at hf
    · rcases List.mem_append.1 hf with h1 | h1
      · exact h.onTraj f h1
      · simp only [List.mem_singleton] at h1
        subst h1
        exact ⟨rfl, rfl⟩
    · exact h.onTraj f hf
  · intro hs
    have hr := h.recs hs
    by_cases hk : i % k = 0
    · simp only [hk, hs, and_self, if_true, allRecs_snoc, mkFrame_recs, List.append_nil]
      by_cases hi : i = 0
      · subst hi
        simp only [List.range_zero, List.map_nil, List.append_eq_nil_iff] at hr
        simp [hr.1]
      · simpa [hi] using hr
    · simpa [hk] using hr
  · intro hs
    simp [hs, h.unsaved hs]

omit [LE K] [DecidableLE K] in
private theorem Mid.next {upd : S → ℕ → K → K × S × R} {s0 : S} {k : ℕ} {save : Bool} {i : ℕ}
    {buf : List R} {fr : List (Frame K S R)} (h : Mid upd s0 k save i buf fr) :
    Inv upd s0 k save (i+1) (buf ++ [recAt upd s0 i]) fr := by
  refine ⟨h.steps, h.onTraj, ?_, h.unsaved⟩
  intro hs
  rw [List.range_succ, List.map_append, ← List.append_assoc, h.recs hs]
  rfl

/-- the general loop invariant -/
private theorem stage_inv (upd : S → ℕ → K → K × S × R) (s0 : S) (k : ℕ) (T : K) (save : Bool) :
    ∀ (fuel i : ℕ) (buf : List R) (fr : List (Frame K S R)) (e : StageEnd K S R),
      Inv upd s0 k save i buf fr →
      (∀ j, j < i → ¬ T ≤ (traj upd s0 j).1) →
      runStage upd save k T fuel i (traj upd s0 i).1 (traj upd s0 i).2 buf fr = some e →
      ∃ N, StopsAt upd s0 T N ∧ e.steps = N ∧ e.time = (traj upd s0 N).1 ∧
        e.state = (traj upd s0 N).2 ∧
        (save = true → e.frames.map (·.step) = ((List.range (N+1)).filter (fun i => i % k = 0))
            ++ (if N % k = 0 then [] else [N])) ∧
        (∀ f, f ∈ e.frames → f.time = (traj upd s0 f.step).1 ∧ f.snap = (traj upd s0 f.step).2) ∧
        (save = true → allRecs e.frames = (List.range N).map (recAt upd s0)) ∧
        (save = false → e.frames = []) := by
  intro fuel
  induction fuel with
  | zero => intro i buf fr e _ _ h; simp [runStage] at h
  | succ fuel ih =>
    intro i buf fr e hI hlt h
    unfold runStage at h
    simp only at h
    have hM := hI.mid
    by_cases hT : T ≤ (traj upd s0 i).1
    · rw [if_pos hT] at h
      injection h with h
      subst h
      refine ⟨i, ⟨hT, hlt⟩, rfl, rfl, rfl, ?_, ?_, ?_, ?_⟩
      · intro hs
        show List.map _ (if _ then _ else _) = _
        rw [← hM.steps hs]
        by_cases hk : i % k = 0 <;> simp [hk, hs, mkFrame]
      · intro f hf
        simp only at hf
        split at hf
        · rcases List.mem_append.1 hf with h1 | h1
          · exact hM.onTraj f h1
          · simp only [List.mem_singleton] at h1
            subst h1
            exact ⟨rfl, rfl⟩
        · exact hM.onTraj f hf
      · intro hs
        have hr := hM.recs hs
        show allRecs (if _ then _ else _) = _
        by_cases hk : i % k = 0
        · rw [if_neg (by simp [hk])]
          simpa [hk] using hr
        · have hi : i ≠ 0 := by
            rintro rfl; exact hk (Nat.zero_mod k)
          rw [if_pos ⟨hs, hk⟩, allRecs_snoc, mkFrame_recs, if_neg hi]
          exact hr
      · intro hs
        have := hM.unsaved hs
        show (if _ then _ else _) = _
        rw [if_neg (by simp [hs])]
        exact this
    · rw [if_neg hT] at h
      refine ih (i+1) _ _ e hM.next ?_ h
      intro j hj
      by_cases hji : j = i
      · subst hji; exact hT
      · exact hlt j (by omega)

omit [LE K] [DecidableLE K] in
private theorem Inv.init (upd : S → ℕ → K → K × S × R) (s0 : S) (k : ℕ) (save : Bool) :
    Inv upd s0 k save 0 ([] : List R) ([] : List (Frame K S R)) := by
  constructor
  · intro _; simp
  · intro f hf; simp at hf
  · intro _; simp [allRecs]
  · intro _; rfl

private theorem terminates_aux (upd : S → ℕ → K → K × S × R) (s0 : S) (k : ℕ) (T : K) (save : Bool)
    (N : ℕ) (hN : StopsAt upd s0 T N) :
    ∀ (fuel i : ℕ) (buf : List R) (fr : List (Frame K S R)), i ≤ N → N < i + fuel →
      ∃ e, runStage upd save k T fuel i (traj upd s0 i).1 (traj upd s0 i).2 buf fr = some e := by
  intro fuel
  induction fuel with
  | zero => intro i buf fr h1 h2; omega
  | succ fuel ih =>
    intro i buf fr h1 h2
    unfold runStage
    simp only
    by_cases hT : T ≤ (traj upd s0 i).1
    · rw [if_pos hT]; exact ⟨_, rfl⟩
    · rw [if_neg hT]
      have hne : i ≠ N := by
        rintro rfl; exact hT hN.1
      exact ih (i+1) _ _ (by omega) (by omega)

/-- Full specification of one recorded stage: it stops at the first step `N` whose time reaches `T`;
    frames are labelled `0, k, 2k, …` and `N`; the frame labelled `s` holds the state after exactly `s`
    updates at the time that is the sum of the first `s` time steps; and the per-step records read back
    from the frames are exactly one record per step `0 … N−1`, in order. -/
theorem C05_stage_spec (upd : S → ℕ → K → K × S × R) (s0 : S) (k : ℕ) (hk : 0 < k) (T : K)
    (fuel : ℕ) (e : StageEnd K S R)
    (h : runStage upd true k T fuel 0 0 s0 [] [] = some e) :
    ∃ N, StopsAt upd s0 T N ∧ e.steps = N ∧ e.time = (traj upd s0 N).1 ∧ e.state = (traj upd s0 N).2 ∧
      e.frames.map (·.step) = ((List.range (N+1)).filter (fun i => i % k = 0))
          ++ (if N % k = 0 then [] else [N]) ∧
      (∀ f, f ∈ e.frames → f.time = (traj upd s0 f.step).1 ∧ f.snap = (traj upd s0 f.step).2) ∧
      allRecs e.frames = (List.range N).map (recAt upd s0) := by
  obtain ⟨N, h1, h2, h3, h4, h5, h6, h7, _⟩ :=
    stage_inv upd s0 k T true fuel 0 [] [] e (Inv.init upd s0 k true) (by intro j hj; omega) h
  exact ⟨N, h1, h2, h3, h4, h5 rfl, h6, h7 rfl⟩

/-- The stage finishes as soon as the fuel exceeds the stopping step. -/
theorem C05_stage_terminates (upd : S → ℕ → K → K × S × R) (s0 : S) (k : ℕ) (T : K) (save : Bool)
    (N fuel : ℕ) (hN : StopsAt upd s0 T N) (hf : N < fuel) :
    ∃ e, runStage upd save k T fuel 0 0 s0 [] [] = some e :=
  terminates_aux upd s0 k T save N hN fuel 0 [] [] (Nat.zero_le _) (by omega)

/-- An unsaved (thermalisation) stage records nothing and ends in the state after `N` updates. -/
theorem C05_unsaved_stage (upd : S → ℕ → K → K × S × R) (s0 : S) (k : ℕ) (T : K)
    (fuel : ℕ) (e : StageEnd K S R)
    (h : runStage upd false k T fuel 0 0 s0 [] [] = some e) :
    e.frames = [] ∧ ∃ N, StopsAt upd s0 T N ∧ e.state = (traj upd s0 N).2 := by
  obtain ⟨N, h1, _, _, h4, _, _, _, h8⟩ :=
    stage_inv upd s0 k T false fuel 0 [] [] e (Inv.init upd s0 k false) (by intro j hj; omega) h
  exact ⟨h8 rfl, N, h1, h4⟩

/-- Thermalisation steps are never recorded, and the recorded stage restarts at step 0, time 0 from
    the thermalised state: the run with thermalisation equals the run without, started from it. -/
theorem C05_thermalise (upd : S → ℕ → K → K × S × R) (s0 : S) (k : ℕ) (Ts T : K) (fuel : ℕ)
    (fr : List (Frame K S R)) (fin : S)
    (h : run upd k (some Ts) T fuel s0 = .done fr fin) :
    ∃ N1, StopsAt upd s0 Ts N1 ∧ run upd k none T fuel (traj upd s0 N1).2 = .done fr fin := by
  unfold run at h
  by_cases hk : k = 0
  · rw [if_pos hk] at h; cases h
  · rw [if_neg hk] at h
    simp only at h
    cases h1 : runStage upd false k Ts fuel 0 0 s0 [] [] with
    | none => rw [h1] at h; cases h
    | some e1 =>
      rw [h1] at h
      obtain ⟨_, N1, hN1, hst⟩ := C05_unsaved_stage upd s0 k Ts fuel e1 h1
      refine ⟨N1, hN1, ?_⟩
      unfold run
      rw [if_neg hk, ← hst]
      exact h

/-- `save_every = 0` is an error (`ZeroDivisionError` in `i % save_every`), never a silent run. -/
theorem C05_zero_interval_is_error (upd : S → ℕ → K → K × S × R) (skip : Option K) (T : K) (fuel : ℕ)
    (s0 : S) : run upd 0 skip T fuel s0 = .zeroDivision := by
  simp [run]

/-- The loop of the pinned upstream tree (update before the stop test) violates the property:
    with unit time steps, `k = 3`, `T = 7` the final frame is labelled step 7 but holds the state after
    8 updates, and 8 per-step records are read back. -/
theorem C05_old_loop_counterexample :
    let upd : ℕ → ℕ → ℕ → ℕ × ℕ × ℕ := fun s i _ => (1, s + 1, i)
    ∃ e, runStageOld upd true 3 7 20 0 0 0 [] [] = some e ∧
      e.frames.map (fun f => (f.step, f.snap)) = [(0, 0), (3, 3), (6, 6), (7, 8)] ∧
      (allRecs e.frames).length = 8 := by
  intro upd
  refine ⟨_, rfl, ?_, ?_⟩ <;> rfl


end Tdgl.C05
