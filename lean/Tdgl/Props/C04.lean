/-
  C04 — observables are invariant under gauge transformations.   (K := ℝ)
  Gauge transformation by an arbitrary site function χ:
      θ'_e = θ_e + χ_{e1} − χ_{e0},     ψ'_r = e^{iχ_r} ψ_r.
-/
import Mathlib.Analysis.SpecialFunctions.Trigonometric.Basic
import Mathlib.Tactic.Ring
import Mathlib.Tactic.Linarith
import Mathlib.Tactic.LinearCombination
import Tdgl.Lemmas.Sums
import Tdgl.Lemmas.RealInst
import Tdgl.Operators
import Tdgl.Update

open Finset Tdgl

namespace Tdgl.C04

/-- `e^{ix}` as a pair -/
noncomputable def expI (x : ℝ) : Cx ℝ := ⟨Real.cos x, Real.sin x⟩

/-- gauge-transformed link exponents -/
def gaugeTheta (m : FVMesh ℝ) (theta chi : ℕ → ℝ) (e : ℕ) : ℝ := theta e + chi (m.e1 e) - chi (m.e0 e)

/-- gauge-transformed order parameter -/
noncomputable def gaugePsi (chi : ℕ → ℝ) (psi : ℕ → Cx ℝ) (r : ℕ) : Cx ℝ := Cx.mul (expI (chi r)) (psi r)

/-! ### helpers -/

private theorem toC_expI (x : ℝ) : toC (expI x) = Complex.exp ((x : ℂ) * Complex.I) := by
  apply Complex.ext
  · simp [expI, toC, Complex.exp_re]
  · simp [expI, toC, Complex.exp_im]

private theorem toC_expNegI (x : ℝ) :
    toC (Cx.expNegI x) = Complex.exp (-(x : ℂ) * Complex.I) := by
  apply Complex.ext
  · simp [Cx.expNegI, toC, Complex.exp_re]
  · simp [Cx.expNegI, toC, Complex.exp_im]

private theorem toC_conj_expNegI (x : ℝ) :
    (starRingEnd ℂ) (toC (Cx.expNegI x)) = Complex.exp ((x : ℂ) * Complex.I) := by
  apply Complex.ext
  · simp [Cx.expNegI, toC, Complex.exp_re]
  · simp [Cx.expNegI, toC, Complex.exp_im]

/-- `e^{-i(θ+a-b)} e^{ia} = e^{ib} e^{-iθ}` -/
private theorem link_key (θ a b : ℝ) :
    toC (Cx.expNegI (θ + a - b)) * toC (expI a) = toC (expI b) * toC (Cx.expNegI θ) := by
  rw [toC_expNegI, toC_expNegI, toC_expI, toC_expI, ← Complex.exp_add, ← Complex.exp_add]
  congr 1
  push_cast
  ring

/-- `conj(e^{-i(θ+a-b)}) e^{ib} = e^{ia} conj(e^{-iθ})` -/
private theorem link_key_conj (θ a b : ℝ) :
    (starRingEnd ℂ) (toC (Cx.expNegI (θ + a - b))) * toC (expI b)
      = toC (expI a) * (starRingEnd ℂ) (toC (Cx.expNegI θ)) := by
  rw [toC_conj_expNegI, toC_conj_expNegI, toC_expI, toC_expI, ← Complex.exp_add, ← Complex.exp_add]
  congr 1
  push_cast
  ring

private theorem expI_normSq (x : ℝ) : Real.cos x * Real.cos x + Real.sin x * Real.sin x = 1 := by
  have := Real.cos_sq_add_sin_sq x
  nlinarith [this]

private theorem csumTo_mul (c : Cx ℝ) (f : ℕ → Cx ℝ) (n : ℕ) :
    csumTo (fun e => Cx.mul c (f e)) n = Cx.mul c (csumTo f n) := by
  induction n with
  | zero => apply Cx.ext' <;> simp [csumTo, Cx.mul]
  | succ n ih =>
    simp only [csumTo, ih]
    apply Cx.ext' <;> simp only [Cx.add, Cx.mul] <;> ring

/-- The covariant gradient transforms covariantly. -/
theorem C04_grad_covariant (m : FVMesh ℝ) (theta chi : ℕ → ℝ) (psi : ℕ → Cx ℝ) (e : ℕ) :
    cgradEdge m (linkOf (gaugeTheta m theta chi)) (gaugePsi chi psi) e
      = Cx.mul (expI (chi (m.e0 e))) (cgradEdge m (linkOf theta) psi e) := by
  apply toC_injective
  simp only [cgradEdge, linkOf, gaugePsi, gaugeTheta, toC_add, toC_mul, toC_smul]
  linear_combination ((((1 : ℝ) / m.len e : ℝ) : ℂ) * toC (psi (m.e1 e))) *
    link_key (theta e) (chi (m.e1 e)) (chi (m.e0 e))

/-- The covariant Laplacian transforms covariantly (pinned identity rows included). -/
theorem C04_lap_covariant (m : FVMesh ℝ) (fixed : ℕ → Bool) (theta chi : ℕ → ℝ) (psi : ℕ → Cx ℝ) (r : ℕ) :
    clapRow m fixed (linkOf (gaugeTheta m theta chi)) (gaugePsi chi psi) r
      = Cx.mul (expI (chi r)) (clapRow m fixed (linkOf theta) psi r) := by
  unfold clapRow
  by_cases hf : fixed r = true
  · simp only [hf, if_true, gaugePsi]
  · simp only [hf, if_false, Bool.false_eq_true]
    rw [← csumTo_mul]
    congr 1
    funext e
    apply toC_injective
    have k1 := link_key (theta e) (chi (m.e1 e)) (chi (m.e0 e))
    have k2 := link_key_conj (theta e) (chi (m.e1 e)) (chi (m.e0 e))
    by_cases h0 : m.e0 e = r <;> by_cases h1 : m.e1 e = r
    · simp only [h0, h1, if_true, linkOf, gaugePsi, gaugeTheta, toC_add, toC_mul, toC_smul,
        toC_conj] at k1 k2 ⊢
      linear_combination
        (((m.w e / m.area r : ℝ) : ℂ) * toC (psi r)) * k1
        + (((m.w e / m.area r : ℝ) : ℂ) * toC (psi r)) * k2
    · simp only [h0, h1, if_true, if_false, linkOf, gaugePsi, gaugeTheta, toC_add, toC_mul,
        toC_smul, toC_zero] at k1 k2 ⊢
      linear_combination (((m.w e / m.area r : ℝ) : ℂ) * toC (psi (m.e1 e))) * k1
    · simp only [h0, h1, if_true, if_false, linkOf, gaugePsi, gaugeTheta, toC_add, toC_mul,
        toC_smul, toC_conj, toC_zero] at k1 k2 ⊢
      linear_combination (((m.w e / m.area r : ℝ) : ℂ) * toC (psi (m.e0 e))) * k2
    · simp only [h0, h1, if_false, toC_add, toC_mul, toC_zero]
      ring

private theorem mul_conj_phase (x : ℝ) (a g : Cx ℝ) :
    Cx.mul (Cx.conj (Cx.mul (expI x) a)) (Cx.mul (expI x) g) = Cx.mul (Cx.conj a) g := by
  have h := expI_normSq x
  apply Cx.ext'
  · simp only [Cx.mul, Cx.conj, expI]
    linear_combination (a.re * g.re + a.im * g.im) * h
  · simp only [Cx.mul, Cx.conj, expI]
    linear_combination (a.re * g.im - a.im * g.re) * h

/-- The supercurrent on every edge is gauge invariant. -/
theorem C04_supercurrent_invariant (m : FVMesh ℝ) (theta chi : ℕ → ℝ) (psi : ℕ → Cx ℝ) (e : ℕ) :
    superEdge m (linkOf (gaugeTheta m theta chi)) (gaugePsi chi psi) e
      = superEdge m (linkOf theta) psi e := by
  unfold superEdge
  rw [C04_grad_covariant]
  simp only [gaugePsi, mul_conj_phase]

private theorem normSq_phase (x : ℝ) (z : Cx ℝ) :
    Cx.normSq (Cx.mul (expI x) z) = Cx.normSq z := by
  have h := expI_normSq x
  simp only [Cx.normSq, Cx.mul, expI]
  linear_combination (z.re * z.re + z.im * z.im) * h

private theorem absSq_phase (x : ℝ) (z : Cx ℝ) : absSq (Cx.mul (expI x) z) = absSq z := by
  unfold absSq
  rw [normSq_phase]

private theorem dot_phase (x : ℝ) (z w : Cx ℝ) :
    (Cx.mul (expI x) w).re * (Cx.mul (expI x) z).re + (Cx.mul (expI x) w).im * (Cx.mul (expI x) z).im
      = w.re * z.re + w.im * z.im := by
  have h := expI_normSq x
  simp only [Cx.mul, expI]
  linear_combination (w.re * z.re + w.im * z.im) * h

private theorem zOf_phase (p psi : Cx ℝ) (mu gamma dt : ℝ) :
    zOf (Cx.mul p psi) mu gamma dt = Cx.mul p (zOf psi mu gamma dt) := by
  unfold zOf
  apply Cx.ext' <;> simp only [Cx.mul, Cx.smul] <;> ring

private theorem wOf_phase (p psi lap : Cx ℝ) (a mu eps gamma u dt : ℝ) :
    wOf (Cx.mul p psi) a mu eps gamma u dt (Cx.mul p lap)
      = Cx.mul p (wOf psi a mu eps gamma u dt lap) := by
  unfold wOf zOf
  apply Cx.ext' <;> simp only [Cx.mul, Cx.smul, Cx.add] <;> ring

private theorem solveSite_phase (x : ℝ) (z w : Cx ℝ) :
    solveSite (Cx.mul (expI x) z) (Cx.mul (expI x) w)
      = (solveSite z w).map (fun px => (Cx.mul (expI x) px.1, px.2)) := by
  unfold solveSite
  simp only [absSq_phase, dot_phase]
  split_ifs
  · rfl
  · simp only [Option.map_some, Option.some.injEq, Prod.mk.injEq, and_true]
    apply Cx.ext' <;> simp only [Cx.mul, Cx.smul, Cx.sub] <;> ring

/-- `|ψ|²` as the code computes it is gauge invariant. -/
theorem C04_absSq_invariant (chi : ℕ → ℝ) (psi : ℕ → Cx ℝ) (r : ℕ) :
    absSq (gaugePsi chi psi r) = absSq (psi r) := by
  unfold gaugePsi
  exact absSq_phase _ _

/-- One Euler update of a site maps gauge-related inputs to gauge-related outputs:
    `ψ'` picks up `e^{iχ_r}`, `|ψ'|²` is unchanged, and refusal is gauge invariant. -/
theorem C04_euler_covariant (m : FVMesh ℝ) (fixed : ℕ → Bool) (theta chi : ℕ → ℝ) (psi : ℕ → Cx ℝ)
    (a mu eps : ℕ → ℝ) (gamma u dt : ℝ) (r : ℕ) :
    eulerSite m fixed (linkOf (gaugeTheta m theta chi)) (gaugePsi chi psi) a mu eps gamma u dt r
      = (eulerSite m fixed (linkOf theta) psi a mu eps gamma u dt r).map
          (fun px => (Cx.mul (expI (chi r)) px.1, px.2)) := by
  unfold eulerSite stepSite
  rw [C04_lap_covariant]
  simp only [gaugePsi, zOf_phase, wOf_phase, solveSite_phase]

/-- `μ`, `Js`, `Jn` computed from gauge-related order parameters are identical. -/
theorem C04_observables_invariant (m : FVMesh ℝ) (solve : (ℕ → ℝ) → (ℕ → ℝ)) (theta chi : ℕ → ℝ)
    (psi : ℕ → Cx ℝ) (dAdt mb : ℕ → ℝ) :
    observables m solve (linkOf (gaugeTheta m theta chi)) (gaugePsi chi psi) dAdt mb
      = observables m solve (linkOf theta) psi dAdt mb := by
  have h : superEdge m (linkOf (gaugeTheta m theta chi)) (gaugePsi chi psi)
      = superEdge m (linkOf theta) psi := by
    funext e
    exact C04_supercurrent_invariant m theta chi psi e
  unfold observables
  simp only [h]

/-- two solver states are gauge related: ψ by the phase, everything observable equal -/
def GaugeRel (chi : ℕ → ℝ) (s s' : MState ℝ) : Prop :=
  s'.psi = gaugePsi chi s.psi ∧ s'.mu = s.mu ∧ s'.js = s.js ∧ s'.jn = s.jn

private theorem eulerFn_gauge (m : FVMesh ℝ) (fixed : ℕ → Bool) (theta chi : ℕ → ℝ) (psi : ℕ → Cx ℝ)
    (a mu eps : ℕ → ℝ) (gamma u dt : ℝ) :
    eulerFn m fixed (linkOf (gaugeTheta m theta chi)) (gaugePsi chi psi) a mu eps gamma u dt
      = (eulerFn m fixed (linkOf theta) psi a mu eps gamma u dt).map (gaugePsi chi) := by
  unfold eulerFn
  simp only [C04_euler_covariant, Option.isSome_map]
  split_ifs
  · simp only [Option.map_some, Option.some.injEq]
    funext r
    simp only [gaugePsi]
    generalize eulerSite m fixed (linkOf theta) psi a mu eps gamma u dt r = o
    cases o <;> simp
  · rfl

private theorem fullStep_gauge (m : FVMesh ℝ) (fixed : ℕ → Bool) (theta chi : ℕ → ℝ)
    (solve : (ℕ → ℝ) → (ℕ → ℝ)) (eps : ℕ → ℝ) (gamma u dt : ℝ) (mb : ℕ → ℝ)
    (s s' : MState ℝ) (h : GaugeRel chi s s') :
    match fullStep m fixed (linkOf theta) solve eps gamma u dt mb s,
          fullStep m fixed (linkOf (gaugeTheta m theta chi)) solve eps gamma u dt mb s' with
    | some t, some t' => GaugeRel chi t t'
    | none, none => True
    | _, _ => False := by
  obtain ⟨hpsi, hmu, _, _⟩ := h
  have habs : (fun r => absSq (s'.psi r)) = fun r => absSq (s.psi r) := by
    funext r
    rw [hpsi]
    exact C04_absSq_invariant chi s.psi r
  unfold fullStep
  rw [habs, hpsi, hmu, eulerFn_gauge]
  cases eulerFn m fixed (linkOf theta) s.psi (fun r => absSq (s.psi r)) s.mu eps gamma u dt with
  | none => simp
  | some p =>
    simp only [Option.map_some, C04_observables_invariant]
    exact ⟨rfl, rfl, rfl, rfl⟩

/-- A whole run (any number of updates) in the transformed gauge reproduces the run in the original
    gauge: same refusals, `ψ` related by the gauge phase, identical `μ`, `Js`, `Jn` at every step. -/
theorem C04_run_covariant (m : FVMesh ℝ) (fixed : ℕ → Bool) (theta chi : ℕ → ℝ)
    (solve : (ℕ → ℝ) → (ℕ → ℝ)) (eps : ℕ → ℝ) (gamma u dt : ℝ) (mb : ℕ → ℝ) (k : ℕ)
    (s s' : MState ℝ) (h : GaugeRel chi s s') :
    match runSteps m fixed (linkOf theta) solve eps gamma u dt mb k s,
          runSteps m fixed (linkOf (gaugeTheta m theta chi)) solve eps gamma u dt mb k s' with
    | some t, some t' => GaugeRel chi t t'
    | none, none => True
    | _, _ => False := by
  induction k generalizing s s' with
  | zero => simpa [runSteps] using h
  | succ k ih =>
    have hs := fullStep_gauge m fixed theta chi solve eps gamma u dt mb s s' h
    unfold runSteps
    cases h1 : fullStep m fixed (linkOf theta) solve eps gamma u dt mb s with
    | none =>
      cases h2 : fullStep m fixed (linkOf (gaugeTheta m theta chi)) solve eps gamma u dt mb s' with
      | none => simp
      | some t' => rw [h1, h2] at hs; exact hs.elim
    | some t =>
      cases h2 : fullStep m fixed (linkOf (gaugeTheta m theta chi)) solve eps gamma u dt mb s' with
      | none => rw [h1, h2] at hs; exact hs.elim
      | some t' =>
        rw [h1, h2] at hs
        exact ih t t' hs

/-- A uniform shift `A → A + c` of the vector potential is the gauge function `χ(r) = c · r`:
    with `d_e = r_{e1} − r_{e0}`, `θ'_e − θ_e = c · d_e` exactly. -/
theorem C04_uniform_shift_is_gauge (m : FVMesh ℝ) (x y : ℕ → ℝ) (Ax Ay : ℕ → ℝ) (cx cy : ℝ) (e : ℕ) :
    (Ax e + cx) * (x (m.e1 e) - x (m.e0 e)) + (Ay e + cy) * (y (m.e1 e) - y (m.e0 e))
      = gaugeTheta m (fun e => Ax e * (x (m.e1 e) - x (m.e0 e)) + Ay e * (y (m.e1 e) - y (m.e0 e)))
          (fun r => cx * x r + cy * y r) e := by
  unfold gaugeTheta
  ring

end Tdgl.C04
