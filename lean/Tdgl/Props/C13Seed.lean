/-
  C13 — "with screening disabled the induced potential is identically zero", for runs CONTINUED from a seed solution.
  Model: Tdgl/Screening.lean (`initialInduced`, `noScreenStep`); source pin `pin_seed_induced` (every value `solve` gives to
  "induced_vector_potential" before the stages run, with its condition), regenerated from /repo on every run.

  `C13_disabled_zero` (C13.lean) carries the hypothesis "from a fresh start" — the hole through which the genuine defect F25
  went: a screening-off run continued from a screened seed recorded the seed's induced potential in every frame.  With the
  repaired start (`initialInduced`) the statement holds for EVERY seed; the old start is kept as a counterexample theorem.
-/
import Mathlib.Algebra.Order.Field.Basic
import Mathlib.Tactic.Common
import Mathlib.Tactic.NormNum
import Mathlib.Algebra.Order.Field.Rat
import Tdgl.Screening
import Tdgl.Generated.SourcePins
import Tdgl.Props.C13

open Tdgl Tdgl.Gen

namespace Tdgl.C13

variable {K : Type} [Field K]

private theorem iterate_snd {S : Type} (phys : S → (ℕ → K) → S) (n : ℕ) (s : S) (A : ℕ → K) :
    ((fun p : S × (ℕ → K) => noScreenStep phys p.1 p.2)^[n] (s, A)).2 = A := by
  induction n with
  | zero => rfl
  | succ n ih =>
    rw [Function.iterate_succ_apply']
    exact ih

/-- **Screening disabled ⇒ induced potential identically zero, whatever the run is continued from.**  After any number of
    steps of a screening-off run started as `solve` starts it — fresh, or from ANY seed (screened or not) — the induced
    vector potential is zero on every edge. -/
theorem C13_disabled_zero_any_seed {S : Type} (phys : S → (ℕ → K) → S) (n : ℕ) (s : S) (seed : Option (ℕ → K)) :
    ((fun p : S × (ℕ → K) => noScreenStep phys p.1 p.2)^[n] (s, initialInduced false seed)).2 = fun _ => 0 := by
  rw [iterate_snd]
  cases seed <;> rfl

/-- With screening on, a continued run starts from the seed's induced potential (nothing is thrown away). -/
theorem C13_seed_kept_with_screening (a : ℕ → K) : initialInduced true (some a) = a := rfl

/-- A fresh run starts from zero with or without screening. -/
theorem C13_fresh_start_zero (screening : Bool) : initialInduced screening (none : Option (ℕ → K)) = fun _ => 0 := rfl

/-- The old start (before afab2ac) violates the property: a screening-off run continued from a seed whose induced
    potential is 1 on edge 0 still shows 1 there after any number of steps. -/
theorem C13_old_seed_counterexample (n : ℕ) :
    ((fun p : Unit × (ℕ → ℚ) => noScreenStep (fun s _ => s) p.1 p.2)^[n]
      ((), initialInducedOld (some (fun e => if e = 0 then 1 else 0)))).2 0 = 1 := by
  rw [iterate_snd]
  simp [initialInducedOld]

/-- Tie B: the values `TDGLSolver.solve` gives to "induced_vector_potential" before the stages run, with their conditions,
    are exactly the three branches of `initialInduced`. -/
theorem C13_bridge_seed_start :
    pin_seed_induced = "seed_solution is None: np.zeros((num_edges, 2)) ; not (seed_solution is None) and not (seed_solution.device != device): seed_data.induced_vector_potential ; not (seed_solution is None) and not (seed_solution.device != device) and not options.include_screening: np.zeros((num_edges, 2))" := by
  rfl

end Tdgl.C13
