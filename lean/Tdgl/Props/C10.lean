/-
  C10 — refreshing link variables in place equals rebuilding the operators.
  Model: `clapEntry`/`cgradEntry` (what the builders assemble), `refreshLap`/`refreshGrad`
  (the overwrite branch of `MeshOperators.set_link_exponents`).  Any field, any well-formed mesh,
  any set of pinned rows, any finite history of link variables.
-/
import Mathlib.Algebra.BigOperators.Group.Finset.Basic
import Mathlib.Algebra.BigOperators.Ring.Finset
import Mathlib.Algebra.BigOperators.Group.Finset.Sigma
import Mathlib.Algebra.Field.Basic
import Mathlib.Tactic.Ring
import Mathlib.Tactic.Linarith
import Tdgl.Lemmas.Sums
import Tdgl.Operators

open Finset Tdgl

namespace Tdgl.C10

variable {K : Type} [Field K]

/-! ### helpers -/

omit [Field K] in
private theorem cx_ext {a b : Cx K} (h1 : a.re = b.re) (h2 : a.im = b.im) : a = b := by
  cases a; cases b; simp_all

private theorem cx_add_zero (a : Cx K) : Cx.add a Cx.zero = a := by
  apply cx_ext <;> simp [Cx.add, Cx.zero]

private theorem csumTo_congr (f g : ℕ → Cx K) (n : ℕ) (h : ∀ e, e < n → f e = g e) :
    csumTo f n = csumTo g n := by
  induction n with
  | zero => rfl
  | succ n ih =>
    simp only [csumTo]
    rw [ih (fun e he => h e (Nat.lt_succ_of_lt he)), h n (Nat.lt_succ_self n)]

private theorem csumTo_single (f : ℕ → Cx K) (n e : ℕ) (he : e < n)
    (h : ∀ e', e' < n → e' ≠ e → f e' = Cx.zero) : csumTo f n = f e := by
  apply cx_ext
  · rw [csumTo_re]
    apply Finset.sum_eq_single e
    · intro b hb hne
      rw [h b (Finset.mem_range.mp hb) hne]; rfl
    · intro hn; exact absurd (Finset.mem_range.mpr he) hn
  · rw [csumTo_im]
    apply Finset.sum_eq_single e
    · intro b hb hne
      rw [h b (Finset.mem_range.mp hb) hne]; rfl
    · intro hn; exact absurd (Finset.mem_range.mpr he) hn

omit [Field K] in
/-- `setMany` reads the old matrix only at the queried position -/
private theorem setMany_congr (M M' : ℕ → ℕ → Cx K) (rows cols : ℕ → ℕ) (vals : ℕ → Cx K)
    (keep : ℕ → Bool) (L i j : ℕ) (h : M i j = M' i j) :
    setMany M rows cols vals keep L i j = setMany M' rows cols vals keep L i j := by
  induction L with
  | zero => exact h
  | succ L ih => simp only [setMany, ih]

omit [Field K] in
/-- no kept position addresses `(i, j)`: the entry is untouched -/
private theorem setMany_none (M : ℕ → ℕ → Cx K) (rows cols : ℕ → ℕ) (vals : ℕ → Cx K)
    (keep : ℕ → Bool) (L i j : ℕ)
    (h : ∀ t, t < L → ¬ (keep t = true ∧ rows t = i ∧ cols t = j)) :
    setMany M rows cols vals keep L i j = M i j := by
  induction L with
  | zero => rfl
  | succ L ih =>
    rw [setMany, if_neg (h L (Nat.lt_succ_self L))]
    exact ih (fun t ht => h t (Nat.lt_succ_of_lt ht))

omit [Field K] in
/-- some kept position addresses `(i, j)` and all of those carry the value `v` -/
private theorem setMany_match (M : ℕ → ℕ → Cx K) (rows cols : ℕ → ℕ) (vals : ℕ → Cx K)
    (keep : ℕ → Bool) (L i j : ℕ) (v : Cx K)
    (hex : ∃ t, t < L ∧ (keep t = true ∧ rows t = i ∧ cols t = j))
    (hval : ∀ s, s < L → (keep s = true ∧ rows s = i ∧ cols s = j) → vals s = v) :
    setMany M rows cols vals keep L i j = v := by
  induction L with
  | zero => obtain ⟨t, ht, _⟩ := hex; exact absurd ht (Nat.not_lt_zero t)
  | succ L ih =>
    rw [setMany]
    by_cases hL : keep L = true ∧ rows L = i ∧ cols L = j
    · rw [if_pos hL]; exact hval L (Nat.lt_succ_self L) hL
    · rw [if_neg hL]
      apply ih
      · obtain ⟨t, ht, hp⟩ := hex
        refine ⟨t, ?_, hp⟩
        rcases Nat.lt_succ_iff_lt_or_eq.mp ht with h | h
        · exact h
        · subst h; exact absurd hp hL
      · exact fun s hs hp => hval s (Nat.lt_succ_of_lt hs) hp

/-- pinned row: the entry does not see the link variables -/
private theorem clapEntry_fixed (m : FVMesh K) (fixed : ℕ → Bool) (U₁ U₂ : ℕ → Cx K) (i j : ℕ)
    (h : fixed i = true) : clapEntry m fixed U₁ i j = clapEntry m fixed U₂ i j := by
  simp [clapEntry, h]

/-- `(i, j)` is not a link position: the entry does not see the link variables -/
private theorem clapEntry_nolink (m : FVMesh K) (fixed : ℕ → Bool) (U₁ U₂ : ℕ → Cx K) (i j : ℕ)
    (h : ∀ e, e < m.E → ¬ (m.e0 e = i ∧ m.e1 e = j) ∧ ¬ (m.e1 e = i ∧ m.e0 e = j)) :
    clapEntry m fixed U₁ i j = clapEntry m fixed U₂ i j := by
  unfold clapEntry
  congr 1
  apply csumTo_congr
  intro e he
  obtain ⟨h1, h2⟩ := h e he
  have h1' : ¬ (m.e0 e = i ∧ m.e1 e = j ∧ fixed i = false) := fun hh => h1 ⟨hh.1, hh.2.1⟩
  have h2' : ¬ (m.e1 e = i ∧ m.e0 e = j ∧ fixed i = false) := fun hh => h2 ⟨hh.1, hh.2.1⟩
  simp only [if_neg h1', if_neg h2']

/-- `(i, j) = (e0 e, e1 e)` with a free row: the entry is the single link value -/
private theorem clapEntry_fwd (m : FVMesh K) (hm : m.WF) (fixed : ℕ → Bool) (U : ℕ → Cx K)
    (i j e : ℕ) (he : e < m.E) (hf : fixed i = false) (h0 : m.e0 e = i) (h1 : m.e1 e = j) :
    clapEntry m fixed U i j = Cx.smul (m.w e / m.area (m.e0 e)) (U e) := by
  have hlt := hm.lt e he
  have hij : i ≠ j := by omega
  have hji : j ≠ i := by omega
  unfold clapEntry
  rw [csumTo_single _ m.E e he]
  · have c2 : ¬ (m.e1 e = i ∧ m.e0 e = j ∧ fixed i = false) := by
      rintro ⟨a, b, -⟩; omega
    have c3 : ¬ (m.e0 e = i ∧ m.e0 e = j ∧ fixed i = false) := by
      rintro ⟨a, b, -⟩; omega
    have c4 : ¬ (m.e1 e = i ∧ m.e1 e = j ∧ fixed i = false) := by
      rintro ⟨a, b, -⟩; omega
    have c5 : ¬ (fixed i = true ∧ i = j) := by
      rintro ⟨-, b⟩; omega
    simp only [if_pos (show m.e0 e = i ∧ m.e1 e = j ∧ fixed i = false from ⟨h0, h1, hf⟩),
      if_neg c2, if_neg c3, if_neg c4, if_neg c5, cx_add_zero]
  · intro e' he' hne
    have hlt' := hm.lt e' he'
    have c1 : ¬ (m.e0 e' = i ∧ m.e1 e' = j ∧ fixed i = false) := fun hh =>
      hne (hm.distinct e' e he' he (hh.1.trans h0.symm) (hh.2.1.trans h1.symm))
    have c2 : ¬ (m.e1 e' = i ∧ m.e0 e' = j ∧ fixed i = false) := by
      rintro ⟨a, b, -⟩; omega
    have c3 : ¬ (m.e0 e' = i ∧ m.e0 e' = j ∧ fixed i = false) := by
      rintro ⟨a, b, -⟩; omega
    have c4 : ¬ (m.e1 e' = i ∧ m.e1 e' = j ∧ fixed i = false) := by
      rintro ⟨a, b, -⟩; omega
    simp only [if_neg c1, if_neg c2, if_neg c3, if_neg c4, cx_add_zero]

/-- `(i, j) = (e1 e, e0 e)` with a free row: the entry is the single conjugate link value -/
private theorem clapEntry_bwd (m : FVMesh K) (hm : m.WF) (fixed : ℕ → Bool) (U : ℕ → Cx K)
    (i j e : ℕ) (he : e < m.E) (hf : fixed i = false) (h1 : m.e1 e = i) (h0 : m.e0 e = j) :
    clapEntry m fixed U i j = Cx.smul (m.w e / m.area (m.e1 e)) (Cx.conj (U e)) := by
  have hlt := hm.lt e he
  have hij : i ≠ j := by omega
  have hji : j ≠ i := by omega
  unfold clapEntry
  rw [csumTo_single _ m.E e he]
  · have c1 : ¬ (m.e0 e = i ∧ m.e1 e = j ∧ fixed i = false) := by
      rintro ⟨a, b, -⟩; omega
    have c3 : ¬ (m.e0 e = i ∧ m.e0 e = j ∧ fixed i = false) := by
      rintro ⟨a, b, -⟩; omega
    have c4 : ¬ (m.e1 e = i ∧ m.e1 e = j ∧ fixed i = false) := by
      rintro ⟨a, b, -⟩; omega
    have c5 : ¬ (fixed i = true ∧ i = j) := by
      rintro ⟨-, b⟩; omega
    have cz : Cx.add (Cx.zero : Cx K) (Cx.smul (m.w e / m.area (m.e1 e)) (Cx.conj (U e)))
        = Cx.smul (m.w e / m.area (m.e1 e)) (Cx.conj (U e)) := by
      apply cx_ext <;> simp [Cx.add, Cx.zero]
    simp only [if_pos (show m.e1 e = i ∧ m.e0 e = j ∧ fixed i = false from ⟨h1, h0, hf⟩),
      if_neg c1, if_neg c3, if_neg c4, if_neg c5, cx_add_zero, cz]
  · intro e' he' hne
    have hlt' := hm.lt e' he'
    have c1 : ¬ (m.e0 e' = i ∧ m.e1 e' = j ∧ fixed i = false) := by
      rintro ⟨a, b, -⟩; omega
    have c2 : ¬ (m.e1 e' = i ∧ m.e0 e' = j ∧ fixed i = false) := fun hh =>
      hne (hm.distinct e' e he' he (hh.2.1.trans h0.symm) (hh.1.trans h1.symm))
    have c3 : ¬ (m.e0 e' = i ∧ m.e0 e' = j ∧ fixed i = false) := by
      rintro ⟨a, b, -⟩; omega
    have c4 : ¬ (m.e1 e' = i ∧ m.e1 e' = j ∧ fixed i = false) := by
      rintro ⟨a, b, -⟩; omega
    simp only [if_neg c1, if_neg c2, if_neg c3, if_neg c4, cx_add_zero]

/-- One refresh of the Laplacian built for `U₁` with `U₂` gives, entry by entry, the Laplacian built
    from scratch for `U₂` — including the identity rows of pinned sites. -/
theorem C10_refresh_lap_eq_build (m : FVMesh K) (hm : m.WF) (fixed : ℕ → Bool) (U₁ U₂ : ℕ → Cx K)
    (i j : ℕ) :
    refreshLap m fixed (clapEntry m fixed U₁) U₂ i j = clapEntry m fixed U₂ i j := by
  unfold refreshLap
  by_cases hft : fixed i = true
  · rw [setMany_none]
    · exact clapEntry_fixed m fixed U₁ U₂ i j hft
    · rintro t - ⟨hk, hr, -⟩
      rw [hr, hft] at hk
      simp at hk
  · have hf : fixed i = false := by simpa using hft
    by_cases hA : ∃ e, e < m.E ∧ m.e0 e = i ∧ m.e1 e = j
    · obtain ⟨e, he, h0, h1⟩ := hA
      have hlt := hm.lt e he
      rw [clapEntry_fwd m hm fixed U₂ i j e he hf h0 h1]
      apply setMany_match
      · refine ⟨e, by omega, ?_, ?_, ?_⟩
        · simp [linkRow, he, h0, hf]
        · simp [linkRow, he, h0]
        · simp [linkCol, he, h1]
      · rintro s hs ⟨-, hr, hc⟩
        by_cases hsE : s < m.E
        · simp only [linkRow, linkCol, if_pos hsE] at hr hc
          have hse : s = e := hm.distinct s e hsE he (hr.trans h0.symm) (hc.trans h1.symm)
          subst hse
          simp [linkVal, hsE]
        · simp only [linkRow, linkCol, if_neg hsE] at hr hc
          have := hm.lt (s - m.E) (by omega)
          omega
    · by_cases hB : ∃ e, e < m.E ∧ m.e1 e = i ∧ m.e0 e = j
      · obtain ⟨e, he, h1, h0⟩ := hB
        have hlt := hm.lt e he
        rw [clapEntry_bwd m hm fixed U₂ i j e he hf h1 h0]
        apply setMany_match
        · refine ⟨m.E + e, by omega, ?_, ?_, ?_⟩
          · simp [linkRow, h1, hf]
          · simp [linkRow, h1]
          · simp [linkCol, h0]
        · rintro s hs ⟨-, hr, hc⟩
          by_cases hsE : s < m.E
          · simp only [linkRow, linkCol, if_pos hsE] at hr hc
            have := hm.lt s hsE
            omega
          · simp only [linkRow, linkCol, if_neg hsE] at hr hc
            have hse : s - m.E = e :=
              hm.distinct (s - m.E) e (by omega) he (hc.trans h0.symm) (hr.trans h1.symm)
            simp [linkVal, hsE, hse]
      · rw [setMany_none]
        · apply clapEntry_nolink
          intro e he
          exact ⟨fun h => hA ⟨e, he, h⟩, fun h => hB ⟨e, he, h⟩⟩
        · rintro t ht ⟨-, hr, hc⟩
          by_cases htE : t < m.E
          · simp only [linkRow, linkCol, if_pos htE] at hr hc
            exact hA ⟨t, htE, hr, hc⟩
          · simp only [linkRow, linkCol, if_neg htE] at hr hc
            exact hB ⟨t - m.E, by omega, hr, hc⟩

/-- Why `C10_refresh_grad_eq_build` needs `e < m.E`: `cgradEntry m U e j` is not guarded by
    `e < m.E` (it reads `U e`, `m.e1 e`, `m.len e` for any `e`), whereas `refreshGrad` only touches
    rows `< m.E`.  On the empty (hence well-formed) mesh the unrestricted statement fails at row 0. -/
theorem refresh_grad_unrestricted_false :
    ∃ (m : FVMesh K) (_ : m.WF) (U₁ U₂ : ℕ → Cx K) (e j : ℕ),
      refreshGrad m (cgradEntry m U₁) U₂ e j ≠ cgradEntry m U₂ e j := by
  refine ⟨⟨0, 0, fun _ => 0, fun _ => 0, fun _ => 1, fun _ => 1, fun _ => 1, 0, fun _ => 0⟩,
    ⟨?_, ?_, ?_, ?_, ?_⟩, fun _ => Cx.zero, fun _ => Cx.one, 0, 0, ?_⟩
  · intro e he; exact absurd he (Nat.not_lt_zero e)
  · intro e he; exact absurd he (Nat.not_lt_zero e)
  · intro e e' he; exact absurd he (Nat.not_lt_zero e)
  · intro e he; exact absurd he (Nat.not_lt_zero e)
  · intro e e' he; exact absurd he (Nat.not_lt_zero e)
  · intro h
    have h' := congrArg Cx.re h
    simp [refreshGrad, setMany, cgradEntry, Cx.add, Cx.smul, Cx.ofReal, Cx.zero, Cx.one] at h'

/-- Same for the covariant gradient. -/
-- STATEMENT CHANGED: added the hypothesis `(he : e < m.E)` (row index of the `E × n` gradient
-- matrix is an actual edge).  Without it the statement is false, see
-- `refresh_grad_unrestricted_false` above: rows `e ≥ m.E` are never refreshed but the model
-- `cgradEntry` still depends on `U e` there.  Harmless weakening: the matrix has only `m.E` rows.
theorem C10_refresh_grad_eq_build (m : FVMesh K) (hm : m.WF) (U₁ U₂ : ℕ → Cx K) (e j : ℕ)
    (he : e < m.E) :
    refreshGrad m (cgradEntry m U₁) U₂ e j = cgradEntry m U₂ e j := by
  unfold refreshGrad
  by_cases h1 : m.e1 e = j
  · have hlt := hm.lt e he
    have h0 : ¬ (m.e0 e = j) := by omega
    rw [setMany_match _ _ _ _ _ _ _ _ (Cx.smul ((1 : K) / m.len e) (U₂ e))]
    · simp only [cgradEntry, if_pos h1, if_neg h0, cx_add_zero]
    · exact ⟨e, he, rfl, rfl, h1⟩
    · rintro s - ⟨-, hr, -⟩
      have hse : s = e := hr
      rw [hse]
  · rw [setMany_none]
    · simp only [cgradEntry, if_neg h1]
    · rintro t - ⟨-, hr, hc⟩
      have hte : t = e := hr
      rw [hte] at hc
      exact h1 hc

/-- After any finite history of vector potentials (first call builds, later calls refresh) the
    Laplacian in use is the one built from scratch for the latest one. -/
theorem C10_history_lap (m : FVMesh K) (hm : m.WF) (fixed : ℕ → Bool) (U₀ : ℕ → Cx K)
    (Us : List (ℕ → Cx K)) :
    Us.foldl (refreshLap m fixed) (clapEntry m fixed U₀) = clapEntry m fixed ((U₀ :: Us).getLast (by simp)) := by
  induction Us generalizing U₀ with
  | nil => rfl
  | cons U Us ih =>
    have h : refreshLap m fixed (clapEntry m fixed U₀) U = clapEntry m fixed U := by
      funext i j
      exact C10_refresh_lap_eq_build m hm fixed U₀ U i j
    rw [List.foldl_cons, h, ih U]
    rfl

private theorem history_grad_aux (m : FVMesh K) (hm : m.WF) (Us : List (ℕ → Cx K)) :
    ∀ (U₀ : ℕ → Cx K) (M : ℕ → ℕ → Cx K), (∀ e j, e < m.E → M e j = cgradEntry m U₀ e j) →
      ∀ e j, e < m.E →
        Us.foldl (refreshGrad m) M e j = cgradEntry m ((U₀ :: Us).getLast (by simp)) e j := by
  induction Us with
  | nil => intro U₀ M hM e j he; exact hM e j he
  | cons U Us ih =>
    intro U₀ M hM e j he
    rw [List.foldl_cons]
    have h := ih U (refreshGrad m M U) (fun e' j' he' => by
      have hc : refreshGrad m M U e' j' = refreshGrad m (cgradEntry m U₀) U e' j' :=
        setMany_congr _ _ _ _ _ _ _ _ _ (hM e' j' he')
      rw [hc]
      exact C10_refresh_grad_eq_build m hm U₀ U e' j' he') e j he
    rw [h]
    rfl

-- STATEMENT CHANGED: the original claimed equality of the two functions `ℕ → ℕ → Cx K` on all
-- of `ℕ × ℕ`; that is false for the same reason as above (take `Us = [U₂]`).  The conclusion is now
-- stated entry-wise for the rows `e < m.E` of the `E × n` gradient matrix.
theorem C10_history_grad (m : FVMesh K) (hm : m.WF) (U₀ : ℕ → Cx K) (Us : List (ℕ → Cx K))
    (e j : ℕ) (he : e < m.E) :
    Us.foldl (refreshGrad m) (cgradEntry m U₀) e j
      = cgradEntry m ((U₀ :: Us).getLast (by simp)) e j :=
  history_grad_aux m hm Us U₀ (cgradEntry m U₀) (fun _ _ _ => rfl) e j he

private theorem sum_ind_mul (p : Prop) [Decidable p] {n k : ℕ} (a : ℂ) (hk : k < n) (ψ : ℕ → ℂ) :
    ∑ j ∈ range n, (if p ∧ k = j then a else 0) * ψ j = if p then a * ψ k else 0 := by
  by_cases hp : p
  · simp [hp, ite_mul, Finset.sum_ite_eq, hk]
  · simp [hp]

/-- The assembled entries are the matrix of the row action used by the solver:
    `(L ψ)_r = Σ_j L_{rj} ψ_j`. Ties the entry-level model to `clapRow`. -/
theorem C10_entries_act (m : FVMesh ℝ) (hm : m.WF) (fixed : ℕ → Bool) (U psi : ℕ → Cx ℝ) (r : ℕ)
    (hr : r < m.n) :
    clapRow m fixed U psi r = csumTo (fun j => Cx.mul (clapEntry m fixed U r j) (psi j)) m.n := by
  apply toC_injective
  rw [toC_csumTo]
  unfold clapRow clapEntry
  by_cases hf : fixed r = true
  · rw [if_pos hf]
    simp only [toC_mul, toC_add, toC_csumTo, apply_ite toC, toC_zero, toC_one, hf, Bool.true_eq_false,
      and_false, if_false, true_and, add_zero, Finset.sum_const_zero, zero_add, ite_mul, one_mul,
      zero_mul, Finset.sum_ite_eq, Finset.mem_range, hr, if_true]
  · have hf' : fixed r = false := by simpa using hf
    rw [if_neg hf]
    simp only [toC_mul, toC_add, toC_csumTo, apply_ite toC, toC_zero, toC_smul, toC_conj,
      toC_ofReal, hf', and_true, Bool.false_eq_true, false_and, if_false, add_zero]
    simp only [Finset.sum_mul]
    rw [Finset.sum_comm]
    apply Finset.sum_congr rfl
    intro e he
    have he' : e < m.E := Finset.mem_range.mp he
    have h1 : m.e1 e < m.n := hm.inRange e he'
    have h0 : m.e0 e < m.n := lt_trans (hm.lt e he') h1
    simp only [add_mul, Finset.sum_add_distrib, sum_ind_mul _ _ h0, sum_ind_mul _ _ h1]

end Tdgl.C10
