/-
  C17 — the uniform superconducting state is exactly stationary.   (K := ℝ)
-/
import Mathlib.Tactic.Ring
import Mathlib.Tactic.Linarith
import Mathlib.Tactic.FieldSimp
import Tdgl.Lemmas.Sums
import Tdgl.Lemmas.RealInst
import Tdgl.Lemmas.Quadratic
import Tdgl.Operators
import Tdgl.Update
import Tdgl.Props.C02

open Finset Tdgl

namespace Tdgl.C17

/-- zero link exponents -/
def theta0 : ℕ → ℝ := fun _ => 0

private theorem link0 (e : ℕ) : linkOf theta0 e = ⟨1, 0⟩ := by
  simp [linkOf, theta0, Cx.expNegI]

/-- With `A = 0` the covariant Laplacian annihilates constants (rows sum to zero) on every mesh. -/
theorem C17_lap_const_zero (m : FVMesh ℝ) (c : Cx ℝ) (r : ℕ) :
    clapRow m (fun _ => false) (linkOf theta0) (fun _ => c) r = ⟨0, 0⟩ := by
  unfold clapRow
  rw [if_neg (by simp)]
  apply Cx.ext'
  · rw [csumTo_re]
    refine Finset.sum_eq_zero fun e _ => ?_
    rw [link0]
    split_ifs <;> simp [Cx.add, Cx.mul, Cx.smul, Cx.conj, Cx.zero] <;> ring
  · rw [csumTo_im]
    refine Finset.sum_eq_zero fun e _ => ?_
    rw [link0]
    split_ifs <;> simp [Cx.add, Cx.mul, Cx.smul, Cx.conj, Cx.zero] <;> ring

/-- The supercurrent of a constant order parameter vanishes at `A = 0`. -/
theorem C17_supercurrent_zero (m : FVMesh ℝ) (c : Cx ℝ) (e : ℕ) :
    superEdge m (linkOf theta0) (fun _ => c) e = 0 := by
  unfold superEdge cgradEdge
  rw [link0]
  simp only [Cx.add, Cx.mul, Cx.smul, Cx.conj]
  ring

/-- One site: `ψ = 1, |ψ|² = 1, μ = 0, ε = 1`, vanishing Laplacian ⇒ the update returns exactly `ψ' = 1`,
    `|ψ'|² = 1`, for every `γ`, every `u ≠ 0` and every `dt`. -/
theorem C17_site_fixed_point (gamma u dt : ℝ) :
    stepSite (⟨1, 0⟩ : Cx ℝ) 1 0 1 gamma u dt ⟨0, 0⟩ = some (⟨1, 0⟩, 1) := by
  unfold stepSite
  have hz : zOf (⟨1, 0⟩ : Cx ℝ) 0 gamma dt = ⟨gamma * gamma / 2, 0⟩ := by
    apply Cx.ext' <;> simp [zOf, linkU, Cx.expNegI, Cx.mul, Cx.smul]
  have hw : wOf (⟨1, 0⟩ : Cx ℝ) 1 0 1 gamma u dt ⟨0, 0⟩ = ⟨gamma * gamma / 2 + 1, 0⟩ := by
    unfold wOf
    rw [hz]
    apply Cx.ext' <;> simp [linkU, Cx.expNegI, Cx.mul, Cx.smul, Cx.add]
  rw [hz, hw]
  generalize hh : gamma * gamma / 2 = h
  have hh0 : 0 ≤ h := by rw [← hh]; nlinarith [mul_self_nonneg gamma]
  have hb : C02.bOf ⟨h, 0⟩ ⟨h + 1, 0⟩ = 2 * h * h + 2 * h + 1 := by
    unfold C02.bOf; ring
  have hD : C02.dOf ⟨h, 0⟩ ⟨h + 1, 0⟩ = (2 * h + 1) ^ 2 := by
    unfold C02.dOf; rw [hb]; simp only [Cx.normSq]; ring
  apply (C02.solveSite_some_iff _ _ _ _).mpr
  rw [hb, hD, Real.sqrt_sq (by linarith)]
  refine ⟨sq_nonneg _, ?_, ?_⟩
  · have hden : 2 * h * h + 2 * h + 1 + (2 * h + 1) ≠ 0 := by nlinarith
    simp only [Cx.normSq]
    field_simp
    ring
  · apply Cx.ext' <;> simp [Cx.sub, Cx.smul]

/-- the uniform state -/
def uniform : MState ℝ := ⟨fun _ => ⟨1, 0⟩, fun _ => 0, fun _ => 0, fun _ => 0⟩

private theorem absSq_one : absSq (⟨1, 0⟩ : Cx ℝ) = 1 := by
  rw [C02.C02_absSq_eq]; norm_num [Cx.normSq]

private theorem divRow_zero (m : FVMesh ℝ) (r : ℕ) : divRow m (fun _ => (0 : ℝ) - 0) r = 0 := by
  unfold divRow
  rw [sumTo_eq]
  refine Finset.sum_eq_zero fun e _ => ?_
  split_ifs <;> ring

private theorem neuRow_zero (m : FVMesh ℝ) (r : ℕ) : neuRow m (fun _ => (0 : ℝ)) r = 0 := by
  unfold neuRow
  rw [sumTo_eq]
  refine Finset.sum_eq_zero fun e _ => ?_
  split_ifs <;> ring

/-- One whole update leaves the uniform state unchanged: no current, potential or amplitude change,
    on every mesh, given only that the linear solver maps the zero right-hand side to zero. -/
theorem C17_step_fixed_point (m : FVMesh ℝ) (solve : (ℕ → ℝ) → (ℕ → ℝ)) (hsolve : solve (fun _ => 0) = fun _ => 0)
    (gamma u dt : ℝ) :
    fullStep m (fun _ => false) (linkOf theta0) solve (fun _ => 1) gamma u dt (fun _ => 0) uniform
      = some uniform := by
  have hsite : ∀ r, eulerSite m (fun _ => false) (linkOf theta0) (fun _ => (⟨1, 0⟩ : Cx ℝ))
      (fun _ => absSq (⟨1, 0⟩ : Cx ℝ)) (fun _ => 0) (fun _ => 1) gamma u dt r
        = some (⟨1, 0⟩, 1) := by
    intro r
    unfold eulerSite
    rw [C17_lap_const_zero, absSq_one]
    exact C17_site_fixed_point gamma u dt
  have heuler : eulerFn m (fun _ => false) (linkOf theta0) (fun _ => (⟨1, 0⟩ : Cx ℝ))
      (fun _ => absSq (⟨1, 0⟩ : Cx ℝ)) (fun _ => 0) (fun _ => 1) gamma u dt
        = some (fun _ => ⟨1, 0⟩) := by
    unfold eulerFn
    simp [hsite]
  have hjs : superEdge m (linkOf theta0) (fun _ => (⟨1, 0⟩ : Cx ℝ)) = fun _ => 0 :=
    funext fun e => C17_supercurrent_zero m _ e
  have hrhs : poissonRhs m (fun _ => (0 : ℝ)) (fun _ => 0) (fun _ => 0) = fun _ => 0 := by
    funext r
    unfold poissonRhs
    rw [divRow_zero, neuRow_zero]; ring
  have hjn : normalEdge m (fun _ => (0 : ℝ)) (fun _ => 0) = fun _ => 0 := by
    funext e
    unfold normalEdge gradEdge
    ring
  unfold fullStep uniform
  simp only [heuler, observables, hjs, hrhs, hsolve, hjn]

/-- ... hence after any number of updates. -/
theorem C17_forever (m : FVMesh ℝ) (solve : (ℕ → ℝ) → (ℕ → ℝ)) (hsolve : solve (fun _ => 0) = fun _ => 0)
    (gamma u dt : ℝ) (k : ℕ) :
    runSteps m (fun _ => false) (linkOf theta0) solve (fun _ => 1) gamma u dt (fun _ => 0) k uniform
      = some uniform := by
  induction k with
  | zero => rfl
  | succ k ih =>
    unfold runSteps
    rw [C17_step_fixed_point m solve hsolve gamma u dt]
    exact ih

end Tdgl.C17
