/-
  C15 / C01 / C06 — "at every recorded step" includes the frames of a run that is cancelled or dies:
  any property of solver states that the update preserves holds for EVERY frame that made it into the output,
  under every placement of faults (in the update, in the frame writer), every save interval, every stage.

  It composes `C15_frames_truthful` (each frame is a point of the physics' trajectory) with an induction along the
  trajectory.  What the model assumes -- and the harness checks on the implementation by interrupting real runs in the
  middle of an update (c15.mid_update_cancel, c01.cancelled_level) -- is that an update is atomic with respect to the
  state the runner holds: a fault inside `update` leaves the held state untouched.
-/
import Mathlib.Data.List.Basic
import Mathlib.Order.Basic
import Mathlib.Tactic.Common
import Tdgl.Runner
import Tdgl.Handler
import Tdgl.Props.C15

open Tdgl

namespace Tdgl.C15

variable {K S R : Type} [Add K] [LE K] [DecidableLE K] [OfNat K 0]

omit [LE K] [DecidableLE K] in
/-- an invariant of the update holds along the whole trajectory -/
theorem C15_traj_invariant (upd : S → ℕ → K → K × S × R) (Inv : S → Prop) (s0 : S) (h0 : Inv s0)
    (hstep : ∀ s i t, Inv s → Inv (upd s i t).2.1) (n : ℕ) : Inv (traj upd s0 n).2 := by
  induction n with
  | zero => exact h0
  | succ n ih => exact hstep _ _ _ ih

/-- Every frame of the output of a stage -- finished, cancelled or killed by an exception, whatever faults were
    injected -- satisfies every invariant of the update that the initial state satisfies.  With `Inv` = "the currents
    are balanced in every cell" this is C01's "at every recorded step" for stopped runs; with `Inv` = "ψ equals the
    terminal value on terminal sites" it is C06's. -/
theorem C15_frames_inherit_invariant (upd : S → ℕ → K → K × S × R) (flt : Faults) (stage : ℕ) (save : Bool)
    (k : ℕ) (T : K) (fuel : ℕ) (s0 : S) (Inv : S → Prop) (h0 : Inv s0)
    (hstep : ∀ s i t, Inv s → Inv (upd s i t).2.1) (f : Frame K S R)
    (hf : f ∈ outcomeFrames (runStageF upd flt stage save k T fuel 0 0 s0 [] [] 0)) : Inv f.snap := by
  rw [(C15_frames_truthful upd flt stage save k T fuel s0 f hf).2]
  exact C15_traj_invariant upd Inv s0 h0 hstep f.step

/-- non-vacuity: a counter that the update increments by 2 stays even in every frame, here with an interrupt
    injected into the update at loop index 3 of a run that saves every 2 steps -/
example : ∀ f ∈ outcomeFrames (runStageF (K := ℕ) (S := ℕ) (R := Unit) (fun s _ _ => (1, s + 2, ()))
    ⟨fun _ i => if i = 3 then some .interrupt else none, fun _ => none⟩ 1 true 2 10 20 0 0 0 [] [] 0), f.snap % 2 = 0 := by
  intro f hf
  exact C15_frames_inherit_invariant (K := ℕ) (S := ℕ) (R := Unit) _ _ 1 true 2 10 20 0 (fun s => s % 2 = 0) rfl
    (fun s _ _ h => by simp only at h ⊢; omega) f hf

/-- ... and the cancelled run of that example does record a frame for the interrupted step 3 -/
example : (outcomeFrames (runStageF (K := ℕ) (S := ℕ) (R := Unit) (fun s _ _ => (1, s + 2, ()))
    ⟨fun _ i => if i = 3 then some .interrupt else none, fun _ => none⟩ 1 true 2 10 20 0 0 0 [] [] 0)).map (·.step)
    = [0, 2, 3] := by decide

end Tdgl.C15
