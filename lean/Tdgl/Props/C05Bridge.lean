/-
  Tie B for C05: source pins.  The model was written against exactly these source lines / this
  statement order: the order of the steps of one iteration of Runner._run_stage (save, stop test, update, clock) and the
  condition of the final save.
  `Tdgl/Generated/SourcePins.lean` is regenerated from /repo on every run; if the source changes, this file no
  longer checks and the check searches for a failing input (DESIGN.md §4.2).
-/
import Tdgl.Generated.SourcePins

open Tdgl.Gen

namespace Tdgl.C05

theorem C05_bridge_source_pins :
    pin_loop_order = "save-if-multiple ; stop-test ; update ; set-dt ; advance-buffer ; advance-clock" ∧
    pin_final_save = "save and i % self.options.save_every" := by
  refine ⟨?_, ?_⟩ <;> rfl

end Tdgl.C05
