/-
  C19 (seed guard, layer) — two films are the same device only if EVERY layer constant agrees; equal derived quantities
  (the effective penetration depth λ²/d that the solver actually uses) do not make two films equal.
-/
import Mathlib.Tactic.Common
import Mathlib.Tactic.NormNum
import Tdgl.DeviceEq
import Tdgl.Props.C19Seed

open Tdgl Tdgl.H5

namespace Tdgl.C19

variable {V : Type} [DecidableEq V]

/-- a seed whose device differs in the London length or in the thickness is rejected, whatever else agrees -/
theorem C19_seed_other_film_rejected (s d : DevRec V)
    (h : s.layer.londonLambda ≠ d.layer.londonLambda ∨ s.layer.thickness ≠ d.layer.thickness) :
    seedGuard s d ≠ none := by
  intro hg
  have h2 := (C19_devEq_sound s d ((C19_seed_guard s d).1 hg)).2.1
  rcases h with h | h
  · exact h (by rw [h2])
  · exact h (by rw [h2])

/-- in particular films with the same λ²/d: λ = 2, d = 1/10 and λ = 4, d = 4/10 both have λ²/d = 40 -/
example : ((2 : ℚ) ^ 2 / (1 / 10) = 4 ^ 2 / (4 / 10)) ∧
    ∀ (s d : DevRec ℚ), s.layer.londonLambda = 2 → d.layer.londonLambda = 4 → seedGuard s d ≠ none := by
  refine ⟨by norm_num, fun s d hs hd => C19_seed_other_film_rejected s d (Or.inl ?_)⟩
  rw [hs, hd]; norm_num

end Tdgl.C19
