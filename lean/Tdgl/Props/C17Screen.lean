/-
  C17 with screening switched on: in the uniform state no current flows, the kernel of the zero current is
  zero, the heavy-ball update leaves the zero induced potential where it is and the loop stops after its
  first iteration (the error functional of `0, 0` is `0 / max(0, 1e-20) = 0 < tol`).
  Models: `screenLoopS`, `polyak`, `kernelA` in Tdgl/Screening.lean.
-/
import Mathlib.Algebra.Order.Field.Basic
import Mathlib.Algebra.Module.Basic
import Mathlib.Tactic.Common
import Tdgl.Screening
import Tdgl.Lemmas.RealInst
import Tdgl.Lemmas.Sums

open Tdgl

namespace Tdgl.C17

section loop
variable {K : Type} [Field K] [LinearOrder K] [IsStrictOrderedRing K]
variable {V P : Type} [AddCommGroup V] [Module K V]

set_option linter.unusedSectionVars false

/-- the heavy-ball update of the zero state with a zero kernel is the zero state -/
theorem C17_polyak_zero (alpha beta : K) : polyak alpha beta (⟨0, 0⟩ : PolyakState V) 0 = ⟨0, 0⟩ := by
  simp [polyak]

/-- Uniform state, screening on: if the physics step started from `p` with zero induced potential returns
    `p` again with zero current (`C17_step_fixed_point`), the kernel maps zero current to zero potential
    (`C17_kernel_zero`) and the error of the zero update is below the tolerance, then the loop returns after
    exactly one iteration, with the state unchanged and a zero induced potential — it neither fails nor
    drifts. -/
theorem C17_screening_uniform (alpha beta tol : K) (maxIt : ℕ) (phys : P → V → P × V) (kern : V → V)
    (errOf : V → V → K) (p : P) (hphys : phys p 0 = (p, 0)) (hkern : kern 0 = 0) (herr : errOf 0 0 < tol)
    (J0 : V) (fuel : ℕ) :
    screenLoopS alpha beta tol maxIt phys kern errOf (fuel + 2) 0 p ⟨0, 0⟩ J0 none
      = .converged p 0 0 1 (some (errOf 0 0)) := by
  unfold screenLoopS
  simp only [Bool.false_eq_true, if_false, Nat.not_lt_zero, hphys, hkern, C17_polyak_zero, sub_zero]
  unfold screenLoopS
  simp [herr]

end loop

/-- the induced potential of a zero current density is zero at every edge -/
theorem C17_kernel_zero (n : ℕ) (area sx sy : ℕ → ℝ) (cx cy : ℝ) :
    kernelA n (fun _ => (0 : ℝ)) area sx sy cx cy = 0 := by
  unfold kernelA
  rw [sumTo_eq]
  exact Finset.sum_eq_zero fun j _ => by simp

end Tdgl.C17
