/-
  C12 for the physical adaptive run — the abstract controller model (`Tdgl/Adaptive.lean`, theorems in C12.lean: retry,
  rule, bounds, for every refusal oracle and every history of changes) is what the whole adaptive update
  (`Tdgl/AdaptiveRun.lean`: retry loop + Euler step + terminal re-imposition + observables + controller) runs:
  the list of time steps of `adaptiveRun` is the list of `adaptRun` for the oracle "the Euler step is accepted in the
  state reached" and the changes `max |Δ|ψ|²|` of that trajectory.  Hence the bounds and the fixed-step clause hold for
  every mesh, every physics parameters and every initial state.   (K := ℝ)
-/
import Mathlib.Algebra.Order.Field.Basic
import Mathlib.Analysis.SpecialFunctions.Trigonometric.Basic
import Mathlib.Tactic.Ring
import Mathlib.Tactic.Linarith
import Mathlib.Tactic.Positivity
import Tdgl.Lemmas.RealInst
import Tdgl.Operators
import Tdgl.Update
import Tdgl.Adaptive
import Tdgl.AdaptiveRun
import Tdgl.Props.C12

open Tdgl

namespace Tdgl.C12

private theorem foldl_pyMax_nonneg (f : ℕ → ℝ) (l : List ℕ) (acc : ℝ) (h : 0 ≤ acc) :
    0 ≤ l.foldl (fun acc r => pyMax acc (f r)) acc := by
  induction l generalizing acc with
  | nil => simpa using h
  | cons x l ih =>
    simp only [List.foldl_cons]
    apply ih
    unfold pyMax
    split_ifs with hlt
    · exact le_trans h hlt.le
    · exact h

/-- the recorded change is never negative -/
theorem C12_maxChange_nonneg (n : ℕ) (a b : ℕ → ℝ) : 0 ≤ maxChange n a b := by
  unfold maxChange
  exact foldl_pyMax_nonneg (fun r => absVal (a r - b r)) (List.range n) 0 le_rfl

/-- `adaptRun` started at index `i` only consults the oracle and the changes at indices `≥ i` -/
private theorem adaptRun_congr (o : AdaptOpts ℝ) (ok ok₂ : ℕ → ℝ → Bool) (d d₂ : ℕ → ℝ) (n : ℕ) :
    ∀ (i : ℕ) (st : AdaptState ℝ), (∀ j, i ≤ j → ok j = ok₂ j) → (∀ j, i ≤ j → d j = d₂ j) →
      adaptRun o ok d n i st = adaptRun o ok₂ d₂ n i st := by
  induction n with
  | zero => intro i st _ _; rw [adaptRun, adaptRun]
  | succ n ih =>
    intro i st h1 h2
    rw [adaptRun, adaptRun, h1 i le_rfl, h2 i le_rfl]
    cases hu : dtUsed o (ok₂ i) st.tentative with
    | none => rfl
    | some dt =>
      simp only
      rw [ih (i + 1) _ (fun j hj => h1 j (by omega)) (fun j hj => h2 j (by omega))]

/-- Refinement: an adaptive run of the physics that finishes is a run of the controller model, for some refusal oracle
    and some sequence of non-negative changes (namely those of the physics' own trajectory). -/
theorem C12_adaptiveRun_refines (m : FVMesh ℝ) (fixed : ℕ → Bool) (tp : Option (Cx ℝ)) (U : ℕ → Cx ℝ)
    (solve : (ℕ → ℝ) → (ℕ → ℝ)) (eps : ℕ → ℝ) (gamma u : ℝ) (mb : ℕ → ℝ) (o : AdaptOpts ℝ)
    (n i : ℕ) (s s' : AState ℝ) (dts : List ℝ)
    (h : adaptiveRun m fixed tp U solve eps gamma u mb o n i s = some (dts, s')) :
    ∃ (ok : ℕ → ℝ → Bool) (d : ℕ → ℝ), (∀ j, 0 ≤ d j) ∧ adaptRun o ok d n i s.ctl = some (dts, s'.ctl) := by
  induction n generalizing i s dts s' with
  | zero =>
    rw [adaptiveRun] at h
    injection h with h
    injection h with h1 h2
    subst h1 h2
    exact ⟨fun _ _ => true, fun _ => 0, fun _ => le_rfl, by rw [adaptRun]⟩
  | succ n ih =>
    rw [adaptiveRun] at h
    cases hstep : adaptiveStep m fixed tp U solve eps gamma u mb o i s with
    | none => rw [hstep] at h; simp at h
    | some p =>
      obtain ⟨dt, s1⟩ := p
      rw [hstep] at h
      simp only at h
      cases hr : adaptiveRun m fixed tp U solve eps gamma u mb o n (i + 1) s1 with
      | none => rw [hr] at h; simp at h
      | some q =>
        obtain ⟨dts0, s2⟩ := q
        rw [hr] at h
        simp only at h
        injection h with h
        injection h with h1 h2
        subst h1 h2
        obtain ⟨ok', d', hd', hrun'⟩ := ih (i + 1) s1 s2 dts0 hr
        unfold adaptiveStep at hstep
        simp only at hstep
        cases hu : dtUsed o (fun dt => (eulerPinnedFn m fixed tp U s.phys.psi (fun r => absSq (s.phys.psi r))
            s.phys.mu eps gamma u dt).isSome) s.ctl.tentative with
        | none => rw [hu] at hstep; simp at hstep
        | some dt1 =>
          rw [hu] at hstep
          simp only at hstep
          cases he : eulerPinnedFn m fixed tp U s.phys.psi (fun r => absSq (s.phys.psi r))
              s.phys.mu eps gamma u dt1 with
          | none => rw [he] at hstep; simp at hstep
          | some out =>
            rw [he] at hstep
            simp only at hstep
            injection hstep with hstep
            injection hstep with e1 e2
            subst e1 e2
            refine ⟨fun j => if j = i then (fun dt => (eulerPinnedFn m fixed tp U s.phys.psi
                (fun r => absSq (s.phys.psi r)) s.phys.mu eps gamma u dt).isSome) else ok' j,
              fun j => if j = i then maxChange m.n (fun r => (out r).2) (fun r => absSq (s.phys.psi r)) else d' j,
              ?_, ?_⟩
            · intro j
              show 0 ≤ if j = i then _ else _
              split_ifs
              · exact C12_maxChange_nonneg _ _ _
              · exact hd' j
            · rw [adaptRun]
              simp only [if_true]
              rw [hu]
              simp only
              rw [adaptRun_congr o _ ok' _ d' n (i + 1) _ (fun j hj => by simp [show j ≠ i by omega])
                (fun j hj => by simp [show j ≠ i by omega])]
              simp only at hrun'
              rw [hrun']

/-- Every time step used by the physical adaptive run is positive and at most `dt_max` (`dt_init` when adaptivity is
    off), on every mesh, for every state, whatever the Euler step refuses. -/
theorem C12_physical_bounds (m : FVMesh ℝ) (fixed : ℕ → Bool) (tp : Option (Cx ℝ)) (U : ℕ → Cx ℝ)
    (solve : (ℕ → ℝ) → (ℕ → ℝ)) (eps : ℕ → ℝ) (gamma u : ℝ) (mb : ℕ → ℝ) (o : AdaptOpts ℝ) (hs : Sane o)
    (n i : ℕ) (s s' : AState ℝ) (dts : List ℝ)
    (hst : 0 < s.ctl.tentative ∧ s.ctl.tentative ≤ o.dtMax) (hh : ∀ x ∈ s.ctl.hist, 0 ≤ x)
    (h : adaptiveRun m fixed tp U solve eps gamma u mb o n i s = some (dts, s')) :
    dts.length = n ∧ ∀ x ∈ dts, 0 < x ∧ x ≤ o.dtMax := by
  obtain ⟨ok, d, hd, hrun⟩ := C12_adaptiveRun_refines m fixed tp U solve eps gamma u mb o n i s s' dts h
  exact C12_bounds o hs ok d hd n i s.ctl hst hh dts s'.ctl hrun

/-- With adaptivity off every step of the physical run equals the initial step. -/
theorem C12_physical_fixed (m : FVMesh ℝ) (fixed : ℕ → Bool) (tp : Option (Cx ℝ)) (U : ℕ → Cx ℝ)
    (solve : (ℕ → ℝ) → (ℕ → ℝ)) (eps : ℕ → ℝ) (gamma u : ℝ) (mb : ℕ → ℝ) (o : AdaptOpts ℝ) (ha : o.adaptive = false)
    (n i : ℕ) (p : MState ℝ) (s' : AState ℝ) (dts : List ℝ)
    (h : adaptiveRun m fixed tp U solve eps gamma u mb o n i ⟨p, AdaptState.init o⟩ = some (dts, s')) :
    ∀ x ∈ dts, x = o.dtInit := by
  obtain ⟨ok, d, _, hrun⟩ :=
    C12_adaptiveRun_refines m fixed tp U solve eps gamma u mb o n i ⟨p, AdaptState.init o⟩ s' dts h
  exact C12_fixed o ok d ha n i dts s'.ctl hrun

end Tdgl.C12
