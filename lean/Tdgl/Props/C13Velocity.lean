/-
  C13 (what the exit test must measure) — the loop exits on the RESIDUAL `kernel(currents) − A` of the iterate, not on
  the change of the iterate between two iterations.  The two differ by the factor step/drag of the heavy-ball method:
  an exit test on the change of the iterate would accept potentials whose residual is drag/step times the tolerance.
-/
import Mathlib.Algebra.Order.Field.Basic
import Mathlib.Algebra.Module.Basic
import Mathlib.Algebra.Module.Pi
import Mathlib.Tactic.Ring
import Mathlib.Tactic.Module
import Mathlib.Tactic.Linarith
import Mathlib.Tactic.FieldSimp
import Mathlib.Tactic.Common
import Tdgl.Screening
import Tdgl.Props.C13

open Tdgl

namespace Tdgl.C13

variable {K : Type} [Field K] [LinearOrder K] [IsStrictOrderedRing K]
variable {V : Type} [AddCommGroup V] [Module K V]

set_option linter.unusedSectionVars false

/-- the change of the iterate in one heavy-ball update is its new velocity -/
theorem C13_iterate_change_is_velocity (alpha beta : K) (s : PolyakState V) (new : V) :
    (polyak alpha beta s new).A - s.A = (polyak alpha beta s new).v := by
  simp only [polyak]
  module

/-- When the velocity has settled (`v' = v`), it is `α/β` times the residual: `β v = α (new − A)`.  So a loop that
    exits when the CHANGE of the iterate is below the tolerance accepts a residual `β/α` times larger (25× for step
    0.02 and drag 0.5). -/
theorem C13_settled_velocity (alpha beta : K) (s : PolyakState V) (new : V)
    (h : (polyak alpha beta s new).v = s.v) : beta • s.v = alpha • (new - s.A) := by
  simp only [polyak] at h
  have h2 : (1 - beta) • s.v + alpha • (new - s.A) - (1 - beta) • s.v = s.v - (1 - beta) • s.v := by rw [h]
  have h3 : alpha • (new - s.A) = s.v - (1 - beta) • s.v := by
    rw [← h2]; module
  rw [h3]; module

/-- scalar illustration with the numbers of the seeded change: step 1/50, drag 1/2, settled velocity 1/1000 (the
    change of the iterate, "below a tolerance of 2/1000") — the residual is 25/1000 -/
example : ∃ (s : PolyakState ℚ) (new : ℚ),
    (polyak (1 / 50 : ℚ) (1 / 2) s new).v = s.v ∧ s.v = 1 / 1000 ∧ new - s.A = 25 / 1000 := by
  refine ⟨⟨0, 1 / 1000⟩, 25 / 1000, ?_, rfl, by norm_num⟩
  simp only [polyak, smul_eq_mul]
  norm_num

end Tdgl.C13
