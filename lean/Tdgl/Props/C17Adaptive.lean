/-
  C17 (the adaptive clause) — in the quiet uniform state the whole ADAPTIVE update (retry loop, Euler step, observables,
  controller) leaves the fields exactly where they are, records a change of exactly 0, and the time step goes from
  `dt_init` to `dt_max` as soon as the warm-up window is over and stays there: "the adaptive time step grows to its
  maximum".  Terminals left unpinned (`terminal_psi = None`: no identity rows), no field (θ = 0), ε = 1, no bias (μ_b = 0);
  any mesh, any γ, u; the Poisson solver only has to map 0 to 0.   (K := ℝ)
-/
import Mathlib.Algebra.Order.Field.Basic
import Mathlib.Analysis.SpecialFunctions.Trigonometric.Basic
import Mathlib.Tactic.Ring
import Mathlib.Tactic.Linarith
import Mathlib.Tactic.Positivity
import Tdgl.Lemmas.RealInst
import Tdgl.Lemmas.Sums
import Tdgl.Operators
import Tdgl.Update
import Tdgl.Adaptive
import Tdgl.AdaptiveRun
import Tdgl.Props.C12
import Tdgl.Props.C17

open Tdgl Tdgl.C12

namespace Tdgl.C17

private theorem absSq_one' : absSq (⟨1, 0⟩ : Cx ℝ) = 1 := by
  rw [C02.C02_absSq_eq]; norm_num [Cx.normSq]

private theorem divRow_zero' (m : FVMesh ℝ) (r : ℕ) : divRow m (fun _ => (0 : ℝ) - 0) r = 0 := by
  unfold divRow
  rw [sumTo_eq]
  refine Finset.sum_eq_zero fun e _ => ?_
  split_ifs <;> ring

private theorem neuRow_zero' (m : FVMesh ℝ) (r : ℕ) : neuRow m (fun _ => (0 : ℝ)) r = 0 := by
  unfold neuRow
  rw [sumTo_eq]
  refine Finset.sum_eq_zero fun e _ => ?_
  split_ifs <;> ring

private theorem eulerRetry_ok (ok : ℝ → Bool) (a : Bool) (mult : ℝ) (b : ℕ) (t : ℝ) (h : ok t = true) :
    eulerRetry ok a mult b t = some t := by
  unfold eulerRetry
  simp [h]

private theorem foldl_zero {α : Type} (f : ℝ → α → ℝ) (hf : ∀ r, f 0 r = 0) (l : List α) :
    l.foldl f 0 = 0 := by
  induction l with
  | nil => rfl
  | cons a l ih => rw [List.foldl_cons, hf, ih]

private theorem maxChange_zero (n : ℕ) : maxChange n (fun _ => (1 : ℝ)) (fun _ => absSq (⟨1, 0⟩ : Cx ℝ)) = 0 := by
  unfold maxChange
  apply foldl_zero
  intro r
  rw [absSq_one']
  simp [pyMax, absVal]

private theorem euler_quiet (m : FVMesh ℝ) (gamma u dt : ℝ) :
    eulerPinnedFn m (fun _ => false) none (linkOf theta0) (fun _ => (⟨1, 0⟩ : Cx ℝ))
      (fun _ => absSq (⟨1, 0⟩ : Cx ℝ)) (fun _ => 0) (fun _ => 1) gamma u dt
        = some (fun _ => (⟨1, 0⟩, 1)) := by
  have hsite : ∀ r, eulerSite m (fun _ => false) (linkOf theta0) (fun _ => (⟨1, 0⟩ : Cx ℝ))
      (fun _ => absSq (⟨1, 0⟩ : Cx ℝ)) (fun _ => 0) (fun _ => 1) gamma u dt r
        = some (⟨1, 0⟩, 1) := by
    intro r
    unfold eulerSite
    rw [C17_lap_const_zero, absSq_one']
    exact C17_site_fixed_point gamma u dt
  unfold eulerPinnedFn
  simp [hsite, pinSite]

private theorem observables_quiet (m : FVMesh ℝ) (solve : (ℕ → ℝ) → (ℕ → ℝ)) (hsolve : solve (fun _ => 0) = fun _ => 0) :
    observables m solve (linkOf theta0) (fun _ => (⟨1, 0⟩ : Cx ℝ)) (fun _ => 0) (fun _ => 0)
      = ((fun _ => 0), (fun _ => 0), (fun _ => 0)) := by
  have hjs : superEdge m (linkOf theta0) (fun _ => (⟨1, 0⟩ : Cx ℝ)) = fun _ => 0 :=
    funext fun e => C17_supercurrent_zero m _ e
  have hrhs : poissonRhs m (fun _ => (0 : ℝ)) (fun _ => 0) (fun _ => 0) = fun _ => 0 := by
    funext r
    unfold poissonRhs
    rw [divRow_zero', neuRow_zero']; ring
  have hjn : normalEdge m (fun _ => (0 : ℝ)) (fun _ => 0) = fun _ => 0 := by
    funext e
    unfold normalEdge gradEdge
    ring
  simp only [observables, hjs, hrhs, hsolve, hjn]

/-- One adaptive update of the quiet state: accepted at the first attempt with the tentative step, the fields do not
    move, the recorded change is 0. -/
theorem C17_adaptive_step_quiet (m : FVMesh ℝ) (solve : (ℕ → ℝ) → (ℕ → ℝ)) (hsolve : solve (fun _ => 0) = fun _ => 0)
    (gamma u : ℝ) (o : AdaptOpts ℝ) (i : ℕ) (ctl : AdaptState ℝ) :
    adaptiveStep m (fun _ => false) none (linkOf theta0) solve (fun _ => 1) gamma u (fun _ => 0) o i ⟨uniform, ctl⟩
      = some (ctl.tentative, ⟨uniform, adaptAfter o ctl i ctl.tentative 0⟩) := by
  unfold adaptiveStep uniform
  simp only [euler_quiet, Option.isSome_some]
  rw [show dtUsed o (fun _ => true) ctl.tentative = some ctl.tentative from
    eulerRetry_ok _ _ _ _ _ rfl]
  simp only [observables_quiet m solve hsolve, maxChange_zero]

private theorem listSum_zero (l : List ℝ) (h : ∀ x ∈ l, x = 0) : listSum l = 0 := by
  unfold listSum
  induction l with
  | nil => rfl
  | cons a l ih =>
    rw [List.foldl_cons, h a (by simp), add_zero]
    exact ih fun x hx => h x (by simp [hx])

private theorem mean_zero (l : List ℝ) (h : ∀ x ∈ l, x = 0) : mean l = 0 := by
  unfold mean
  rw [listSum_zero l h, zero_div]

private theorem lastN_mem (l : List ℝ) (w : ℕ) (x : ℝ) (hx : x ∈ lastN l w) : x ∈ l := by
  unfold lastN at hx
  split_ifs at hx
  · exact hx
  · exact List.mem_of_mem_drop hx

/-- the proposal in the quiet regime is `dt_max` -/
private theorem propose_quiet (o : AdaptOpts ℝ) (hs : Sane o) (ha : o.adaptive = true)
    (hbig : 2 * o.dtMaxOpt ≤ o.dtInit / o.floor) (dt : ℝ) (hdt : 0 < dt) :
    clip (o.half * (o.dtInit / pyMax o.floor 0 + dt)) 0 o.dtMax = o.dtMaxOpt := by
  have hfl : pyMax o.floor 0 = o.floor := by
    unfold pyMax
    rw [if_neg (not_lt.mpr hs.floor_pos.le)]
  have hmax : o.dtMax = o.dtMaxOpt := by unfold AdaptOpts.dtMax; rw [ha]; rfl
  have hpos : 0 < o.dtMaxOpt := lt_of_lt_of_le hs.init_pos hs.init_le
  rw [hfl, hmax, hs.half_eq]
  unfold clip
  have hx : o.dtMaxOpt < 1 / 2 * (o.dtInit / o.floor + dt) := by linarith
  have hx0 : ¬ 1 / 2 * (o.dtInit / o.floor + dt) < 0 := by linarith
  simp only [if_neg hx0, if_pos hx]

private def Inv (o : AdaptOpts ℝ) (i : ℕ) (ctl : AdaptState ℝ) : Prop :=
  (∀ x ∈ ctl.hist, x = 0) ∧ ctl.tentative = if i ≤ o.window + 1 then o.dtInit else o.dtMaxOpt

private theorem inv_step (o : AdaptOpts ℝ) (hs : Sane o) (ha : o.adaptive = true)
    (hbig : 2 * o.dtMaxOpt ≤ o.dtInit / o.floor) (i : ℕ) (ctl : AdaptState ℝ) (h : Inv o i ctl) :
    Inv o (i + 1) (adaptAfter o ctl i ctl.tentative 0) := by
  obtain ⟨hz, ht⟩ := h
  have hz' : ∀ x ∈ ctl.hist ++ [(0 : ℝ)], x = 0 := by
    intro x hx
    rcases List.mem_append.mp hx with hx | hx
    · exact hz x hx
    · simpa using hx
  have hpos : 0 < ctl.tentative := by
    rw [ht]; split_ifs
    · exact hs.init_pos
    · exact lt_of_lt_of_le hs.init_pos hs.init_le
  unfold adaptAfter
  rw [if_pos ha]
  by_cases hw : o.window < i
  · simp only [if_pos hw]
    refine ⟨hz', ?_⟩
    show clip _ 0 o.dtMax = _
    rw [mean_zero _ (fun x hx => hz' x (lastN_mem _ _ _ hx)), propose_quiet o hs ha hbig _ hpos,
      if_neg (by omega)]
  · simp only [if_neg hw]
    refine ⟨hz', ?_⟩
    show ctl.tentative = _
    rw [ht, if_pos (by omega), if_pos (by omega)]

private theorem run_quiet (m : FVMesh ℝ) (solve : (ℕ → ℝ) → (ℕ → ℝ)) (hsolve : solve (fun _ => 0) = fun _ => 0)
    (gamma u : ℝ) (o : AdaptOpts ℝ) (hs : Sane o) (ha : o.adaptive = true)
    (hbig : 2 * o.dtMaxOpt ≤ o.dtInit / o.floor) (n : ℕ) :
    ∀ (i : ℕ) (ctl : AdaptState ℝ), Inv o i ctl →
    ∃ ctl', adaptiveRun m (fun _ => false) none (linkOf theta0) solve (fun _ => 1) gamma u (fun _ => 0) o n i
        ⟨uniform, ctl⟩
      = some (List.replicate (min n (o.window + 2 - i)) o.dtInit
                ++ List.replicate (n - (o.window + 2 - i)) o.dtMaxOpt,
              ⟨uniform, ctl'⟩) := by
  induction n with
  | zero => intro i ctl _; exact ⟨ctl, by simp [adaptiveRun]⟩
  | succ n ih =>
    intro i ctl h
    obtain ⟨ctl', hrun⟩ := ih (i + 1) _ (inv_step o hs ha hbig i ctl h)
    refine ⟨ctl', ?_⟩
    unfold adaptiveRun
    rw [C17_adaptive_step_quiet m solve hsolve]
    simp only [hrun]
    congr 2
    rw [h.2]
    by_cases hi : i ≤ o.window + 1
    · rw [if_pos hi]
      have e1 : min (n + 1) (o.window + 2 - i) = min n (o.window + 2 - (i + 1)) + 1 := by omega
      have e2 : n + 1 - (o.window + 2 - i) = n - (o.window + 2 - (i + 1)) := by omega
      rw [e1, e2, List.replicate_succ, List.cons_append]
    · rw [if_neg hi]
      have e1 : min (n + 1) (o.window + 2 - i) = 0 := by omega
      have e2 : min n (o.window + 2 - (i + 1)) = 0 := by omega
      have e3 : n + 1 - (o.window + 2 - i) = (n - (o.window + 2 - (i + 1))) + 1 := by omega
      rw [e1, e2, e3, List.replicate_succ]
      simp

/-- The time steps of a quiet adaptive run of `n` updates from the initial controller state: `dt_init` during the warm-up
    (the proposal made after update `window + 1` is used from update `window + 2` on), then `dt_max`; the state is the
    uniform state throughout.  `2 dt_max ≤ dt_init / floor` holds for every sensible option set (`floor = 1e-10`). -/
theorem C17_adaptive_dt_grows (m : FVMesh ℝ) (solve : (ℕ → ℝ) → (ℕ → ℝ)) (hsolve : solve (fun _ => 0) = fun _ => 0)
    (gamma u : ℝ) (o : AdaptOpts ℝ) (hs : Sane o) (ha : o.adaptive = true) (hw : 1 ≤ o.window)
    (hbig : 2 * o.dtMaxOpt ≤ o.dtInit / o.floor) (n : ℕ) :
    ∃ ctl', adaptiveRun m (fun _ => false) none (linkOf theta0) solve (fun _ => 1) gamma u (fun _ => 0) o n 0
        ⟨uniform, AdaptState.init o⟩
      = some (List.replicate (min n (o.window + 2)) o.dtInit ++ List.replicate (n - (o.window + 2)) o.dtMaxOpt,
              ⟨uniform, ctl'⟩) := by
  have _ := hw  -- not needed: with `window = 0` the slice `hist[-0:]` is the whole (all-zero) history
  have h0 : Inv o 0 (AdaptState.init o) := by
    refine ⟨by simp [AdaptState.init], ?_⟩
    simp [AdaptState.init]
  simpa using run_quiet m solve hsolve gamma u o hs ha hbig n 0 _ h0

/-- non-vacuity of the hypotheses: the default-like options dt_init = 1/1000, dt_max = 1/10, floor = 1e-10 -/
example : (2 : ℝ) * (1 / 10) ≤ (1 / 1000) / (1 / 10000000000) := by norm_num

end Tdgl.C17
