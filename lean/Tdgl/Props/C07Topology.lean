/-
  C07 — the connectivity part: the edge list, the boundary flags and the boundary sites computed from the
  triangle list are exactly "the sides of the triangles, each once, in lexicographic order", "the sides that
  belong to exactly one triangle" and "their end points".  Model: Tdgl/Topology.lean.
-/
import Mathlib.Data.List.Sort
import Mathlib.Tactic.Common
import Tdgl.Topology

open Tdgl

namespace Tdgl.C07

/-- the strict lexicographic order on edges -/
def edgeLt (a b : Edge) : Prop := a.1 < b.1 ∨ (a.1 = b.1 ∧ a.2 < b.2)

/-! ### helper lemmas -/

private theorem edgeLe_trans (a b c : Edge) :
    edgeLe a b = true → edgeLe b c = true → edgeLe a c = true := by
  simp only [edgeLe, Bool.or_eq_true, Bool.and_eq_true, decide_eq_true_eq, beq_iff_eq]
  omega

private theorem edgeLe_total (a b : Edge) : (edgeLe a b || edgeLe b a) = true := by
  simp only [edgeLe, Bool.or_eq_true, Bool.and_eq_true, decide_eq_true_eq, beq_iff_eq]
  omega

private theorem edgeLe_refl (a : Edge) : edgeLe a a = true := by
  simp [edgeLe]

private theorem edgeLt_of_le_of_ne {a b : Edge} (h : edgeLe a b = true) (hne : a ≠ b) : edgeLt a b := by
  obtain ⟨a1, a2⟩ := a
  obtain ⟨b1, b2⟩ := b
  simp only [edgeLe, Bool.or_eq_true, Bool.and_eq_true, decide_eq_true_eq, beq_iff_eq] at h
  simp only [ne_eq, Prod.mk.injEq, not_and] at hne
  simp only [edgeLt]
  omega

private theorem edgeLt_of_lt_of_le {a b c : Edge} (h : edgeLt a b) (h' : edgeLe b c = true) : edgeLt a c := by
  simp only [edgeLe, Bool.or_eq_true, Bool.and_eq_true, decide_eq_true_eq, beq_iff_eq] at h'
  simp only [edgeLt] at h ⊢
  omega

private theorem edgeLt_ne {a b : Edge} (h : edgeLt a b) : a ≠ b := by
  rintro rfl
  simp only [edgeLt] at h
  omega

private theorem mem_dedupAdj (e : Edge) : ∀ l, e ∈ dedupAdj l ↔ e ∈ l
  | [] => by simp [dedupAdj]
  | [a] => by simp [dedupAdj]
  | a :: b :: rest => by
    have ih := mem_dedupAdj e (b :: rest)
    simp only [dedupAdj]
    split
    · subst_vars; rw [ih]; simp
    · simp only [List.mem_cons] at ih ⊢; rw [ih]

private theorem pairwise_dedupAdj :
    ∀ l : List Edge, l.Pairwise (fun a b => edgeLe a b = true) → (dedupAdj l).Pairwise edgeLt
  | [], _ => by simp [dedupAdj]
  | [a], _ => by simp [dedupAdj]
  | a :: b :: rest, h => by
    have h' := List.pairwise_cons.1 h
    have ih := pairwise_dedupAdj (b :: rest) h'.2
    simp only [dedupAdj]
    split
    · exact ih
    · rename_i hne
      refine List.pairwise_cons.2 ⟨?_, ih⟩
      intro x hx
      rw [mem_dedupAdj] at hx
      have hab : edgeLt a b := edgeLt_of_le_of_ne (h'.1 b (by simp)) hne
      have hbx : edgeLe b x = true := by
        rcases List.mem_cons.1 hx with rfl | hx
        · exact edgeLe_refl _
        · exact (List.pairwise_cons.1 h'.2).1 x hx
      exact edgeLt_of_lt_of_le hab hbx

private theorem mem_dedupNat (e : ℕ) : ∀ l, e ∈ dedupNat l ↔ e ∈ l
  | [] => by simp [dedupNat]
  | [a] => by simp [dedupNat]
  | a :: b :: rest => by
    have ih := mem_dedupNat e (b :: rest)
    simp only [dedupNat]
    split
    · subst_vars; rw [ih]; simp
    · simp only [List.mem_cons] at ih ⊢; rw [ih]

private theorem pairwise_dedupNat :
    ∀ l : List ℕ, l.Pairwise (· ≤ ·) → (dedupNat l).Pairwise (· < ·)
  | [], _ => by simp [dedupNat]
  | [a], _ => by simp [dedupNat]
  | a :: b :: rest, h => by
    have h' := List.pairwise_cons.1 h
    have ih := pairwise_dedupNat (b :: rest) h'.2
    simp only [dedupNat]
    split
    · exact ih
    · rename_i hne
      refine List.pairwise_cons.2 ⟨?_, ih⟩
      intro x hx
      rw [mem_dedupNat] at hx
      have hab : a ≤ b := h'.1 b (by simp)
      have hbx : b ≤ x := by
        rcases List.mem_cons.1 hx with rfl | hx
        · exact Nat.le_refl _
        · exact (List.pairwise_cons.1 h'.2).1 x hx
      omega

private theorem mem_allSides (ts : List Tri) (e : Edge) :
    e ∈ allSides ts ↔ ∃ t ∈ ts, hasSide t e = true := by
  simp only [allSides, hasSide, List.mem_append, List.mem_map, Bool.or_eq_true, beq_iff_eq]
  constructor
  · rintro ((⟨t, ht, h⟩ | ⟨t, ht, h⟩) | ⟨t, ht, h⟩)
    · exact ⟨t, ht, Or.inl (Or.inl h)⟩
    · exact ⟨t, ht, Or.inl (Or.inr h)⟩
    · exact ⟨t, ht, Or.inr h⟩
  · rintro ⟨t, ht, (h | h) | h⟩
    · exact Or.inl (Or.inl ⟨t, ht, h⟩)
    · exact Or.inl (Or.inr ⟨t, ht, h⟩)
    · exact Or.inr ⟨t, ht, h⟩

private theorem mem_getEdges (ts : List Tri) (e : Edge) : e ∈ getEdges ts ↔ e ∈ allSides ts := by
  simp only [getEdges, mem_dedupAdj, List.mem_mergeSort]

private theorem sortPair_le (a b : ℕ) : (sortPair a b).1 ≤ (sortPair a b).2 := by
  unfold sortPair; split <;> simp <;> omega

private theorem sortPair_ne {a b c : ℕ} (_ : a ≠ b) (_ : b ≠ c) (_ : c ≠ a) :
    sortPair a b ≠ sortPair b c := by
  unfold sortPair
  split <;> split <;> simp only [ne_eq, Prod.mk.injEq, not_and] <;> omega

private theorem count_map_eq (f : Tri → Edge) (e : Edge) (ts : List Tri) :
    (ts.map f).count e = ts.countP (fun t => f t == e) := by
  rw [List.count_eq_countP, List.countP_map]; rfl

private theorem sideCount_eq (ts : List Tri)
    (hnd : ∀ t ∈ ts, t.1 ≠ t.2.1 ∧ t.2.1 ≠ t.2.2 ∧ t.2.2 ≠ t.1) (e : Edge) :
    sideCount ts e = ts.countP (fun t => hasSide t e) := by
  simp only [sideCount, allSides, List.count_append, count_map_eq]
  induction ts with
  | nil => simp
  | cons t ts ih =>
    have ih := ih (fun t' ht' => hnd t' (List.mem_cons_of_mem _ ht'))
    obtain ⟨h1, h2, h3⟩ := hnd t (by simp)
    simp only [List.countP_cons]
    rw [← ih]
    have e12 := sortPair_ne h1 h2 h3
    have e23 := sortPair_ne h2 h3 h1
    have e31 := sortPair_ne h3 h1 h2
    simp only [hasSide]
    by_cases p1 : sortPair t.1 t.2.1 = e
    · have p2 : ¬ sortPair t.2.1 t.2.2 = e := fun h => e12 (p1.trans h.symm)
      have p3 : ¬ sortPair t.2.2 t.1 = e := fun h => e31 (h.trans p1.symm)
      simp [p1, p2, p3]; omega
    · by_cases p2 : sortPair t.2.1 t.2.2 = e
      · have p3 : ¬ sortPair t.2.2 t.1 = e := fun h => e23 (p2.trans h.symm)
        simp [p1, p2, p3]; omega
      · by_cases p3 : sortPair t.2.2 t.1 = e
        · simp [p1, p2, p3]; omega
        · simp [p1, p2, p3]

private theorem adjacentTris_length (ts : List Tri) (e : Edge) :
    (adjacentTris ts e).length = ts.countP (fun t => hasSide t e) := by
  simp only [adjacentTris, List.length_map, ← List.countP_eq_length_filter]
  conv_rhs => rw [← List.zipIdx_map_fst 0 ts, List.countP_map]
  rfl

/-- every edge has its smaller index first -/
theorem C07_edges_oriented (ts : List Tri) (e : Edge) (h : e ∈ getEdges ts) : e.1 ≤ e.2 := by
  rw [mem_getEdges] at h
  simp only [allSides, List.mem_append, List.mem_map] at h
  rcases h with (⟨t, _, rfl⟩ | ⟨t, _, rfl⟩) | ⟨t, _, rfl⟩ <;> exact sortPair_le _ _

/-- an edge is listed iff it is a side of some triangle -/
theorem C07_edges_complete (ts : List Tri) (e : Edge) :
    e ∈ getEdges ts ↔ ∃ t ∈ ts, hasSide t e = true := by
  rw [mem_getEdges, mem_allSides]

/-- the edge list is strictly increasing in the lexicographic order: sorted, and no edge is listed twice -/
theorem C07_edges_strictly_sorted (ts : List Tri) : (getEdges ts).Pairwise edgeLt :=
  pairwise_dedupAdj _ (List.pairwise_mergeSort edgeLe_trans edgeLe_total _)

theorem C07_edges_nodup (ts : List Tri) : (getEdges ts).Nodup :=
  (C07_edges_strictly_sorted ts).imp (fun h => edgeLt_ne h)

/-- for triangles with three distinct corners: the number of times a side occurs is the number of
    triangles that have it, so "boundary" means "belongs to exactly one triangle" -/
theorem C07_boundary_iff_one_triangle (ts : List Tri)
    (hnd : ∀ t ∈ ts, t.1 ≠ t.2.1 ∧ t.2.1 ≠ t.2.2 ∧ t.2.2 ≠ t.1) (e : Edge) :
    isBoundary ts e = true ↔ (adjacentTris ts e).length = 1 := by
  rw [adjacentTris_length, ← sideCount_eq ts hnd e]
  simp [isBoundary]

/-- the indices reported as boundary edges are exactly the positions of the boundary edges -/
theorem C07_boundary_edge_indices (ts : List Tri) (i : ℕ) :
    i ∈ boundaryEdgeIndices ts ↔ ∃ h : i < (getEdges ts).length, isBoundary ts ((getEdges ts)[i]) = true := by
  simp only [boundaryEdgeIndices, List.mem_map, List.mem_filter, List.mem_zipIdx_iff_getElem?]
  constructor
  · rintro ⟨⟨x, j⟩, ⟨hx, hb⟩, rfl⟩
    simp only at hx hb ⊢
    obtain ⟨hj, rfl⟩ := List.getElem?_eq_some_iff.1 hx
    exact ⟨hj, hb⟩
  · rintro ⟨hi, hb⟩
    exact ⟨((getEdges ts)[i], i), ⟨List.getElem?_eq_getElem hi, hb⟩, rfl⟩

/-- the boundary sites are exactly the end points of boundary edges -/
theorem C07_boundary_sites (ts : List Tri) (s : ℕ) :
    s ∈ boundarySites ts ↔ ∃ e ∈ getEdges ts, isBoundary ts e = true ∧ (s = e.1 ∨ s = e.2) := by
  simp only [boundarySites, mem_dedupNat, List.mem_mergeSort, List.mem_flatMap, List.mem_filter,
    List.mem_cons, List.not_mem_nil, or_false, and_assoc]

/-- … listed in increasing order without repetition -/
theorem C07_boundary_sites_sorted (ts : List Tri) : (boundarySites ts).Pairwise (· < ·) := by
  unfold boundarySites
  apply pairwise_dedupNat
  have := List.pairwise_mergeSort (le := fun a b : ℕ => decide (a ≤ b))
    (fun a b c => by simp only [decide_eq_true_eq] at *; omega)
    (fun a b => by simp only [Bool.or_eq_true, decide_eq_true_eq]; omega)
    (((getEdges ts).filter (isBoundary ts)).flatMap (fun e => [e.1, e.2]))
  exact this.imp (fun h => by simpa using h)

/-- non-vacuity: two triangles sharing the side (1,2) -/
example : getEdges [(0, 1, 2), (1, 3, 2)] = [(0, 1), (0, 2), (1, 2), (1, 3), (2, 3)] ∧
    boundaryEdgeIndices [(0, 1, 2), (1, 3, 2)] = [0, 1, 3, 4] ∧
    boundarySites [(0, 1, 2), (1, 3, 2)] = [0, 1, 2, 3] ∧ adjacentTris [(0, 1, 2), (1, 3, 2)] (1, 2) = [0, 1] := by
  refine ⟨?_, ?_, ?_, ?_⟩
  · simp [getEdges, allSides, sortPair, List.mergeSort, List.MergeSort.Internal.splitInTwo, edgeLe, dedupAdj]
  · simp [boundaryEdgeIndices, isBoundary, sideCount, getEdges, allSides, sortPair, List.mergeSort,
      List.MergeSort.Internal.splitInTwo, edgeLe, dedupAdj, List.zipIdx]
  · simp [boundarySites, isBoundary, sideCount, getEdges, allSides, sortPair, List.mergeSort,
      List.MergeSort.Internal.splitInTwo, edgeLe, dedupAdj, dedupNat]
  · decide

end Tdgl.C07
