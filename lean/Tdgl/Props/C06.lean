/-
  C06 — the order parameter is pinned on current terminals and nowhere else.
-/
import Mathlib.Tactic.Ring
import Mathlib.Tactic.Linarith
import Tdgl.Lemmas.Sums
import Tdgl.Lemmas.RealInst
import Tdgl.Operators
import Tdgl.Update
import Tdgl.Props.C02

open Finset Tdgl

namespace Tdgl.C06

private theorem csumTo_zero {K : Type} [Field K] (f : ℕ → Cx K) (h : ∀ e, f e = Cx.zero) (n : ℕ) :
    csumTo f n = Cx.zero := by
  induction n with
  | zero => rfl
  | succ n ih => simp [csumTo, ih, h n, Cx.add, Cx.zero]

/-- `setMany` never touches an entry in a row that no kept position addresses. -/
private theorem setMany_untouched {K : Type} [Field K] (M : ℕ → ℕ → Cx K) (rows cols : ℕ → ℕ)
    (vals : ℕ → Cx K) (keep : ℕ → Bool) (i j : ℕ) (h : ∀ t, keep t = true → rows t ≠ i) (L : ℕ) :
    setMany M rows cols vals keep L i j = M i j := by
  induction L with
  | zero => rfl
  | succ L ih =>
    unfold setMany
    rw [if_neg, ih]
    rintro ⟨hk, hr, -⟩
    exact h L hk hr

/-- with `z = 0` the site update returns `ψ' = w`, `|ψ'|² = |w|²` -/
private theorem solveSite_zero (w : Cx ℝ) :
    solveSite (⟨0, 0⟩ : Cx ℝ) w = some (w, Cx.normSq w) := by
  have hb1 : C02.bOf ⟨0, 0⟩ w = 1 := by unfold C02.bOf; ring
  have hD1 : C02.dOf ⟨0, 0⟩ w = 1 := by unfold C02.dOf; rw [hb1]; simp [Cx.normSq]
  apply (C02.solveSite_some_iff _ _ _ _).mpr
  rw [hb1, hD1, Real.sqrt_one]
  refine ⟨by norm_num, by ring, ?_⟩
  apply Cx.ext' <;> simp [Cx.sub, Cx.smul]

/-- Rows of pinned sites act as the identity, for every vector potential. -/
theorem C06_identity_row {K : Type} [Field K] (m : FVMesh K) (fixed : ℕ → Bool) (U psi : ℕ → Cx K) (r : ℕ)
    (h : fixed r = true) : clapRow m fixed U psi r = psi r := by
  unfold clapRow
  rw [if_pos h]

/-- Entry level: a pinned row is the unit row, whatever the link variables. -/
theorem C06_identity_entries {K : Type} [Field K] (m : FVMesh K) (fixed : ℕ → Bool) (U : ℕ → Cx K) (i j : ℕ)
    (h : fixed i = true) :
    clapEntry m fixed U i j = if i = j then Cx.one else Cx.zero := by
  unfold clapEntry
  rw [csumTo_zero _ (fun e => by simp [h, Cx.add, Cx.zero])]
  by_cases hij : i = j
  · rw [if_pos ⟨h, hij⟩, if_pos hij]; simp [Cx.add, Cx.zero, Cx.one]
  · rw [if_neg (fun hh => hij hh.2), if_neg hij]; simp [Cx.add, Cx.zero]

/-- ... and it stays the unit row after any in-place refresh. -/
theorem C06_identity_after_refresh {K : Type} [Field K] (m : FVMesh K) (fixed : ℕ → Bool)
    (U₁ U₂ : ℕ → Cx K) (i j : ℕ) (h : fixed i = true) :
    refreshLap m fixed (clapEntry m fixed U₁) U₂ i j = if i = j then Cx.one else Cx.zero := by
  unfold refreshLap
  rw [setMany_untouched, C06_identity_entries m fixed U₁ i j h]
  intro t hk hr
  rw [hr, h] at hk
  simp at hk

/-- Rows of sites that are not pinned are the rows of the free Laplacian. -/
theorem C06_unpinned_rows_untouched {K : Type} [Field K] (m : FVMesh K) (fixed : ℕ → Bool)
    (U psi : ℕ → Cx K) (r : ℕ) (h : fixed r = false) :
    clapRow m fixed U psi r = clapRow m (fun _ => false) U psi r := by
  unfold clapRow
  simp [h]

/-- `terminal_psi = None` (`fix_psi = False`) means no row is pinned: the operators are the free ones. -/
theorem C06_none_means_free {K : Type} [Field K] (m : FVMesh K) (terminal : ℕ → Bool)
    (U psi : ℕ → Cx K) (r : ℕ) :
    clapRow m (fun s => false && terminal s) U psi r = clapRow m (fun _ => false) U psi r := by
  unfold clapRow
  simp

/-- The default normal-metal contact: a pinned site holding `ψ = 0` stays exactly `0` in every update,
    for every field, potential, ε, γ, u, dt and whatever `abs_sq_psi` the caller passes. -/
theorem C06_zero_held (m : FVMesh ℝ) (fixed : ℕ → Bool) (U psi : ℕ → Cx ℝ) (a mu eps : ℕ → ℝ)
    (gamma u dt : ℝ) (r : ℕ) (hf : fixed r = true) (h0 : psi r = ⟨0, 0⟩) :
    eulerSite m fixed U psi a mu eps gamma u dt r = some (⟨0, 0⟩, 0) := by
  unfold eulerSite stepSite
  rw [C06_identity_row m fixed U psi r hf, h0]
  have hz : zOf (⟨0, 0⟩ : Cx ℝ) (mu r) gamma dt = ⟨0, 0⟩ := by
    apply Cx.ext' <;> simp [zOf, Cx.mul]
  have hw : wOf (⟨0, 0⟩ : Cx ℝ) (a r) (mu r) (eps r) gamma u dt ⟨0, 0⟩ = ⟨0, 0⟩ := by
    unfold wOf
    rw [hz]
    apply Cx.ext' <;> simp [Cx.mul, Cx.add, Cx.smul]
  rw [hz, hw, solveSite_zero]
  simp [Cx.normSq]

/-- As coded, a pinned site with a non-zero value obeys `ψ' + z|ψ'|² = w` with the identity row as
    its "Laplacian", i.e. it evolves by `u ψ̇/√… = (1 + ε − |ψ|²) ψ`: it is NOT held.  Witness:
    `ψ = 1/2`, `ε = 1`, `γ = 0`, `u = 1`, `dt = 1`, `μ = 0`: the update returns `ψ' = 1/2 + (3/4+1)/2 ≠ 1/2`. -/
theorem C06_value_not_held_counterexample :
    ∃ (m : FVMesh ℝ) (fixed : ℕ → Bool) (U psi : ℕ → Cx ℝ) (r : ℕ) (p : Cx ℝ) (x : ℝ),
      fixed r = true ∧ psi r = ⟨1/2, 0⟩ ∧
      eulerSite m fixed U psi (fun s => absSq (psi s)) (fun _ => 0) (fun _ => 1) 0 1 1 r = some (p, x) ∧
      p ≠ psi r := by
  refine ⟨⟨1, 0, fun _ => 0, fun _ => 0, fun _ => 1, fun _ => 1, fun _ => 1, 0, fun _ => 0⟩,
    fun _ => true, fun _ => ⟨1, 0⟩, fun _ => ⟨1/2, 0⟩, 0, ⟨11/8, 0⟩, 121/64, rfl, rfl, ?_, ?_⟩
  · unfold eulerSite stepSite
    rw [C06_identity_row _ _ _ _ _ rfl]
    have ha : absSq (⟨1/2, 0⟩ : Cx ℝ) = 1/4 := by
      rw [C02.C02_absSq_eq]; norm_num [Cx.normSq]
    have hz : zOf (⟨1/2, 0⟩ : Cx ℝ) 0 0 1 = ⟨0, 0⟩ := by
      apply Cx.ext' <;> simp [zOf, Cx.mul, Cx.smul]
    have hw : wOf (⟨1/2, 0⟩ : Cx ℝ) (1/4) 0 1 0 1 1 ⟨1/2, 0⟩ = ⟨11/8, 0⟩ := by
      unfold wOf
      rw [hz]
      apply Cx.ext'
      · simp [linkU, Cx.expNegI, Cx.mul, Cx.add, Cx.smul]
        norm_num
      · simp [linkU, Cx.expNegI, Cx.mul, Cx.add, Cx.smul]
    show solveSite (zOf (⟨1/2, 0⟩ : Cx ℝ) 0 0 1)
      (wOf (⟨1/2, 0⟩ : Cx ℝ) (absSq (⟨1/2, 0⟩ : Cx ℝ)) 0 1 0 1 1 ⟨1/2, 0⟩) = _
    rw [ha, hz, hw, solveSite_zero]
    norm_num [Cx.normSq]
  · intro h
    have := congrArg Cx.re h
    norm_num at this

/-- With the re-imposition step of the repaired `update`, every terminal value (zero or not) is held:
    after any answered update a pinned site carries exactly `terminal_psi` and `|terminal_psi|²`. -/
theorem C06_value_held {K : Type} [Add K] [Sub K] [Mul K] [Div K] [Neg K]
    [OfNat K 0] [OfNat K 1] [OfNat K 2] [OfNat K 4] [LT K] [DecidableLT K] [HasSqrt K] [HasTrig K]
    (m : FVMesh K) (fixed : ℕ → Bool) (v : Cx K) (U psi : ℕ → Cx K) (a mu eps : ℕ → K)
    (gamma u dt : K) (out : ℕ → Cx K × K)
    (h : eulerPinnedFn m fixed (some v) U psi a mu eps gamma u dt = some out) (r : ℕ)
    (hf : fixed r = true) : out r = (v, absSq v) := by
  unfold eulerPinnedFn at h
  split at h
  · have := Option.some.inj h
    rw [← this]
    simp [pinSite, hf]
  · exact absurd h (by simp)

/-- ... and sites outside the terminals are exactly what the Euler step produced. -/
theorem C06_unpinned_sites_free {K : Type} [Add K] [Sub K] [Mul K] [Div K] [Neg K]
    [OfNat K 0] [OfNat K 1] [OfNat K 2] [OfNat K 4] [LT K] [DecidableLT K] [HasSqrt K] [HasTrig K]
    (m : FVMesh K) (fixed : ℕ → Bool) (tp : Option (Cx K)) (U psi : ℕ → Cx K) (a mu eps : ℕ → K)
    (gamma u dt : K) (out : ℕ → Cx K × K)
    (h : eulerPinnedFn m fixed tp U psi a mu eps gamma u dt = some out) (r : ℕ) (hr : r < m.n)
    (hf : fixed r = false) : eulerSite m fixed U psi a mu eps gamma u dt r = some (out r) := by
  unfold eulerPinnedFn at h
  split at h
  · rename_i hall
    rw [List.all_eq_true] at hall
    have hs := hall r (List.mem_range.mpr hr)
    have := Option.some.inj h
    rw [← this]
    cases he : eulerSite m fixed U psi a mu eps gamma u dt r with
    | none => rw [he] at hs; exact absurd hs (by simp)
    | some px => cases tp <;> simp [pinSite, hf, he]
  · exact absurd h (by simp)

end Tdgl.C06
