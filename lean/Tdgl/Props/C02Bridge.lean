/-
  Tie B for C02: the definitions regenerated from the source text of
  `TDGLSolver.solve_for_psi_squared` (Tdgl/Generated/StepGen.lean) equal the hand-written model
  `Tdgl.Step` over ℝ.  Re-checked on every run; fails to build when the source arithmetic changes.

  The proofs do not mention the local variable names of the source: the translator names the two definitions whose
  roles it identified by structure (`gen_z`, `gen_w`: in the returned `W - Z * X`) and provides the macros
  `gen_unfold_all` / `gen_unfold_rest` for everything else, so renaming, inlining or splitting locals in the source
  leaves these theorems provable as long as the arithmetic is the same up to ring identities.
-/
import Mathlib.Tactic.Ring
import Mathlib.Tactic.FieldSimp
import Tdgl.Lemmas.RealInst
import Tdgl.Step
import Tdgl.Generated.StepGen

set_option linter.unusedSimpArgs false
set_option linter.unusedTactic false
set_option linter.unreachableTactic false

open Tdgl Tdgl.Gen

namespace Tdgl.C02

/-- generated `z` = documented `z` -/
theorem C02_bridge_z (psi : Cx ℝ) (a mu eps gamma u dt : ℝ) (lap : Cx ℝ) :
    gen_z psi a mu eps gamma u dt lap = zOf psi mu gamma dt := by
  gen_unfold_all
  apply Cx.ext' <;>
    simp only [zOf, linkU, Cx.mul, Cx.smul, Cx.add, Cx.sub, Cx.neg, Cx.expNegI] <;> ring

/-- generated `w` = documented `w` -/
theorem C02_bridge_w (psi : Cx ℝ) (a mu eps gamma u dt : ℝ) (lap : Cx ℝ) :
    gen_w psi a mu eps gamma u dt lap = wOf psi a mu eps gamma u dt lap := by
  gen_unfold_all
  apply Cx.ext' <;>
    simp only [wOf, zOf, linkU, Cx.add, Cx.sub, Cx.neg, Cx.mul, Cx.smul, Cx.expNegI] <;> ring

private theorem guarded_congr {A A' : ℝ} {x x' : Cx ℝ × ℝ} (hA : A = A') (hx : x = x') :
    (if A < 0 then none else some x) = (if A' < 0 then none else some x') := by
  subst hA hx; rfl

/-- the generated function is the model function -/
theorem C02_bridge_step (psi : Cx ℝ) (a mu eps gamma u dt : ℝ) (lap : Cx ℝ) :
    stepSiteGen psi a mu eps gamma u dt lap = stepSite psi a mu eps gamma u dt lap := by
  have hz := C02_bridge_z psi a mu eps gamma u dt lap
  have hw := C02_bridge_w psi a mu eps gamma u dt lap
  unfold stepSite solveSite
  gen_unfold_rest
  simp only [hz, hw]
  all_goals
    first
      | rfl
      | (refine guarded_congr (by ring) ?_
         refine Prod.ext (Cx.ext' ?_ ?_) ?_ <;> simp only [Cx.sub, Cx.smul] <;> ring_nf)

end Tdgl.C02
