/-
  Tie B for C02: the definitions regenerated from the source text of
  `TDGLSolver.solve_for_psi_squared` (Tdgl/Generated/StepGen.lean) equal the hand-written model
  `Tdgl.Step` over ℝ.  Re-checked on every run; fails to build when the source arithmetic changes.
-/
import Mathlib.Tactic.Ring
import Mathlib.Tactic.FieldSimp
import Tdgl.Lemmas.RealInst
import Tdgl.Step
import Tdgl.Generated.StepGen

open Tdgl Tdgl.Gen

namespace Tdgl.C02

/-- generated `z` = documented `z` -/
theorem C02_bridge_z (psi : Cx ℝ) (a mu eps gamma u dt : ℝ) (lap : Cx ℝ) :
    gen_z psi a mu eps gamma u dt lap = zOf psi mu gamma dt := by
  apply Cx.ext' <;>
    simp only [gen_z, gen_U, zOf, linkU, Cx.mul, Cx.smul, Cx.expNegI] <;> ring

/-- generated `w` = documented `w` -/
theorem C02_bridge_w (psi : Cx ℝ) (a mu eps gamma u dt : ℝ) (lap : Cx ℝ) :
    gen_w psi a mu eps gamma u dt lap = wOf psi a mu eps gamma u dt lap := by
  have hz := C02_bridge_z psi a mu eps gamma u dt lap
  unfold gen_w wOf
  rw [hz]
  apply Cx.ext' <;>
    simp only [gen_U, linkU, Cx.add, Cx.mul, Cx.smul, Cx.expNegI] <;> ring

/-- the generated function is the model function -/
theorem C02_bridge_step (psi : Cx ℝ) (a mu eps gamma u dt : ℝ) (lap : Cx ℝ) :
    stepSiteGen psi a mu eps gamma u dt lap = stepSite psi a mu eps gamma u dt lap := by
  have hz := C02_bridge_z psi a mu eps gamma u dt lap
  have hw := C02_bridge_w psi a mu eps gamma u dt lap
  unfold stepSiteGen stepSite solveSite gen_psi_new gen_new_sq_psi gen_discriminant gen_two_c_1 gen_c gen_w2
  rw [hz, hw]

end Tdgl.C02
