/-
  C03 — finite-volume operators obey the discrete calculus identities.
  Property theorems about `Tdgl.Operators` for every mesh, over an arbitrary field
  (ordered where an inequality is stated).  `sumTo f n = Σ_{i<n} f i`.
-/
import Mathlib.Algebra.BigOperators.Group.Finset.Basic
import Mathlib.Algebra.BigOperators.Ring.Finset
import Mathlib.Algebra.BigOperators.Field
import Mathlib.Algebra.Order.BigOperators.Ring.Finset
import Mathlib.Algebra.Order.Field.Basic
import Mathlib.Logic.Relation
import Mathlib.Tactic.Ring
import Mathlib.Tactic.Linarith
import Mathlib.Tactic.FieldSimp
import Mathlib.Tactic.LinearCombination
import Tdgl.Lemmas.Sums
import Tdgl.Lemmas.RealInst
import Tdgl.Operators

open Finset Tdgl

namespace Tdgl.C03

section field
variable {K : Type} [Field K]

/-- collapse of an indicator double sum: `Σ_r c_r Σ_e [idx e = r] A_e = Σ_e c_{idx e} A_e` -/
private theorem sum_ite_collapse {R : Type} [CommSemiring R] (n E : ℕ) (idx : ℕ → ℕ)
    (h : ∀ e, e < E → idx e < n) (c A : ℕ → R) :
    ∑ r ∈ range n, c r * ∑ e ∈ range E, (if idx e = r then A e else 0)
      = ∑ e ∈ range E, c (idx e) * A e := by
  simp_rw [Finset.mul_sum]
  rw [Finset.sum_comm]
  refine Finset.sum_congr rfl fun e he => ?_
  have hi : idx e ∈ range n := mem_range.2 (h e (mem_range.1 he))
  simp only [mul_ite, mul_zero]
  rw [Finset.sum_ite_eq (range n) (idx e)]
  simp [hi]

private theorem e0_lt {K : Type} {m : FVMesh K} (hm : m.WF) (e : ℕ) (he : e < m.E) : m.e0 e < m.n :=
  lt_trans (hm.lt e he) (hm.inRange e he)

/-- The Laplacian is the divergence of the gradient (row by row, any vector, any mesh). -/
theorem C03_lap_eq_div_grad (m : FVMesh K) (g : ℕ → K) (r : ℕ) :
    lapRow m g r = divRow m (gradEdge m g) r := by
  unfold lapRow divRow gradEdge FVMesh.w
  rw [sumTo_eq, sumTo_eq]
  refine Finset.sum_congr rfl fun e _ => ?_
  split_ifs <;> ring

/-- The area-weighted sum of the divergence of any edge field vanishes. -/
theorem C03_div_sum_zero (m : FVMesh K) (hm : m.WF) (ha : ∀ r, r < m.n → m.area r ≠ 0) (F : ℕ → K) :
    sumTo (fun r => m.area r * divRow m F r) m.n = 0 := by
  unfold divRow
  rw [sumTo_eq]
  simp_rw [sumTo_eq, Finset.sum_add_distrib, mul_add]
  rw [Finset.sum_add_distrib,
    sum_ite_collapse m.n m.E m.e0 (e0_lt hm) m.area (fun e => m.dual e / m.area (m.e0 e) * F e),
    sum_ite_collapse m.n m.E m.e1 hm.inRange m.area (fun e => (-(m.dual e)) / m.area (m.e1 e) * F e),
    ← Finset.sum_add_distrib]
  refine Finset.sum_eq_zero fun e he => ?_
  have he := mem_range.1 he
  have h0 := ha _ (e0_lt hm e he)
  have h1 := ha _ (hm.inRange e he)
  field_simp
  ring

/-- The boundary-flux operator integrates to `Σ_b ℓ_b m_b`. -/
theorem C03_boundary_flux (m : FVMesh K) (hm : m.WF) (ha : ∀ r, r < m.n → m.area r ≠ 0)
    (h2 : (2 : K) ≠ 0) (mb : ℕ → K) :
    sumTo (fun r => m.area r * neuRow m mb r) m.n
      = sumTo (fun b => m.len (m.bidx b) * mb b) m.nb := by
  unfold neuRow
  rw [sumTo_eq, sumTo_eq]
  simp_rw [sumTo_eq, Finset.sum_add_distrib, mul_add]
  rw [Finset.sum_add_distrib,
    sum_ite_collapse m.n m.nb (fun b => m.e0 (m.bidx b)) (fun b hb => e0_lt hm _ (hm.bRange b hb))
      m.area (fun b => m.len (m.bidx b) / (2 * m.area (m.e0 (m.bidx b))) * mb b),
    sum_ite_collapse m.n m.nb (fun b => m.e1 (m.bidx b)) (fun b hb => hm.inRange _ (hm.bRange b hb))
      m.area (fun b => m.len (m.bidx b) / (2 * m.area (m.e1 (m.bidx b))) * mb b),
    ← Finset.sum_add_distrib]
  refine Finset.sum_congr rfl fun b hb => ?_
  have hb := hm.bRange b (mem_range.1 hb)
  have h0 := ha _ (e0_lt hm _ hb)
  have h1 := ha _ (hm.inRange _ hb)
  field_simp
  ring

/-- Energy (Green) identity: `Σ_r a_r f_r (L g)_r = − Σ_e w_e (f_{e1} − f_{e0}) (g_{e1} − g_{e0})`. -/
theorem C03_energy_identity (m : FVMesh K) (hm : m.WF) (ha : ∀ r, r < m.n → m.area r ≠ 0)
    (f g : ℕ → K) :
    sumTo (fun r => m.area r * f r * lapRow m g r) m.n
      = - sumTo (fun e => m.w e * (f (m.e1 e) - f (m.e0 e)) * (g (m.e1 e) - g (m.e0 e))) m.E := by
  unfold lapRow
  rw [sumTo_eq, sumTo_eq]
  simp_rw [sumTo_eq, Finset.sum_add_distrib, mul_add]
  rw [Finset.sum_add_distrib, Finset.sum_add_distrib, Finset.sum_add_distrib,
    sum_ite_collapse m.n m.E m.e0 (e0_lt hm) (fun r => m.area r * f r)
      (fun e => m.w e / m.area (m.e0 e) * g (m.e1 e)),
    sum_ite_collapse m.n m.E m.e1 hm.inRange (fun r => m.area r * f r)
      (fun e => m.w e / m.area (m.e1 e) * g (m.e0 e)),
    sum_ite_collapse m.n m.E m.e0 (e0_lt hm) (fun r => m.area r * f r)
      (fun e => (-(m.w e)) / m.area (m.e0 e) * g (m.e0 e)),
    sum_ite_collapse m.n m.E m.e1 hm.inRange (fun r => m.area r * f r)
      (fun e => (-(m.w e)) / m.area (m.e1 e) * g (m.e1 e)),
    ← Finset.sum_add_distrib, ← Finset.sum_add_distrib, ← Finset.sum_add_distrib,
    ← Finset.sum_neg_distrib]
  refine Finset.sum_congr rfl fun e he => ?_
  have he := mem_range.1 he
  have h0 := ha _ (e0_lt hm e he)
  have h1 := ha _ (hm.inRange e he)
  field_simp
  ring

/-- The area-weighted scalar Laplacian is symmetric. -/
theorem C03_weighted_lap_symm (m : FVMesh K) (hm : m.WF) (ha : ∀ r, r < m.n → m.area r ≠ 0)
    (f g : ℕ → K) :
    sumTo (fun r => m.area r * f r * lapRow m g r) m.n
      = sumTo (fun r => m.area r * g r * lapRow m f r) m.n := by
  rw [C03_energy_identity m hm ha f g, C03_energy_identity m hm ha g f, sumTo_eq, sumTo_eq]
  congr 1
  refine Finset.sum_congr rfl fun e _ => ?_
  ring

/-- Constants are annihilated (rows sum to zero). -/
theorem C03_lap_const (m : FVMesh K) (c : K) (r : ℕ) : lapRow m (fun _ => c) r = 0 := by
  unfold lapRow
  rw [sumTo_eq]
  refine Finset.sum_eq_zero fun e _ => ?_
  split_ifs <;> ring

/-- The gradient is exact on linear functions: for `g = α x + β y + γ₀`,
    `(G g)_e = (α (x_{e1} − x_{e0}) + β (y_{e1} − y_{e0})) / ℓ_e`. -/
theorem C03_grad_linear_exact (m : FVMesh K) (x y : ℕ → K) (α β γ₀ : K) (e : ℕ) :
    gradEdge m (fun r => α * x r + β * y r + γ₀) e
      = (α * (x (m.e1 e) - x (m.e0 e)) + β * (y (m.e1 e) - y (m.e0 e))) / m.len e := by
  unfold gradEdge
  ring

end field

section ordered
variable {K : Type} [Field K] [LinearOrder K] [IsStrictOrderedRing K]

/-- The area-weighted scalar Laplacian is negative semi-definite for non-negative edge weights. -/
theorem C03_neg_semidef (m : FVMesh K) (hm : m.WF) (ha : ∀ r, r < m.n → m.area r ≠ 0)
    (hw : ∀ e, e < m.E → 0 ≤ m.w e) (g : ℕ → K) :
    sumTo (fun r => m.area r * g r * lapRow m g r) m.n ≤ 0 := by
  rw [C03_energy_identity m hm ha g g, sumTo_eq, neg_nonpos]
  refine Finset.sum_nonneg fun e he => ?_
  rw [mul_assoc]
  exact mul_nonneg (hw e (mem_range.1 he)) (mul_self_nonneg _)

/-- adjacency through a mesh edge -/
def Adj (m : FVMesh K) (i j : ℕ) : Prop :=
  ∃ e, e < m.E ∧ ((m.e0 e = i ∧ m.e1 e = j) ∨ (m.e0 e = j ∧ m.e1 e = i))

/-- On a connected mesh with positive weights the kernel of the Laplacian is exactly the constants. -/
theorem C03_kernel (m : FVMesh K) (hm : m.WF) (ha : ∀ r, r < m.n → m.area r ≠ 0)
    (hw : ∀ e, e < m.E → 0 < m.w e)
    (hconn : ∀ i j, i < m.n → j < m.n → Relation.ReflTransGen (Adj m) i j) (g : ℕ → K) :
    (∀ r, r < m.n → lapRow m g r = 0) ↔ (∀ i j, i < m.n → j < m.n → g i = g j) := by
  constructor
  · intro h
    have hsum : sumTo (fun r => m.area r * g r * lapRow m g r) m.n = 0 := by
      rw [sumTo_eq]
      refine Finset.sum_eq_zero fun r hr => ?_
      rw [h r (mem_range.1 hr), mul_zero]
    rw [C03_energy_identity m hm ha g g, neg_eq_zero, sumTo_eq] at hsum
    have hnn : ∀ e ∈ range m.E,
        0 ≤ m.w e * (g (m.e1 e) - g (m.e0 e)) * (g (m.e1 e) - g (m.e0 e)) := by
      intro e he
      rw [mul_assoc]
      exact mul_nonneg (le_of_lt (hw e (mem_range.1 he))) (mul_self_nonneg _)
    have hedge : ∀ e, e < m.E → g (m.e1 e) = g (m.e0 e) := by
      intro e he
      have h0 := (Finset.sum_eq_zero_iff_of_nonneg hnn).1 hsum e (mem_range.2 he)
      rw [mul_assoc] at h0
      rcases mul_eq_zero.1 h0 with h1 | h1
      · exact absurd h1 (ne_of_gt (hw e he))
      · exact sub_eq_zero.1 (mul_self_eq_zero.1 h1)
    have hadj : ∀ i j, Adj m i j → g i = g j := by
      rintro i j ⟨e, he, ⟨h0, h1⟩ | ⟨h0, h1⟩⟩
      · rw [← h0, ← h1]; exact (hedge e he).symm
      · rw [← h0, ← h1]; exact hedge e he
    have hpath : ∀ i j, Relation.ReflTransGen (Adj m) i j → g i = g j := by
      intro i j hc
      induction hc with
      | refl => rfl
      | tail _ hbc ih => exact ih.trans (hadj _ _ hbc)
    intro i j hi hj
    exact hpath i j (hconn i j hi hj)
  · intro h r _
    unfold lapRow
    rw [sumTo_eq]
    refine Finset.sum_eq_zero fun e he => ?_
    have he := mem_range.1 he
    have hg : g (m.e1 e) = g (m.e0 e) := h _ _ (hm.inRange e he) (e0_lt hm e he)
    rw [hg]
    split_ifs <;> ring

end ordered

section covariant

private theorem toC_ite_zero (p : Prop) [Decidable p] (a : Cx ℝ) :
    toC (if p then a else Cx.zero) = if p then toC a else 0 := by
  split_ifs <;> simp

/-- complex Green identity for the covariant Laplacian (image in `ℂ`) -/
private theorem cov_energy (m : FVMesh ℝ) (hm : m.WF) (ha : ∀ r, r < m.n → m.area r ≠ 0)
    (U f g : ℕ → Cx ℝ) :
    toC (csumTo (fun r =>
        Cx.smul (m.area r) (Cx.mul (Cx.conj (f r)) (clapRow m (fun _ => false) U g r))) m.n)
      = ∑ e ∈ range m.E, (m.w e : ℂ) *
          ((starRingEnd ℂ) (toC (f (m.e0 e))) * toC (U e) * toC (g (m.e1 e))
            + (starRingEnd ℂ) (toC (f (m.e1 e))) * (starRingEnd ℂ) (toC (U e)) * toC (g (m.e0 e))
            - (starRingEnd ℂ) (toC (f (m.e0 e))) * toC (g (m.e0 e))
            - (starRingEnd ℂ) (toC (f (m.e1 e))) * toC (g (m.e1 e))) := by
  unfold clapRow
  simp only [Bool.false_eq_true, if_false, toC_csumTo, toC_smul, toC_mul, toC_conj, toC_add,
    toC_ite_zero, Finset.sum_add_distrib, mul_add, ← mul_assoc]
  rw [sum_ite_collapse m.n m.E m.e0 (e0_lt hm) (fun r => (m.area r : ℂ) * (starRingEnd ℂ) (toC (f r)))
      (fun e => ((m.w e / m.area (m.e0 e) : ℝ) : ℂ) * toC (U e) * toC (g (m.e1 e))),
    sum_ite_collapse m.n m.E m.e1 hm.inRange (fun r => (m.area r : ℂ) * (starRingEnd ℂ) (toC (f r)))
      (fun e => ((m.w e / m.area (m.e1 e) : ℝ) : ℂ) * (starRingEnd ℂ) (toC (U e)) * toC (g (m.e0 e))),
    sum_ite_collapse m.n m.E m.e0 (e0_lt hm) (fun r => (m.area r : ℂ) * (starRingEnd ℂ) (toC (f r)))
      (fun e => (((-(m.w e)) / m.area (m.e0 e) : ℝ) : ℂ) * toC (g (m.e0 e))),
    sum_ite_collapse m.n m.E m.e1 hm.inRange (fun r => (m.area r : ℂ) * (starRingEnd ℂ) (toC (f r)))
      (fun e => (((-(m.w e)) / m.area (m.e1 e) : ℝ) : ℂ) * toC (g (m.e1 e))),
    ← Finset.sum_add_distrib, ← Finset.sum_add_distrib, ← Finset.sum_add_distrib]
  refine Finset.sum_congr rfl fun e he => ?_
  have he := mem_range.1 he
  have h0 : (m.area (m.e0 e) : ℂ) ≠ 0 := Complex.ofReal_ne_zero.2 (ha _ (e0_lt hm e he))
  have h1 : (m.area (m.e1 e) : ℂ) ≠ 0 := Complex.ofReal_ne_zero.2 (ha _ (hm.inRange e he))
  push_cast
  field_simp
  ring

/-- The covariant Laplacian (no pinned rows) is Hermitian in the area-weighted inner product,
    for any link variables: `Σ_r a_r conj(f_r) (L^U g)_r = conj( Σ_r a_r conj(g_r) (L^U f)_r )`. -/
theorem C03_cov_hermitian (m : FVMesh ℝ) (hm : m.WF) (ha : ∀ r, r < m.n → m.area r ≠ 0)
    (U f g : ℕ → Cx ℝ) :
    csumTo (fun r => Cx.smul (m.area r) (Cx.mul (Cx.conj (f r)) (clapRow m (fun _ => false) U g r))) m.n
      = Cx.conj (csumTo (fun r =>
          Cx.smul (m.area r) (Cx.mul (Cx.conj (g r)) (clapRow m (fun _ => false) U f r))) m.n) := by
  apply toC_injective
  rw [toC_conj, cov_energy m hm ha U f g, cov_energy m hm ha U g f, map_sum]
  refine Finset.sum_congr rfl fun e _ => ?_
  simp only [map_mul, map_add, map_sub, Complex.conj_conj, Complex.conj_ofReal]
  ring

end covariant

end Tdgl.C03
