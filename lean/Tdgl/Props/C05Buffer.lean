/-
  C05 — the per-step record buffer: what a frame row holds after a save window, and that the reader's `dt > 0` mask
  recovers exactly the recorded steps.  Model: Tdgl/RunningState.lean.
-/
import Mathlib.Data.List.Basic
import Mathlib.Tactic.Common
import Mathlib.Algebra.Order.Field.Basic
import Mathlib.Data.Rat.Defs
import Tdgl.RunningState
namespace Tdgl.C05

open Tdgl

variable {K : Type} [Field K] [LinearOrder K] [IsStrictOrderedRing K]

omit [Field K] [LinearOrder K] [IsStrictOrderedRing K] in
private theorem record_step [OfNat K 0] (r : RState K) (v : K) : (r.record v).step = r.step + 1 := rfl

omit [Field K] [LinearOrder K] [IsStrictOrderedRing K] in
private theorem record_buf [OfNat K 0] (r : RState K) (v : K) (i : ℕ) :
    (r.record v).buf i = if i = r.step then v else r.buf i := rfl

omit [Field K] [LinearOrder K] [IsStrictOrderedRing K] in
private theorem foldl_step [OfNat K 0] (vs : List K) (r : RState K) :
    (vs.foldl RState.record r).step = r.step + vs.length := by
  induction vs generalizing r with
  | nil => simp
  | cons v vs ih =>
    rw [List.foldl_cons, ih]
    rw [record_step, List.length_cons]
    omega

omit [Field K] [LinearOrder K] [IsStrictOrderedRing K] in
private theorem foldl_buf [OfNat K 0] (vs : List K) (r : RState K) (i : ℕ) :
    (vs.foldl RState.record r).buf i
      = if r.step ≤ i then (vs[i - r.step]?).getD (r.buf i) else r.buf i := by
  induction vs generalizing r with
  | nil => simp
  | cons v vs ih =>
    rw [List.foldl_cons, ih, record_step, record_buf]
    by_cases h1 : r.step ≤ i
    · by_cases h2 : i = r.step
      · subst h2
        simp
      · have h3 : r.step + 1 ≤ i := by omega
        have h4 : i - r.step = (i - (r.step + 1)) + 1 := by omega
        rw [if_pos h3, if_pos h1, if_neg h2, h4, List.getElem?_cons_succ]
    · have h3 : ¬ r.step + 1 ≤ i := by omega
      have h2 : i ≠ r.step := by omega
      rw [if_neg h3, if_neg h1, if_neg h2]

/-- after a window of `m ≤ width` updates the frame row holds exactly those `m` values followed by zeros -/
theorem C05_buffer_flush (width : ℕ) (vs : List K) (h : vs.length ≤ width) :
    (window vs).flush width = vs ++ List.replicate (width - vs.length) 0 := by
  apply List.ext_getElem
  · simp only [RState.flush, List.length_map, List.length_range, List.length_append,
      List.length_replicate]
    omega
  · intro i h1 h2
    simp only [RState.flush, List.getElem_map, List.getElem_range, window, foldl_buf,
      RState.clear, Nat.zero_le, if_true, Nat.sub_zero]
    by_cases h3 : i < vs.length
    · rw [List.getElem_append_left h3, List.getElem?_eq_getElem h3]
      rfl
    · rw [List.getElem_append_right (by omega), List.getElem_replicate,
        List.getElem?_eq_none (by omega)]
      rfl

/-- the position after a window is the number of updates made in it -/
theorem C05_buffer_step (vs : List K) : (window vs).step = vs.length := by
  simp [window, foldl_step, RState.clear]

private theorem filter_flush (width : ℕ) (w : List K) (hlen : w.length ≤ width)
    (hpos : ∀ v ∈ w, 0 < v) :
    ((window w).flush width).filter (fun x => decide (0 < x)) = w := by
  rw [C05_buffer_flush width w hlen, List.filter_append]
  have h1 : w.filter (fun x => decide (0 < x)) = w := by
    rw [List.filter_eq_self]
    intro a ha
    simpa using hpos a ha
  have h2 : (List.replicate (width - w.length) (0 : K)).filter (fun x => decide (0 < x)) = [] := by
    rw [List.filter_eq_nil_iff]
    intro a ha
    rw [List.mem_replicate] at ha
    simp [ha.2]
  rw [h1, h2, List.append_nil]

/-- the reader recovers, from the rows of all frames, exactly the recorded time steps, once each and in order
    (time steps are positive; every window has at most `width` updates) -/
theorem C05_buffer_roundtrip (width : ℕ) (windows : List (List K))
    (hlen : ∀ w ∈ windows, w.length ≤ width) (hpos : ∀ w ∈ windows, ∀ v ∈ w, 0 < v) :
    readMasked (windows.map (fun w => (window w).flush width)) = windows.flatten := by
  unfold readMasked
  induction windows with
  | nil => simp
  | cons w ws ih =>
    rw [List.map_cons, List.flatten_cons, List.filter_append, List.flatten_cons,
      filter_flush width w (hlen w List.mem_cons_self) (hpos w List.mem_cons_self),
      ih (fun w' hw' => hlen w' (List.mem_cons_of_mem _ hw'))
        (fun w' hw' => hpos w' (List.mem_cons_of_mem _ hw'))]

/-- with a clear that does not zero the cells, a short window after a full one shows stale records:
    the row of the second frame still holds the tail of the first window -/
theorem C05_buffer_keep_counterexample :
    ((windowKeep (window [(1 : ℚ), 2, 3]) [4]).flush 3 = [4, 2, 3]) ∧
    readMasked [(window [(1 : ℚ), 2, 3]).flush 3, (windowKeep (window [(1 : ℚ), 2, 3]) [4]).flush 3] = [1, 2, 3, 4, 2, 3] ∧
    readMasked [(window [(1 : ℚ), 2, 3]).flush 3, (window [(4 : ℚ)]).flush 3] = [1, 2, 3, 4] := by
  decide

end Tdgl.C05

