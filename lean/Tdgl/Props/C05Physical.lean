/-
  C05 ∘ C02 ∘ C12 — the recorded run of the PHYSICAL adaptive update, end to end.

  `Tdgl/Runner.lean` is stated for an abstract update; `Tdgl/AdaptiveRun.lean` is the physical one (retry loop, Euler step on
  all sites, terminal re-imposition, observables, controller), replayed against real `TDGLSolver.update` calls by the driver
  op `astep`.  Here the runner is instantiated with it (`physUpd`: state = fields + controller, record = the time step used),
  and the properties are composed:

    * `C05_physical_frames` — a finished recorded stage of the physical update: frames are labelled 0, k, 2k, … and N, each
      holds the state after exactly `label` adaptive updates at the clock that is the sum of their time steps, the per-step
      records read back are exactly the time steps of updates 0 … N−1 in order;
    * `C05_physical_steps_solve_site_equations` — and, as long as the updates along the trajectory are answered, the record
      of step j is the very `dt` with which every site equation of update j was solved: the state after j + 1 updates
      (the one a frame labelled j + 1 holds) satisfies `SiteOK` against the state after j updates with `dt = record j`.
-/
import Mathlib.Algebra.Order.Field.Basic
import Mathlib.Analysis.SpecialFunctions.Trigonometric.Basic
import Mathlib.Data.List.Basic
import Mathlib.Tactic.Common
import Tdgl.Lemmas.RealInst
import Tdgl.Runner
import Tdgl.AdaptiveRun
import Tdgl.Props.C05
import Tdgl.Props.C02Run

open Tdgl

namespace Tdgl.C05

/-- the physical update as the runner sees it: `(dt, new state, record = dt)`; a raise is outside this model of a
    FINISHED run (stopped runs: `Tdgl/Handler.lean`, C15) and is represented by a zero step that leaves the state alone -/
noncomputable def physUpd (m : FVMesh ℝ) (fixed : ℕ → Bool) (tp : Option (Cx ℝ)) (U : ℕ → Cx ℝ)
    (solve : (ℕ → ℝ) → (ℕ → ℝ)) (eps : ℕ → ℝ) (gamma u : ℝ) (mb : ℕ → ℝ) (o : AdaptOpts ℝ) :
    AState ℝ → ℕ → ℝ → ℝ × AState ℝ × ℝ :=
  fun s i _ =>
    match adaptiveStep m fixed tp U solve eps gamma u mb o i s with
    | some (dt, s') => (dt, s', dt)
    | none => (0, s, 0)

/-- Frames, clock and records of a finished recorded stage of the physical adaptive update. -/
theorem C05_physical_frames (m : FVMesh ℝ) (fixed : ℕ → Bool) (tp : Option (Cx ℝ)) (U : ℕ → Cx ℝ)
    (solve : (ℕ → ℝ) → (ℕ → ℝ)) (eps : ℕ → ℝ) (gamma u : ℝ) (mb : ℕ → ℝ) (o : AdaptOpts ℝ)
    (s0 : AState ℝ) (k : ℕ) (hk : 0 < k) (T : ℝ) (fuel : ℕ) (e : StageEnd ℝ (AState ℝ) ℝ)
    (h : runStage (physUpd m fixed tp U solve eps gamma u mb o) true k T fuel 0 0 s0 [] [] = some e) :
    ∃ N, StopsAt (physUpd m fixed tp U solve eps gamma u mb o) s0 T N ∧
      e.frames.map (·.step) = ((List.range (N+1)).filter (fun i => i % k = 0)) ++ (if N % k = 0 then [] else [N]) ∧
      (∀ f, f ∈ e.frames → f.time = (traj (physUpd m fixed tp U solve eps gamma u mb o) s0 f.step).1 ∧
        f.snap = (traj (physUpd m fixed tp U solve eps gamma u mb o) s0 f.step).2) ∧
      allRecs e.frames = (List.range N).map (recAt (physUpd m fixed tp U solve eps gamma u mb o) s0) := by
  obtain ⟨N, h1, _, _, _, h5, h6, h7⟩ := C05_stage_spec _ s0 k hk T fuel e h
  exact ⟨N, h1, h5, h6, h7⟩

/-- The record of step `j` is the time step with which the site equations of update `j` were solved, and the clock advances
    by it: for every answered update along the trajectory, the state after `j + 1` updates satisfies `SiteOK` against the
    state after `j` updates with `dt = record j`, at every site. -/
theorem C05_physical_steps_solve_site_equations (m : FVMesh ℝ) (fixed : ℕ → Bool) (tp : Option (Cx ℝ)) (U : ℕ → Cx ℝ)
    (solve : (ℕ → ℝ) → (ℕ → ℝ)) (eps : ℕ → ℝ) (gamma u : ℝ) (mb : ℕ → ℝ) (o : AdaptOpts ℝ)
    (s0 : AState ℝ) (j : ℕ)
    (hans : adaptiveStep m fixed tp U solve eps gamma u mb o j
        (traj (physUpd m fixed tp U solve eps gamma u mb o) s0 j).2 ≠ none) :
    let upd := physUpd m fixed tp U solve eps gamma u mb o
    (traj upd s0 (j+1)).1 = (traj upd s0 j).1 + recAt upd s0 j ∧
    adaptiveStep m fixed tp U solve eps gamma u mb o j (traj upd s0 j).2
      = some (recAt upd s0 j, (traj upd s0 (j+1)).2) ∧
    ∀ r, r < m.n → C02.SiteOK m fixed tp U eps gamma u (recAt upd s0 j)
      (traj upd s0 j).2.phys (traj upd s0 (j+1)).2.phys r := by
  intro upd
  cases hstep : adaptiveStep m fixed tp U solve eps gamma u mb o j (traj upd s0 j).2 with
  | none => exact absurd hstep hans
  | some q =>
    obtain ⟨dt, s'⟩ := q
    have hu : upd (traj upd s0 j).2 j (traj upd s0 j).1 = (dt, s', dt) := by
      show physUpd m fixed tp U solve eps gamma u mb o (traj upd s0 j).2 j (traj upd s0 j).1 = _
      unfold physUpd
      simp only [hstep]
    have hrec : recAt upd s0 j = dt := by
      unfold recAt
      simp only [hu]
    have hnext : traj upd s0 (j+1) = ((traj upd s0 j).1 + dt, s') := by
      show (let p := traj upd s0 j; let r := upd p.2 j p.1; (p.1 + r.1, r.2.1)) = _
      simp only [hu]
    refine ⟨by rw [hnext, hrec], by rw [hnext, hrec], ?_⟩
    rw [hnext, hrec]
    exact C02.C02_adaptive_step_sound m fixed tp U solve eps gamma u mb o j _ s' dt hstep

end Tdgl.C05
