/-
  C14 — saved devices, meshes, solutions and parameters load back unchanged.
  Model: Tdgl/H5.lean.  Payloads are opaque, so every statement holds for all contents.
  (The parameter part of the property is C16_pickle_roundtrip in Tdgl/Props/C16.lean.)
-/
import Mathlib.Data.List.Basic
import Mathlib.Data.List.Sort
import Mathlib.Tactic.Common
import Mathlib.Data.String.Basic
import Tdgl.H5

open Tdgl.H5

namespace Tdgl.C14

variable {V : Type}

/-- A layer reads back unchanged, whether or not the optional conductivity is set. -/
theorem C14_layer_roundtrip (l : LayerRec V) : decodeLayer (encodeLayer l) = some l := by
  cases l with | mk a b c d e f g => cases g <;> rfl

/-- A polygon reads back unchanged, whether or not it has a name. -/
theorem C14_polygon_roundtrip (p : PolyRec V) : decodePoly (encodePoly p) = some p := by
  cases p with | mk name mesh points => cases name <;> rfl

private theorem get_cons (e : String × V) (s : Store V) (k : String) :
    Store.get (e :: s) k = if e.1 = k then some e.2 else Store.get s k := by
  unfold Store.get
  rw [List.find?_cons]
  by_cases h : e.1 = k
  · have hb : (e.1 == k) = true := by simpa using h
    rw [hb, if_pos h]; rfl
  · have hb : (e.1 == k) = false := by simpa using h
    rw [hb, if_neg h]

private theorem get_of_not_mem (s : Store V) (k : String) (h : k ∉ s.map (·.1)) :
    Store.get s k = none := by
  induction s with
  | nil => rfl
  | cons e s ih =>
    simp only [List.map_cons, List.mem_cons, not_or] at h
    rw [get_cons, if_neg (fun h' => h.1 h'.symm), ih h.2]

private theorem get_append_of_not_mem (p s : Store V) (k : String) (h : k ∉ p.map (·.1)) :
    Store.get (p ++ s) k = Store.get s k := by
  induction p with
  | nil => rfl
  | cons e p ih =>
    simp only [List.map_cons, List.mem_cons, not_or] at h
    rw [List.cons_append, get_cons, if_neg (fun h' => h.1 h'.symm), ih h.2]

private theorem get_of_mem (s : Store V) (hk : (s.map (·.1)).Nodup) (e : String × V) (he : e ∈ s) :
    Store.get s e.1 = some e.2 := by
  induction s with
  | nil => cases he
  | cons a s ih =>
    simp only [List.map_cons, List.nodup_cons] at hk
    rw [get_cons]
    rcases List.mem_cons.1 he with rfl | hm
    · simp
    · have hne : a.1 ≠ e.1 := fun h => hk.1 (h ▸ List.mem_map_of_mem hm)
      rw [if_neg hne, ih hk.2 hm]

private theorem putOpt_keys (k k' : String) (v : Option V) (h : k' ≠ k) :
    k' ∉ (putOpt k v).map (·.1) := by
  cases v <;> simp [putOpt, h]

private theorem get_putOpt (k : String) (v : Option V) (s : Store V) (h : k ∉ s.map (·.1)) :
    Store.get (putOpt k v ++ s) k = v := by
  cases v with
  | none => exact get_of_not_mem s k h
  | some x => simp [putOpt, get_cons]

/-- Solver options read back unchanged *including the unset ones*: with the repaired loader a `None`
    value (omitted on save) comes back as `None`.  `others` must list each remaining field once, in the
    order of `otherKeys`, and none of them is one of the two optional keys. -/
theorem C14_options_roundtrip (o : OptsRec V)
    (hk : (o.others.map (·.1)).Nodup)
    (h1 : "terminal_psi" ∉ o.others.map (·.1)) (h2 : "output_file" ∉ o.others.map (·.1)) :
    decodeOpts (o.others.map (·.1)) (encodeOpts o) = o := by
  cases o with
  | mk tp op others =>
    simp only at hk h1 h2
    unfold decodeOpts encodeOpts
    congr 1
    · rw [List.append_assoc]
      apply get_putOpt
      rw [List.map_append, List.mem_append, not_or]
      exact ⟨putOpt_keys _ _ _ (by decide), h1⟩
    · rw [List.append_assoc, get_append_of_not_mem _ _ _ (putOpt_keys _ _ _ (by decide))]
      exact get_putOpt _ _ _ h2
    · rw [List.filterMap_map]
      have : ∀ e ∈ others,
          ((fun k => (Store.get (putOpt "terminal_psi" tp ++ putOpt "output_file" op ++ others) k).map
            (fun v => (k, v))) ∘ fun x : String × V => x.1) e = some e := by
        intro e he
        have hne1 : e.1 ≠ "terminal_psi" := fun h => h1 (h ▸ List.mem_map_of_mem he)
        have hne2 : e.1 ≠ "output_file" := fun h => h2 (h ▸ List.mem_map_of_mem he)
        simp only [Function.comp]
        rw [List.append_assoc, get_append_of_not_mem _ _ _ (putOpt_keys _ _ _ hne1),
          get_append_of_not_mem _ _ _ (putOpt_keys _ _ _ hne2), get_of_mem _ hk e he]
        rfl
      rw [List.filterMap_congr this, List.filterMap_some]

/-- The loader of the pinned tree did not: `terminal_psi = None` reloaded as the default. -/
theorem C14_options_old_counterexample (dflt : V) (others : List (String × V)) :
    decodeOptsOld dflt (others.map (·.1)) (encodeOpts ⟨none, none, others⟩) ≠ ⟨none, none, others⟩ := by
  intro h
  have := congrArg OptsRec.terminalPsi h
  simp [decodeOptsOld] at this

/-- A fully stored mesh is restorable and reads back unchanged. -/
theorem C14_mesh_full_roundtrip (recompute : V → V → MeshRec V) (m : MeshRec V) :
    isRestorable (encodeMesh false m) = true ∧ decodeMesh recompute (encodeMesh false m) = some m := by
  exact ⟨rfl, rfl⟩

/-- A compressed mesh is not restorable; it is recomputed from the stored triangulation, and equals the
    original whenever the original was itself computed from its triangulation. -/
theorem C14_mesh_compressed_roundtrip (recompute : V → V → MeshRec V) (m : MeshRec V)
    (hm : recompute m.sites m.elements = m) :
    isRestorable (encodeMesh true m) = false ∧ decodeMesh recompute (encodeMesh true m) = some m := by
  refine ⟨rfl, ?_⟩
  show some (recompute m.sites m.elements) = some m
  rw [hm]

/-- A mesh restored from stored arrays equals the one recomputed from its triangulation. -/
theorem C14_mesh_restored_eq_recomputed (recompute : V → V → MeshRec V) (m : MeshRec V)
    (hm : recompute m.sites m.elements = m) :
    decodeMesh recompute (encodeMesh false m) = decodeMesh recompute (encodeMesh true m) := by
  rw [(C14_mesh_full_roundtrip recompute m).2, (C14_mesh_compressed_roundtrip recompute m hm).2]

/-- `decodeList` inverts the encoding of a list of named polygons. -/
theorem C14_named_polygons_roundtrip (l : List (String × PolyRec V)) :
    decodeList (l.map (fun t => (t.1, encodePoly t.2))) = some l := by
  induction l with
  | nil => rfl
  | cons t l ih =>
    rw [List.map_cons, decodeList, C14_polygon_roundtrip, ih]

private theorem insertSorted_map {A B : Type} (f : A → B) (k : String) (a : A) (l : List (String × A)) :
    insertSorted k (f a) (l.map (fun t => (t.1, f t.2))) =
      (insertSorted k a l).map (fun t => (t.1, f t.2)) := by
  induction l with
  | nil => rfl
  | cons e l ih =>
    simp only [List.map_cons, insertSorted]
    split_ifs
    · rfl
    · rw [ih]; rfl

/-- sorting by key commutes with mapping the payloads -/
theorem C14_sort_map {A B : Type} (f : A → B) (l : List (String × A)) :
    sortByKey (l.map (fun t => (t.1, f t.2))) = (sortByKey l).map (fun t => (t.1, f t.2)) := by
  induction l with
  | nil => rfl
  | cons e l ih =>
    show insertSorted e.1 (f e.2) (sortByKey (l.map _)) = (insertSorted e.1 e.2 (sortByKey l)).map _
    rw [ih, insertSorted_map]

/-- A device reads back as its canonical form (terminals and holes in name order — the order in which
    HDF5 iterates groups, and the order in which the library compares them), with every optional part
    (probe points, names, conductivity) preserved. -/
theorem C14_device_roundtrip (d : DevRec V) : decodeDev (encodeDev d) = some (canonDev d) := by
  unfold decodeDev encodeDev
  simp only [C14_layer_roundtrip, C14_polygon_roundtrip, C14_sort_map, C14_named_polygons_roundtrip]
  rfl


private theorem mem_insertSorted {A : Type} (k : String) (a : A) (l : List (String × A))
    (e : String × A) : e ∈ insertSorted k a l ↔ e = (k, a) ∨ e ∈ l := by
  induction l with
  | nil => simp [insertSorted]
  | cons x l ih =>
    simp only [insertSorted]
    split_ifs
    · simp
    · simp only [List.mem_cons, ih]; tauto

private theorem mem_sortByKey {A : Type} (l : List (String × A)) (e : String × A) :
    e ∈ sortByKey l ↔ e ∈ l := by
  induction l with
  | nil => simp [sortByKey]
  | cons x l ih =>
    show e ∈ insertSorted x.1 x.2 (sortByKey l) ↔ _
    rw [mem_insertSorted, ih, List.mem_cons]

private theorem insertSorted_sorted {A : Type} (k : String) (a : A) (l : List (String × A))
    (hs : l.Pairwise (fun x y => x.1 < y.1)) (hk : ∀ e ∈ l, e.1 ≠ k) :
    (insertSorted k a l).Pairwise (fun x y => x.1 < y.1) := by
  induction l with
  | nil => simp [insertSorted]
  | cons x l ih =>
    rw [List.pairwise_cons] at hs
    simp only [insertSorted]
    split_ifs with h
    · refine List.pairwise_cons.2 ⟨?_, List.pairwise_cons.2 hs⟩
      intro e he
      rcases List.mem_cons.1 he with rfl | he
      · exact h
      · exact lt_trans h (hs.1 e he)
    · have hx : x.1 < k :=
        lt_of_le_of_ne (not_lt.1 h) (hk x List.mem_cons_self)
      refine List.pairwise_cons.2 ⟨?_, ih hs.2 (fun e he => hk e (List.mem_cons_of_mem _ he))⟩
      intro e he
      rcases (mem_insertSorted k a l e).1 he with rfl | he
      · exact hx
      · exact hs.1 e he

private theorem sortByKey_sorted {A : Type} (l : List (String × A)) (hk : (l.map (·.1)).Nodup) :
    (sortByKey l).Pairwise (fun x y => x.1 < y.1) := by
  induction l with
  | nil => simp [sortByKey]
  | cons x l ih =>
    simp only [List.map_cons, List.nodup_cons] at hk
    show (insertSorted x.1 x.2 (sortByKey l)).Pairwise _
    refine insertSorted_sorted _ _ _ (ih hk.2) ?_
    intro e he h
    exact hk.1 (h ▸ List.mem_map_of_mem ((mem_sortByKey l e).1 he))

private theorem sortByKey_of_sorted {A : Type} (l : List (String × A))
    (hs : l.Pairwise (fun x y => x.1 < y.1)) : sortByKey l = l := by
  induction l with
  | nil => rfl
  | cons x l ih =>
    rw [List.pairwise_cons] at hs
    show insertSorted x.1 x.2 (sortByKey l) = x :: l
    rw [ih hs.2]
    cases l with
    | nil => rfl
    | cons y l =>
      simp only [insertSorted]
      rw [if_pos (hs.1 y List.mem_cons_self)]

private theorem sortByKey_idem {A : Type} (l : List (String × A)) (hk : (l.map (·.1)).Nodup) :
    sortByKey (sortByKey l) = sortByKey l :=
  sortByKey_of_sorted _ (sortByKey_sorted l hk)

/-- Without distinct names the original statement is false: `insertSorted` places a new entry *after*
    entries with an equal key, so `sortByKey` reverses a run of equal keys and is not idempotent. -/
theorem sortByKey_not_idempotent_with_duplicate_keys :
    sortByKey (sortByKey [("a", true), ("a", false)]) ≠ sortByKey [("a", true), ("a", false)] := by
  decide

-- STATEMENT CHANGED: added the hypotheses `ht`, `hh` that terminal names and hole names are pairwise
-- distinct (the real `Device.__init__` enforces unique names).  Without them the statement is false:
-- for `terminals = [("a", p), ("a", q)]` with `p ≠ q`, `sortByKey` gives `[("a", q), ("a", p)]` and
-- sorting again gives `[("a", p), ("a", q)]` (see `sortByKey_not_idempotent_with_duplicate_keys`).
/-- Reading back is idempotent: a device that was read back reads back unchanged. -/
theorem C14_device_roundtrip_idempotent (d : DevRec V)
    (ht : (d.terminals.map (·.1)).Nodup) (hh : (d.holes.map (·.1)).Nodup) :
    decodeDev (encodeDev (canonDev d)) = some (canonDev d) := by
  rw [C14_device_roundtrip]
  simp only [canonDev, sortByKey_idem _ ht, sortByKey_idem _ hh]

end Tdgl.C14
