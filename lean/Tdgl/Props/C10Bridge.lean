/-
  Tie B for C10 (inside a run): source pins.  The model `Tdgl/Refresh.lean` was written against exactly this decision in
  `TDGLSolver.update`: the comparison is exact (`array_equal`), the link variables are rebuilt when it reports a change,
  the new potential is stored AFTER the rebuild, and it is stored nowhere else than in `__init__` and at that place of
  `update` (no stage start or helper re-stores it).  `Tdgl/Generated/SourcePins.lean` is regenerated from /repo on every
  run; if the source changes, this file no longer checks and the check searches for a failing input (DESIGN.md §4.2).
-/
import Tdgl.Generated.SourcePins

open Tdgl.Gen

namespace Tdgl.C10

theorem C10_bridge_refresh_lines :
    pin_refresh = "if not xp.array_equal(current_A_applied, self.current_A_applied): operators.set_link_exponents(current_A_applied) || refresh before commit || stored in: __init__: self.current_A_applied = current_A_applied ; update: self.current_A_applied = current_A_applied" := rfl

/-- with screening on, the rebuild from `A_applied + A_induced` comes first in every iteration of the screening loop, then the
    ψ step, then the update of the induced potential (the order `linksUsed` of `C10Screen.lean` models), and the link
    variables are rebuilt from an induced potential nowhere else -/
theorem C10_bridge_screen_refresh_order :
    pin_screen_refresh = "rebuild(applied + induced) -> psi step -> induced update || elsewhere: none" := rfl

end Tdgl.C10
