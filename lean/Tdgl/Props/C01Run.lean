/-
  C01 — "at every recorded step": per-cell continuity carried from the observables of one update (C01.lean) to the whole
  adaptive update and to every frame of a recorded run of the physical update (models: Tdgl/AdaptiveRun.lean,
  Tdgl/Runner.lean instantiated by `C05.physUpd`).

  The sparse solve is external (trusted base): `SolvesPoisson` says that what it returns satisfies the Poisson equation it was
  handed, for the right-hand sides that arise (the harness measures exactly this residual on the real runs).

    * `C01_adaptive_step_balanced` — the state an answered whole update returns is balanced in every cell, whatever state it
      was given (balanced or not: e.g. the initial condition with zero currents, an arbitrary seed);
    * `C01_physical_run_balanced` — along the trajectory of the physical update, the state after `j + 1` updates is balanced
      whenever update `j` was answered;
    * `C01_physical_frames_balanced` — every frame of a finished recorded stage with a label ≥ 1 holds a balanced state
      (frame 0 holds the initial condition, which carries no current at all).
-/
import Mathlib.Algebra.Order.Field.Basic
import Mathlib.Analysis.SpecialFunctions.Trigonometric.Basic
import Mathlib.Tactic.Common
import Tdgl.Lemmas.RealInst
import Tdgl.Props.C01
import Tdgl.Props.C05Physical

open Tdgl

namespace Tdgl.C01

/-- the currents of a solver state are balanced: in every cell the divergence of `Js + Jn` is the injected boundary flux -/
def Balanced (m : FVMesh ℝ) (mb : ℕ → ℝ) (s : MState ℝ) : Prop :=
  ∀ r, r < m.n → divRow m (fun e => s.js e + s.jn e) r = neuRow m mb r

/-- what is assumed of the external sparse solve: its answer satisfies the Poisson equation of the order parameter it is
    called for (static applied potential: `dA/dt = 0`) -/
def SolvesPoisson (m : FVMesh ℝ) (U : ℕ → Cx ℝ) (mb : ℕ → ℝ) (solve : (ℕ → ℝ) → (ℕ → ℝ)) : Prop :=
  ∀ psi : ℕ → Cx ℝ, ∀ r, r < m.n →
    lapRow m (solve (poissonRhs m (superEdge m U psi) (fun _ => 0) mb)) r
      = poissonRhs m (superEdge m U psi) (fun _ => 0) mb r

/-- **An answered whole update returns balanced currents**, from any state. -/
theorem C01_adaptive_step_balanced (m : FVMesh ℝ) (fixed : ℕ → Bool) (tp : Option (Cx ℝ)) (U : ℕ → Cx ℝ)
    (solve : (ℕ → ℝ) → (ℕ → ℝ)) (eps : ℕ → ℝ) (gamma u : ℝ) (mb : ℕ → ℝ) (o : AdaptOpts ℝ) (i : ℕ)
    (s s' : AState ℝ) (dt : ℝ) (hsolve : SolvesPoisson m U mb solve)
    (h : adaptiveStep m fixed tp U solve eps gamma u mb o i s = some (dt, s')) :
    Balanced m mb s'.phys := by
  unfold adaptiveStep at h
  simp only at h
  cases hu : dtUsed o (fun dt => (eulerPinnedFn m fixed tp U s.phys.psi (fun r => absSq (s.phys.psi r))
      s.phys.mu eps gamma u dt).isSome) s.ctl.tentative with
  | none => rw [hu] at h; simp at h
  | some dt1 =>
    rw [hu] at h
    simp only at h
    cases he : eulerPinnedFn m fixed tp U s.phys.psi (fun r => absSq (s.phys.psi r)) s.phys.mu eps gamma u dt1 with
    | none => rw [he] at h; simp at h
    | some out =>
      rw [he] at h
      simp only at h
      injection h with h
      injection h with _ e2
      subst e2
      intro r hr
      simp only [observables]
      exact C01_cell_continuity m _ (fun _ => 0) mb _ (hsolve (fun r => (out r).1)) r hr

/-- Along the trajectory of the physical update the state after `j + 1` updates is balanced whenever update `j` was answered. -/
theorem C01_physical_run_balanced (m : FVMesh ℝ) (fixed : ℕ → Bool) (tp : Option (Cx ℝ)) (U : ℕ → Cx ℝ)
    (solve : (ℕ → ℝ) → (ℕ → ℝ)) (eps : ℕ → ℝ) (gamma u : ℝ) (mb : ℕ → ℝ) (o : AdaptOpts ℝ)
    (hsolve : SolvesPoisson m U mb solve) (s0 : AState ℝ) (j : ℕ)
    (hans : adaptiveStep m fixed tp U solve eps gamma u mb o j
        (traj (C05.physUpd m fixed tp U solve eps gamma u mb o) s0 j).2 ≠ none) :
    Balanced m mb (traj (C05.physUpd m fixed tp U solve eps gamma u mb o) s0 (j+1)).2.phys := by
  obtain ⟨_, hstep, _⟩ := C05.C05_physical_steps_solve_site_equations m fixed tp U solve eps gamma u mb o s0 j hans
  exact C01_adaptive_step_balanced m fixed tp U solve eps gamma u mb o j _ _ _ hsolve hstep

/-- **Every recorded frame with a label ≥ 1 holds balanced currents** (finished recorded stage of the physical update whose
    updates were all answered). -/
theorem C01_physical_frames_balanced (m : FVMesh ℝ) (fixed : ℕ → Bool) (tp : Option (Cx ℝ)) (U : ℕ → Cx ℝ)
    (solve : (ℕ → ℝ) → (ℕ → ℝ)) (eps : ℕ → ℝ) (gamma u : ℝ) (mb : ℕ → ℝ) (o : AdaptOpts ℝ)
    (hsolve : SolvesPoisson m U mb solve) (s0 : AState ℝ) (k : ℕ) (hk : 0 < k) (T : ℝ) (fuel : ℕ)
    (e : StageEnd ℝ (AState ℝ) ℝ)
    (h : runStage (C05.physUpd m fixed tp U solve eps gamma u mb o) true k T fuel 0 0 s0 [] [] = some e)
    (hans : ∀ j, adaptiveStep m fixed tp U solve eps gamma u mb o j
        (traj (C05.physUpd m fixed tp U solve eps gamma u mb o) s0 j).2 ≠ none)
    (f : Frame ℝ (AState ℝ) ℝ) (hf : f ∈ e.frames) (hlabel : 1 ≤ f.step) :
    Balanced m mb f.snap.phys := by
  obtain ⟨N, _, _, hon, _⟩ := C05.C05_physical_frames m fixed tp U solve eps gamma u mb o s0 k hk T fuel e h
  rw [(hon f hf).2]
  obtain ⟨j, hj⟩ : ∃ j, f.step = j + 1 := ⟨f.step - 1, by omega⟩
  rw [hj]
  exact C01_physical_run_balanced m fixed tp U solve eps gamma u mb o hsolve s0 j (hans j)

/-- non-vacuity of `SolvesPoisson`: on the two-site mesh with one edge (no boundary edges, so no injection) the solve
    "ground site 0, put the right-hand side of site 0 on site 1" answers every Poisson problem that arises, for every link
    variable — the hypothesis of the theorems above is met by a concrete mesh and solver -/
example (U : ℕ → Cx ℝ) :
    SolvesPoisson (⟨2, 1, fun _ => 0, fun _ => 1, fun _ => 1, fun _ => 1, fun _ => 1, 0, fun _ => 0⟩ : FVMesh ℝ) U (fun _ => 0)
      (fun rhs r => if r = 0 then 0 else rhs 0) := by
  intro psi r hr
  have hr' : r = 0 ∨ r = 1 := by
    simp only at hr
    omega
  rcases hr' with rfl | rfl <;>
    simp [lapRow, poissonRhs, divRow, neuRow, sumTo, FVMesh.w]

end Tdgl.C01
