/-
  C07 — mesh geometry is the Delaunay/Voronoi dual of the device domain.   Model: Tdgl/Geometry.lean.
  What is proved is the geometry the repo computes itself (circumcentres, kites, edge geometry, the
  Euler relation bookkeeping); the triangulation comes from the external mesher and is validated at run time.
-/
import Mathlib.Algebra.Order.Field.Basic
import Mathlib.Tactic.Ring
import Mathlib.Tactic.Linarith
import Mathlib.Tactic.FieldSimp
import Mathlib.Tactic.LinearCombination
import Tdgl.Geometry

open Tdgl

namespace Tdgl.C07

variable {K : Type} [Field K]

private theorem denom_ne (A B C : Pt K) (h : triArea2 A B C ≠ 0) (h2 : (2 : K) ≠ 0) :
    2 * (B.1 - A.1) * (C.2 - A.2) - 2 * (B.2 - A.2) * (C.1 - A.1) ≠ 0 := by
  have e : 2 * (B.1 - A.1) * (C.2 - A.2) - 2 * (B.2 - A.2) * (C.1 - A.1) = 2 * triArea2 A B C := by
    simp only [triArea2]; ring
  rw [e]
  exact mul_ne_zero h2 h

private theorem triArea2_cyclic (A B C : Pt K) : triArea2 B C A = triArea2 A B C := by
  simp only [triArea2]; ring

/-- For a non-degenerate triangle the coded circumcentre is equidistant from the three vertices
    (it is the Voronoi vertex of the triangle). -/
theorem C07_circumcentre_equidistant (A B C : Pt K) (h : triArea2 A B C ≠ 0) (h2 : (2 : K) ≠ 0) :
    dist2 (circumcentre A B C) A = dist2 (circumcentre A B C) B ∧
    dist2 (circumcentre A B C) A = dist2 (circumcentre A B C) C := by
  have hD := denom_ne A B C h h2
  obtain ⟨a1, a2⟩ := A
  obtain ⟨b1, b2⟩ := B
  obtain ⟨c1, c2⟩ := C
  simp only [circumcentre, dist2] at hD ⊢
  obtain ⟨D, hDdef⟩ : ∃ D, D = 2 * (b1 - a1) * (c2 - a2) - 2 * (b2 - a2) * (c1 - a1) := ⟨_, rfl⟩
  rw [← hDdef] at hD ⊢
  constructor
  · field_simp
    subst hDdef
    ring
  · field_simp
    subst hDdef
    ring

/-- The circumcentre does not depend on which vertex is listed first (cyclic relabelling). -/
theorem C07_circumcentre_cyclic (A B C : Pt K) (h : triArea2 A B C ≠ 0) (h2 : (2 : K) ≠ 0) :
    circumcentre A B C = circumcentre B C A := by
  have hD := denom_ne A B C h h2
  obtain ⟨a1, a2⟩ := A
  obtain ⟨b1, b2⟩ := B
  obtain ⟨c1, c2⟩ := C
  simp only [circumcentre] at hD ⊢
  have e : 2 * (c1 - b1) * (a2 - b2) - 2 * (c2 - b2) * (a1 - b1)
      = 2 * (b1 - a1) * (c2 - a2) - 2 * (b2 - a2) * (c1 - a1) := by ring
  rw [e]
  obtain ⟨D, hDdef⟩ : ∃ D, D = 2 * (b1 - a1) * (c2 - a2) - 2 * (b2 - a2) * (c1 - a1) := ⟨_, rfl⟩
  rw [← hDdef] at hD ⊢
  refine Prod.ext ?_ ?_
  · simp only
    field_simp
    subst hDdef
    ring
  · simp only
    field_simp
    subst hDdef
    ring

/-- The three kites (site, two edge midpoints, circumcentre) of a triangle tile it: their signed areas
    add up to the triangle's, so the cell areas sum to the area of the triangulated domain. -/
theorem C07_kites_tile_triangle (A B C : Pt K) (h : triArea2 A B C ≠ 0) (h2 : (2 : K) ≠ 0) :
    kite2 A B C + kite2 B C A + kite2 C A B = triArea2 A B C := by
  have e1 : circumcentre B C A = circumcentre A B C := (C07_circumcentre_cyclic A B C h h2).symm
  have e2 : circumcentre C A B = circumcentre A B C := by
    rw [← e1]
    exact (C07_circumcentre_cyclic B C A (by rw [triArea2_cyclic]; exact h) h2).symm
  simp only [kite2, e1, e2]
  generalize circumcentre A B C = O
  simp only [triArea2, mid]
  field_simp
  ring

/-- The dual edge lies on the perpendicular bisector: the circumcentres of the triangles on both sides of
    an edge and the edge midpoint are each equidistant from the edge's two end points. -/
theorem C07_dual_on_bisector (A B C : Pt K) (h : triArea2 A B C ≠ 0) (h2 : (2 : K) ≠ 0) :
    dist2 (circumcentre A B C) A = dist2 (circumcentre A B C) B ∧ dist2 (mid A B) A = dist2 (mid A B) B := by
  refine ⟨(C07_circumcentre_equidistant A B C h h2).1, ?_⟩
  simp only [dist2, mid]
  field_simp
  ring

/-- Edge geometry is that of the site pair: centre = midpoint, and the squared length is `d · d` with
    `d = r_j − r_i`; the midpoint splits the edge into two equal halves. -/
theorem C07_edge_geometry (A B : Pt K) (h2 : (2 : K) ≠ 0) :
    (mid A B).1 - A.1 = (B.1 - A.1) / 2 ∧ (mid A B).2 - A.2 = (B.2 - A.2) / 2 ∧
    dist2 A B = (B.1 - A.1) * (B.1 - A.1) + (B.2 - A.2) * (B.2 - A.2) ∧
    4 * dist2 (mid A B) A = dist2 A B := by
  simp only [dist2, mid]
  refine ⟨?_, ?_, ?_, ?_⟩
  · field_simp; ring
  · field_simp; ring
  · ring
  · field_simp; ring

/-- The kite of a vertex is split by the segment to the circumcentre into two right-angled triangles on
    the half edges: its (doubled, signed) area is `½ (AB × AO) + ½ (AO × AC)`, i.e. half base times
    the signed dual half-lengths — the quantity the hull-based cell area reproduces for
    locally Delaunay cells. -/
theorem C07_kite_formula (A B C : Pt K) (h2 : (2 : K) ≠ 0) :
    kite2 A B C = (triArea2 A B (circumcentre A B C) + triArea2 A (circumcentre A B C) C) / 2 := by
  simp only [kite2]
  generalize circumcentre A B C = O
  simp only [triArea2, mid]
  field_simp
  ring

end Tdgl.C07
