/-
  C09 — simulations are deterministic: the part that is logic.
  Model: Tdgl/Schedule.lean.  The parallel kernels write cell `i` only in iteration `i` and read only
  inputs, so every execution order (and every initial content of the `np.empty` buffer) gives the same
  array on the written cells.
-/
import Mathlib.Data.List.Basic
import Mathlib.Data.List.Induction
import Mathlib.Data.List.Perm.Basic
import Mathlib.Tactic.Common
import Tdgl.Schedule

open Tdgl

namespace Tdgl.C09

variable {K : Type}

private theorem run_append (f : ℕ → K) (s : List ℕ) (a : ℕ) (buf : ℕ → K) (j : ℕ) :
    runSchedule f (s ++ [a]) buf j = if j = a then f a else runSchedule f s buf j := by
  simp only [runSchedule, List.foldl_append, List.foldl_cons, List.foldl_nil]

/-- After running any schedule, a cell whose index occurs in the schedule holds `f i`, whatever the
    buffer contained before and whatever else ran. -/
theorem C09_written_cell (f : ℕ → K) (sched : List ℕ) (buf : ℕ → K) (i : ℕ) (hi : i ∈ sched) :
    runSchedule f sched buf i = f i := by
  induction sched using List.reverseRecOn with
  | nil => simp at hi
  | append_singleton s a ih =>
    rw [run_append]
    by_cases h : i = a
    · subst h; simp
    · rw [if_neg h]
      apply ih
      simpa [h] using hi

/-- A cell that no iteration writes keeps its previous content. -/
theorem C09_unwritten_cell (f : ℕ → K) (sched : List ℕ) (buf : ℕ → K) (i : ℕ) (hi : i ∉ sched) :
    runSchedule f sched buf i = buf i := by
  induction sched using List.reverseRecOn with
  | nil => rfl
  | append_singleton s a ih =>
    rw [run_append]
    have h : i ≠ a := by
      intro h; apply hi; simp [h]
    rw [if_neg h]
    apply ih
    intro hm; apply hi; simp [hm]

/-- Schedule independence: two schedules that are permutations of each other (any distribution of the
    outer loop over threads, any interleaving) produce the same array from the same buffer. -/
theorem C09_schedule_independent (f : ℕ → K) (s₁ s₂ : List ℕ) (h : s₁.Perm s₂) (buf : ℕ → K) :
    runSchedule f s₁ buf = runSchedule f s₂ buf := by
  funext j
  by_cases hj : j ∈ s₁
  · rw [C09_written_cell f s₁ buf j hj, C09_written_cell f s₂ buf j (h.mem_iff.mp hj)]
  · rw [C09_unwritten_cell f s₁ buf j hj,
      C09_unwritten_cell f s₂ buf j (fun hm => hj (h.mem_iff.mpr hm))]

/-- The `np.empty` buffer is fully overwritten: if the schedule covers `0 … n−1`, the first `n` cells do
    not depend on the initial content of the buffer. -/
theorem C09_buffer_overwritten (f : ℕ → K) (sched : List ℕ) (n : ℕ) (hcover : ∀ i, i < n → i ∈ sched)
    (buf buf' : ℕ → K) (i : ℕ) (hi : i < n) :
    runSchedule f sched buf i = runSchedule f sched buf' i := by
  rw [C09_written_cell f sched buf i (hcover i hi), C09_written_cell f sched buf' i (hcover i hi)]

/-- In particular every schedule covering the range equals the sequential loop on the written cells. -/
theorem C09_equals_sequential (f : ℕ → K) (sched : List ℕ) (n : ℕ) (hcover : ∀ i, i < n → i ∈ sched)
    (buf : ℕ → K) (i : ℕ) (hi : i < n) :
    runSchedule f sched buf i = runSchedule f (List.range n) buf i := by
  rw [C09_written_cell f sched buf i (hcover i hi),
    C09_written_cell f (List.range n) buf i (List.mem_range.mpr hi)]

end Tdgl.C09
