/-
  C19 (and C14) — device equality and the seed-solution guard.  Model: Tdgl/DeviceEq.lean.
  `Device.__eq__` compares holes and terminals as name-sorted lists; the theorems say that this is equality up to
  the order in which holes / terminals were listed and nothing weaker: in particular a device with one more or one
  fewer hole or terminal is never equal (a "compare the common prefix" implementation would accept it), and a
  seed solution from such a device is rejected before anything is written.
-/
import Mathlib.Data.List.Perm.Basic
import Mathlib.Data.List.Sort
import Mathlib.Data.String.Basic
import Mathlib.Tactic.Common
import Tdgl.DeviceEq
import Tdgl.Props.C14

open Tdgl Tdgl.H5

namespace Tdgl.C19

variable {V : Type} [DecidableEq V]

/-! ### helper lemmas on `insertSorted` / `sortByKey` -/

private theorem insertSorted_perm {A : Type} (k : String) (a : A) (l : List (String × A)) :
    (insertSorted k a l).Perm ((k, a) :: l) := by
  induction l with
  | nil => exact List.Perm.refl _
  | cons x l ih =>
    simp only [insertSorted]
    split_ifs
    · exact List.Perm.refl _
    · exact (List.Perm.cons x ih).trans (List.Perm.swap _ _ _)

private theorem mem_insertSorted {A : Type} (k : String) (a : A) (l : List (String × A))
    (e : String × A) : e ∈ insertSorted k a l ↔ e = (k, a) ∨ e ∈ l := by
  rw [(insertSorted_perm k a l).mem_iff, List.mem_cons]

private theorem insertSorted_sorted {A : Type} (k : String) (a : A) (l : List (String × A))
    (hs : l.Pairwise (fun x y => x.1 < y.1)) (hk : ∀ e ∈ l, e.1 ≠ k) :
    (insertSorted k a l).Pairwise (fun x y => x.1 < y.1) := by
  induction l with
  | nil => simp [insertSorted]
  | cons x l ih =>
    rw [List.pairwise_cons] at hs
    simp only [insertSorted]
    split_ifs with h
    · refine List.pairwise_cons.2 ⟨?_, List.pairwise_cons.2 hs⟩
      intro e he
      rcases List.mem_cons.1 he with rfl | he
      · exact h
      · exact lt_trans h (hs.1 e he)
    · have hx : x.1 < k :=
        lt_of_le_of_ne (not_lt.1 h) (hk x List.mem_cons_self)
      refine List.pairwise_cons.2 ⟨?_, ih hs.2 (fun e he => hk e (List.mem_cons_of_mem _ he))⟩
      intro e he
      rcases (mem_insertSorted k a l e).1 he with rfl | he
      · exact hx
      · exact hs.1 e he

/-- sorting by name only permutes the list -/
theorem C19_sort_perm {A : Type} (l : List (String × A)) : (sortByKey l).Perm l := by
  induction l with
  | nil => exact List.Perm.refl _
  | cons x l ih =>
    show (insertSorted x.1 x.2 (sortByKey l)).Perm (x :: l)
    exact (insertSorted_perm x.1 x.2 (sortByKey l)).trans (List.Perm.cons x ih)

private theorem sortByKey_sorted {A : Type} (l : List (String × A)) (hk : (l.map (·.1)).Nodup) :
    (sortByKey l).Pairwise (fun x y => x.1 < y.1) := by
  induction l with
  | nil => simp [sortByKey]
  | cons x l ih =>
    simp only [List.map_cons, List.nodup_cons] at hk
    show (insertSorted x.1 x.2 (sortByKey l)).Pairwise _
    refine insertSorted_sorted _ _ _ (ih hk.2) ?_
    intro e he h
    exact hk.1 (h ▸ List.mem_map_of_mem ((C19_sort_perm l).mem_iff.1 he))

/-- insertion-sorting two permutations of a list with pairwise distinct keys gives the same list -/
private theorem sortByKey_eq_of_perm {A : Type} (l1 l2 : List (String × A)) (hp : l1.Perm l2)
    (hn : (l1.map (·.1)).Nodup) : sortByKey l1 = sortByKey l2 := by
  have hn2 : (l2.map (·.1)).Nodup := (hp.map _).nodup_iff.1 hn
  refine List.Perm.eq_of_pairwise (le := fun x y => x.1 < y.1) ?_ (sortByKey_sorted l1 hn)
    (sortByKey_sorted l2 hn2) (((C19_sort_perm l1).trans hp).trans (C19_sort_perm l2).symm)
  intro a b _ _ hab hba
  exact absurd hba (lt_asymm hab)

private theorem namedEq_iff (l1 l2 : List (String × PolyRec V)) :
    namedEq l1 l2 = true ↔ sortByKey l1 = sortByKey l2 := by
  unfold namedEq
  exact decide_eq_true_iff

/-- name-sorted comparison accepts only lists with the same entries (in particular the same number) -/
theorem C19_namedEq_perm (l1 l2 : List (String × PolyRec V)) (h : namedEq l1 l2 = true) : l1.Perm l2 := by
  have h' := (namedEq_iff l1 l2).1 h
  exact ((C19_sort_perm l1).symm.trans (h' ▸ List.Perm.refl _)).trans (C19_sort_perm l2)

theorem C19_namedEq_length (l1 l2 : List (String × PolyRec V)) (h : namedEq l1 l2 = true) :
    l1.length = l2.length :=
  (C19_namedEq_perm l1 l2 h).length_eq

/-- with distinct names the converse holds: the order of listing does not matter -/
theorem C19_namedEq_of_perm (l1 l2 : List (String × PolyRec V)) (hp : l1.Perm l2)
    (hn : (l1.map (·.1)).Nodup) : namedEq l1 l2 = true :=
  (namedEq_iff l1 l2).2 (sortByKey_eq_of_perm l1 l2 hp hn)

private theorem devEq_iff (a b : DevRec V) :
    devEq a b = true ↔
      a.name = b.name ∧ a.layer = b.layer ∧ a.film = b.film ∧ namedEq a.holes b.holes = true ∧
        namedEq a.terminals b.terminals = true ∧ a.probePoints = b.probePoints ∧ a.lengthUnits = b.lengthUnits := by
  unfold devEq
  simp only [Bool.and_eq_true, decide_eq_true_eq]
  tauto

/-- equal devices agree in every component (holes and terminals up to order) -/
theorem C19_devEq_sound (a b : DevRec V) (h : devEq a b = true) :
    a.name = b.name ∧ a.layer = b.layer ∧ a.film = b.film ∧ a.holes.Perm b.holes ∧ a.terminals.Perm b.terminals
      ∧ a.probePoints = b.probePoints ∧ a.lengthUnits = b.lengthUnits := by
  obtain ⟨h1, h2, h3, h4, h5, h6, h7⟩ := (devEq_iff a b).1 h
  exact ⟨h1, h2, h3, C19_namedEq_perm _ _ h4, C19_namedEq_perm _ _ h5, h6, h7⟩

/-- ... and conversely (distinct hole names, distinct terminal names: what the Device constructor enforces) -/
theorem C19_devEq_complete (a b : DevRec V)
    (h : a.name = b.name ∧ a.layer = b.layer ∧ a.film = b.film ∧ a.holes.Perm b.holes ∧ a.terminals.Perm b.terminals
      ∧ a.probePoints = b.probePoints ∧ a.lengthUnits = b.lengthUnits)
    (hh : (a.holes.map (·.1)).Nodup) (ht : (a.terminals.map (·.1)).Nodup) : devEq a b = true := by
  obtain ⟨h1, h2, h3, h4, h5, h6, h7⟩ := h
  exact (devEq_iff a b).2
    ⟨h1, h2, h3, C19_namedEq_of_perm _ _ h4 hh, C19_namedEq_of_perm _ _ h5 ht, h6, h7⟩

theorem C19_devEq_refl (a : DevRec V) : devEq a a = true :=
  (devEq_iff a a).2 ⟨rfl, rfl, rfl, (namedEq_iff _ _).2 rfl, (namedEq_iff _ _).2 rfl, rfl, rfl⟩

private theorem devEq_symm_imp (a b : DevRec V) (h : devEq a b = true) : devEq b a = true := by
  obtain ⟨h1, h2, h3, h4, h5, h6, h7⟩ := (devEq_iff a b).1 h
  exact (devEq_iff b a).2 ⟨h1.symm, h2.symm, h3.symm, (namedEq_iff _ _).2 ((namedEq_iff _ _).1 h4).symm,
    (namedEq_iff _ _).2 ((namedEq_iff _ _).1 h5).symm, h6.symm, h7.symm⟩

theorem C19_devEq_symm (a b : DevRec V) : devEq a b = devEq b a := by
  rw [Bool.eq_iff_iff]
  exact ⟨devEq_symm_imp a b, devEq_symm_imp b a⟩

private theorem length_insert_ne {A : Type} (x : A) (pre post : List A) :
    (pre ++ post).length ≠ (pre ++ x :: post).length := by
  simp only [List.length_append, List.length_cons]
  omega

/-- one more (or one fewer) hole or terminal: never equal, whatever the extra one is called -/
theorem C19_extra_hole_not_equal (a : DevRec V) (h : String × PolyRec V) (pre post : List (String × PolyRec V))
    (ha : a.holes = pre ++ post) :
    devEq a { a with holes := pre ++ h :: post } = false ∧ devEq { a with holes := pre ++ h :: post } a = false := by
  have key : devEq a { a with holes := pre ++ h :: post } = false := by
    rw [Bool.eq_false_iff]
    intro he
    have hp : a.holes.Perm (pre ++ h :: post) := (C19_devEq_sound _ _ he).2.2.2.1
    rw [ha] at hp
    exact length_insert_ne h pre post hp.length_eq
  exact ⟨key, (C19_devEq_symm _ _).trans key⟩

theorem C19_extra_terminal_not_equal (a : DevRec V) (t : String × PolyRec V) (pre post : List (String × PolyRec V))
    (ha : a.terminals = pre ++ post) :
    devEq a { a with terminals := pre ++ t :: post } = false ∧ devEq { a with terminals := pre ++ t :: post } a = false := by
  have key : devEq a { a with terminals := pre ++ t :: post } = false := by
    rw [Bool.eq_false_iff]
    intro he
    have hp : a.terminals.Perm (pre ++ t :: post) := (C19_devEq_sound _ _ he).2.2.2.2.1
    rw [ha] at hp
    exact length_insert_ne t pre post hp.length_eq
  exact ⟨key, (C19_devEq_symm _ _).trans key⟩

/-- the seed guard lets a seed through exactly when its device equals the simulated one -/
theorem C19_seed_guard (s d : DevRec V) : seedGuard s d = none ↔ devEq s d = true := by
  unfold seedGuard
  cases devEq s d <;> simp

/-- a seed from a device with an extra hole is rejected -/
theorem C19_seed_extra_hole_rejected (a : DevRec V) (h : String × PolyRec V) (pre post : List (String × PolyRec V))
    (ha : a.holes = pre ++ post) : seedGuard a { a with holes := pre ++ h :: post } ≠ none := by
  intro hg
  have h1 := (C19_seed_guard _ _).1 hg
  rw [(C19_extra_hole_not_equal a h pre post ha).1] at h1
  exact Bool.false_ne_true h1

/-- C14: a device read back from its stored form equals the original (distinct names) -/
theorem C19_roundtrip_equal (d : DevRec V) (hh : (d.holes.map (·.1)).Nodup) (ht : (d.terminals.map (·.1)).Nodup) :
    (decodeDev (encodeDev d)).map (devEq d) = some true := by
  rw [Tdgl.C14.C14_device_roundtrip, Option.map_some]
  congr 1
  exact C19_devEq_complete d (canonDev d)
    ⟨rfl, rfl, rfl, (C19_sort_perm d.holes).symm, (C19_sort_perm d.terminals).symm, rfl, rfl⟩ hh ht

/-- non-vacuity: two terminals listed in either order are equal; dropping one is not -/
example :
    let p : PolyRec Nat := ⟨some 1, 0, 7⟩
    let q : PolyRec Nat := ⟨some 2, 0, 9⟩
    let L : LayerRec Nat := ⟨1, 2, 3, 4, 5, 6, none⟩
    let a : DevRec Nat := ⟨0, 0, L, p, [("source", p), ("drain", q)], [], none⟩
    let b : DevRec Nat := { a with terminals := [("drain", q), ("source", p)] }
    let c : DevRec Nat := { a with terminals := [("drain", q)] }
    devEq a b = true ∧ devEq a c = false ∧ devEq c a = false := by
  intro p q L a b c
  refine ⟨?_, ?_, ?_⟩
  · exact C19_devEq_complete a b
      ⟨rfl, rfl, rfl, List.Perm.refl _, List.Perm.swap _ _ _, rfl, rfl⟩ (by decide) (by decide)
  · exact (C19_extra_terminal_not_equal c ("source", p) [] [("drain", q)] rfl).2
  · exact (C19_extra_terminal_not_equal c ("source", p) [] [("drain", q)] rfl).1

end Tdgl.C19
