/-
  C01 (terminal boundary values) — "the current injected at a terminal is the requested one": for every sequence
  of requested terminal current densities (constant, ramped, tiny, changing by any amount, however small), after
  every call of `update_mu_boundary` the value held on the boundary edges of each terminal is the density requested
  by that very call. The skip-if-unchanged shortcut is sound exactly because the comparison is exact: with any
  tolerance in it the statement fails (last theorem, a concrete counterexample).
-/
import Tdgl.MuBoundary

open Tdgl

namespace Tdgl.C01

variable {K : Type} [DecidableEq K]

/-- one call: whatever was remembered, afterwards `cached = req`; and `written = req` provided `written = cached` before -/
theorem C01_boundary_step (s : MuB K) (req : Nat → K) (h : ∀ t, s.written t = s.cached t) (t : Nat) :
    (muBoundaryStep s req).written t = req t ∧ (muBoundaryStep s req).cached t = req t := by
  unfold muBoundaryStep muBoundaryWith
  by_cases hd : req t = s.cached t
  · simp [hd, h t]
  · simp [hd]

/-- the invariant `written = cached` after any history -/
theorem C01_boundary_inv (reqs : List (Nat → K)) (s : MuB K) (h : ∀ t, s.written t = s.cached t) (t : Nat) :
    (reqs.foldl muBoundaryStep s).written t = (reqs.foldl muBoundaryStep s).cached t := by
  induction reqs generalizing s with
  | nil => exact h t
  | cons r rs ih =>
    apply ih
    intro t'
    obtain ⟨h1, h2⟩ := C01_boundary_step s r h t'
    rw [h1, h2]

/-- **the boundary value is the requested one**: after any history of requests followed by `req`, every terminal
    holds `req t` — for every run, every terminal, every sequence of requests -/
theorem C01_boundary_is_requested [OfNat K 0] (reqs : List (Nat → K)) (req : Nat → K) (t : Nat) :
    (muBoundaryRun (reqs ++ [req])).written t = req t := by
  unfold muBoundaryRun
  rw [List.foldl_append]
  simp only [List.foldl_cons, List.foldl_nil]
  exact (C01_boundary_step _ req (fun t' => C01_boundary_inv reqs MuB.init (fun _ => rfl) t') t).1

/-- with the densities computed from the terminal currents as `update_mu_boundary` does -/
theorem C01_boundary_density {F : Type} [DecidableEq F] [OfNat F 0] [OfNat F 1] [Neg F] [Add F] [Mul F] [Div F]
    (T : Nat) (tlen : Nat → F) (curs : List (Nat → F)) (cur : Nat → F) (t : Nat) :
    (muBoundaryRun ((curs.map (fun c => terminalDensity T c tlen)) ++ [terminalDensity T cur tlen])).written t
      = terminalDensity T cur tlen t :=
  C01_boundary_is_requested _ _ t

/-- a comparison with a tolerance in it is NOT sound: over the integers, "differs iff |a − b| > 1" leaves the
    boundary at 0 when 1 is requested (the small-bias case) -/
theorem C01_boundary_tolerance_unsound :
    ∃ (reqs : List (Nat → Int)) (req : Nat → Int) (t : Nat),
      ((reqs ++ [req]).foldl (muBoundaryWith (fun a b => decide ((a - b).natAbs > 1))) MuB.init).written t ≠ req t :=
  ⟨[], fun _ => 1, 0, by decide⟩

/-- non-vacuity: a concrete history (constant, then changed, then repeated, then tiny) -/
example : (muBoundaryRun ([fun _ => (5 : Int), fun _ => 5, fun t => if t = 0 then 7 else -7] ++ [fun _ => 1])).written 3 = 1 := by
  decide

end Tdgl.C01
