/-
  C04 (time gauge) — the additive constant of the scalar potential and the global phase of ψ are gauge:
      χ(t) = −c t :   μ → μ + c,   ψ → e^{iφ} ψ  (one φ for all sites).
  The singular Neumann Poisson solve leaves that constant arbitrary (`solve'` below differs from `solve` by an
  arbitrary right-hand-side-dependent constant).  Statement: an ADAPTIVE run — retry loop, accepted time steps,
  windowed rule fed with max |Δ|ψ|²| — uses the same time steps and produces the same |ψ|², Js, Jn at every
  step, whatever constants the solver returns; ψ differs by a global phase, μ by a constant.   (K := ℝ)
-/
import Mathlib.Analysis.SpecialFunctions.Trigonometric.Basic
import Mathlib.Tactic.Ring
import Mathlib.Tactic.Linarith
import Mathlib.Tactic.LinearCombination
import Tdgl.Lemmas.Sums
import Tdgl.Lemmas.RealInst
import Tdgl.Operators
import Tdgl.Update
import Tdgl.Adaptive
import Tdgl.AdaptiveRun
import Tdgl.Props.C04

open Finset Tdgl Tdgl.C04

namespace Tdgl.C04

/-- ψ multiplied by one global phase -/
noncomputable def phasePsi (phi : ℝ) (psi : ℕ → Cx ℝ) (r : ℕ) : Cx ℝ := Cx.mul (expI phi) (psi r)

/-- two solver states related by a time gauge: global phase `phi` on ψ, constant `c` on μ, currents equal -/
def TimeRel (phi c : ℝ) (s s' : MState ℝ) : Prop :=
  s'.psi = phasePsi phi s.psi ∧ s'.mu = (fun r => s.mu r + c) ∧ s'.js = s.js ∧ s'.jn = s.jn

/-- related for some phase and some constant -/
def TimeRelE (s s' : MState ℝ) : Prop := ∃ phi c, TimeRel phi c s s'

/-- the terminal value is compatible with a global phase: unset, or zero (the default normal-metal contact) -/
def PhaseFree (tp : Option (Cx ℝ)) : Prop := tp = none ∨ tp = some ⟨0, 0⟩

/-! ### helpers (re-proved here: the ones in `Tdgl.Props.C04` are private) -/

private theorem toC_expI (x : ℝ) : toC (expI x) = Complex.exp ((x : ℂ) * Complex.I) := by
  apply Complex.ext
  · simp [expI, toC, Complex.exp_re]
  · simp [expI, toC, Complex.exp_im]

private theorem toC_expNegI (x : ℝ) :
    toC (Cx.expNegI x) = Complex.exp (-(x : ℂ) * Complex.I) := by
  apply Complex.ext
  · simp [Cx.expNegI, toC, Complex.exp_re]
  · simp [Cx.expNegI, toC, Complex.exp_im]

private theorem expI_normSq (x : ℝ) : Real.cos x * Real.cos x + Real.sin x * Real.sin x = 1 := by
  have := Real.cos_sq_add_sin_sq x
  nlinarith [this]

private theorem csumTo_mul (c : Cx ℝ) (f : ℕ → Cx ℝ) (n : ℕ) :
    csumTo (fun e => Cx.mul c (f e)) n = Cx.mul c (csumTo f n) := by
  induction n with
  | zero => apply Cx.ext' <;> simp [csumTo, Cx.mul]
  | succ n ih =>
    simp only [csumTo, ih]
    apply Cx.ext' <;> simp only [Cx.add, Cx.mul] <;> ring

private theorem csumTo_eq_zero (f : ℕ → Cx ℝ) (n : ℕ) (h : ∀ e, e < n → f e = ⟨0, 0⟩) :
    csumTo f n = ⟨0, 0⟩ := by
  induction n with
  | zero => rfl
  | succ n ih =>
    simp only [csumTo, ih (fun e he => h e (Nat.lt_succ_of_lt he)), h n (Nat.lt_succ_self n)]
    apply Cx.ext' <;> simp [Cx.add]

private theorem mul_conj_phase (x : ℝ) (a g : Cx ℝ) :
    Cx.mul (Cx.conj (Cx.mul (expI x) a)) (Cx.mul (expI x) g) = Cx.mul (Cx.conj a) g := by
  have h := expI_normSq x
  apply Cx.ext'
  · simp only [Cx.mul, Cx.conj, expI]
    linear_combination (a.re * g.re + a.im * g.im) * h
  · simp only [Cx.mul, Cx.conj, expI]
    linear_combination (a.re * g.im - a.im * g.re) * h

private theorem normSq_phase (x : ℝ) (z : Cx ℝ) :
    Cx.normSq (Cx.mul (expI x) z) = Cx.normSq z := by
  have h := expI_normSq x
  simp only [Cx.normSq, Cx.mul, expI]
  linear_combination (z.re * z.re + z.im * z.im) * h

private theorem absSq_phase (x : ℝ) (z : Cx ℝ) : absSq (Cx.mul (expI x) z) = absSq z := by
  unfold absSq
  rw [normSq_phase]

private theorem dot_phase (x : ℝ) (z w : Cx ℝ) :
    (Cx.mul (expI x) w).re * (Cx.mul (expI x) z).re + (Cx.mul (expI x) w).im * (Cx.mul (expI x) z).im
      = w.re * z.re + w.im * z.im := by
  have h := expI_normSq x
  simp only [Cx.mul, expI]
  linear_combination (w.re * z.re + w.im * z.im) * h

private theorem solveSite_phase (x : ℝ) (z w : Cx ℝ) :
    solveSite (Cx.mul (expI x) z) (Cx.mul (expI x) w)
      = (solveSite z w).map (fun px => (Cx.mul (expI x) px.1, px.2)) := by
  unfold solveSite
  simp only [absSq_phase, dot_phase]
  split_ifs
  · rfl
  · simp only [Option.map_some, Option.some.injEq, Prod.mk.injEq, and_true]
    apply Cx.ext' <;> simp only [Cx.mul, Cx.smul, Cx.sub] <;> ring

private theorem mul_zero_cx (p : Cx ℝ) : Cx.mul p ⟨0, 0⟩ = ⟨0, 0⟩ := by
  apply Cx.ext' <;> simp [Cx.mul]

/-- `e^{-i(μ+c)dt} e^{iφ} = e^{i(φ − c dt)} e^{-iμ dt}` -/
private theorem link_shift (mu c dt phi : ℝ) :
    toC (linkU (mu + c) dt) * toC (expI phi) = toC (expI (phi - c * dt)) * toC (linkU mu dt) := by
  unfold linkU
  rw [toC_expNegI, toC_expNegI, toC_expI, toC_expI, ← Complex.exp_add, ← Complex.exp_add]
  congr 1
  push_cast
  ring

private theorem zOf_time (psi : Cx ℝ) (mu gamma dt phi c : ℝ) :
    zOf (Cx.mul (expI phi) psi) (mu + c) gamma dt
      = Cx.mul (expI (phi - c * dt)) (zOf psi mu gamma dt) := by
  have k := link_shift mu c dt phi
  apply toC_injective
  simp only [zOf, toC_mul, toC_smul]
  linear_combination (((gamma * gamma / 2 : ℝ) : ℂ) * toC psi) * k

private theorem wOf_time (psi lap : Cx ℝ) (a mu eps gamma u dt phi c : ℝ) :
    wOf (Cx.mul (expI phi) psi) a (mu + c) eps gamma u dt (Cx.mul (expI phi) lap)
      = Cx.mul (expI (phi - c * dt)) (wOf psi a mu eps gamma u dt lap) := by
  have k := link_shift mu c dt phi
  simp only [wOf, zOf_time]
  apply toC_injective
  simp only [toC_mul, toC_smul, toC_add]
  linear_combination
    (toC psi + ((dt / u * HasSqrt.sqrt (1 + gamma * gamma * a) : ℝ) : ℂ)
      * (((eps - a : ℝ) : ℂ) * toC psi + toC lap)) * k

/-- one site of the update: μ + c and e^{iφ}ψ (with the Laplacian term rotated alike) give e^{i(φ − c dt)}ψ',
    the same |ψ'|², and the same refusal -/
theorem C04_stepSite_time_gauge (psi lap : Cx ℝ) (a mu eps gamma u dt phi c : ℝ) :
    stepSite (Cx.mul (expI phi) psi) a (mu + c) eps gamma u dt (Cx.mul (expI phi) lap)
      = (stepSite psi a mu eps gamma u dt lap).map (fun px => (Cx.mul (expI (phi - c * dt)) px.1, px.2)) := by
  unfold stepSite
  rw [zOf_time, wOf_time, solveSite_phase]

/-- the covariant Laplacian commutes with a global phase (pinned rows included) -/
theorem C04_lap_global_phase (m : FVMesh ℝ) (fixed : ℕ → Bool) (U : ℕ → Cx ℝ) (psi : ℕ → Cx ℝ) (phi : ℝ) (r : ℕ) :
    clapRow m fixed U (phasePsi phi psi) r = Cx.mul (expI phi) (clapRow m fixed U psi r) := by
  unfold clapRow
  by_cases hf : fixed r = true
  · simp only [hf, if_true, phasePsi]
  · simp only [hf, if_false, Bool.false_eq_true]
    rw [← csumTo_mul]
    congr 1
    funext e
    apply toC_injective
    by_cases h0 : m.e0 e = r <;> by_cases h1 : m.e1 e = r <;>
      simp only [h0, h1, if_true, if_false, phasePsi, toC_add, toC_mul, toC_smul, toC_conj, toC_zero] <;>
      ring

private theorem cgrad_global_phase (m : FVMesh ℝ) (U : ℕ → Cx ℝ) (psi : ℕ → Cx ℝ) (phi : ℝ) (e : ℕ) :
    cgradEdge m U (phasePsi phi psi) e = Cx.mul (expI phi) (cgradEdge m U psi e) := by
  apply toC_injective
  simp only [cgradEdge, phasePsi, toC_add, toC_mul, toC_smul]
  ring

/-- the supercurrent does not see a global phase -/
theorem C04_supercurrent_global_phase (m : FVMesh ℝ) (U : ℕ → Cx ℝ) (psi : ℕ → Cx ℝ) (phi : ℝ) (e : ℕ) :
    superEdge m U (phasePsi phi psi) e = superEdge m U psi e := by
  unfold superEdge
  rw [cgrad_global_phase]
  simp only [phasePsi, mul_conj_phase]

/-- the normal current does not see the constant of μ -/
theorem C04_normal_current_mu_constant (m : FVMesh ℝ) (mu dAdt : ℕ → ℝ) (c : ℝ) (e : ℕ) :
    normalEdge m (fun r => mu r + c) dAdt e = normalEdge m mu dAdt e := by
  unfold normalEdge gradEdge
  ring

private theorem eulerSite_time (m : FVMesh ℝ) (fixed : ℕ → Bool) (U : ℕ → Cx ℝ) (psi : ℕ → Cx ℝ)
    (a mu eps : ℕ → ℝ) (gamma u dt phi c : ℝ) (r : ℕ) :
    eulerSite m fixed U (phasePsi phi psi) a (fun r => mu r + c) eps gamma u dt r
      = (eulerSite m fixed U psi a mu eps gamma u dt r).map
          (fun px => (Cx.mul (expI (phi - c * dt)) px.1, px.2)) := by
  unfold eulerSite
  rw [C04_lap_global_phase]
  simp only [phasePsi, C04_stepSite_time_gauge]

private theorem pinSite_phase (fixed : ℕ → Bool) (tp : Option (Cx ℝ)) (htp : PhaseFree tp) (x : ℝ) (r : ℕ)
    (px : Cx ℝ × ℝ) :
    pinSite fixed tp r (Cx.mul (expI x) px.1, px.2)
      = (Cx.mul (expI x) (pinSite fixed tp r px).1, (pinSite fixed tp r px).2) := by
  rcases htp with rfl | rfl
  · rfl
  · unfold pinSite
    by_cases hf : fixed r = true
    · simp only [hf, if_true, mul_zero_cx]
    · simp only [hf, if_false, Bool.false_eq_true]

/-- the pinned Euler step under a time gauge (sites beyond the mesh hold zero padding) -/
private theorem eulerPinned_time (m : FVMesh ℝ) (fixed : ℕ → Bool) (tp : Option (Cx ℝ)) (htp : PhaseFree tp)
    (U : ℕ → Cx ℝ) (psi : ℕ → Cx ℝ) (a mu eps : ℕ → ℝ) (gamma u dt phi c : ℝ)
    (hpad : ∀ r, m.n ≤ r → psi r = ⟨0, 0⟩) :
    eulerPinnedFn m fixed tp U (phasePsi phi psi) a (fun r => mu r + c) eps gamma u dt
      = (eulerPinnedFn m fixed tp U psi a mu eps gamma u dt).map
          (fun out r => (Cx.mul (expI (phi - c * dt)) (out r).1, (out r).2)) := by
  unfold eulerPinnedFn
  simp only [eulerSite_time, Option.isSome_map]
  split_ifs with hall
  · simp only [Option.map_some, Option.some.injEq]
    funext r
    cases hr : eulerSite m fixed U psi a mu eps gamma u dt r with
    | none =>
      have hn : m.n ≤ r := by
        by_contra hlt
        have := List.all_eq_true.mp hall r (List.mem_range.mpr (Nat.lt_of_not_le hlt))
        rw [hr] at this
        simp at this
      have h0 : phasePsi phi psi r = Cx.mul (expI (phi - c * dt)) (psi r) := by
        simp only [phasePsi, hpad r hn, mul_zero_cx]
      simp only [Option.map_none, Option.getD_none, h0]
      exact pinSite_phase fixed tp htp _ r (psi r, a r)
    | some px =>
      simp only [Option.map_some, Option.getD_some]
      exact pinSite_phase fixed tp htp _ r px
  · rfl

-- Hypothesis `hpad`: arrays are index functions on ℕ; `hpad` says (ψ is zero at the indices beyond the mesh, r ≥ m.n).
-- Without it the statement is false:  `eulerPinnedFn` only checks the sites r < m.n for refusal and
-- leaves ψ r unchanged at an index r ≥ m.n whose quadratic has a negative discriminant; there the second run keeps
-- e^{iφ}ψ r while every accepted site moves to e^{i(φ − c dt)}ψ' r, so no single global phase relates the outputs.
-- Counterexample: m.n = 0, m.E = 0 (every dt is accepted, all Laplacians 0), γ = u = 1, tentative dt = 1, μ = 0,
-- ψ 0 = ψ 1 = 1, ε 0 = 1 (site 0: w = 3/2, disc = 4, ψ' 0 = 1), ε 1 = −10 (site 1: w = 3/2 − 11√2, disc = 2w + 1 < 0,
-- kept: ψ' 1 = 1); second run φ = 0, c = π: ψ' 0 = −1, ψ' 1 = 1.  With zero padding the kept value is 0 in both runs.
/-- One adaptive update: same refusal, same time step, same controller state (hence the same next proposal),
    time-gauge-related fields -- whatever constant the Poisson solver adds (`off` may depend on the right-hand side). -/
theorem C04_adaptive_step_time_gauge (m : FVMesh ℝ) (fixed : ℕ → Bool) (tp : Option (Cx ℝ)) (htp : PhaseFree tp)
    (U : ℕ → Cx ℝ) (solve : (ℕ → ℝ) → (ℕ → ℝ)) (off : (ℕ → ℝ) → ℝ) (eps : ℕ → ℝ) (gamma u : ℝ) (mb : ℕ → ℝ)
    (o : AdaptOpts ℝ) (i : ℕ) (s s' : AState ℝ) (h : TimeRelE s.phys s'.phys) (hc : s'.ctl = s.ctl)
    (hpad : ∀ r, m.n ≤ r → s.phys.psi r = ⟨0, 0⟩) :
    match adaptiveStep m fixed tp U solve eps gamma u mb o i s,
          adaptiveStep m fixed tp U (fun rhs r => solve rhs r + off rhs) eps gamma u mb o i s' with
    | some (dt, t), some (dt', t') => dt' = dt ∧ TimeRelE t.phys t'.phys ∧ t'.ctl = t.ctl
    | none, none => True
    | _, _ => False := by
  obtain ⟨phi, c, hpsi, hmu, -, -⟩ := h
  obtain ⟨⟨psi, mu, js, jn⟩, ctl⟩ := s
  obtain ⟨⟨psi', mu', js', jn'⟩, ctl'⟩ := s'
  simp only at hpsi hmu hc hpad
  subst hpsi hmu hc
  have habs : (fun r => absSq (phasePsi phi psi r)) = fun r => absSq (psi r) := by
    funext r
    exact absSq_phase _ _
  unfold adaptiveStep
  simp only [habs, eulerPinned_time m fixed tp htp U psi _ mu eps gamma u _ phi c hpad, Option.isSome_map]
  cases h1 : dtUsed o (fun dt => (eulerPinnedFn m fixed tp U psi (fun r => absSq (psi r)) mu eps gamma u dt).isSome)
      ctl'.tentative with
  | none => simp
  | some dt =>
    simp only
    cases h2 : eulerPinnedFn m fixed tp U psi (fun r => absSq (psi r)) mu eps gamma u dt with
    | none => simp
    | some out =>
      simp only [Option.map_some]
      have hjs : superEdge m U (fun r => Cx.mul (expI (phi - c * dt)) (out r).1)
          = superEdge m U (fun r => (out r).1) := by
        funext e
        exact C04_supercurrent_global_phase m U (fun r => (out r).1) (phi - c * dt) e
      refine ⟨by trivial, ⟨phi - c * dt,
        off (poissonRhs m (superEdge m U (fun r => (out r).1)) (fun _ => 0) mb), ?_, ?_, ?_, ?_⟩, by trivial⟩
      · rfl
      · simp only [observables, hjs]
      · simp only [observables, hjs]
      · simp only [observables, hjs]
        funext e
        exact C04_normal_current_mu_constant m _ _ _ e

private theorem stepSite_zero (a mu eps gamma u dt d : ℝ) :
    ((stepSite ⟨0, 0⟩ a mu eps gamma u dt ⟨0, 0⟩).getD (⟨0, 0⟩, d)).1 = ⟨0, 0⟩ := by
  have hz : zOf (⟨0, 0⟩ : Cx ℝ) mu gamma dt = ⟨0, 0⟩ := by
    unfold zOf
    exact mul_zero_cx _
  have hw : wOf (⟨0, 0⟩ : Cx ℝ) a mu eps gamma u dt ⟨0, 0⟩ = ⟨0, 0⟩ := by
    simp only [wOf, hz]
    apply Cx.ext' <;> simp [Cx.add, Cx.mul, Cx.smul]
  unfold stepSite solveSite
  rw [hz, hw]
  dsimp only
  split_ifs
  · rfl
  · apply Cx.ext' <;> simp [Cx.sub, Cx.smul]

private theorem clapRow_pad (m : FVMesh ℝ) (hwf : m.WF) (fixed : ℕ → Bool) (U : ℕ → Cx ℝ) (psi : ℕ → Cx ℝ)
    (hpad : ∀ r, m.n ≤ r → psi r = ⟨0, 0⟩) (r : ℕ) (hr : m.n ≤ r) :
    clapRow m fixed U psi r = ⟨0, 0⟩ := by
  unfold clapRow
  split_ifs
  · exact hpad r hr
  · apply csumTo_eq_zero
    intro e he
    have h1 : m.e1 e ≠ r := by
      have := hwf.inRange e he
      omega
    have h0 : m.e0 e ≠ r := by
      have := hwf.inRange e he
      have := hwf.lt e he
      omega
    simp only [h0, h1, if_false]
    apply Cx.ext' <;> simp [Cx.add, Cx.zero]

/-- the zero padding beyond the mesh is kept by an adaptive update (well-formed mesh: no edge touches an index ≥ n) -/
theorem C04_adaptive_step_pad (m : FVMesh ℝ) (hwf : m.WF) (fixed : ℕ → Bool) (tp : Option (Cx ℝ))
    (htp : PhaseFree tp) (U : ℕ → Cx ℝ) (solve : (ℕ → ℝ) → (ℕ → ℝ)) (eps : ℕ → ℝ) (gamma u : ℝ) (mb : ℕ → ℝ)
    (o : AdaptOpts ℝ) (i : ℕ) (s : AState ℝ) (hpad : ∀ r, m.n ≤ r → s.phys.psi r = ⟨0, 0⟩)
    (dt : ℝ) (t : AState ℝ) (h : adaptiveStep m fixed tp U solve eps gamma u mb o i s = some (dt, t)) :
    ∀ r, m.n ≤ r → t.phys.psi r = ⟨0, 0⟩ := by
  intro r hr
  unfold adaptiveStep at h
  simp only at h
  split at h
  · exact absurd h (by simp)
  · rename_i dt0 _
    split at h
    · exact absurd h (by simp)
    · rename_i out hout
      simp only [Option.some.injEq, Prod.mk.injEq] at h
      obtain ⟨-, rfl⟩ := h
      show (out r).1 = ⟨0, 0⟩
      unfold eulerPinnedFn at hout
      split_ifs at hout
      simp only [Option.some.injEq] at hout
      subst hout
      have he : ((eulerSite m fixed U s.phys.psi (fun r => absSq (s.phys.psi r)) s.phys.mu eps gamma u dt0 r).getD
          (s.phys.psi r, absSq (s.phys.psi r))).1 = ⟨0, 0⟩ := by
        unfold eulerSite
        rw [clapRow_pad m hwf fixed U s.phys.psi hpad r hr, hpad r hr]
        exact stepSite_zero _ _ _ _ _ _ _
      rcases htp with rfl | rfl
      · exact he
      · unfold pinSite
        dsimp only
        split_ifs
        · rfl
        · exact he

-- Hypotheses `hwf : m.WF` and `hpad` (ψ is zero at the indices beyond the mesh).
-- Reason: see `C04_adaptive_step_time_gauge` (the first statement is false because of junk at indices r ≥ m.n);
-- well-formedness of the mesh (no edge touches an index ≥ n) is what keeps the padding zero from one update to the next.
/-- A whole adaptive run: the list of time steps used is the same, the final states are time-gauge related
    (equal |ψ|², Js, Jn), and the runs raise together. -/
theorem C04_adaptive_run_time_gauge (m : FVMesh ℝ) (hwf : m.WF) (fixed : ℕ → Bool) (tp : Option (Cx ℝ))
    (htp : PhaseFree tp)
    (U : ℕ → Cx ℝ) (solve : (ℕ → ℝ) → (ℕ → ℝ)) (off : (ℕ → ℝ) → ℝ) (eps : ℕ → ℝ) (gamma u : ℝ) (mb : ℕ → ℝ)
    (o : AdaptOpts ℝ) (n i : ℕ) (s s' : AState ℝ) (h : TimeRelE s.phys s'.phys) (hc : s'.ctl = s.ctl)
    (hpad : ∀ r, m.n ≤ r → s.phys.psi r = ⟨0, 0⟩) :
    match adaptiveRun m fixed tp U solve eps gamma u mb o n i s,
          adaptiveRun m fixed tp U (fun rhs r => solve rhs r + off rhs) eps gamma u mb o n i s' with
    | some (dts, t), some (dts', t') => dts' = dts ∧ TimeRelE t.phys t'.phys ∧ t'.ctl = t.ctl
    | none, none => True
    | _, _ => False := by
  induction n generalizing i s s' with
  | zero =>
    simp only [adaptiveRun]
    exact ⟨by trivial, h, hc⟩
  | succ n ih =>
    have hs := C04_adaptive_step_time_gauge m fixed tp htp U solve off eps gamma u mb o i s s' h hc hpad
    unfold adaptiveRun
    cases h1 : adaptiveStep m fixed tp U solve eps gamma u mb o i s with
    | none =>
      cases h2 : adaptiveStep m fixed tp U (fun rhs r => solve rhs r + off rhs) eps gamma u mb o i s' with
      | none => simp
      | some p' => rw [h1, h2] at hs; exact hs.elim
    | some p =>
      cases h2 : adaptiveStep m fixed tp U (fun rhs r => solve rhs r + off rhs) eps gamma u mb o i s' with
      | none => rw [h1, h2] at hs; exact hs.elim
      | some p' =>
        obtain ⟨dt, t⟩ := p
        obtain ⟨dt', t'⟩ := p'
        rw [h1, h2] at hs
        obtain ⟨rfl, hrel, hctl⟩ := hs
        have hpad' := C04_adaptive_step_pad m hwf fixed tp htp U solve eps gamma u mb o i s hpad dt' t h1
        have hr := ih (i + 1) t t' hrel hctl hpad'
        simp only
        cases h3 : adaptiveRun m fixed tp U solve eps gamma u mb o n (i + 1) t with
        | none =>
          cases h4 : adaptiveRun m fixed tp U (fun rhs r => solve rhs r + off rhs) eps gamma u mb o n (i + 1) t' with
          | none => simp
          | some q' => rw [h3, h4] at hr; exact hr.elim
        | some q =>
          cases h4 : adaptiveRun m fixed tp U (fun rhs r => solve rhs r + off rhs) eps gamma u mb o n (i + 1) t' with
          | none => rw [h3, h4] at hr; exact hr.elim
          | some q' =>
            obtain ⟨dts, w⟩ := q
            obtain ⟨dts', w'⟩ := q'
            rw [h3, h4] at hr
            obtain ⟨rfl, hrel2, hctl2⟩ := hr
            exact ⟨rfl, hrel2, hctl2⟩

/-- what `TimeRelE` means for the observables: |ψ|² at every site and both currents are equal -/
theorem C04_time_rel_observables (s s' : MState ℝ) (h : TimeRelE s s') :
    (∀ r, absSq (s'.psi r) = absSq (s.psi r)) ∧ s'.js = s.js ∧ s'.jn = s.jn ∧ ∃ c, ∀ r, s'.mu r = s.mu r + c := by
  obtain ⟨phi, c, hpsi, hmu, hjs, hjn⟩ := h
  refine ⟨fun r => ?_, hjs, hjn, c, fun r => ?_⟩
  · rw [hpsi]
    exact absSq_phase _ _
  · rw [hmu]

/-- Why the controller must be fed with the change of |ψ|² and not with the change of the complex ψ: the latter is
    not invariant.  ψ = ψ' = 1 (nothing changes physically), μ-constant c with c·dt = π: the complex change is 2. -/
theorem C04_complex_change_not_gauge_invariant :
    ∃ (psi psi' : Cx ℝ) (x : ℝ),
      Cx.normSq (Cx.sub psi' psi) = 0 ∧ Cx.normSq (Cx.sub (Cx.mul (expI x) psi') psi) = 4 := by
  refine ⟨⟨1, 0⟩, ⟨1, 0⟩, Real.pi, ?_, ?_⟩
  · simp [Cx.normSq, Cx.sub]
  · simp only [Cx.normSq, Cx.sub, Cx.mul, expI, Real.cos_pi, Real.sin_pi]
    norm_num

/-- non-vacuity: a concrete pair of related states, and both admissible terminal values -/
example : TimeRelE ⟨fun _ => ⟨1, 0⟩, fun _ => 0, fun _ => 0, fun _ => 0⟩
    ⟨fun _ => ⟨Real.cos 1, Real.sin 1⟩, fun _ => 0 + 2, fun _ => 0, fun _ => 0⟩ := by
  refine ⟨1, 2, ?_, rfl, rfl, rfl⟩
  funext r
  apply Cx.ext' <;> simp [phasePsi, expI, Cx.mul]

/-- non-vacuity of the padding hypothesis: related states on a 2-site mesh, zero beyond it, non-zero inside -/
example : ∃ s s' : MState ℝ, TimeRelE s s' ∧ (∀ r, 2 ≤ r → s.psi r = ⟨0, 0⟩) ∧ s.psi 0 ≠ ⟨0, 0⟩ := by
  refine ⟨⟨fun r => if r < 2 then ⟨1, 0⟩ else ⟨0, 0⟩, fun _ => 0, fun _ => 0, fun _ => 0⟩,
    ⟨phasePsi 1 (fun r => if r < 2 then ⟨1, 0⟩ else ⟨0, 0⟩), fun _ => 0 + 2, fun _ => 0, fun _ => 0⟩,
    ⟨1, 2, rfl, rfl, rfl, rfl⟩, ?_, ?_⟩
  · intro r hr
    simp [Nat.not_lt.mpr hr]
  · simp

example : PhaseFree none ∧ PhaseFree (some ⟨0, 0⟩) := ⟨Or.inl rfl, Or.inr rfl⟩

end Tdgl.C04
