/-
  C14 (in-memory save) — a Solution saved after its output file is gone loads back with the fields of the frame
  that was selected and the per-step records of the WHOLE run, whichever frame was selected.
-/
import Mathlib.Data.List.Basic
import Mathlib.Order.Basic
import Mathlib.Tactic.Common
import Tdgl.Runner
import Tdgl.Reader
import Tdgl.SolutionSave
import Tdgl.Props.C05Reader

open Tdgl

namespace Tdgl.C14

variable {K S R : Type} [OfNat K 0] [LT K] [DecidableLT K]

/-- the single frame written by an in-memory save reads back as the whole record list (the buffer is longer than any
    `k`, so no padding is involved; every genuine record has `dt > 0`) -/
theorem C14_memsave_records (dtOf : R → K) (k : ℕ) (zero : R) (m : SolMem K S R)
    (hpos : ∀ r ∈ m.dyn, (0 : K) < dtOf r) (hzero : ¬ (0 : K) < dtOf zero) :
    readRecords dtOf k zero (memSave m) = m.dyn := by
  unfold readRecords memSave padTo
  simp only [List.flatMap_cons, List.flatMap_nil, List.append_nil, List.filter_append]
  rw [List.filter_eq_self.2 (fun r hr => by simpa using hpos r hr), List.filter_replicate]
  simp [hzero]

/-- Round trip: load ∘ save gives back the selected frame's step, time and fields and ALL per-step records. -/
theorem C14_memsave_roundtrip (dtOf : R → K) (k : ℕ) (zero : R) (m : SolMem K S R)
    (hpos : ∀ r ∈ m.dyn, (0 : K) < dtOf r) (hzero : ¬ (0 : K) < dtOf zero) :
    ∃ m', memLoad dtOf k zero (memSave m) = some m' ∧ m'.dyn = m.dyn ∧
      m'.sel.step = m.sel.step ∧ m'.sel.time = m.sel.time ∧ m'.sel.snap = m.sel.snap := by
  refine ⟨⟨{ step := m.sel.step, time := m.sel.time, snap := m.sel.snap, recs := some m.dyn },
    readRecords dtOf k zero (memSave m)⟩, ?_, C14_memsave_records dtOf k zero m hpos hzero, rfl, rfl, rfl⟩
  simp [memLoad, memSave]

/-- ... for every frame of a multi-frame solution that may be selected before the save: the records that come back
    are those of the whole run, not those up to the selected frame. -/
theorem C14_memsave_any_selected_frame (dtOf : R → K) (k : ℕ) (zero : R) (frames : List (Frame K S R))
    (i : ℕ) (m : SolMem K S R) (hpos : ∀ r ∈ m.dyn, (0 : K) < dtOf r) (hzero : ¬ (0 : K) < dtOf zero) :
    readRecords dtOf k zero (memSave (selectFrame frames i m)) = m.dyn := by
  have h : (selectFrame frames i m).dyn = m.dyn := by
    unfold selectFrame
    cases frames[i]? <;> rfl
  rw [C14_memsave_records dtOf k zero _ (by rw [h]; exact hpos) hzero, h]

/-- the alternative "save only the records up to the selected step" is NOT a round trip: one lost record suffices -/
theorem C14_truncating_save_loses_records :
    ∃ (dyn : List ℕ) (n : ℕ), dyn.take n ≠ dyn := ⟨[1, 2], 1, by decide⟩

/-- non-vacuity: a two-step record, second frame of three selected -/
example : readRecords (K := ℕ) (S := Unit) (fun r : ℕ => r) 3 0
    (memSave (selectFrame [⟨0, 0, (), none⟩, ⟨2, 5, (), some [2, 3]⟩, ⟨3, 9, (), some [4]⟩] 1 ⟨⟨3, 9, (), some [4]⟩, [2, 3, 4]⟩))
    = [2, 3, 4] := by decide

end Tdgl.C14
