/-
  C13 — screening returns a self-consistent induced vector potential or fails.
  Model: Tdgl/Screening.lean.  Vector fields are elements of an arbitrary `K`-module `V`; any physics
  `phys`, any kernel `kern`, any error functional.
-/
import Mathlib.Algebra.Order.Field.Basic
import Mathlib.Algebra.Module.Basic
import Mathlib.Algebra.Module.Pi
import Mathlib.Tactic.Ring
import Mathlib.Tactic.Module
import Mathlib.Tactic.Linarith
import Mathlib.Tactic.Common
import Tdgl.Screening

open Tdgl

namespace Tdgl.C13

variable {K : Type} [Field K] [LinearOrder K] [IsStrictOrderedRing K]
variable {V : Type} [AddCommGroup V] [Module K V]

-- the section instances are part of the fixed theorem signatures; not every proof needs all of them
set_option linter.unusedSectionVars false

/-- The exact mismatch identity of one heavy-ball update: the stored iterate minus the kernel of the
    stored currents is `(1−β) v_prev − (1−α) dA` with `dA = new − A_prev`.  (This is what turns "relative
    change below tolerance at the last iteration" into "the stored potential reproduces the sum".) -/
theorem C13_mismatch_identity (alpha beta : K) (s : PolyakState V) (new : V) :
    (polyak alpha beta s new).A - new = (1 - beta) • s.v - (1 - alpha) • (new - s.A) := by
  simp only [polyak]
  module

/-- Component form for fields given as index functions. -/
theorem C13_mismatch_identity_components (alpha beta : K) (s : PolyakState (ℕ → K)) (new : ℕ → K) (i : ℕ) :
    (polyak alpha beta s new).A i - new i = (1 - beta) * s.v i - (1 - alpha) * (new i - s.A i) := by
  simp only [polyak, Pi.add_apply, Pi.sub_apply, Pi.smul_apply, smul_eq_mul]
  ring

/-- With `α = 1` and no drag memory (`v_prev = 0`) the update is plain fixed-point iteration. -/
theorem C13_polyak_plain (beta : K) (s : PolyakState V) (new : V) (h : s.v = 0) :
    (polyak (1 : K) beta s new).A = new := by
  simp [polyak, h]

private theorem exit_aux (alpha beta tol : K) (maxIt : ℕ) (phys kern : V → V)
    (errOf : V → V → K) (A Jr : V) (n : ℕ) (lastErr : Option K) :
    ∀ (fuel it : ℕ) (s : PolyakState V) (J : V) (err : Option K),
      screenLoop alpha beta tol maxIt phys kern errOf fuel it s J err = .converged A Jr n lastErr →
      (∃ e, lastErr = some e ∧ e < tol) ∧ it ≤ n ∧ (err = none → it < n) := by
  intro fuel
  induction fuel with
  | zero => intro it s J err h; simp [screenLoop] at h
  | succ fuel ih =>
    intro it s J err h
    unfold screenLoop at h
    split_ifs at h with h1 h2
    · cases err with
      | none => simp at h1
      | some e =>
        simp only [decide_eq_true_eq] at h1
        injection h with hA hJ hn hl
        exact ⟨⟨e, hl.symm, h1⟩, le_of_eq hn, fun h0 => by cases h0⟩
    · obtain ⟨h3, h4, _⟩ := ih _ _ _ _ h
      exact ⟨h3, by omega, fun _ => by omega⟩

private theorem state_aux (alpha beta tol : K) (maxIt : ℕ) (phys kern : V → V)
    (errOf : V → V → K) (A Jr : V) (n : ℕ) (lastErr : Option K) :
    ∀ (fuel it : ℕ) (s : PolyakState V) (J : V) (err : Option K),
      (err = none ∨ ∃ sp : PolyakState V, J = phys sp.A ∧ s.A = (polyak alpha beta sp (kern J)).A ∧
        err = some (errOf (kern J - sp.A) s.A)) →
      screenLoop alpha beta tol maxIt phys kern errOf fuel it s J err = .converged A Jr n lastErr →
      ∃ sp : PolyakState V, Jr = phys sp.A ∧ A = (polyak alpha beta sp (kern Jr)).A ∧
        lastErr = some (errOf (kern Jr - sp.A) A) := by
  intro fuel
  induction fuel with
  | zero => intro it s J err _ h; simp [screenLoop] at h
  | succ fuel ih =>
    intro it s J err hQ h
    unfold screenLoop at h
    split_ifs at h with h1 h2
    · injection h with hA hJ hn hl
      subst hA hJ hl
      rcases hQ with rfl | hQ
      · simp at h1
      · exact hQ
    · exact ih _ _ _ _ (Or.inr ⟨s, rfl, rfl, rfl⟩) h

/-- An accepted step ends converged: the loop returns only when the error of the last executed
    iteration is below the tolerance (and at least one iteration has run). -/
theorem C13_exit (alpha beta tol : K) (maxIt : ℕ) (phys kern : V → V) (errOf : V → V → K) (fuel : ℕ)
    (s0 : PolyakState V) (J0 : V) (A J : V) (it : ℕ) (lastErr : Option K)
    (h : screenLoop alpha beta tol maxIt phys kern errOf fuel 0 s0 J0 none = .converged A J it lastErr) :
    0 < it ∧ ∃ e, lastErr = some e ∧ e < tol := by
  obtain ⟨h1, _, h3⟩ := exit_aux alpha beta tol maxIt phys kern errOf A J it lastErr fuel 0 s0 J0 none h
  exact ⟨h3 rfl, h1⟩

/-- ... and the returned pair is the state of the tested iteration: there is a previous state
    `(A_prev, v_prev)` such that `J = phys A_prev`, `A` is the heavy-ball update with `kern J`, and the
    error that was tested is the one of that update. -/
theorem C13_exit_state (alpha beta tol : K) (maxIt : ℕ) (phys kern : V → V) (errOf : V → V → K) (fuel : ℕ)
    (s0 : PolyakState V) (J0 : V) (A J : V) (it : ℕ) (lastErr : Option K)
    (h : screenLoop alpha beta tol maxIt phys kern errOf fuel 0 s0 J0 none = .converged A J it lastErr) :
    ∃ sp : PolyakState V, J = phys sp.A ∧ A = (polyak alpha beta sp (kern J)).A ∧
      lastErr = some (errOf (kern J - sp.A) A) := by
  exact state_aux alpha beta tol maxIt phys kern errOf A J it lastErr fuel 0 s0 J0 none (Or.inl rfl) h

private theorem fail_aux (alpha beta tol : K) (maxIt : ℕ) (phys kern : V → V)
    (errOf : V → V → K) (hbad : ∀ dA A, ¬ errOf dA A < tol) :
    ∀ (fuel it : ℕ) (s : PolyakState V) (J : V) (err : Option K),
      (err = none ∨ ∃ dA A, err = some (errOf dA A)) → it ≤ maxIt + 1 → maxIt + 2 - it ≤ fuel →
      screenLoop alpha beta tol maxIt phys kern errOf fuel it s J err = .failed (maxIt + 1) := by
  intro fuel
  induction fuel with
  | zero => intro it s J err _ h1 h2; omega
  | succ fuel ih =>
    intro it s J err herr h1 h2
    unfold screenLoop
    split_ifs with h0 h3
    · exfalso
      rcases herr with rfl | ⟨dA, A, rfl⟩
      · simp at h0
      · simp [hbad] at h0
    · have : it = maxIt + 1 := by omega
      rw [this]
    · exact ih _ _ _ _ (Or.inr ⟨_, _, rfl⟩) (by omega) (by omega)

/-- Failure to converge raises: if the error never drops below the tolerance the result is `failed`
    after `maxIt + 1` iterations — never an unconverged step. -/
theorem C13_no_silent_nonconvergence (alpha beta tol : K) (maxIt : ℕ) (phys kern : V → V)
    (errOf : V → V → K) (s0 : PolyakState V) (J0 : V) (hbad : ∀ dA A, ¬ errOf dA A < tol) :
    screenLoop alpha beta tol maxIt phys kern errOf (maxIt + 3) 0 s0 J0 none = .failed (maxIt + 1) := by
  exact fail_aux alpha beta tol maxIt phys kern errOf hbad (maxIt + 3) 0 s0 J0 none (Or.inl rfl)
    (by omega) (by omega)

private theorem disabled_aux {S : Type} (phys : S → (ℕ → K) → S) (n : ℕ) (s : S) (A : ℕ → K) :
    ((fun p : S × (ℕ → K) => noScreenStep phys p.1 p.2)^[n] (s, A)).2 = A := by
  induction n with
  | zero => rfl
  | succ n ih =>
    rw [Function.iterate_succ_apply']
    exact ih

/-- With screening disabled the induced vector potential is whatever it was initially — identically zero
    from a fresh start — after any number of steps. -/
theorem C13_disabled_zero {S : Type} (phys : S → (ℕ → K) → S) (n : ℕ) (s : S) :
    ((fun p : S × (ℕ → K) => noScreenStep phys p.1 p.2)^[n] (s, fun _ => 0)).2 = fun _ => 0 := by
  exact disabled_aux phys n s _

end Tdgl.C13
