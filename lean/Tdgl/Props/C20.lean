/-
  C20 — fields and potentials computed from currents are linear and correct.   Model: Tdgl/Fields.lean.
-/
import Mathlib.Algebra.BigOperators.Group.Finset.Basic
import Mathlib.Algebra.BigOperators.Ring.Finset
import Mathlib.Algebra.Field.Basic
import Mathlib.Tactic.Ring
import Mathlib.Tactic.FieldSimp
import Tdgl.Lemmas.Sums
import Tdgl.Lemmas.RealInst
import Tdgl.Fields

open Finset Tdgl

namespace Tdgl.C20

variable {K : Type} [Field K]

/-- The z-field is linear in the sheet current, for any geometry (any weights, any offsets). -/
theorem C20_bz_linear (n : ℕ) (pref dx dy Jx Jy Jx' Jy' : ℕ → K) (a b : K) :
    bsZ n pref dx dy (fun k => a * Jx k + b * Jx' k) (fun k => a * Jy k + b * Jy' k)
      = a * bsZ n pref dx dy Jx Jy + b * bsZ n pref dx dy Jx' Jy' := by
  simp only [bsZ, sumTo_eq, Finset.mul_sum, ← Finset.sum_add_distrib, ← Finset.sum_sub_distrib]
  exact Finset.sum_congr rfl (fun k _ => by ring)

/-- The vector field is linear in the sheet current. -/
theorem C20_bvec_linear (n : ℕ) (pref dx dy dz Jx Jy Jx' Jy' : ℕ → K) (a b : K) :
    bsVec n pref dx dy dz (fun k => a * Jx k + b * Jx' k) (fun k => a * Jy k + b * Jy' k)
      = (a * (bsVec n pref dx dy dz Jx Jy).1 + b * (bsVec n pref dx dy dz Jx' Jy').1,
         a * (bsVec n pref dx dy dz Jx Jy).2.1 + b * (bsVec n pref dx dy dz Jx' Jy').2.1,
         a * (bsVec n pref dx dy dz Jx Jy).2.2 + b * (bsVec n pref dx dy dz Jx' Jy').2.2) := by
  simp only [bsVec, sumTo_eq]
  refine Prod.ext ?_ (Prod.ext ?_ ?_)
  · simp only [Finset.mul_sum, ← Finset.sum_add_distrib]
    exact Finset.sum_congr rfl (fun k _ => by ring)
  · simp only [mul_neg, ← neg_add, neg_inj, Finset.mul_sum, ← Finset.sum_add_distrib]
    exact Finset.sum_congr rfl (fun k _ => by ring)
  · simp only [Finset.mul_sum, ← Finset.sum_add_distrib, ← Finset.sum_sub_distrib]
    exact Finset.sum_congr rfl (fun k _ => by ring)

/-- Scalar and vector forms agree: the z-component of the vector field is the scalar kernel. -/
theorem C20_z_of_vector (n : ℕ) (pref dx dy dz Jx Jy : ℕ → K) :
    (bsVec n pref dx dy dz Jx Jy).2.2 = bsZ n pref dx dy Jx Jy := by
  rfl

/-- The total field is the sum of the supercurrent and normal-current parts. -/
theorem C20_sum_parts (n : ℕ) (pref dx dy Jsx Jsy Jnx Jny : ℕ → K) :
    bsZ n pref dx dy (fun k => Jsx k + Jnx k) (fun k => Jsy k + Jny k)
      = bsZ n pref dx dy Jsx Jsy + bsZ n pref dx dy Jnx Jny := by
  simp only [bsZ, sumTo_eq, ← Finset.sum_add_distrib, ← Finset.sum_sub_distrib]
  exact Finset.sum_congr rfl (fun k _ => by ring)

/-- The Coulomb-kernel vector potential is linear in the current and additive over its parts. -/
theorem C20_vecpot_linear (n : ℕ) (c : K) (area rho J J' : ℕ → K) (a b : K) :
    vecPot n c area rho (fun k => a * J k + b * J' k)
      = a * vecPot n c area rho J + b * vecPot n c area rho J' := by
  simp only [vecPot, sumTo_eq, Finset.mul_sum, ← Finset.sum_add_distrib]
  exact Finset.sum_congr rfl (fun k _ => by ring)

/-- Field-unit conversions between H and B round-trip. -/
theorem C20_convert_roundtrip (mu0 x : K) (h : mu0 ≠ 0) :
    bToH mu0 (hToB mu0 x) = x ∧ hToB mu0 (bToH mu0 x) = x := by
  constructor
  · simp only [bToH, hToB]; field_simp
  · simp only [bToH, hToB]; field_simp

/-- The squared-distance kernel is the square of the distance kernel. -/
theorem C20_distance_kernels (ax ay bx b_y : ℝ) :
    euclid ax ay bx b_y * euclid ax ay bx b_y = sqeuclid ax ay bx b_y := by
  simp only [euclid, sqeuclid, hasSqrt_real]
  exact Real.mul_self_sqrt (add_nonneg (mul_self_nonneg _) (mul_self_nonneg _))

end Tdgl.C20
