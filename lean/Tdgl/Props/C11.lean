/-
  C11 — the trajectory depends only on the physics and can be resumed.
  Model: Tdgl/Runner.lean.
-/
import Mathlib.Data.List.Basic
import Mathlib.Order.Basic
import Mathlib.Tactic.Common
import Tdgl.Runner

open Tdgl

namespace Tdgl.C11

variable {K S R : Type} [Add K] [LE K] [DecidableLE K] [OfNat K 0]


private theorem onTraj_inv (upd : S → ℕ → K → K × S × R) (s0 : S) (k : ℕ) (T : K) (save : Bool) :
    ∀ (fuel i : ℕ) (buf : List R) (fr : List (Frame K S R)) (e : StageEnd K S R),
      (∀ f, f ∈ fr → f.time = (traj upd s0 f.step).1 ∧ f.snap = (traj upd s0 f.step).2) →
      runStage upd save k T fuel i (traj upd s0 i).1 (traj upd s0 i).2 buf fr = some e →
      ∀ f, f ∈ e.frames → f.time = (traj upd s0 f.step).1 ∧ f.snap = (traj upd s0 f.step).2 := by
  intro fuel
  induction fuel with
  | zero => intro i buf fr e _ h; simp [runStage] at h
  | succ fuel ih =>
    intro i buf fr e hfr h
    unfold runStage at h
    simp only at h
    have hfr' : ∀ f, f ∈ (if i % k = 0 ∧ save = true then
          fr ++ [mkFrame i (traj upd s0 i).1 (traj upd s0 i).2 buf] else fr) →
        f.time = (traj upd s0 f.step).1 ∧ f.snap = (traj upd s0 f.step).2 := by
      intro f hf
      split at hf
      · rcases List.mem_append.1 hf with h1 | h1
        · exact hfr f h1
        · simp only [List.mem_singleton] at h1
          subst h1
          exact ⟨rfl, rfl⟩
      · exact hfr f hf
    by_cases hT : T ≤ (traj upd s0 i).1
    · rw [if_pos hT] at h
      injection h with h
      subst h
      intro f hf
      simp only at hf
      split at hf
      · rcases List.mem_append.1 hf with h1 | h1
        · exact hfr' f h1
        · simp only [List.mem_singleton] at h1
          subst h1
          exact ⟨rfl, rfl⟩
      · exact hfr' f hf
    · rw [if_neg hT] at h
      exact ih (i+1) _ _ e hfr' h

/-- Every frame of every finished recorded stage, whatever the save interval, is the point of the one
    trajectory `traj upd s0` that its label names. -/
theorem C11_frame_on_trajectory (upd : S → ℕ → K → K × S × R) (s0 : S) (k : ℕ) (T : K) (fuel : ℕ)
    (e : StageEnd K S R) (h : runStage upd true k T fuel 0 0 s0 [] [] = some e)
    (f : Frame K S R) (hf : f ∈ e.frames) :
    f.time = (traj upd s0 f.step).1 ∧ f.snap = (traj upd s0 f.step).2 :=
  onTraj_inv upd s0 k T true fuel 0 [] [] e (by intro f hf; simp at hf) h f hf

/-- Frames carrying the same step label are identical (time and snapshot) whatever the two save
    intervals were. -/
theorem C11_same_label_same_frame (upd : S → ℕ → K → K × S × R) (s0 : S) (k k' : ℕ) (T : K)
    (fuel fuel' : ℕ) (e e' : StageEnd K S R)
    (h : runStage upd true k T fuel 0 0 s0 [] [] = some e)
    (h' : runStage upd true k' T fuel' 0 0 s0 [] [] = some e')
    (f f' : Frame K S R) (hf : f ∈ e.frames) (hf' : f' ∈ e'.frames) (hs : f.step = f'.step) :
    f.time = f'.time ∧ f.snap = f'.snap := by
  obtain ⟨h1, h2⟩ := C11_frame_on_trajectory upd s0 k T fuel e h f hf
  obtain ⟨h1', h2'⟩ := C11_frame_on_trajectory upd s0 k' T fuel' e' h' f' hf'
  rw [h1, h2, h1', h2', hs]
  exact ⟨rfl, rfl⟩

/-- Observers do not interfere: two update functions that agree on the time step and the new state
    (they may produce different per-step records — e.g. with and without voltage probes) give the same
    trajectory. -/
theorem C11_records_do_not_interfere {R' : Type} (upd : S → ℕ → K → K × S × R)
    (upd' : S → ℕ → K → K × S × R') (s0 : S)
    (h : ∀ s i t, (upd s i t).1 = (upd' s i t).1 ∧ (upd s i t).2.1 = (upd' s i t).2.1) (n : ℕ) :
    traj upd s0 n = traj upd' s0 n := by
  induction n with
  | zero => rfl
  | succ n ih =>
    show ((traj upd s0 n).1 + (upd (traj upd s0 n).2 n (traj upd s0 n).1).1,
        (upd (traj upd s0 n).2 n (traj upd s0 n).1).2.1) =
      ((traj upd' s0 n).1 + (upd' (traj upd' s0 n).2 n (traj upd' s0 n).1).1,
        (upd' (traj upd' s0 n).2 n (traj upd' s0 n).1).2.1)
    rw [ih, (h _ _ _).1, (h _ _ _).2]


omit [OfNat K 0] in
private theorem probes_aux {R' : Type} (upd : S → ℕ → K → K × S × R)
    (upd' : S → ℕ → K → K × S × R')
    (h : ∀ s i t, (upd s i t).1 = (upd' s i t).1 ∧ (upd s i t).2.1 = (upd' s i t).2.1)
    (k : ℕ) (T : K) (save : Bool) :
    ∀ (fuel i : ℕ) (t : K) (s : S) (buf : List R) (buf' : List R')
      (fr : List (Frame K S R)) (fr' : List (Frame K S R')),
      fr.map (fun f => (f.step, f.time, f.snap)) = fr'.map (fun f => (f.step, f.time, f.snap)) →
      (runStage upd save k T fuel i t s buf fr).map
          (fun e => e.frames.map (fun f => (f.step, f.time, f.snap)))
        = (runStage upd' save k T fuel i t s buf' fr').map
          (fun e => e.frames.map (fun f => (f.step, f.time, f.snap))) := by
  intro fuel
  induction fuel with
  | zero => intro i t s buf buf' fr fr' _; rfl
  | succ fuel ih =>
    intro i t s buf buf' fr fr' hfr
    unfold runStage
    simp only
    have hfr2 : (if i % k = 0 ∧ save = true then fr ++ [mkFrame i t s buf] else fr).map
          (fun f => (f.step, f.time, f.snap))
        = (if i % k = 0 ∧ save = true then fr' ++ [mkFrame i t s buf'] else fr').map
          (fun f => (f.step, f.time, f.snap)) := by
      by_cases hk : i % k = 0 <;> cases save <;> simp [hk, hfr, mkFrame]
    by_cases hT : T ≤ t
    · rw [if_pos hT, if_pos hT]
      simp only [Option.map_some]
      congr 1
      by_cases hs : save = true ∧ i % k ≠ 0
      · rw [if_pos hs, if_pos hs, List.map_append, List.map_append, hfr2]
        rfl
      · rw [if_neg hs, if_neg hs]
        exact hfr2
    · rw [if_neg hT, if_neg hT, (h s i t).1, (h s i t).2]
      exact ih (i+1) _ _ _ _ _ _ hfr2

/-- ... and hence the same frames (labels, times, snapshots), for every save interval. -/
theorem C11_probes_do_not_interfere {R' : Type} (upd : S → ℕ → K → K × S × R)
    (upd' : S → ℕ → K → K × S × R') (s0 : S)
    (h : ∀ s i t, (upd s i t).1 = (upd' s i t).1 ∧ (upd s i t).2.1 = (upd' s i t).2.1)
    (k : ℕ) (T : K) (fuel : ℕ) :
    (runStage upd true k T fuel 0 0 s0 [] []).map
        (fun e => e.frames.map (fun f => (f.step, f.time, f.snap)))
      = (runStage upd' true k T fuel 0 0 s0 [] []).map
        (fun e => e.frames.map (fun f => (f.step, f.time, f.snap))) :=
  probes_aux upd upd' h k T true fuel 0 0 s0 [] [] [] [] rfl

/-- Resumption: if the update ignores the step index and the clock (time-independent drive, fixed time
    step: what a seed solution does not restore is then irrelevant), the state after `N₁ + N₂` updates
    is the state after `N₂` updates started from the state after `N₁` updates. -/
theorem C11_resume (upd : S → ℕ → K → K × S × R) (s0 : S)
    (hind : ∀ s i t i' t', (upd s i t).2.1 = (upd s i' t').2.1) (N₁ N₂ : ℕ) :
    (traj upd s0 (N₁ + N₂)).2 = (traj upd (traj upd s0 N₁).2 N₂).2 := by
  induction N₂ with
  | zero => rfl
  | succ n ih =>
    show (upd (traj upd s0 (N₁ + n)).2 (N₁ + n) (traj upd s0 (N₁ + n)).1).2.1 =
      (upd (traj upd (traj upd s0 N₁).2 n).2 n (traj upd (traj upd s0 N₁).2 n).1).2.1
    rw [ih]
    exact hind _ _ _ _ _


end Tdgl.C11
