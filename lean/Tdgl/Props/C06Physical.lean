/-
  C06 — "on every mesh site that belongs to a current terminal the order parameter equals the configured terminal value at
  every step", for the recorded run of the physical ADAPTIVE update (models: Tdgl/AdaptiveRun.lean, Tdgl/Runner.lean
  instantiated by `C05.physUpd`; `C06Run.lean` covers the fixed-step run `runStepsP`).

    * `C06_adaptive_step_pins` — an answered whole update returns exactly the terminal value on every pinned site, whatever the
      state it was given held there (a seed computed with another terminal value, a state handed in from outside), whatever
      time step the retry loop ended with;
    * `C06_adaptive_step_free_when_unset` — with the terminal value unset the returned value on a terminal site is the solution
      of that site's equation, like on any other site;
    * `C06_physical_frames_pinned` — every frame of a finished recorded stage with a label ≥ 1 holds the terminal value on the
      pinned sites.
-/
import Mathlib.Algebra.Order.Field.Basic
import Mathlib.Analysis.SpecialFunctions.Trigonometric.Basic
import Mathlib.Tactic.Common
import Tdgl.Lemmas.RealInst
import Tdgl.Props.C02Run
import Tdgl.Props.C05Physical

open Tdgl

namespace Tdgl.C06

theorem C06_adaptive_step_pins (m : FVMesh ℝ) (fixed : ℕ → Bool) (v : Cx ℝ) (U : ℕ → Cx ℝ)
    (solve : (ℕ → ℝ) → (ℕ → ℝ)) (eps : ℕ → ℝ) (gamma u : ℝ) (mb : ℕ → ℝ) (o : AdaptOpts ℝ) (i : ℕ)
    (s s' : AState ℝ) (dt : ℝ)
    (h : adaptiveStep m fixed (some v) U solve eps gamma u mb o i s = some (dt, s'))
    (r : ℕ) (hr : r < m.n) (hfix : fixed r = true) : s'.phys.psi r = v := by
  obtain ⟨p, _, hp⟩ := C02.C02_adaptive_step_sound m fixed (some v) U solve eps gamma u mb o i s s' dt h r hr
  simpa [hfix] using hp

theorem C06_adaptive_step_free_when_unset (m : FVMesh ℝ) (terminal : ℕ → Bool) (U : ℕ → Cx ℝ)
    (solve : (ℕ → ℝ) → (ℕ → ℝ)) (eps : ℕ → ℝ) (gamma u : ℝ) (mb : ℕ → ℝ) (o : AdaptOpts ℝ) (i : ℕ)
    (s s' : AState ℝ) (dt : ℝ)
    (h : adaptiveStep m terminal none U solve eps gamma u mb o i s = some (dt, s'))
    (r : ℕ) (hr : r < m.n) :
    Cx.add (s'.phys.psi r) (Cx.smul (Cx.normSq (s'.phys.psi r)) (C02.zSite gamma dt s.phys r))
      = C02.wSite m terminal U eps gamma u dt s.phys r := by
  obtain ⟨p, hp, hpsi⟩ := C02.C02_adaptive_step_sound m terminal none U solve eps gamma u mb o i s s' dt h r hr
  simp only at hpsi
  rw [hpsi]
  exact hp

theorem C06_physical_frames_pinned (m : FVMesh ℝ) (fixed : ℕ → Bool) (v : Cx ℝ) (U : ℕ → Cx ℝ)
    (solve : (ℕ → ℝ) → (ℕ → ℝ)) (eps : ℕ → ℝ) (gamma u : ℝ) (mb : ℕ → ℝ) (o : AdaptOpts ℝ)
    (s0 : AState ℝ) (k : ℕ) (hk : 0 < k) (T : ℝ) (fuel : ℕ) (e : StageEnd ℝ (AState ℝ) ℝ)
    (h : runStage (C05.physUpd m fixed (some v) U solve eps gamma u mb o) true k T fuel 0 0 s0 [] [] = some e)
    (hans : ∀ j, adaptiveStep m fixed (some v) U solve eps gamma u mb o j
        (traj (C05.physUpd m fixed (some v) U solve eps gamma u mb o) s0 j).2 ≠ none)
    (f : Frame ℝ (AState ℝ) ℝ) (hf : f ∈ e.frames) (hlabel : 1 ≤ f.step)
    (r : ℕ) (hr : r < m.n) (hfix : fixed r = true) : f.snap.phys.psi r = v := by
  obtain ⟨N, _, _, hon, _⟩ := C05.C05_physical_frames m fixed (some v) U solve eps gamma u mb o s0 k hk T fuel e h
  rw [(hon f hf).2]
  obtain ⟨j, hj⟩ : ∃ j, f.step = j + 1 := ⟨f.step - 1, by omega⟩
  rw [hj]
  obtain ⟨_, hstep, _⟩ := C05.C05_physical_steps_solve_site_equations m fixed (some v) U solve eps gamma u mb o s0 j (hans j)
  exact C06_adaptive_step_pins m fixed v U solve eps gamma u mb o j _ _ _ hstep r hr hfix

end Tdgl.C06
