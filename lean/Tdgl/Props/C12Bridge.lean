/-
  Tie B for C12: the source lines of the time-step logic (windowed rule, clip, warm-up test, retry update,
  raise condition) as regenerated from /repo are the lines the model `Tdgl.Adaptive` was written against.
-/
import Tdgl.Generated.AdaptGen

open Tdgl.Gen

namespace Tdgl.C12

theorem C12_bridge_source_lines :
    src_new_dt = model_new_dt ∧ src_tent = model_tent ∧ src_window_test = model_window_test ∧
    src_retry = model_retry ∧ src_cond = model_cond := by
  refine ⟨?_, ?_, ?_, ?_, ?_⟩ <;> rfl

/-- the change of |ψ|² that feeds the windowed mean is recorded once per solve step, in `update` outside the
    screening loop (the model's `adaptAfter` is applied once per update), and it is the change of |ψ|² -/
theorem C12_bridge_record_site : src_record = model_record := rfl

end Tdgl.C12
