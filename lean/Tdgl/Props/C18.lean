/-
  C18 — polygon and device geometry operations mean what they say.   Model: Tdgl/Geometry.lean.
  The set operations and point membership are shapely / matplotlib: they enter as an abstract membership
  predicate per shape (`mem : Shape → Pt → Prop`) with the pointwise laws those libraries are trusted to
  satisfy away from boundaries; the repo's own logic on top of them is what is proved.
-/
import Mathlib.Algebra.Order.Field.Basic
import Mathlib.Tactic.Ring
import Mathlib.Tactic.Linarith
import Mathlib.Tactic.Common
import Tdgl.Geometry

open Tdgl

namespace Tdgl.C18

section area
variable {K : Type} [Field K]

/-- sum of cross products over consecutive pairs of an open chain -/
private def chain : List (Pt K) → K
  | [] => 0
  | [_] => 0
  | p :: q :: rest => cross p q + chain (q :: rest)

private theorem shoelace_eq_chain (rest : List (Pt K)) (p first : Pt K) :
    shoelace2 (p :: rest) first = chain (p :: rest ++ [first]) := by
  induction rest generalizing p with
  | nil => simp [shoelace2, chain]
  | cons q r ih =>
    have := ih q
    simp only [List.cons_append] at this ⊢
    simp only [shoelace2, chain, this]

private theorem signedArea_eq_chain (rest : List (Pt K)) (p : Pt K) :
    signedArea2 (p :: rest) = chain (p :: rest ++ [p]) :=
  shoelace_eq_chain rest p p

private theorem chain_append (l1 l2 : List (Pt K)) (x : Pt K) :
    chain (l1 ++ x :: l2) = chain (l1 ++ [x]) + chain (x :: l2) := by
  induction l1 with
  | nil => simp [chain]
  | cons p l1 ih =>
    cases l1 with
    | nil => simp [chain]
    | cons q l1' =>
      simp only [List.cons_append] at ih ⊢
      simp only [chain, ih]
      ring

private theorem chain_reverse (l : List (Pt K)) : chain l.reverse = - chain l := by
  induction l with
  | nil => simp [chain]
  | cons p l ih =>
    cases l with
    | nil => simp [chain]
    | cons q r =>
      have h1 : (p :: q :: r).reverse = r.reverse ++ q :: [p] := by simp
      have h2 : (q :: r).reverse = r.reverse ++ [q] := by simp
      rw [h1, chain_append, ← h2, ih]
      simp only [chain, cross]
      ring

private theorem shoelace_affine (T : Affine K) (rest : List (Pt K)) (p first : Pt K) :
    shoelace2 ((p :: rest).map T.apply) (T.apply first)
      = T.det * shoelace2 (p :: rest) first
        + T.tx * ((T.apply first).2 - (T.apply p).2) - T.ty * ((T.apply first).1 - (T.apply p).1) := by
  induction rest generalizing p with
  | nil =>
    simp only [List.map, shoelace2, cross, Affine.apply, Affine.det]
    ring
  | cons q r ih =>
    have := ih q
    simp only [List.map_cons] at this ⊢
    simp only [shoelace2, this]
    simp only [cross, Affine.apply, Affine.det]
    ring

/-- The shoelace area transforms with the determinant under any affine map, for polygons with any number
    of vertices. -/
theorem C18_area_affine (T : Affine K) (l : List (Pt K)) :
    signedArea2 (l.map T.apply) = T.det * signedArea2 l := by
  cases l with
  | nil => simp [signedArea2]
  | cons p rest =>
    show shoelace2 ((p :: rest).map T.apply) (T.apply p) = T.det * shoelace2 (p :: rest) p
    rw [shoelace_affine]
    ring

/-- Translation preserves area. -/
theorem C18_translate_area (tx ty : K) (l : List (Pt K)) :
    signedArea2 (l.map (Affine.apply ⟨1, 0, 0, 1, tx, ty⟩)) = signedArea2 l := by
  rw [C18_area_affine]
  simp [Affine.det]

/-- Rotation (`c² + s² = 1`) about any origin preserves area. -/
theorem C18_rotate_area (c s ox oy : K) (h : c * c + s * s = 1) (l : List (Pt K)) :
    signedArea2 (l.map (Affine.apply ⟨c, -s, s, c, ox - c * ox + s * oy, oy - s * ox - c * oy⟩))
      = signedArea2 l := by
  rw [C18_area_affine]
  have : Affine.det (⟨c, -s, s, c, ox - c * ox + s * oy, oy - s * ox - c * oy⟩ : Affine K) = 1 := by
    simp only [Affine.det]
    rw [← h]
    ring
  rw [this, one_mul]

/-- Scaling by `(fx, fy)` about any origin multiplies the signed area by `fx · fy`
    (a reflection, `fx fy < 0`, flips the orientation). -/
theorem C18_scale_area (fx fy ox oy : K) (l : List (Pt K)) :
    signedArea2 (l.map (Affine.apply ⟨fx, 0, 0, fy, ox - fx * ox, oy - fy * oy⟩))
      = fx * fy * signedArea2 l := by
  rw [C18_area_affine]
  simp [Affine.det]

/-- Reversing the vertex order negates the signed area. -/
theorem C18_reverse_area (l : List (Pt K)) : signedArea2 l.reverse = - signedArea2 l := by
  cases l with
  | nil => simp [signedArea2]
  | cons p rest =>
    rcases List.eq_nil_or_concat rest with rfl | ⟨m, z, hz⟩
    · show cross p p = - cross p p
      simp only [cross]
      ring
    · rw [List.concat_eq_append] at hz
      subst hz
      have h1 : (p :: (m ++ [z])).reverse = z :: (m.reverse ++ [p]) := by simp
      rw [h1, signedArea_eq_chain, signedArea_eq_chain, ← chain_reverse]
      have h2 : (p :: (m ++ [z]) ++ [p]).reverse = p :: z :: (m.reverse ++ [p]) := by simp
      have h3 : z :: (m.reverse ++ [p]) ++ [z] = (z :: m.reverse) ++ p :: [z] := by simp
      rw [h2, h3, chain_append]
      simp only [chain, List.cons_append]
      ring

end area

section orient
variable {K : Type} [Field K] [LinearOrder K] [IsStrictOrderedRing K]

/-- After orientation the polygon is counter-clockwise (non-negative signed area) and has the same
    absolute area: `|fx fy|` scaling law for the stored polygon, reflections included. -/
theorem C18_orient_ccw (l : List (Pt K)) :
    0 ≤ signedArea2 (orientCCW l) ∧ signedArea2 (orientCCW l) = |signedArea2 l| := by
  unfold orientCCW
  split_ifs with hneg
  · rw [C18_reverse_area, abs_of_neg hneg]
    exact ⟨by linarith, rfl⟩
  · have h0 : 0 ≤ signedArea2 l := not_lt.mp hneg
    exact ⟨h0, (abs_of_nonneg h0).symm⟩

/-- Scaling with both factors of the same sign (in particular both negative: a rotation by 180° combined with
    a stretch) keeps a counter-clockwise polygon counter-clockwise, so storing its image needs no reversal; with
    factors of opposite sign the image is clockwise and `orientCCW` reverses it. -/
theorem C18_scale_orientation (fx fy ox oy : K) (l : List (Pt K)) (hl : 0 < signedArea2 l) :
    (0 < fx * fy → orientCCW (l.map (Affine.apply ⟨fx, 0, 0, fy, ox - fx * ox, oy - fy * oy⟩))
        = l.map (Affine.apply ⟨fx, 0, 0, fy, ox - fx * ox, oy - fy * oy⟩)) ∧
    (fx * fy < 0 → orientCCW (l.map (Affine.apply ⟨fx, 0, 0, fy, ox - fx * ox, oy - fy * oy⟩))
        = (l.map (Affine.apply ⟨fx, 0, 0, fy, ox - fx * ox, oy - fy * oy⟩)).reverse) := by
  constructor
  · intro h
    unfold orientCCW
    rw [C18_scale_area, if_neg]
    exact not_lt.mpr (le_of_lt (mul_pos h hl))
  · intro h
    unfold orientCCW
    rw [C18_scale_area, if_pos]
    exact mul_neg_of_neg_of_pos h hl

omit [Field K] [IsStrictOrderedRing K] in
private theorem closeCurve_cons (p : Pt K) (rest : List (Pt K)) :
    closeCurve (p :: rest)
      = if p = (p :: rest).getLast (by simp) then p :: rest else p :: rest ++ [p] := by
  have hl : (p :: rest).getLast? = some ((p :: rest).getLast (by simp)) :=
    List.getLast?_eq_some_getLast (by simp)
  unfold closeCurve
  rw [hl]

/-- Stored vertices are closed: after `closeCurve` the first and last vertices coincide, and closing an
    already closed curve changes nothing. -/
theorem C18_close_closed (l : List (Pt K)) (h : l ≠ []) :
    (closeCurve l).head? = (closeCurve l).getLast? ∧ closeCurve (closeCurve l) = closeCurve l := by
  cases l with
  | nil => exact absurd rfl h
  | cons p rest =>
    by_cases hc : p = (p :: rest).getLast (by simp)
    · have e : closeCurve (p :: rest) = p :: rest := by
        rw [closeCurve_cons, if_pos hc]
      rw [e]
      refine ⟨?_, ?_⟩
      · rw [List.getLast?_eq_some_getLast (by simp), ← hc]; rfl
      · exact e
    · have e : closeCurve (p :: rest) = p :: (rest ++ [p]) := by
        rw [closeCurve_cons, if_neg hc]; rfl
      rw [e]
      refine ⟨?_, ?_⟩
      · have : p :: (rest ++ [p]) = (p :: rest) ++ [p] := rfl
        rw [this, List.getLast?_append]; simp
      · rw [closeCurve_cons, if_pos]
        simp [List.getLast_cons]

/-- Closing does not change the area. -/
theorem C18_close_area (l : List (Pt K)) : signedArea2 (closeCurve l) = signedArea2 l := by
  cases l with
  | nil => rfl
  | cons p rest =>
    rw [closeCurve_cons]
    split_ifs with hc
    · rfl
    · have h1 : p :: rest ++ [p] = p :: (rest ++ [p]) := rfl
      rw [h1, signedArea_eq_chain, signedArea_eq_chain]
      have h2 : p :: (rest ++ [p]) ++ [p] = (p :: rest) ++ p :: [p] := by simp
      rw [h2, chain_append]
      simp only [chain, cross]
      ring

end orient

section sets
/-- shapes with a membership predicate and the three set operations of the geometry kernel -/
structure Kernel (Shape P : Type) where
  mem : Shape → P → Prop
  union : Shape → Shape → Shape
  inter : Shape → Shape → Shape
  diff : Shape → Shape → Shape
  mem_union : ∀ a b p, mem (union a b) p ↔ mem a p ∨ mem b p
  mem_inter : ∀ a b p, mem (inter a b) p ↔ mem a p ∧ mem b p
  mem_diff : ∀ a b p, mem (diff a b) p ↔ mem a p ∧ ¬ mem b p

variable {Shape P : Type}

/-- `Polygon.union(*others)` folds to the left, one kernel call per operand -/
def unionAll (k : Kernel Shape P) (a : Shape) (others : List Shape) : Shape := others.foldl k.union a
def interAll (k : Kernel Shape P) (a : Shape) (others : List Shape) : Shape := others.foldl k.inter a
def diffAll (k : Kernel Shape P) (a : Shape) (others : List Shape) : Shape := others.foldl k.diff a

/-- Chains of unions / intersections / differences agree with point-wise membership of the operands. -/
theorem C18_union_chain (k : Kernel Shape P) (a : Shape) (others : List Shape) (p : P) :
    k.mem (unionAll k a others) p ↔ k.mem a p ∨ ∃ b ∈ others, k.mem b p := by
  unfold unionAll
  induction others generalizing a with
  | nil => simp
  | cons b bs ih =>
    rw [List.foldl_cons, ih, k.mem_union]
    simp only [List.mem_cons, exists_eq_or_imp, or_assoc]

theorem C18_inter_chain (k : Kernel Shape P) (a : Shape) (others : List Shape) (p : P) :
    k.mem (interAll k a others) p ↔ k.mem a p ∧ ∀ b ∈ others, k.mem b p := by
  unfold interAll
  induction others generalizing a with
  | nil => simp
  | cons b bs ih =>
    rw [List.foldl_cons, ih, k.mem_inter]
    simp only [List.mem_cons, forall_eq_or_imp, and_assoc]

theorem C18_diff_chain (k : Kernel Shape P) (a : Shape) (others : List Shape) (p : P) :
    k.mem (diffAll k a others) p ↔ k.mem a p ∧ ∀ b ∈ others, ¬ k.mem b p := by
  unfold diffAll
  induction others generalizing a with
  | nil => simp
  | cons b bs ih =>
    rw [List.foldl_cons, ih, k.mem_diff]
    simp only [List.mem_cons, forall_eq_or_imp, and_assoc]

/-- `Device.contains_points`: `film & ~logical_or.reduce(holes)` -/
def deviceContains (k : Kernel Shape P) (film : Shape) (holes : List Shape) (p : P) : Prop :=
  k.mem film p ∧ ¬ (holes.foldl (fun acc h => acc ∨ k.mem h p) False)

private theorem foldl_or_iff (k : Kernel Shape P) (holes : List Shape) (p : P) (init : Prop) :
    holes.foldl (fun acc h => acc ∨ k.mem h p) init ↔ init ∨ ∃ h ∈ holes, k.mem h p := by
  induction holes generalizing init with
  | nil => simp
  | cons b bs ih =>
    rw [List.foldl_cons, ih]
    simp only [List.mem_cons, exists_eq_or_imp, or_assoc]

/-- A point is inside a device exactly when it is inside the film and outside every hole. -/
theorem C18_device_contains (k : Kernel Shape P) (film : Shape) (holes : List Shape) (p : P) :
    deviceContains k film holes p ↔ k.mem film p ∧ ∀ h ∈ holes, ¬ k.mem h p := by
  unfold deviceContains
  rw [foldl_or_iff]
  simp

end sets

end Tdgl.C18
