/-
  C01 (the grounded solve of the repair 86941f9) — when the pure-Neumann matrix of the scalar potential is exactly
  singular the library now drops the equation of site 0, imposes μ₀ = 0 and solves the rest.  The dropped equation holds
  all the same whenever the right-hand side is compatible (its area-weighted sum vanishes: the terminal currents are
  balanced), because the area-weighted sum of the Laplacian of ANY potential vanishes.  So the grounded solve is a solve,
  and per-cell continuity (C01_cell_continuity) holds in every cell, site 0 included.
-/
import Mathlib.Algebra.BigOperators.Group.Finset.Basic
import Mathlib.Algebra.BigOperators.Ring.Finset
import Mathlib.Algebra.BigOperators.Field
import Mathlib.Algebra.Field.Basic
import Mathlib.Tactic.Ring
import Mathlib.Tactic.Linarith
import Mathlib.Tactic.FieldSimp
import Mathlib.Tactic.LinearCombination
import Tdgl.Lemmas.Sums
import Tdgl.Operators
import Tdgl.Update
import Tdgl.Props.C01
import Tdgl.Props.C03

open Finset Tdgl

namespace Tdgl.C01

variable {K : Type} [Field K]

/-- If `μ` satisfies the Poisson equation in every cell but cell 0 and the right-hand side is compatible, it satisfies
    it in cell 0 as well. -/
theorem C01_grounded_solve_is_a_solve (m : FVMesh K) (hm : m.WF) (ha : ∀ r, r < m.n → m.area r ≠ 0) (hn : 0 < m.n)
    (mu rhs : ℕ → K) (hrows : ∀ r, r < m.n → r ≠ 0 → lapRow m mu r = rhs r)
    (hcompat : sumTo (fun r => m.area r * rhs r) m.n = 0) :
    ∀ r, r < m.n → lapRow m mu r = rhs r := by
  intro r hr
  by_cases h0 : r = 0
  swap
  · exact hrows r hr h0
  subst h0
  -- the area-weighted sum of the Laplacian of any potential vanishes
  have hL : sumTo (fun r => m.area r * lapRow m mu r) m.n = 0 := by
    have := C03.C03_div_sum_zero m hm ha (gradEdge m mu)
    simpa only [← C03.C03_lap_eq_div_grad] using this
  have hdiff : ∑ r ∈ Finset.range m.n, m.area r * (lapRow m mu r - rhs r) = 0 := by
    have h1 : ∑ r ∈ Finset.range m.n, m.area r * lapRow m mu r = 0 := by rw [← sumTo_eq]; exact hL
    have h2 : ∑ r ∈ Finset.range m.n, m.area r * rhs r = 0 := by rw [← sumTo_eq]; exact hcompat
    simp only [mul_sub, Finset.sum_sub_distrib, h1, h2, sub_zero]
  rw [Finset.sum_eq_single 0] at hdiff
  · have := ha 0 hn
    have h3 : lapRow m mu 0 - rhs 0 = 0 := by
      rcases mul_eq_zero.mp hdiff with h | h
      · exact absurd h this
      · exact h
    exact sub_eq_zero.mp h3
  · intro b hb hb0
    rw [hrows b (Finset.mem_range.mp hb) hb0, sub_self, mul_zero]
  · intro h
    exact absurd (Finset.mem_range.mpr hn) h

/-- Hence per-cell continuity holds in every cell for the potential returned by the grounded solve. -/
theorem C01_cell_continuity_grounded (m : FVMesh K) (hm : m.WF) (ha : ∀ r, r < m.n → m.area r ≠ 0) (hn : 0 < m.n)
    (js dAdt mb mu : ℕ → K)
    (hrows : ∀ r, r < m.n → r ≠ 0 → lapRow m mu r = poissonRhs m js dAdt mb r)
    (hcompat : sumTo (fun r => m.area r * poissonRhs m js dAdt mb r) m.n = 0) (r : ℕ) (hr : r < m.n) :
    divRow m (fun e => js e + normalEdge m mu dAdt e) r = neuRow m mb r := by
  exact C01_cell_continuity m js dAdt mb mu
    (C01_grounded_solve_is_a_solve m hm ha hn mu _ hrows hcompat) r hr

end Tdgl.C01
