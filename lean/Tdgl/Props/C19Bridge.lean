/-
  Tie B for C19: the `if …: raise` chain regenerated from `SolverOptions.validate` equals the model
  `Opts.validate` (same checks, same order, same comparisons).
-/
import Mathlib.Algebra.Order.Field.Basic
import Mathlib.Tactic.Common
import Tdgl.Options
import Tdgl.Generated.ValidateGen

open Tdgl Tdgl.Gen

namespace Tdgl.C19

theorem C19_bridge_validate {K : Type} [Field K] [LinearOrder K] [IsStrictOrderedRing K] (o : Opts K) :
    validateGen o = o.validate := by
  unfold validateGen Opts.validate
  simp only [decide_eq_true_eq, Bool.and_eq_true, Bool.not_eq_true']
  rfl

end Tdgl.C19
