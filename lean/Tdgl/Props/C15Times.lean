/-
  C15 — "cancellation returns a usable partial solution": the frames of a run stopped inside an update carry exactly the labels
  `0, k, 2k, … ≤ M` plus `M` (the step at which it stopped) when `M` is off the grid — so, with `C05_times_of_steps`, the times
  the partial solution reports (computed from its `M` per-step records, with no reference to the requested solve time) are
  exactly the times of the frames the file holds.                Models: Tdgl/Handler.lean, Tdgl/Reader.lean.
-/
import Mathlib.Data.List.Basic
import Mathlib.Order.Basic
import Mathlib.Tactic.Common
import Tdgl.Runner
import Tdgl.Handler
import Tdgl.Reader
import Tdgl.Props.C15
import Tdgl.Props.C05Reader

open Tdgl

namespace Tdgl.C15

variable {K S R : Type} [Add K] [LE K] [DecidableLE K] [OfNat K 0]

/-- the labels a truthful output of a recorded stage that ended at step `M` carries -/
def labelsUpTo (k M : ℕ) : List ℕ :=
  ((List.range (M+1)).filter (fun i => i % k = 0)) ++ (if M % k = 0 then [] else [M])

private theorem filter_succ_grid (k i : ℕ) (h : i % k = 0) :
    (List.range (i+1)).filter (fun j => j % k = 0) = (List.range i).filter (fun j => j % k = 0) ++ [i] := by
  rw [List.range_succ, List.filter_append]
  simp [h]

private theorem filter_succ_off (k i : ℕ) (h : ¬ i % k = 0) :
    (List.range (i+1)).filter (fun j => j % k = 0) = (List.range i).filter (fun j => j % k = 0) := by
  rw [List.range_succ, List.filter_append]
  simp [h]

omit [Add K] [LE K] [DecidableLE K] [OfNat K 0] in
private theorem mkFrame_step (i : ℕ) (t : K) (s : S) (buf : List R) : (mkFrame i t s buf).step = i := rfl

/-- the outcome of a stage carries the labels `labelsUpTo k M`, `M` the step it ended at (finished or cancelled) -/
private def LabelsOK (k : ℕ) : StageOutcome K S R → Prop
  | .finished e _ => e.frames.map (·.step) = labelsUpTo k e.steps
  | .cancelled e _ => e.frames.map (·.step) = labelsUpTo k e.steps
  | _ => True

omit [Add K] [LE K] [DecidableLE K] [OfNat K 0] in
private theorem finalSave_labels (flt : Faults) (hsave : ∀ j, flt.save j = none) (k i : ℕ) (t : K) (s : S)
    (buf : List R) (fr : List (Frame K S R)) (saves : ℕ) (c : Bool)
    (hfr : fr.map (·.step) = (List.range (i+1)).filter (fun j => j % k = 0)) :
    LabelsOK k (finalSave flt true k i t s buf fr saves c) := by
  unfold finalSave trySave
  rw [hsave]
  by_cases hg : i % k = 0
  · have : ¬ (true = true ∧ i % k ≠ 0) := by simp [hg]
    rw [if_neg this]
    cases c <;> simp [LabelsOK, labelsUpTo, hfr, hg]
  · have : (true = true ∧ i % k ≠ 0) := ⟨rfl, hg⟩
    rw [if_pos this]
    cases c <;> simp [LabelsOK, labelsUpTo, hfr, hg, mkFrame_step]

private theorem stage_labels (upd : S → ℕ → K → K × S × R) (flt : Faults) (hsave : ∀ j, flt.save j = none)
    (stage k : ℕ) (T : K) :
    ∀ (fuel i : ℕ) (t : K) (s : S) (buf : List R) (fr : List (Frame K S R)) (saves : ℕ),
      fr.map (·.step) = (List.range i).filter (fun j => j % k = 0) →
      LabelsOK k (runStageF upd flt stage true k T fuel i t s buf fr saves) := by
  intro fuel
  induction fuel with
  | zero => intro i t s buf fr saves _; simp [runStageF, LabelsOK]
  | succ fuel ih =>
    intro i t s buf fr saves hfr
    unfold runStageF
    simp only
    by_cases hg : i % k = 0
    · -- a grid step: the frame is written (no writer faults)
      have hc : (i % k = 0 ∧ True) := ⟨hg, trivial⟩
      rw [if_pos hc]
      unfold trySave
      rw [hsave]
      simp only
      have hfr' : (fr ++ [mkFrame i t s buf]).map (·.step) = (List.range (i+1)).filter (fun j => j % k = 0) := by
        rw [List.map_append, hfr, filter_succ_grid k i hg]
        simp [mkFrame_step]
      by_cases hT : T ≤ t
      · rw [if_pos hT]
        exact finalSave_labels flt hsave k i t s _ _ _ false hfr'
      · rw [if_neg hT]
        cases hu : flt.upd stage i with
        | none => exact ih (i+1) _ _ _ _ _ hfr'
        | some f =>
          cases f with
          | error => simp [LabelsOK]
          | interrupt => exact finalSave_labels flt hsave k i t s _ _ _ true hfr'
    · have hc : ¬ (i % k = 0 ∧ True) := by simp [hg]
      rw [if_neg hc]
      simp only
      have hfr' : fr.map (·.step) = (List.range (i+1)).filter (fun j => j % k = 0) := by
        rw [hfr, filter_succ_off k i hg]
      by_cases hT : T ≤ t
      · rw [if_pos hT]
        exact finalSave_labels flt hsave k i t s _ _ _ false hfr'
      · rw [if_neg hT]
        cases hu : flt.upd stage i with
        | none => exact ih (i+1) _ _ _ _ _ hfr'
        | some f =>
          cases f with
          | error => simp [LabelsOK]
          | interrupt => exact finalSave_labels flt hsave k i t s _ _ _ true hfr'

/-- **Labels of a stopped run.**  With faults in the updates only (a Ctrl-C or an error at any update of the stage), a recorded
    stage that is cancelled — or finishes — at step `M` has written exactly the frames labelled `0, k, 2k, … ≤ M`, and `M`. -/
theorem C15_stopped_run_labels (upd : S → ℕ → K → K × S × R) (flt : Faults) (hsave : ∀ j, flt.save j = none)
    (stage k : ℕ) (T : K) (fuel : ℕ) (s0 : S) (e : StageEnd K S R) (saves : ℕ)
    (h : runStageF upd flt stage true k T fuel 0 0 s0 [] [] 0 = .cancelled e saves ∨
         runStageF upd flt stage true k T fuel 0 0 s0 [] [] 0 = .finished e saves) :
    e.frames.map (·.step) = labelsUpTo k e.steps := by
  have := stage_labels upd flt hsave stage k T fuel 0 0 s0 [] [] 0 (by simp)
  rcases h with h | h <;> rw [h] at this <;> exact this

/-! ### under ARBITRARY faults (frame writer included): every frame sits on the save grid, except possibly the last one -/

private def GridOK (k : ℕ) : StageOutcome K S R → Prop
  | .finished e _ => ∀ f ∈ e.frames, f.step % k = 0 ∨ f.step = e.steps
  | .cancelled e _ => ∀ f ∈ e.frames, f.step % k = 0 ∨ f.step = e.steps
  | .raised fr _ => ∀ f ∈ fr, f.step % k = 0
  | .outOfFuel => True

omit [Add K] [LE K] [DecidableLE K] [OfNat K 0] in
private theorem finalSave_grid (flt : Faults) (save : Bool) (k i : ℕ) (t : K) (s : S)
    (buf : List R) (fr : List (Frame K S R)) (saves : ℕ) (c : Bool)
    (hfr : ∀ f ∈ fr, f.step % k = 0) :
    GridOK k (finalSave flt save k i t s buf fr saves c) := by
  unfold finalSave trySave
  split
  · cases hflt : flt.save saves with
    | none =>
      have hall : ∀ f ∈ fr ++ [mkFrame i t s buf], f.step % k = 0 ∨ f.step = i := by
        intro f hf
        rcases List.mem_append.1 hf with h | h
        · exact Or.inl (hfr f h)
        · simp only [List.mem_singleton] at h
          subst h
          exact Or.inr rfl
      cases c <;> simpa [GridOK] using hall
    | some flt' => simpa [GridOK] using hfr
  · cases c <;> simp only [GridOK] <;> intro f hf <;> exact Or.inl (hfr f hf)

private theorem stage_grid (upd : S → ℕ → K → K × S × R) (flt : Faults) (stage : ℕ) (save : Bool) (k : ℕ) (T : K) :
    ∀ (fuel i : ℕ) (t : K) (s : S) (buf : List R) (fr : List (Frame K S R)) (saves : ℕ),
      (∀ f ∈ fr, f.step % k = 0) →
      GridOK k (runStageF upd flt stage save k T fuel i t s buf fr saves) := by
  intro fuel
  induction fuel with
  | zero => intro i t s buf fr saves _; simp [runStageF, GridOK]
  | succ fuel ih =>
    intro i t s buf fr saves hfr
    unfold runStageF
    simp only
    -- the (possibly faulting) save at a grid step
    have key : ∀ (r : Option Fault × List (Frame K S R) × ℕ), (∀ f ∈ r.2.1, f.step % k = 0) →
        GridOK k (match r with
          | (some .error, fr', _) => StageOutcome.raised fr' .error
          | (some .interrupt, fr', saves') => finalSave flt save k i t s (if i % k = 0 then [] else buf) fr' saves' true
          | (none, fr', saves') =>
            if T ≤ t then finalSave flt save k i t s (if i % k = 0 then [] else buf) fr' saves' false
            else
              match flt.upd stage i with
              | some .error => StageOutcome.raised fr' .error
              | some .interrupt => finalSave flt save k i t s (if i % k = 0 then [] else buf) fr' saves' true
              | none =>
                runStageF upd flt stage save k T fuel (i+1) (t + (upd s i t).1) (upd s i t).2.1
                  ((if i % k = 0 then [] else buf) ++ [(upd s i t).2.2]) fr' saves') := by
      rintro ⟨o, fr', saves'⟩ hfr'
      simp only at hfr'
      cases o with
      | some f =>
        cases f with
        | error => simpa [GridOK] using hfr'
        | interrupt => exact finalSave_grid flt save k i t s _ fr' saves' true hfr'
      | none =>
        simp only
        by_cases hT : T ≤ t
        · rw [if_pos hT]
          exact finalSave_grid flt save k i t s _ fr' saves' false hfr'
        · rw [if_neg hT]
          cases hu : flt.upd stage i with
          | none => exact ih (i+1) _ _ _ fr' saves' hfr'
          | some f =>
            cases f with
            | error => simpa [GridOK] using hfr'
            | interrupt => exact finalSave_grid flt save k i t s _ fr' saves' true hfr'
    apply key
    split
    · rename_i hc
      unfold trySave
      cases hflt : flt.save saves with
      | none =>
        simp only
        intro f hf
        rcases List.mem_append.1 hf with h | h
        · exact hfr f h
        · simp only [List.mem_singleton] at h
          subst h
          exact hc.1
      | some flt' => simpa using hfr
    · simpa using hfr

/-- **Whatever faults occur — in the updates and in the frame writer — every frame of the output sits on the save grid, except
    possibly the last one of a run that finished or was cancelled off the grid** (its label is then the step the run stopped
    at).  With `C15_frames_truthful` and `C15_frames_increasing`: the output of any stopped run is a strictly increasing
    selection of grid points of the trajectory, plus at most the stopping point. -/
theorem C15_frames_on_grid (upd : S → ℕ → K → K × S × R) (flt : Faults) (stage : ℕ) (save : Bool) (k : ℕ) (T : K)
    (fuel : ℕ) (s0 : S) (f : Frame K S R)
    (hf : f ∈ outcomeFrames (runStageF upd flt stage save k T fuel 0 0 s0 [] [] 0)) :
    f.step % k = 0 ∨ ∃ e saves, (runStageF upd flt stage save k T fuel 0 0 s0 [] [] 0 = .finished e saves ∨
      runStageF upd flt stage save k T fuel 0 0 s0 [] [] 0 = .cancelled e saves) ∧ f.step = e.steps := by
  have h := stage_grid upd flt stage save k T fuel 0 0 s0 [] [] 0 (by simp)
  cases hr : runStageF upd flt stage save k T fuel 0 0 s0 [] [] 0 with
  | finished e saves =>
    rw [hr] at h hf
    rcases h f hf with h1 | h1
    · exact Or.inl h1
    · exact Or.inr ⟨e, saves, Or.inl rfl, h1⟩
  | cancelled e saves =>
    rw [hr] at h hf
    rcases h f hf with h1 | h1
    · exact Or.inl h1
    · exact Or.inr ⟨e, saves, Or.inr rfl, h1⟩
  | raised fr flt' =>
    rw [hr] at h hf
    exact Or.inl (h f hf)
  | outOfFuel =>
    rw [hr] at hf
    simp [outcomeFrames] at hf

/-! ### the per-step records of a stopped run ("with their bookkeeping intact") -/

omit [Add K] [LE K] [DecidableLE K] [OfNat K 0] in
private theorem allRecs_snoc' (fr : List (Frame K S R)) (f : Frame K S R) :
    allRecs (fr ++ [f]) = allRecs fr ++ f.recs.getD [] := by
  simp [allRecs]

omit [Add K] [LE K] [DecidableLE K] [OfNat K 0] in
private theorem mkFrame_recs' (i : ℕ) (t : K) (s : S) (buf : List R) :
    (mkFrame i t s buf).recs.getD [] = if i = 0 then [] else buf := by
  unfold mkFrame; split <;> simp

private def RecsOK (upd : S → ℕ → K → K × S × R) (s0 : S) : StageOutcome K S R → Prop
  | .finished e _ => allRecs e.frames = (List.range e.steps).map (recAt upd s0)
  | .cancelled e _ => allRecs e.frames = (List.range e.steps).map (recAt upd s0)
  | _ => True

private theorem finalSave_recs (upd : S → ℕ → K → K × S × R) (s0 : S) (flt : Faults) (hsave : ∀ j, flt.save j = none)
    (k i : ℕ) (t : K) (s : S) (buf : List R) (fr : List (Frame K S R)) (saves : ℕ) (c : Bool)
    (hgrid : i % k = 0 → buf = [])
    (hrec : allRecs fr ++ buf = (List.range i).map (recAt upd s0)) :
    RecsOK upd s0 (finalSave flt true k i t s buf fr saves c) := by
  unfold finalSave trySave
  rw [hsave]
  by_cases hg : i % k = 0
  · have : ¬ (true = true ∧ i % k ≠ 0) := by simp [hg]
    rw [if_neg this]
    have hb := hgrid hg
    rw [hb, List.append_nil] at hrec
    cases c <;> simp [RecsOK, hrec]
  · have : (true = true ∧ i % k ≠ 0) := ⟨rfl, hg⟩
    rw [if_pos this]
    have hi : i ≠ 0 := by
      intro h0
      apply hg
      rw [h0]
      exact Nat.zero_mod k
    have : allRecs (fr ++ [mkFrame i t s buf]) = (List.range i).map (recAt upd s0) := by
      rw [allRecs_snoc', mkFrame_recs', if_neg hi, hrec]
    cases c <;> simp [RecsOK, this]

private theorem stage_recs (upd : S → ℕ → K → K × S × R) (s0 : S) (flt : Faults) (hsave : ∀ j, flt.save j = none)
    (stage k : ℕ) (T : K) :
    ∀ (fuel i : ℕ) (t : K) (s : S) (buf : List R) (fr : List (Frame K S R)) (saves : ℕ),
      t = (traj upd s0 i).1 → s = (traj upd s0 i).2 →
      allRecs fr ++ buf = (List.range i).map (recAt upd s0) →
      RecsOK upd s0 (runStageF upd flt stage true k T fuel i t s buf fr saves) := by
  intro fuel
  induction fuel with
  | zero => intro i t s buf fr saves _ _ _; simp [runStageF, RecsOK]
  | succ fuel ih =>
    intro i t s buf fr saves ht hs hrec
    have hnext : ∀ (fr' : List (Frame K S R)) (buf' : List R),
        allRecs fr' ++ buf' = (List.range i).map (recAt upd s0) →
        allRecs fr' ++ (buf' ++ [(upd s i t).2.2]) = (List.range (i+1)).map (recAt upd s0) := by
      intro fr' buf' h
      rw [← List.append_assoc, h, List.range_succ, List.map_append]
      simp only [List.map_cons, List.map_nil, recAt]
      rw [← ht, ← hs]
    have htraj1 : t + (upd s i t).1 = (traj upd s0 (i+1)).1 := by
      show _ = (let p := traj upd s0 i; let r := upd p.2 i p.1; (p.1 + r.1, r.2.1)).1
      simp only
      rw [← ht, ← hs]
    have htraj2 : (upd s i t).2.1 = (traj upd s0 (i+1)).2 := by
      show _ = (let p := traj upd s0 i; let r := upd p.2 i p.1; (p.1 + r.1, r.2.1)).2
      simp only
      rw [← ht, ← hs]
    unfold runStageF
    simp only
    by_cases hg : i % k = 0
    · have hc : (i % k = 0 ∧ True) := ⟨hg, trivial⟩
      rw [if_pos hc]
      unfold trySave
      rw [hsave]
      simp only [if_pos hg]
      have hrec' : allRecs (fr ++ [mkFrame i t s buf]) ++ [] = (List.range i).map (recAt upd s0) := by
        rw [List.append_nil, allRecs_snoc', mkFrame_recs']
        by_cases hi : i = 0
        · rw [if_pos hi]
          subst hi
          simp only [List.range_zero, List.map_nil, List.append_eq_nil_iff] at hrec
          simp [hrec.1]
        · rw [if_neg hi, hrec]
      by_cases hT : T ≤ t
      · rw [if_pos hT]
        exact finalSave_recs upd s0 flt hsave k i t s [] _ _ false (fun _ => rfl) hrec'
      · rw [if_neg hT]
        cases hu : flt.upd stage i with
        | none => exact ih (i+1) _ _ _ _ _ htraj1 htraj2 (hnext _ _ hrec')
        | some f =>
          cases f with
          | error => simp [RecsOK]
          | interrupt => exact finalSave_recs upd s0 flt hsave k i t s [] _ _ true (fun _ => rfl) hrec'
    · have hc : ¬ (i % k = 0 ∧ True) := by simp [hg]
      rw [if_neg hc]
      simp only [if_neg hg]
      by_cases hT : T ≤ t
      · rw [if_pos hT]
        exact finalSave_recs upd s0 flt hsave k i t s buf _ _ false (fun h => absurd h hg) hrec
      · rw [if_neg hT]
        cases hu : flt.upd stage i with
        | none => exact ih (i+1) _ _ _ _ _ htraj1 htraj2 (hnext _ _ hrec)
        | some f =>
          cases f with
          | error => simp [RecsOK]
          | interrupt => exact finalSave_recs upd s0 flt hsave k i t s buf _ _ true (fun h => absurd h hg) hrec

/-- **Bookkeeping of a stopped run.**  With faults in the updates only, the per-step records read back from the frames of a
    stage cancelled (or finished) at step `M` are exactly one record per step `0 … M − 1`, in order: nothing of the steps taken
    before the stop is lost, nothing is recorded twice. -/
theorem C15_stopped_run_records (upd : S → ℕ → K → K × S × R) (flt : Faults) (hsave : ∀ j, flt.save j = none)
    (stage k : ℕ) (T : K) (fuel : ℕ) (s0 : S) (e : StageEnd K S R) (saves : ℕ)
    (h : runStageF upd flt stage true k T fuel 0 0 s0 [] [] 0 = .cancelled e saves ∨
         runStageF upd flt stage true k T fuel 0 0 s0 [] [] 0 = .finished e saves) :
    allRecs e.frames = (List.range e.steps).map (recAt upd s0) := by
  have := stage_recs upd s0 flt hsave stage k T fuel 0 0 s0 [] [] 0 rfl rfl (by simp [allRecs])
  rcases h with h | h <;> rw [h] at this <;> exact this

variable [LT K] [DecidableLT K]

/-- **The partial solution's times are its frames' times.**  For a stage cancelled (or finished) at step `M` with faults in the
    updates only: `Solution.times` computed from the `M` per-step records equals the list of the times of the frames written. -/
theorem C15_partial_times (upd : S → ℕ → K → K × S × R) (flt : Faults) (hsave : ∀ j, flt.save j = none)
    (stage k : ℕ) (T : K) (fuel : ℕ) (s0 : S) (e : StageEnd K S R) (saves : ℕ)
    (h : runStageF upd flt stage true k T fuel 0 0 s0 [] [] 0 = .cancelled e saves ∨
         runStageF upd flt stage true k T fuel 0 0 s0 [] [] 0 = .finished e saves) :
    solutionTimes k (C05.dtsOf upd s0 e.steps) = e.frames.map (·.time) := by
  have hlab := C15_stopped_run_labels upd flt hsave stage k T fuel s0 e saves h
  have htime : e.frames.map (·.time) = (e.frames.map (·.step)).map (fun n => (traj upd s0 n).1) := by
    rw [List.map_map]
    apply List.map_congr_left
    intro f hf
    have hf' : f ∈ outcomeFrames (runStageF upd flt stage true k T fuel 0 0 s0 [] [] 0) := by
      rcases h with h | h <;> rw [h] <;> exact hf
    exact (C15_frames_truthful upd flt stage true k T fuel s0 f hf').1
  rw [htime, hlab, C05.C05_times_of_steps]
  rfl

/-- non-vacuity: a run saving every 4 steps, cancelled by a Ctrl-C inside update 4 (a grid step — the case in which a rule based
    on the solve time reports a time no frame has): it is cancelled at step 4 and its frames carry the labels 0 and 4 -/
example : ∃ e saves, runStageF (K := ℕ) (S := ℕ) (R := Unit) (fun s _ _ => (1, s + 1, ()))
      ⟨fun _ i => if i = 4 then some .interrupt else none, fun _ => none⟩ 1 true 4 10 20 0 0 0 [] [] 0 = .cancelled e saves ∧
    e.steps = 4 ∧ e.frames.map (·.step) = [0, 4] :=
  ⟨_, _, rfl, rfl, rfl⟩

end Tdgl.C15
