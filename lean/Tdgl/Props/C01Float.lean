/-
  C01 (acceptance under rounding) — every balanced assignment of currents is accepted by the repaired test
  `|Σ I| ≤ 1e-9 · max|I|`, in the standard model of floating-point arithmetic.

  Intended (exactly balanced) values `d t`, `Σ d = 0`.  What the validator sees are floats
  `x t = d t · (1 + ρ t)` (decimal input, scaling by `J_scale`: relative error `|ρ t| ≤ u`), summed left to
  right with a relative error `|δ k| ≤ u` per addition, `u = 2⁻⁵³`.  (Python ≥ 3.12 sums floats with
  compensation, which only makes the error smaller; the plain recursive sum is the conservative model.)
-/
import Mathlib.Analysis.SpecialFunctions.Pow.Real
import Mathlib.Algebra.BigOperators.Group.Finset.Basic
import Mathlib.Algebra.Order.BigOperators.Ring.Finset
import Mathlib.Tactic.Ring
import Mathlib.Tactic.Linarith
import Mathlib.Tactic.Positivity
import Mathlib.Tactic.NormNum

open Finset

namespace Tdgl.C01

/-- recursive floating-point summation in the standard model: `fl(a + b) = (a + b)(1 + δ)` -/
noncomputable def flSum (x δ : ℕ → ℝ) : ℕ → ℝ
  | 0 => 0
  | k+1 => (flSum x δ k + x k) * (1 + δ k)

/-- the largest magnitude among the first `n` values -/
noncomputable def maxAbsTo (x : ℕ → ℝ) : ℕ → ℝ
  | 0 => 0
  | k+1 => max (maxAbsTo x k) |x k|

/-- Error bound of recursive summation: `|fl(Σ x) − Σ x| ≤ ((1+u)^n − 1) · Σ |x|`. -/
theorem C01_flSum_error (n : ℕ) (x δ : ℕ → ℝ) (u : ℝ) (hu : 0 ≤ u) (hδ : ∀ k, k < n → |δ k| ≤ u) :
    |flSum x δ n - ∑ t ∈ range n, x t| ≤ ((1 + u) ^ n - 1) * ∑ t ∈ range n, |x t| := by
  induction n with
  | zero => simp [flSum]
  | succ k ih =>
    have ih' := ih (fun j hj => hδ j (Nat.lt_succ_of_lt hj))
    have hδk := hδ k (Nat.lt_succ_self k)
    rw [sum_range_succ, sum_range_succ, pow_succ]
    simp only [flSum]
    have hP : 1 ≤ (1 + u) ^ k := one_le_pow₀ (by linarith)
    have hST : |∑ t ∈ range k, x t| ≤ ∑ t ∈ range k, |x t| := abs_sum_le_sum_abs _ _
    generalize (∑ t ∈ range k, x t) = S at *
    generalize (∑ t ∈ range k, |x t|) = T at *
    generalize flSum x δ k = F at *
    generalize (1 + u) ^ k = P at *
    have hT : 0 ≤ T := le_trans (abs_nonneg _) hST
    have e : (F + x k) * (1 + δ k) - (S + x k) = (F - S) * (1 + δ k) + δ k * (S + x k) := by ring
    rw [e]
    have h1 : |(F - S) * (1 + δ k)| ≤ |F - S| * (1 + u) := by
      rw [abs_mul]
      apply mul_le_mul_of_nonneg_left _ (abs_nonneg _)
      calc |1 + δ k| ≤ |(1 : ℝ)| + |δ k| := abs_add_le _ _
        _ ≤ 1 + u := by rw [abs_one]; linarith
    have h2 : |δ k * (S + x k)| ≤ u * (T + |x k|) := by
      rw [abs_mul]
      apply mul_le_mul hδk _ (abs_nonneg _) hu
      calc |S + x k| ≤ |S| + |x k| := abs_add_le _ _
        _ ≤ T + |x k| := by linarith
    have h3 : |F - S| * (1 + u) ≤ (P - 1) * T * (1 + u) :=
      mul_le_mul_of_nonneg_right ih' (by linarith)
    have h4 : 0 ≤ (P - 1) * (1 + u) * |x k| :=
      mul_nonneg (mul_nonneg (by linarith) (by linarith)) (abs_nonneg _)
    calc |(F - S) * (1 + δ k) + δ k * (S + x k)|
        ≤ |(F - S) * (1 + δ k)| + |δ k * (S + x k)| := abs_add_le _ _
      _ ≤ (P - 1) * T * (1 + u) + u * (T + |x k|) := by linarith
      _ ≤ (P * (1 + u) - 1) * (T + |x k|) := by nlinarith

private lemma maxAbsTo_nonneg (x : ℕ → ℝ) : ∀ n, 0 ≤ maxAbsTo x n
  | 0 => by simp only [maxAbsTo]; exact le_refl _
  | k+1 => by simp only [maxAbsTo]; exact le_max_of_le_right (abs_nonneg _)

private lemma le_maxAbsTo (x : ℕ → ℝ) : ∀ n t, t < n → |x t| ≤ maxAbsTo x n
  | 0, t, h => absurd h (Nat.not_lt_zero _)
  | k+1, t, h => by
    simp only [maxAbsTo]
    rcases Nat.lt_succ_iff_lt_or_eq.mp h with h | h
    · exact le_max_of_le_left (le_maxAbsTo x k t h)
    · subst h; exact le_max_right _ _

private lemma pow_le_lin (u : ℝ) (hu : 0 ≤ u) :
    ∀ k : ℕ, 2 * (k : ℝ) * u ≤ 1 → (1 + u) ^ k ≤ 1 + 2 * k * u
  | 0, _ => by simp
  | k+1, h => by
    push_cast at h ⊢
    have hk0 : (0 : ℝ) ≤ k := Nat.cast_nonneg k
    have hk : 2 * (k : ℝ) * u ≤ 1 := by nlinarith
    have ih := pow_le_lin u hu k hk
    rw [pow_succ]
    have h5 : (1 + u) ^ k * (1 + u) ≤ (1 + 2 * k * u) * (1 + u) :=
      mul_le_mul_of_nonneg_right ih (by linarith)
    have h6 := mul_le_mul_of_nonneg_right hk hu
    nlinarith

/-- Balanced currents are accepted under rounding: for up to 1000 terminals, inputs that are exactly
    balanced up to one rounding each, summed in floating point, pass the test `|Σ| ≤ 1e-9 · max|I|`. -/
theorem C01_balanced_accepted_fp (n : ℕ) (hn : n ≤ 1000) (d ρ δ : ℕ → ℝ) (u : ℝ) (hu : 0 ≤ u)
    (hu' : u ≤ (2 : ℝ) ^ (-(53 : ℤ)))
    (hρ : ∀ t, t < n → |ρ t| ≤ u) (hδ : ∀ k, k < n → |δ k| ≤ u) (hbal : ∑ t ∈ range n, d t = 0) :
    |flSum (fun t => d t * (1 + ρ t)) δ n| ≤ (1e-9 : ℝ) * maxAbsTo (fun t => d t * (1 + ρ t)) n := by
  set x : ℕ → ℝ := fun t => d t * (1 + ρ t) with hx
  have hM0 : 0 ≤ maxAbsTo x n := maxAbsTo_nonneg x n
  generalize hM : maxAbsTo x n = M at *
  have hN : (n : ℝ) ≤ 1000 := by exact_mod_cast hn
  have hN0 : (0 : ℝ) ≤ n := Nat.cast_nonneg n
  have hu2 : u ≤ 1.2e-16 := by
    refine le_trans hu' ?_
    rw [zpow_neg]
    norm_num
  have hsumx0 : 0 ≤ ∑ t ∈ range n, |x t| := sum_nonneg (fun t _ => abs_nonneg _)
  have hsumx : ∑ t ∈ range n, |x t| ≤ n * M := by
    calc ∑ t ∈ range n, |x t| ≤ ∑ _t ∈ range n, M :=
          sum_le_sum (fun t ht => hM ▸ le_maxAbsTo x n t (mem_range.mp ht))
      _ = n * M := by simp
  have hd : ∀ t, t < n → |d t| ≤ 2 * |x t| := by
    intro t ht
    have hr := abs_le.mp (hρ t ht)
    have h1 : 1 - u ≤ |1 + ρ t| := by
      rw [abs_of_nonneg (by linarith)]
      linarith
    have h2 : |x t| = |d t| * |1 + ρ t| := abs_mul _ _
    have h3 := mul_le_mul_of_nonneg_left h1 (abs_nonneg (d t))
    have h4 := mul_le_mul_of_nonneg_left (show u ≤ 1 / 2 by linarith) (abs_nonneg (d t))
    nlinarith
  have hsx : ∑ t ∈ range n, x t = ∑ t ∈ range n, d t * ρ t := by
    have : ∑ t ∈ range n, x t = ∑ t ∈ range n, d t + ∑ t ∈ range n, d t * ρ t := by
      rw [← sum_add_distrib]
      apply sum_congr rfl
      intro t _
      simp only [hx]
      ring
    rw [this, hbal, zero_add]
  have hX : |∑ t ∈ range n, x t| ≤ 2 * u * (n * M) := by
    rw [hsx]
    calc |∑ t ∈ range n, d t * ρ t| ≤ ∑ t ∈ range n, |d t * ρ t| := abs_sum_le_sum_abs _ _
      _ ≤ ∑ t ∈ range n, 2 * u * |x t| := by
          apply sum_le_sum
          intro t ht
          have ht' := mem_range.mp ht
          rw [abs_mul]
          have := mul_le_mul (hd t ht') (hρ t ht') (abs_nonneg _)
            (mul_nonneg (by norm_num) (abs_nonneg _))
          linarith
      _ = 2 * u * ∑ t ∈ range n, |x t| := by rw [mul_sum]
      _ ≤ 2 * u * (n * M) := mul_le_mul_of_nonneg_left hsumx (by linarith)
  have herr := C01_flSum_error n x δ u hu hδ
  have hc : (n : ℝ) * u ≤ 1.2e-13 := by
    have := mul_le_mul hN hu2 hu (by norm_num : (0 : ℝ) ≤ 1000)
    norm_num at this ⊢
    linarith
  have hc0 : 0 ≤ (n : ℝ) * u := mul_nonneg hN0 hu
  have hp : (1 + u) ^ n - 1 ≤ 2 * (n * u) := by
    have := pow_le_lin u hu n (by nlinarith)
    linarith
  have hp0 : 0 ≤ (1 + u) ^ n - 1 := by
    have : 1 ≤ (1 + u) ^ n := one_le_pow₀ (by linarith)
    linarith
  have hE : |flSum x δ n - ∑ t ∈ range n, x t| ≤ 2 * (n * u) * (n * M) :=
    le_trans herr (mul_le_mul hp hsumx hsumx0 (by linarith))
  have hnM : (n : ℝ) * M ≤ 1000 * M := mul_le_mul_of_nonneg_right hN hM0
  have hnM0 : 0 ≤ (n : ℝ) * M := mul_nonneg hN0 hM0
  have hA : 2 * ((n : ℝ) * u) * (n * M) ≤ 2 * 1.2e-13 * (1000 * M) :=
    mul_le_mul (by linarith) hnM hnM0 (by norm_num)
  have hB : 2 * u * ((n : ℝ) * M) = 2 * (n * u) * M := by ring
  have hB' : 2 * ((n : ℝ) * u) * M ≤ 2 * 1.2e-13 * M :=
    mul_le_mul_of_nonneg_right (by linarith) hM0
  have hsplit : flSum x δ n = (flSum x δ n - ∑ t ∈ range n, x t) + ∑ t ∈ range n, x t := by ring
  rw [hsplit]
  refine le_trans (abs_add_le _ _) ?_
  norm_num at hA hB' ⊢
  linarith

end Tdgl.C01
