/-
  C19 — ill-posed problems are rejected before anything is written.
  Model: Tdgl/Options.lean (`Opts.validate`, `currentsAccepted`, `guardedSolve`).
-/
import Mathlib.Algebra.Order.Field.Basic
import Mathlib.Tactic.Ring
import Mathlib.Tactic.Linarith
import Mathlib.Tactic.Common
import Tdgl.Options

open Tdgl

namespace Tdgl.C19

section validate
variable {K : Type} [Field K] [LinearOrder K] [IsStrictOrderedRing K]

private theorem ite_some_eq_none {α : Type} (c : Prop) [Decidable c] (e : α) (x : Option α) :
    (if c then some e else x) = none ↔ ¬ c ∧ x = none := by
  split_ifs with h
  · simp [h]
  · simp [h]

/-- `validate` accepts exactly the consistent option sets (the whole decision logic, stated outright). -/
theorem C19_validate_ok_iff (o : Opts K) :
    o.validate = none ↔
      o.dtInit ≤ o.dtMax ∧ (∀ a, o.terminalPsiAbs = some a → 0 ≤ a ∧ a ≤ 1) ∧
      (0 < o.mult ∧ o.mult < 1) ∧ (0 < o.drag ∧ o.drag ≤ 1) ∧ 0 < o.stepSize ∧ 0 < o.tol ∧
      (o.gpu = true → o.haveCupy = true) ∧ o.solver ≠ .unknown ∧
      (o.solver = .umfpack → o.haveUmfpack = true) ∧ (o.solver = .pardiso → o.havePardiso = true) ∧
      (o.solver = .cupy → o.gpu = true) := by
  obtain ⟨dtInit, dtMax, tpa, mult, drag, stepSize, tol, gpu, solver, haveCupy, haveUmfpack, havePardiso⟩ := o
  unfold Opts.validate
  simp only [ite_some_eq_none, and_true]
  cases tpa <;> simp

theorem C19_reject_dt (o : Opts K) (h : o.dtMax < o.dtInit) : o.validate = some .dtInitGtMax := by
  unfold Opts.validate
  rw [if_pos h]

theorem C19_reject_terminal_psi (o : Opts K) (a : K) (h0 : o.dtInit ≤ o.dtMax)
    (ha : o.terminalPsiAbs = some a) (h : 1 < a ∨ a < 0) : o.validate = some .terminalPsi := by
  unfold Opts.validate
  rw [if_neg (not_lt.mpr h0), ha]
  have : (!(decide (0 ≤ a) && decide (a ≤ 1))) = true := by
    rcases h with h | h
    · simp [not_le.mpr h]
    · simp [not_le.mpr h]
  simp only [this, if_true]

/-- every inconsistent option set is rejected with *some* error -/
theorem C19_reject_any (o : Opts K)
    (h : o.dtMax < o.dtInit ∨ (∃ a, o.terminalPsiAbs = some a ∧ (a < 0 ∨ 1 < a)) ∨ o.mult ≤ 0 ∨ 1 ≤ o.mult ∨
      o.drag ≤ 0 ∨ 1 < o.drag ∨ o.stepSize ≤ 0 ∨ o.tol ≤ 0 ∨ (o.gpu = true ∧ o.haveCupy = false) ∨
      o.solver = .unknown ∨ (o.solver = .umfpack ∧ o.haveUmfpack = false) ∨
      (o.solver = .pardiso ∧ o.havePardiso = false) ∨ (o.solver = .cupy ∧ o.gpu = false)) :
    o.validate ≠ none := by
  intro hn
  rw [C19_validate_ok_iff] at hn
  obtain ⟨h1, h2, ⟨h3, h3'⟩, ⟨h4, h4'⟩, h5, h6, h7, h8, h9, h10, h11⟩ := hn
  rcases h with h | ⟨a, ha, h | h⟩ | h | h | h | h | h | h | ⟨h, h'⟩ | h | ⟨h, h'⟩ | ⟨h, h'⟩ | ⟨h, h'⟩
  · exact absurd h (not_lt.mpr h1)
  · exact absurd h (not_lt.mpr (h2 a ha).1)
  · exact absurd h (not_lt.mpr (h2 a ha).2)
  · exact absurd h (not_le.mpr h3)
  · exact absurd h (not_le.mpr h3')
  · exact absurd h (not_le.mpr h4)
  · exact absurd h (not_lt.mpr h4')
  · exact absurd h (not_le.mpr h5)
  · exact absurd h (not_le.mpr h6)
  · rw [h7 h] at h'; exact Bool.noConfusion h'
  · exact h8 h
  · rw [h9 h] at h'; exact Bool.noConfusion h'
  · rw [h10 h] at h'; exact Bool.noConfusion h'
  · rw [h11 h] at h'; exact Bool.noConfusion h'

end validate

section currents
variable {K : Type} [Field K] [LinearOrder K] [IsStrictOrderedRing K]

private theorem absK_eq_abs (x : K) : absK x = |x| := by
  unfold absK
  split_ifs with h
  · exact (abs_of_neg h).symm
  · exact (abs_of_nonneg (not_lt.mp h)).symm

private theorem foldl_max_spec (l : List K) (m0 : K) :
    m0 ≤ l.foldl (fun m c => if m < absK c then absK c else m) m0 ∧
    ∀ c ∈ l, absK c ≤ l.foldl (fun m c => if m < absK c then absK c else m) m0 := by
  induction l generalizing m0 with
  | nil => exact ⟨le_refl _, fun c hc => absurd hc List.not_mem_nil⟩
  | cons a t ih =>
    simp only [List.foldl_cons]
    obtain ⟨h1, h2⟩ := ih (if m0 < absK a then absK a else m0)
    have hm : m0 ≤ (if m0 < absK a then absK a else m0) := by
      split_ifs with h
      · exact le_of_lt h
      · exact le_refl _
    have ha : absK a ≤ (if m0 < absK a then absK a else m0) := by
      split_ifs with h
      · exact le_refl _
      · exact not_lt.mp h
    refine ⟨le_trans hm h1, ?_⟩
    intro c hc
    rcases List.mem_cons.mp hc with rfl | hc
    · exact le_trans ha h1
    · exact h2 c hc

theorem C19_maxAbs_nonneg (l : List K) : 0 ≤ maxAbs l := (foldl_max_spec l 0).1

/-- every member is bounded by the maximum -/
theorem C19_le_maxAbs (l : List K) (c : K) (h : c ∈ l) : absK c ≤ maxAbs l :=
  (foldl_max_spec l 0).2 c h

/-- Balanced currents are accepted (exact arithmetic): `Σ I = 0`. -/
theorem C19_balanced_accepted (relTol : K) (hr : 0 ≤ relTol) (l : List K) (h : listSum l = 0) :
    currentsAccepted relTol l = true := by
  unfold currentsAccepted
  have h0 : absK (listSum l) = 0 := by rw [h, absK_eq_abs, abs_zero]
  have : ¬ (relTol * maxAbs l < absK (listSum l)) := by
    rw [h0]
    exact not_lt.mpr (mul_nonneg hr (C19_maxAbs_nonneg l))
  simp only [this, decide_false, Bool.not_false]

/-- Unbalanced currents are rejected down to any relative imbalance above the tolerance: if
    `|Σ I| ≥ δ · max|I|` with `δ > relTol` and some current is non-zero, the assignment is rejected.
    (With `relTol = 1e-9` this covers the property's "one part in 1e6".) -/
theorem C19_unbalanced_rejected (relTol δ : K) (hr : 0 ≤ relTol) (hδ : relTol < δ) (l : List K)
    (hpos : 0 < maxAbs l) (h : δ * maxAbs l ≤ absK (listSum l)) :
    currentsAccepted relTol l = false := by
  unfold currentsAccepted
  have : relTol * maxAbs l < absK (listSum l) :=
    lt_of_lt_of_le (mul_lt_mul_of_pos_right hδ hpos) h
  simp only [this, decide_true, Bool.not_true]

private theorem foldl_max_scale (c : K) (hc : 0 < c) (l : List K) (m0 : K) :
    (l.map (c * ·)).foldl (fun m x => if m < absK x then absK x else m) (c * m0)
      = c * l.foldl (fun m x => if m < absK x then absK x else m) m0 := by
  induction l generalizing m0 with
  | nil => rfl
  | cons a t ih =>
    simp only [List.map_cons, List.foldl_cons]
    have ha : absK (c * a) = c * absK a := by
      rw [absK_eq_abs, absK_eq_abs, abs_mul, abs_of_pos hc]
    have hstep : (if c * m0 < absK (c * a) then absK (c * a) else c * m0)
        = c * (if m0 < absK a then absK a else m0) := by
      rw [ha]
      by_cases h : m0 < absK a
      · rw [if_pos h, if_pos (mul_lt_mul_of_pos_left h hc)]
      · rw [if_neg h, if_neg (fun h' => h (lt_of_mul_lt_mul_left h' hc.le))]
    rw [hstep]
    exact ih _

private theorem listSum_scale_aux (c : K) (l : List K) (acc : K) :
    (l.map (c * ·)).foldl (· + ·) (c * acc) = c * l.foldl (· + ·) acc := by
  induction l generalizing acc with
  | nil => rfl
  | cons a t ih =>
    simp only [List.map_cons, List.foldl_cons]
    rw [← mul_add]
    exact ih _

/-- **The balance test has no absolute scale**: multiplying every current by the same positive factor (another current unit,
    a device with another `K0`, currents of a few nA instead of a few µA) does not change the verdict.  (An absolute tolerance on
    the `J_scale`-scaled currents — a seeded change of round 12 — breaks exactly this.) -/
theorem C19_balance_scale_invariant (relTol c : K) (hc : 0 < c) (l : List K) :
    currentsAccepted relTol (l.map (c * ·)) = currentsAccepted relTol l := by
  unfold currentsAccepted
  have hmax : maxAbs (l.map (c * ·)) = c * maxAbs l := by
    unfold maxAbs
    have := foldl_max_scale c hc l 0
    rwa [mul_zero] at this
  have hsum : listSum (l.map (c * ·)) = c * listSum l := by
    unfold listSum
    have := listSum_scale_aux c l 0
    rwa [mul_zero] at this
  rw [hmax, hsum]
  have habs : absK (c * listSum l) = c * absK (listSum l) := by
    rw [absK_eq_abs, absK_eq_abs, abs_mul, abs_of_pos hc]
  rw [habs]
  have hiff : (relTol * (c * maxAbs l) < c * absK (listSum l)) ↔ (relTol * maxAbs l < absK (listSum l)) := by
    rw [show relTol * (c * maxAbs l) = c * (relTol * maxAbs l) by ring]
    exact ⟨fun h => lt_of_mul_lt_mul_left h hc.le, fun h => mul_lt_mul_of_pos_left h hc⟩
  simp only [hiff]

end currents

section guard
variable {FS Res : Type}

private theorem find_none_of_all (checks : List (PreCheck × Bool)) (h : ∀ x ∈ checks, x.2 = true) :
    checks.find? (fun c => decide (c.2 = false)) = none := by
  rw [List.find?_eq_none]
  intro x hx
  simp [h x hx]

/-- A rejected problem leaves the file system exactly as it was: every check precedes the creation of
    the output file. -/
theorem C19_no_effect_on_reject (checks : List (PreCheck × Bool)) (run : FS → Res × FS) (fs : FS)
    (c : PreCheck × Bool) (hc : c ∈ checks) (hf : c.2 = false) :
    (guardedSolve checks run fs).2 = fs ∧ ∃ e, (guardedSolve checks run fs).1 = .error e := by
  unfold guardedSolve
  cases hfind : checks.find? (fun c => decide (c.2 = false)) with
  | some d => exact ⟨rfl, d.1, rfl⟩
  | none =>
    rw [List.find?_eq_none] at hfind
    have := hfind c hc
    simp [hf] at this

/-- The error reported is the first failing check in execution order. -/
theorem C19_first_failure_reported (pre post : List (PreCheck × Bool)) (c : PreCheck)
    (run : FS → Res × FS) (fs : FS) (hpre : ∀ x ∈ pre, x.2 = true) :
    (guardedSolve (pre ++ (c, false) :: post) run fs).1 = .error c := by
  unfold guardedSolve
  have : (pre ++ (c, false) :: post).find? (fun c => decide (c.2 = false)) = some (c, false) := by
    rw [List.find?_append, find_none_of_all pre hpre]
    simp
  rw [this]

/-- When every check passes the run happens. -/
theorem C19_all_pass_runs (checks : List (PreCheck × Bool)) (run : FS → Res × FS) (fs : FS)
    (h : ∀ x ∈ checks, x.2 = true) :
    guardedSolve checks run fs = (.ok (run fs).1, (run fs).2) := by
  unfold guardedSolve
  rw [find_none_of_all checks h]

end guard
end Tdgl.C19
