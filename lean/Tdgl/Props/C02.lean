/-
  C02 — each step solves the discretised TDGL equation on the physical branch.
  Property theorems (interpretation `K := ℝ`).  The only local helper is the
  characterisation `solveSite_some_iff`, which restates the coded function.
-/
import Tdgl.Lemmas.RealInst
import Tdgl.Lemmas.Quadratic
import Tdgl.Step

open Tdgl

namespace Tdgl.C02

/-- `np.absolute(a)**2` is the squared modulus. -/
theorem C02_absSq_eq (a : Cx ℝ) : absSq a = Cx.normSq a := by
  unfold absSq
  simp only [hasSqrt_real]
  exact Real.mul_self_sqrt (Cx.normSq_nonneg a)

/-- `2c+1` of the code -/
noncomputable def bOf (z w : Cx ℝ) : ℝ := 2 * (w.re * z.re + w.im * z.im) + 1
/-- the discriminant of the code, in terms of squared moduli -/
noncomputable def dOf (z w : Cx ℝ) : ℝ := bOf z w * bOf z w - 4 * Cx.normSq z * Cx.normSq w

theorem discOf_eq (z w : Cx ℝ) : discOf z w = dOf z w := by
  unfold discOf dOf bOf; simp only [C02_absSq_eq]

/-- restatement of the coded function -/
theorem solveSite_some_iff (z w p : Cx ℝ) (x : ℝ) :
    solveSite z w = some (p, x) ↔
      0 ≤ dOf z w ∧ x = 2 * Cx.normSq w / (bOf z w + Real.sqrt (dOf z w)) ∧
      p = Cx.sub w (Cx.smul x z) := by
  unfold solveSite
  simp only [C02_absSq_eq, hasSqrt_real]
  show (if dOf z w < 0 then none else
      some (Cx.sub w (Cx.smul (2 * Cx.normSq w / (bOf z w + Real.sqrt (dOf z w))) z),
        2 * Cx.normSq w / (bOf z w + Real.sqrt (dOf z w)))) = some (p, x) ↔ _
  by_cases hd : dOf z w < 0
  · rw [if_pos hd]
    constructor
    · intro h; exact absurd h (by simp)
    · rintro ⟨h0, -⟩; exact absurd h0 (not_le.mpr hd)
  · rw [if_neg hd]
    simp only [Option.some.injEq, Prod.mk.injEq]
    constructor
    · rintro ⟨h1, h2⟩
      refine ⟨not_lt.mp hd, h2.symm, ?_⟩
      rw [← h1, h2]
    · rintro ⟨_, h2, h3⟩
      refine ⟨?_, h2.symm⟩
      rw [h3, h2]

theorem solveSite_none_iff (z w : Cx ℝ) : solveSite z w = none ↔ dOf z w < 0 := by
  unfold solveSite
  simp only [C02_absSq_eq, hasSqrt_real]
  show (if dOf z w < 0 then none else
      some (Cx.sub w (Cx.smul (2 * Cx.normSq w / (bOf z w + Real.sqrt (dOf z w))) z),
        2 * Cx.normSq w / (bOf z w + Real.sqrt (dOf z w)))) = none ↔ _
  by_cases hd : dOf z w < 0
  · simp [hd]
  · simp [hd]

/-- A non-negative discriminant forces `2c+1 ≥ 1/2` (Cauchy–Schwarz), so the accepted branch
    never divides by zero and never yields a negative or NaN answer. -/
theorem C02_b_pos (z w : Cx ℝ) (h : 0 ≤ discOf z w) :
    1 / 2 ≤ 2 * (w.re * z.re + w.im * z.im) + 1 := by
  rw [discOf_eq] at h
  exact Quad.b_ge_half z.re z.im w.re w.im h

/-- Soundness: an answered update satisfies `ψ' + z|ψ'|² = w`, the reported `|ψ'|²` is the squared
    modulus of the reported `ψ'`, and it is non-negative. -/
theorem C02_sound (z w p : Cx ℝ) (x : ℝ) (h : solveSite z w = some (p, x)) :
    Cx.add p (Cx.smul (Cx.normSq p) z) = w ∧ x = Cx.normSq p ∧ 0 ≤ x := by
  obtain ⟨hD, hx, hp⟩ := (solveSite_some_iff z w p x).mp h
  have hb : 1 / 2 ≤ bOf z w := Quad.b_ge_half z.re z.im w.re w.im hD
  have hs0 : 0 ≤ Real.sqrt (dOf z w) := Real.sqrt_nonneg _
  have hss : Real.sqrt (dOf z w) * Real.sqrt (dOf z w) = bOf z w * bOf z w
      - 4 * Cx.normSq z * Cx.normSq w := Real.mul_self_sqrt hD
  have hden : bOf z w + Real.sqrt (dOf z w) ≠ 0 := by
    have : 0 < bOf z w + Real.sqrt (dOf z w) := by linarith
    exact ne_of_gt this
  have hquad := Quad.quad_root (Cx.normSq z) (bOf z w) (Cx.normSq w) (Real.sqrt (dOf z w)) hss hden
  rw [← hx] at hquad
  have hw0 := Cx.normSq_nonneg w
  have hxnn : 0 ≤ x := by
    rw [hx]; apply div_nonneg
    · linarith
    · linarith
  have hpre : p.re = w.re - x * z.re := by rw [hp]; rfl
  have hpim : p.im = w.im - x * z.im := by rw [hp]; rfl
  have hnorm : Cx.normSq p = x := by
    unfold Cx.normSq bOf at hquad
    unfold Cx.normSq
    rw [hpre, hpim]
    linear_combination hquad
  refine ⟨?_, hnorm.symm, hxnn⟩
  apply Cx.ext'
  · show p.re + Cx.normSq p * z.re = w.re
    rw [hnorm, hpre]; ring
  · show p.im + Cx.normSq p * z.im = w.im
    rw [hnorm, hpim]; ring

/-- Any solution of `p + z|p|² = w` makes the discriminant non-negative. -/
theorem C02_solution_disc_nonneg (z w p : Cx ℝ)
    (h : Cx.add p (Cx.smul (Cx.normSq p) z) = w) : 0 ≤ discOf z w := by
  rw [discOf_eq]
  unfold dOf
  apply Quad.disc_nonneg_of_root (Cx.normSq z) (bOf z w) (Cx.normSq w) (Cx.normSq p)
  subst h
  unfold bOf Cx.normSq Cx.add Cx.smul
  simp only
  ring

/-- Refusal is exact: the site is refused iff `p + z|p|² = w` has no solution at all. -/
theorem C02_refuse_iff (z w : Cx ℝ) :
    solveSite z w = none ↔ ¬ ∃ p : Cx ℝ, Cx.add p (Cx.smul (Cx.normSq p) z) = w := by
  constructor
  · intro hnone
    rintro ⟨p, hp⟩
    have h1 := C02_solution_disc_nonneg z w p hp
    rw [discOf_eq] at h1
    exact absurd ((solveSite_none_iff z w).mp hnone) (not_lt.mpr h1)
  · intro hno
    cases hsol : solveSite z w with
    | none => rfl
    | some r =>
      obtain ⟨p, x⟩ := r
      exact absurd ⟨p, (C02_sound z w p x hsol).1⟩ hno

/-- The physical branch: the answer is a root of `|z|²x² − (2c+1)x + |w|² = 0`, it is the smaller
    one (`2|z|²x ≤ 2c+1`, i.e. `x ≤` the other root), it is bounded by `4|w|²` uniformly in `z`
    (so it stays finite as `γ → 0` or `ψ → 0`), and for `z = 0` it is exactly `x = |w|²`, `ψ' = w`. -/
theorem C02_branch (z w p : Cx ℝ) (x : ℝ) (h : solveSite z w = some (p, x)) :
    Cx.normSq z * x * x - (2 * (w.re * z.re + w.im * z.im) + 1) * x + Cx.normSq w = 0 ∧
    2 * Cx.normSq z * x ≤ 2 * (w.re * z.re + w.im * z.im) + 1 ∧
    x ≤ 4 * Cx.normSq w ∧
    (z = ⟨0, 0⟩ → x = Cx.normSq w ∧ p = w) := by
  obtain ⟨hD, hx, hp⟩ := (solveSite_some_iff z w p x).mp h
  have hb : 1 / 2 ≤ bOf z w := Quad.b_ge_half z.re z.im w.re w.im hD
  have hs0 : 0 ≤ Real.sqrt (dOf z w) := Real.sqrt_nonneg _
  have hss : Real.sqrt (dOf z w) * Real.sqrt (dOf z w) = bOf z w * bOf z w
      - 4 * Cx.normSq z * Cx.normSq w := Real.mul_self_sqrt hD
  have hdenpos : 0 < bOf z w + Real.sqrt (dOf z w) := by linarith
  have hden : bOf z w + Real.sqrt (dOf z w) ≠ 0 := ne_of_gt hdenpos
  have hquad := Quad.quad_root (Cx.normSq z) (bOf z w) (Cx.normSq w) (Real.sqrt (dOf z w)) hss hden
  rw [← hx] at hquad
  have hxmul : x * (bOf z w + Real.sqrt (dOf z w)) = 2 * Cx.normSq w := by
    rw [hx]; field_simp
  have hsmall := Quad.small_root (Cx.normSq z) (bOf z w) (Cx.normSq w) (Real.sqrt (dOf z w)) x
    hss hden hxmul
  have hw0 := Cx.normSq_nonneg w
  have hxnn : 0 ≤ x := (C02_sound z w p x h).2.2
  refine ⟨hquad, ?_, ?_, ?_⟩
  · show 2 * Cx.normSq z * x ≤ bOf z w
    linarith
  · nlinarith
  · intro hz
    subst hz
    have hb1 : bOf ⟨0, 0⟩ w = 1 := by unfold bOf; ring
    have hD1 : dOf ⟨0, 0⟩ w = 1 := by unfold dOf; rw [hb1]; simp [Cx.normSq]
    rw [hb1, hD1, Real.sqrt_one] at hxmul
    have hxw : x = Cx.normSq w := by linarith
    refine ⟨hxw, ?_⟩
    rw [hp]; apply Cx.ext' <;> simp [Cx.sub, Cx.smul]

/-- The whole update is refused iff some site has no solution; otherwise every site is answered. -/
theorem C02_all_sites (n : Nat) (z w : Nat → Cx ℝ) :
    solveAll n z w = none ↔ ∃ i, i < n ∧ solveSite (z i) (w i) = none := by
  unfold solveAll
  constructor
  · intro h
    by_contra hcon
    push Not at hcon
    have : (List.range n).all (fun i => (solveSite (z i) (w i)).isSome) = true := by
      rw [List.all_eq_true]
      intro i hi
      have := hcon i (List.mem_range.mp hi)
      cases hs : solveSite (z i) (w i) with
      | none => exact absurd hs this
      | some _ => rfl
    rw [if_pos this] at h
    exact absurd h (by simp)
  · rintro ⟨i, hi, hnone⟩
    have : ¬ (List.range n).all (fun i => (solveSite (z i) (w i)).isSome) = true := by
      rw [List.all_eq_true]
      intro hall
      have := hall i (List.mem_range.mpr hi)
      rw [hnone] at this
      exact absurd this (by simp)
    rw [if_neg this]

/-- when answered, every site is answered and the list holds the per-site answers in site order -/
theorem C02_all_sites_values (n : Nat) (z w : Nat → Cx ℝ) (out : List (Cx ℝ × ℝ))
    (h : solveAll n z w = some out) :
    out.length = n ∧ ∀ i, i < n → ∃ v, solveSite (z i) (w i) = some v ∧ out[i]? = some v := by
  unfold solveAll at h
  split at h
  · rename_i hall
    rw [List.all_eq_true] at hall
    have hsome : ∀ i ∈ List.range n, solveSite (z i) (w i)
        = some ((solveSite (z i) (w i)).getD (⟨0, 0⟩, 0)) := by
      intro i hi
      have := hall i hi
      cases hs : solveSite (z i) (w i) with
      | none => rw [hs] at this; exact absurd this (by simp)
      | some v => simp
    have hout : out = (List.range n).map (fun i => (solveSite (z i) (w i)).getD (⟨0, 0⟩, 0)) := by
      rw [← Option.some.inj h]
      exact List.filterMap_eq_map_iff_forall_eq_some.mpr hsome
    subst hout
    refine ⟨by simp, ?_⟩
    intro i hi
    refine ⟨_, hsome i (List.mem_range.mpr hi), ?_⟩
    simp [hi]
  · exact absurd h (by simp)

/-- The documented update (docs/background.rst eq. `quad-1` ⇒ eq. `tdgl-num`): from
    `ψ' + z|ψ'|² = w` with `z`, `w` as documented and `u, dt ≠ 0`, one obtains
    `u/(dt √(1+γ²a)) [ψ' e^{iμdt} − ψ + (γ²/2)(|ψ'|² − a)ψ] = (ε−a)ψ + lap`,
    with `a = |ψ|²` the value passed by the caller. -/
theorem C02_docs_equation (psi p lap : Cx ℝ) (a mu eps gamma u dt : ℝ)
    (hu : u ≠ 0) (hdt : dt ≠ 0) (ha : 0 ≤ a)
    (h : Cx.add p (Cx.smul (Cx.normSq p) (zOf psi mu gamma dt)) = wOf psi a mu eps gamma u dt lap) :
    Cx.smul (u / (dt * Real.sqrt (1 + gamma * gamma * a)))
      (Cx.add (Cx.sub (Cx.mul p (Cx.conj (linkU mu dt))) psi)
        (Cx.smul ((gamma * gamma) / 2 * (Cx.normSq p - a)) psi))
      = Cx.add (Cx.smul (eps - a) psi) lap := by
  have hsq : 0 < Real.sqrt (1 + gamma * gamma * a) := by
    apply Real.sqrt_pos.mpr; nlinarith [mul_self_nonneg gamma]
  have hne : Real.sqrt (1 + gamma * gamma * a) ≠ 0 := ne_of_gt hsq
  have hcs : Real.cos (mu * dt) * Real.cos (mu * dt) + Real.sin (mu * dt) * Real.sin (mu * dt) = 1 := by
    have := Real.cos_sq_add_sin_sq (mu * dt); nlinarith
  have hre := congrArg Cx.re h
  have him := congrArg Cx.im h
  simp only [wOf, zOf, linkU, Cx.expNegI, Cx.add, Cx.smul, Cx.mul, hasSqrt_real, hasCos_real,
    hasSin_real] at hre him
  simp only [Cx.conj, linkU, Cx.expNegI, Cx.add, Cx.smul, Cx.mul, Cx.sub, hasCos_real,
    hasSin_real]
  generalize Real.cos (mu * dt) = C at *
  generalize Real.sin (mu * dt) = S at *
  generalize Real.sqrt (1 + gamma * gamma * a) = R at *
  generalize Cx.normSq p = N at *
  have key_re : p.re * C - p.im * S - psi.re + (gamma * gamma / 2 * (N - a)) * psi.re
      = (dt / u * R) * ((eps - a) * psi.re + lap.re) := by
    linear_combination C * hre - S * him
      + ((a - N) * (gamma * gamma / 2) * psi.re
          + (psi.re + dt / u * R * ((eps - a) * psi.re + lap.re))) * hcs
  have key_im : p.re * S + p.im * C - psi.im + (gamma * gamma / 2 * (N - a)) * psi.im
      = (dt / u * R) * ((eps - a) * psi.im + lap.im) := by
    linear_combination S * hre + C * him
      + ((a - N) * (gamma * gamma / 2) * psi.im
          + (psi.im + dt / u * R * ((eps - a) * psi.im + lap.im))) * hcs
  apply Cx.ext'
  · dsimp only
    field_simp
    field_simp at key_re
    linear_combination key_re
  · dsimp only
    field_simp
    field_simp at key_im
    linear_combination key_im

/-! Non-vacuity: an accepted and a refused site exist. -/
example : ∃ p x, solveSite (⟨1/2, 1/4⟩ : Cx ℝ) ⟨1, -1/2⟩ = some (p, x) := by
  cases h : solveSite (⟨1/2, 1/4⟩ : Cx ℝ) ⟨1, -1/2⟩ with
  | some r => exact ⟨r.1, r.2, rfl⟩
  | none =>
    have := (solveSite_none_iff _ _).mp h
    unfold dOf bOf Cx.normSq at this
    norm_num at this

example : solveSite (⟨1, 0⟩ : Cx ℝ) ⟨-1, 0⟩ = none := by
  apply (solveSite_none_iff _ _).mpr
  unfold dOf bOf Cx.normSq
  norm_num

end Tdgl.C02
