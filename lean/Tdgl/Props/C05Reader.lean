/-
  C05 (reader side) — what is read back from the file is one record per step, and the times reported by
  the loaded solution are the frame times.   Models: Tdgl/Reader.lean over Tdgl/Runner.lean.
-/
import Mathlib.Data.List.Basic
import Mathlib.Order.Basic
import Mathlib.Tactic.Common
import Tdgl.Runner
import Tdgl.Reader
import Tdgl.Props.C05

open Tdgl

namespace Tdgl.C05

variable {K S R : Type} [Add K] [LE K] [DecidableLE K] [OfNat K 0] [LT K] [DecidableLT K]

omit [Add K] [LE K] [DecidableLE K] [OfNat K 0] [LT K] [DecidableLT K] in
private theorem filter_padTo (p : R → Bool) (k : ℕ) (zero : R) (l : List R) (hz : p zero = false)
    (hl : ∀ r ∈ l, p r = true) : (padTo k zero l).filter p = l := by
  unfold padTo
  rw [List.filter_append, List.filter_eq_self.2 hl, List.filter_replicate]
  simp [hz]

/-- Reading back: if every genuine record has `dt > 0` and the padding record has `dt = 0` (not `> 0`), the
    reader returns exactly the concatenation of the valid buffers — for every `k ≥ 1`, whatever the number of
    frames and the fill level of each buffer. -/
theorem C05_reader_roundtrip (dtOf : R → K) (k : ℕ) (zero : R) (frames : List (Frame K S R))
    (hzero : ¬ (0 : K) < dtOf zero)
    (hpos : ∀ f ∈ frames, ∀ l, f.recs = some l → ∀ r ∈ l, (0 : K) < dtOf r) :
    readRecords dtOf k zero frames = allRecs frames := by
  unfold readRecords allRecs
  induction frames with
  | nil => rfl
  | cons f fs ih =>
    rw [List.flatMap_cons, List.filter_append, List.flatMap_cons,
      ih (fun g hg => hpos g (List.mem_cons_of_mem _ hg))]
    congr 1
    cases hr : f.recs with
    | none => rfl
    | some l =>
      show (padTo k zero l).filter _ = l
      apply filter_padTo
      · simpa using hzero
      · intro r hr'
        simpa using hpos f List.mem_cons_self l hr r hr'

/-- the time steps used by the first `N` updates of the trajectory -/
def dtsOf (upd : S → ℕ → K → K × S × R) (s0 : S) (N : ℕ) : List K :=
  (List.range N).map (fun n => (upd (traj upd s0 n).2 n (traj upd s0 n).1).1)

omit [LE K] [DecidableLE K] [OfNat K 0] [LT K] [DecidableLT K] in
private theorem cumsum_range' (c d : ℕ → K) (hc : ∀ n, c (n + 1) = c n + d n) :
    ∀ (j m : ℕ), cumsumFrom (c m) ((List.range' m j).map d) = (List.range' (m + 1) j).map c
  | 0, m => rfl
  | j + 1, m => by
    rw [List.range'_succ, List.map_cons, cumsumFrom, ← hc, cumsum_range' c d hc j (m + 1),
      List.range'_succ, List.map_cons]

/-- cumulative sums of the used time steps are the clock values of the trajectory -/
theorem C05_cumsum_is_clock (upd : S → ℕ → K → K × S × R) (s0 : S) (N : ℕ) :
    (0 : K) :: cumsumFrom 0 (dtsOf upd s0 N) = (List.range (N + 1)).map (fun n => (traj upd s0 n).1) := by
  have h := cumsum_range' (fun n => (traj upd s0 n).1)
    (fun n => (upd (traj upd s0 n).2 n (traj upd s0 n).1).1) (fun _ => rfl) N 0
  rw [List.range_eq_range', List.range'_succ, List.map_cons, ← h, dtsOf, List.range_eq_range']
  rfl

omit [Add K] [LE K] [DecidableLE K] [OfNat K 0] [LT K] [DecidableLT K] in
private theorem filterMap_ite_eq (c : ℕ → K) (k : ℕ) (l : List ℕ) :
    l.filterMap (fun i => if i % k = 0 then some (c i) else none)
      = (l.filter (fun i => i % k = 0)).map c := by
  induction l with
  | nil => rfl
  | cons a l ih =>
    by_cases h : a % k = 0 <;> simp [h, ih]

omit [Add K] [LE K] [DecidableLE K] [OfNat K 0] [LT K] [DecidableLT K] in
private theorem everyKth_map_range (c : ℕ → K) (k n : ℕ) :
    everyKth k ((List.range n).map c) = ((List.range n).filter (fun i => i % k = 0)).map c := by
  unfold everyKth
  rw [← filterMap_ite_eq, List.length_map, List.length_range]
  apply List.filterMap_congr
  intro i hi
  rw [List.mem_range] at hi
  simp [hi]

/-- The times reported by the loaded solution are the times of the saved frames: for every finished
    recorded stage, `Solution.times` computed from the per-step time steps equals the list of frame times. -/
theorem C05_times (upd : S → ℕ → K → K × S × R) (s0 : S) (k : ℕ) (hk : 0 < k) (T : K) (fuel : ℕ)
    (e : StageEnd K S R) (h : runStage upd true k T fuel 0 0 s0 [] [] = some e) :
    solutionTimes k (dtsOf upd s0 e.steps) = e.frames.map (·.time) := by
  obtain ⟨N, _, hN, _, _, hsteps, hfr, _⟩ := C05_stage_spec upd s0 k hk T fuel e h
  subst hN
  have htime : e.frames.map (·.time) = (e.frames.map (·.step)).map (fun n => (traj upd s0 n).1) := by
    rw [List.map_map]
    apply List.map_congr_left
    intro f hf
    exact (hfr f hf).1
  rw [htime, hsteps]
  unfold solutionTimes
  simp only
  rw [C05_cumsum_is_clock, everyKth_map_range, List.length_map, List.length_range,
    Nat.add_sub_cancel, List.map_append]
  by_cases hm : e.steps % k = 0
  · simp [hm]
  · simp [hm, List.range_succ]

/-- **The reported times depend on the recorded steps only** — not on the requested solve time: for ANY number `M` of
    recorded steps (a finished run, or a run stopped early by a cancellation or an error), `Solution.times` computed from the
    `M` per-step time steps is the clock at the labels `0, k, 2k, … ≤ M`, plus the clock at `M` when `M` is not on the grid.
    (`C05_times` is the instance `M = N` for a finished stage; for a stopped run these are the labels of the frames a truthful
    output holds, C15.) -/
theorem C05_times_of_steps (upd : S → ℕ → K → K × S × R) (s0 : S) (k M : ℕ) :
    solutionTimes k (dtsOf upd s0 M)
      = (((List.range (M+1)).filter (fun i => i % k = 0)) ++ (if M % k = 0 then [] else [M])).map
          (fun n => (traj upd s0 n).1) := by
  unfold solutionTimes
  simp only
  rw [C05_cumsum_is_clock, everyKth_map_range, List.length_map, List.length_range,
    Nat.add_sub_cancel, List.map_append]
  by_cases hm : M % k = 0
  · simp [hm]
  · simp [hm, List.range_succ]

/-- A rule that decides the extra final time by comparing the last grid time with the requested solve time (a seeded change
    of round 12) reports a time that no frame has when a run is cancelled on a grid step: `k = 4`, four unit steps recorded,
    solve time 10 — the frames are at times 0 and 4, the rule gives `[0, 4, 4]`. -/
theorem C05_times_by_solve_time_counterexample :
    let dts : List ℕ := [1, 1, 1, 1]
    let times := (0 : ℕ) :: cumsumFrom 0 dts
    let saved := everyKth 4 times
    (if saved.getLast?.getD 0 < 10 then saved ++ (match times.getLast? with | some t => [t] | none => []) else saved) = [0, 4, 4] ∧
    solutionTimes 4 dts = [0, 4] := by
  constructor <;> decide

/-- The pinned upstream tree reported other times: with unit steps, `k = 3`, 7 steps, the frames are at
    times `0, 3, 6, 7` but `cumsum(dt)[::3]` (+ last) gives `1, 4, 7`. -/
theorem C05_times_old_counterexample :
    solutionTimesOld 3 ([1, 1, 1, 1, 1, 1, 1] : List ℕ) = [1, 4, 7] ∧
    solutionTimes 3 ([1, 1, 1, 1, 1, 1, 1] : List ℕ) = [0, 3, 6, 7] := by
  constructor <;> decide

end Tdgl.C05
