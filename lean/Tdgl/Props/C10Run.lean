/-
  C10 (inside a run) — "no step ever runs with stale operators": for every time-dependent potential and every
  sequence of clocks (a thermalisation stage that restarts the clock included), the link variables in use in an
  update are those of the potential evaluated at that update's own time.
-/
import Mathlib.Data.List.Basic
import Mathlib.Tactic.Common
import Tdgl.Refresh

open Tdgl

namespace Tdgl.C10

variable {A T : Type} [DecidableEq A]

/-- one update keeps `link = stored = A(t)` -/
theorem C10_refresh_step_fresh (Aof : T → A) (s : RefState A) (t : T) (h : s.link = s.stored) :
    (refreshStep Aof s t).link = Aof t ∧ (refreshStep Aof s t).stored = Aof t := by
  unfold refreshStep refreshWith
  refine ⟨?_, rfl⟩
  by_cases hs : Aof t = s.stored
  · simp [hs, h]
  · simp [hs]

private theorem fold_inv (Aof : T → A) (ts : List T) (s : RefState A) (h : s.link = s.stored) :
    (ts.foldl (refreshStep Aof) s).link = (ts.foldl (refreshStep Aof) s).stored := by
  induction ts generalizing s with
  | nil => exact h
  | cons t ts ih =>
    obtain ⟨h1, h2⟩ := C10_refresh_step_fresh Aof s t h
    exact ih _ (h1.trans h2.symm)

/-- After any history of updates, at any clocks (increasing or restarted), the operators are those of the potential at
    the clock of the LAST update: the update that is running uses fresh operators. -/
theorem C10_run_fresh (Aof : T → A) (t0 : T) (ts : List T) (t : T) :
    (refreshRun Aof t0 (ts ++ [t])).link = Aof t := by
  unfold refreshRun
  rw [List.foldl_append, List.foldl_cons, List.foldl_nil]
  exact (C10_refresh_step_fresh Aof _ t (fold_inv Aof ts _ rfl)).1

/-- before the first update the operators are those of `__init__`'s potential -/
theorem C10_init_fresh (Aof : T → A) (t0 : T) : (refreshRun Aof t0 []).link = Aof t0 := rfl

/-- The comparison must be exact.  With a tolerant comparison (`allclose`, the code before the repair F19) a potential
    whose change per step stays within the tolerance never refreshes the operators: A(t) = t, tolerance 1, clocks
    1, 2, 3 — the operators stay at A(0) = 0 while the potential is 3. -/
theorem C10_tolerant_refresh_is_stale :
    ((([1, 2, 3] : List ℕ).foldl (refreshWith (fun a b : ℕ => decide (a ≤ b + 1 ∧ b ≤ a + 1)) (fun t : ℕ => t))
      (RefState.init (fun t : ℕ => t) 0)).link, (fun t : ℕ => t) 3) = (0, 3) := by
  decide

/-- Resetting the stored potential at the start of a stage without rebuilding the operators breaks the invariant
    that `C10_run_fresh` rests on: after the thermalisation stage ended at clock 5 (A = 5), a stage start that stores
    A(0) = 0 again and keeps the link variables makes the first update of the new stage (clock 0) skip the refresh. -/
theorem C10_stage_reset_is_stale :
    let after : RefState ℕ := refreshRun (fun t : ℕ => t) 0 [1, 5]
    let reset : RefState ℕ := ⟨0, after.link⟩
    ((refreshStep (fun t : ℕ => t) reset 0).link, (fun t : ℕ => t) 0) = (5, 0) := by
  decide

/-- the update interrupted after the refresh decision was carried out but before the new potential was stored
    (Ctrl-C between `set_link_exponents` and `self.current_A_applied = ...`, in the order of the code) -/
def interruptedAfterRefresh (Aof : T → A) (s : RefState A) (t : T) : RefState A :=
  ⟨s.stored, (refreshStep Aof s t).link⟩

/-- An update that is interrupted between the refresh and the commit and then run again ("continue" after Ctrl-C)
    ends with fresh operators: the comparison still sees the change, or there was none. -/
theorem C10_interrupt_then_retry_fresh (Aof : T → A) (s : RefState A) (t : T) (h : s.link = s.stored) :
    (refreshStep Aof (interruptedAfterRefresh Aof s t) t).link = Aof t := by
  unfold interruptedAfterRefresh refreshStep refreshWith
  by_cases hs : Aof t = s.stored
  · simp [hs, h]
  · simp [hs]

/-- The order matters.  If the new potential is stored FIRST and the link variables are rebuilt later in the update, an
    interruption in between makes the retried update see "nothing changed": A(t) = t, operators at A(0) = 0, the update at
    clock 1 stores 1, is interrupted, is run again, and runs with the operators of 0. -/
theorem C10_commit_before_refresh_is_stale :
    let s0 : RefState ℕ := RefState.init (fun t : ℕ => t) 0
    let interrupted : RefState ℕ := ⟨(fun t : ℕ => t) 1, s0.link⟩
    ((refreshStep (fun t : ℕ => t) interrupted 1).link, (fun t : ℕ => t) 1) = (0, 1) := by
  decide

/-- non-vacuity of `C10_run_fresh`: a run whose clock restarts -/
example : (refreshRun (fun t : ℕ => 2 * t) 0 ([1, 2, 3, 0, 1] ++ [2])).link = 4 := by decide

end Tdgl.C10
