/-
  C06 / C04 at run level with the repaired update (terminal value re-imposed after every Euler step).
  Models: `fullStepP`, `runStepsP`, `eulerPinnedFn` in Tdgl/Update.lean.   (K := ℝ)
-/
import Mathlib.Analysis.SpecialFunctions.Trigonometric.Basic
import Mathlib.Tactic.Ring
import Mathlib.Tactic.Common
import Tdgl.Lemmas.RealInst
import Tdgl.Update
import Tdgl.Props.C04
import Tdgl.Props.C06

open Tdgl Tdgl.C04

namespace Tdgl.C06

/-- one pinned update: the pinned sites carry the terminal value -/
private theorem fullStepP_held (m : FVMesh ℝ) (fixed : ℕ → Bool) (v : Cx ℝ) (U : ℕ → Cx ℝ)
    (solve : (ℕ → ℝ) → (ℕ → ℝ)) (eps : ℕ → ℝ) (gamma u dt : ℝ) (mb : ℕ → ℝ) (s s' : MState ℝ)
    (h : fullStepP m fixed (some v) U solve eps gamma u dt mb s = some s') (r : ℕ)
    (hf : fixed r = true) : s'.psi r = v := by
  unfold fullStepP at h
  cases he : eulerPinnedFn m fixed (some v) U s.psi (fun r => absSq (s.psi r)) s.mu eps gamma u dt with
  | none => rw [he] at h; exact absurd h (by simp)
  | some out =>
    rw [he] at h
    simp only [Option.some.injEq] at h
    rw [← h]
    show (out r).1 = v
    rw [C06_value_held m fixed v U s.psi _ s.mu eps gamma u dt out he r hf]

/-- After every answered update the order parameter on every pinned site is exactly the configured terminal
    value — at every step of a run of any length (`k ≥ 1`), whatever the fields, currents and link variables. -/
theorem C06_run_value_held (m : FVMesh ℝ) (fixed : ℕ → Bool) (v : Cx ℝ) (U : ℕ → Cx ℝ)
    (solve : (ℕ → ℝ) → (ℕ → ℝ)) (eps : ℕ → ℝ) (gamma u dt : ℝ) (mb : ℕ → ℝ) (k : ℕ) (s s' : MState ℝ)
    (h : runStepsP m fixed (some v) U solve eps gamma u dt mb (k + 1) s = some s') (r : ℕ)
    (hf : fixed r = true) : s'.psi r = v := by
  induction k generalizing s with
  | zero =>
    unfold runStepsP at h
    cases h1 : fullStepP m fixed (some v) U solve eps gamma u dt mb s with
    | none => rw [h1] at h; exact absurd h (by simp)
    | some t =>
      rw [h1] at h
      simp only [runStepsP, Option.some.injEq] at h
      rw [← h]
      exact fullStepP_held m fixed v U solve eps gamma u dt mb s t h1 r hf
  | succ k ih =>
    unfold runStepsP at h
    cases h1 : fullStepP m fixed (some v) U solve eps gamma u dt mb s with
    | none => rw [h1] at h; exact absurd h (by simp)
    | some t =>
      rw [h1] at h
      exact ih t h

/-- With `terminal_psi = None` the pinned update is the free update. -/
theorem C06_run_none_is_free (m : FVMesh ℝ) (terminal : ℕ → Bool) (U : ℕ → Cx ℝ)
    (solve : (ℕ → ℝ) → (ℕ → ℝ)) (eps : ℕ → ℝ) (gamma u dt : ℝ) (mb : ℕ → ℝ) (s : MState ℝ) :
    fullStepP m (fun _ => false) none U solve eps gamma u dt mb s
      = fullStep m (fun _ => false) U solve eps gamma u dt mb s := by
  unfold fullStepP fullStep eulerPinnedFn eulerFn
  split_ifs <;> simp only [pinSite]

private theorem eulerPinnedFn_gauge (m : FVMesh ℝ) (fixed : ℕ → Bool) (theta chi : ℕ → ℝ)
    (psi : ℕ → Cx ℝ) (a mu eps : ℕ → ℝ) (gamma u dt : ℝ) :
    eulerPinnedFn m fixed (some ⟨0, 0⟩) (linkOf (gaugeTheta m theta chi)) (gaugePsi chi psi) a mu eps
        gamma u dt
      = (eulerPinnedFn m fixed (some ⟨0, 0⟩) (linkOf theta) psi a mu eps gamma u dt).map
          (fun out r => (Cx.mul (expI (chi r)) (out r).1, (out r).2)) := by
  unfold eulerPinnedFn
  simp only [C04_euler_covariant, Option.isSome_map]
  split_ifs
  · simp only [Option.map_some, Option.some.injEq]
    funext r
    simp only [gaugePsi, pinSite]
    by_cases hf : fixed r = true
    · simp [hf, Cx.mul]
    · simp only [hf, if_false, Bool.false_eq_true]
      generalize eulerSite m fixed (linkOf theta) psi a mu eps gamma u dt r = o
      cases o <;> simp
  · rfl

/-- Gauge covariance survives pinning to zero (the default normal-metal contact): one pinned update maps
    gauge-related states to gauge-related states, or is refused in both gauges. -/
theorem C04_pinned_zero_step_covariant (m : FVMesh ℝ) (fixed : ℕ → Bool) (theta chi : ℕ → ℝ)
    (solve : (ℕ → ℝ) → (ℕ → ℝ)) (eps : ℕ → ℝ) (gamma u dt : ℝ) (mb : ℕ → ℝ)
    (s s' : MState ℝ) (h : GaugeRel chi s s') :
    match fullStepP m fixed (some ⟨0, 0⟩) (linkOf theta) solve eps gamma u dt mb s,
          fullStepP m fixed (some ⟨0, 0⟩) (linkOf (gaugeTheta m theta chi)) solve eps gamma u dt mb s' with
    | some t, some t' => GaugeRel chi t t'
    | none, none => True
    | _, _ => False := by
  obtain ⟨hpsi, hmu, _, _⟩ := h
  have habs : (fun r => absSq (s'.psi r)) = fun r => absSq (s.psi r) := by
    funext r
    rw [hpsi]
    exact C04_absSq_invariant chi s.psi r
  unfold fullStepP
  rw [habs, hpsi, hmu, eulerPinnedFn_gauge]
  cases eulerPinnedFn m fixed (some ⟨0, 0⟩) (linkOf theta) s.psi (fun r => absSq (s.psi r)) s.mu eps
      gamma u dt with
  | none => simp
  | some p =>
    simp only [Option.map_some]
    have hg : (fun r => (Cx.mul (expI (chi r)) (p r).1, (p r).2).1) = gaugePsi chi (fun r => (p r).1) := by
      funext r
      rfl
    simp only [hg, C04_observables_invariant]
    exact ⟨rfl, rfl, rfl, rfl⟩

end Tdgl.C06
