/-
  C18 — "polygon vertices are always stored closed and counter-clockwise": orientation is decided by the SIGN OF THE SIGNED AREA
  (shoelace; `orientCCW` in Tdgl/Geometry.lean, shapely's `orient` in the code).  A seeded change of round 12 decided it by the
  sum of the turns at the vertices (Σ cross(eᵢ, eᵢ₊₁)) instead, which agrees on convex outlines only.  The witness below — a plus
  sign with arms five times longer than their half-width, listed counter-clockwise — has positive area and a NEGATIVE sum of
  turns: 8 convex corners contribute 2·5 each, 4 reflex corners −5·5 each.
-/
import Mathlib.Algebra.Order.Field.Basic
import Mathlib.Algebra.Order.Field.Rat
import Mathlib.Tactic.NormNum
import Mathlib.Tactic.Common
import Tdgl.Geometry
import Tdgl.Props.C18

open Tdgl

namespace Tdgl.C18

/-- `Σᵢ cross(pᵢ₊₁ − pᵢ, pᵢ₊₂ − pᵢ₊₁)` around the closed outline -/
def sumTurns (l : List (Pt ℚ)) : ℚ :=
  let n := l.length
  (List.range n).foldl (fun acc i =>
    let p := l.getD i (0, 0)
    let q := l.getD ((i + 1) % n) (0, 0)
    let r := l.getD ((i + 2) % n) (0, 0)
    acc + ((q.1 - p.1) * (r.2 - q.2) - (r.1 - q.1) * (q.2 - p.2))) 0

/-- a plus sign listed counter-clockwise -/
def plusSign : List (Pt ℚ) :=
  [(1, -1), (6, -1), (6, 1), (1, 1), (1, 6), (-1, 6), (-1, 1), (-6, 1), (-6, -1), (-1, -1), (-1, -6), (1, -6)]

/-- The plus sign is counter-clockwise (doubled signed area 88 > 0), the model's `orientCCW` leaves it alone — and the sum of its
    turns is −20: a rule that reverses an outline when the sum of turns is negative stores it CLOCKWISE. -/
theorem C18_sum_of_turns_counterexample :
    signedArea2 plusSign = 88 ∧ orientCCW plusSign = plusSign ∧ sumTurns plusSign = -20 ∧
    signedArea2 plusSign.reverse = -88 := by
  refine ⟨?_, ?_, ?_, ?_⟩
  · simp only [plusSign, signedArea2, shoelace2, cross]; norm_num
  · have h : signedArea2 plusSign = 88 := by simp only [plusSign, signedArea2, shoelace2, cross]; norm_num
    unfold orientCCW
    rw [h]
    norm_num
  · simp only [sumTurns, plusSign, List.length_cons, List.length_nil, List.range, List.range.loop, List.foldl, List.getD]
    norm_num
  · simp only [plusSign, List.reverse_cons, List.reverse_nil, List.nil_append, List.cons_append, signedArea2, shoelace2, cross]
    norm_num

end Tdgl.C18
