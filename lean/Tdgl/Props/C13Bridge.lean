/-
  Tie B for C13: source pins.  The model was written against exactly these source lines / this
  statement order: the heavy-ball update lines, the relative-error expression (new iterate in the denominator, floor 1e-20) and the
  order of the two tests at the head of the screening loop (exit test before the iteration-count test).
  `Tdgl/Generated/SourcePins.lean` is regenerated from /repo on every run; if the source changes, this file no
  longer checks and the check searches for a failing input (DESIGN.md §4.2).
-/
import Tdgl.Generated.SourcePins

open Tdgl.Gen

namespace Tdgl.C13

theorem C13_bridge_source_pins :
    pin_polyak = "A_induced = A_induced + velocity[-1] ; A_induced = A_induced_vals[-1] ; dA = new_A_induced - A_induced ; denominator = xp.linalg.norm(A_induced, axis=1) ; denominator = xp.maximum(denominator, 1e-20, out=denominator) ; numerator = xp.linalg.norm(dA, axis=1) ; screening_error = float(xp.max(numerator / denominator)) ; velocity.append((1 - beta) * velocity[-1] + alpha * dA)" ∧
    pin_screen_loop_head = "screening_error < options.screening_tolerance ; screening_iteration > options.max_iterations_per_step" := by
  refine ⟨?_, ?_⟩ <;> rfl

end Tdgl.C13
