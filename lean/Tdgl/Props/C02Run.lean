/-
  C02 lifted from one site to the whole adaptive update and to runs of updates (model: Tdgl/AdaptiveRun.lean,
  the composition the driver op `astep` replays against real `TDGLSolver.update` calls).

  "Whenever the update from step n to n+1 is answered, the new order parameter satisfies ψ' + z|ψ'|² = w at every site
   … it is never refused when a solution exists at every site":

    * `C02_adaptive_step_sound` — if the whole adaptive update is answered with the time step `dt`, then at EVERY site
      `r < n` the Euler answer solves the site equation whose `z`, `w` are built from the state the update was given and
      **that same `dt`** (the step finally accepted by the retry loop, not the tentative one); at a pinned site the
      order parameter the update returns is the terminal value instead (C06), everywhere else it is that solution;
    * `C02_adaptive_step_not_refused` — if every site equation has a solution at the tentative step, the update is
      answered, with exactly the tentative step (no retry, no raise);
    * `C02_adaptive_step_raise_means_unsolvable` — a raise means that at the last attempted step some site has no solution;
    * `C02_adaptive_run_sound` — for a run of `n` answered updates: the k-th recorded time step is the one the k-th
      update's site equations were solved with, for every k.
-/
import Mathlib.Algebra.Order.Field.Basic
import Mathlib.Analysis.SpecialFunctions.Trigonometric.Basic
import Mathlib.Tactic.Ring
import Mathlib.Tactic.Linarith
import Tdgl.Lemmas.RealInst
import Tdgl.Operators
import Tdgl.Update
import Tdgl.Adaptive
import Tdgl.AdaptiveRun
import Tdgl.Props.C02
import Tdgl.Props.C12

open Tdgl

namespace Tdgl.C02

/-- the `z` of site `r` for the state `s` and the step `dt` -/
noncomputable def zSite (gamma dt : ℝ) (s : MState ℝ) (r : ℕ) : Cx ℝ := zOf (s.psi r) (s.mu r) gamma dt

/-- the `w` of site `r` for the state `s`, the operators in use and the step `dt` -/
noncomputable def wSite (m : FVMesh ℝ) (fixed : ℕ → Bool) (U : ℕ → Cx ℝ) (eps : ℕ → ℝ) (gamma u dt : ℝ)
    (s : MState ℝ) (r : ℕ) : Cx ℝ :=
  wOf (s.psi r) (absSq (s.psi r)) (s.mu r) (eps r) gamma u dt (clapRow m fixed U s.psi r)

/-- what an answered update guarantees at site `r`: some `p` solves the site equation for the given state and
    the step `dt`; the returned order parameter is `p`, or the terminal value on a pinned site -/
def SiteOK (m : FVMesh ℝ) (fixed : ℕ → Bool) (tp : Option (Cx ℝ)) (U : ℕ → Cx ℝ) (eps : ℕ → ℝ) (gamma u dt : ℝ)
    (s s' : MState ℝ) (r : ℕ) : Prop :=
  ∃ p : Cx ℝ, Cx.add p (Cx.smul (Cx.normSq p) (zSite gamma dt s r)) = wSite m fixed U eps gamma u dt s r ∧
    s'.psi r = (match tp with
      | none => p
      | some v => if fixed r then v else p)

private theorem eulerPinned_some (m : FVMesh ℝ) (fixed : ℕ → Bool) (tp : Option (Cx ℝ)) (U : ℕ → Cx ℝ)
    (psi : ℕ → Cx ℝ) (a mu eps : ℕ → ℝ) (gamma u dt : ℝ) (out : ℕ → Cx ℝ × ℝ)
    (h : eulerPinnedFn m fixed tp U psi a mu eps gamma u dt = some out) (r : ℕ) (hr : r < m.n) :
    ∃ v, eulerSite m fixed U psi a mu eps gamma u dt r = some v ∧ out r = pinSite fixed tp r v := by
  unfold eulerPinnedFn at h
  split at h
  · rename_i hall
    rw [List.all_eq_true] at hall
    have hs := hall r (List.mem_range.mpr hr)
    cases he : eulerSite m fixed U psi a mu eps gamma u dt r with
    | none => rw [he] at hs; exact absurd hs (by simp)
    | some v =>
      refine ⟨v, rfl, ?_⟩
      injection h with h
      rw [← h]
      simp [he]
  · exact absurd h (by simp)

private theorem eulerPinned_isSome_iff (m : FVMesh ℝ) (fixed : ℕ → Bool) (tp : Option (Cx ℝ)) (U : ℕ → Cx ℝ)
    (psi : ℕ → Cx ℝ) (a mu eps : ℕ → ℝ) (gamma u dt : ℝ) :
    (eulerPinnedFn m fixed tp U psi a mu eps gamma u dt).isSome = true ↔
      ∀ r, r < m.n → (eulerSite m fixed U psi a mu eps gamma u dt r).isSome = true := by
  unfold eulerPinnedFn
  constructor
  · intro h r hr
    split at h
    · rename_i hall
      rw [List.all_eq_true] at hall
      exact hall r (List.mem_range.mpr hr)
    · exact absurd h (by simp)
  · intro h
    have : (List.range m.n).all (fun r => (eulerSite m fixed U psi a mu eps gamma u dt r).isSome) = true := by
      rw [List.all_eq_true]
      intro r hr
      exact h r (List.mem_range.mp hr)
    rw [if_pos this]
    rfl

/-- unfolding of an answered adaptive update -/
private theorem adaptiveStep_some (m : FVMesh ℝ) (fixed : ℕ → Bool) (tp : Option (Cx ℝ)) (U : ℕ → Cx ℝ)
    (solve : (ℕ → ℝ) → (ℕ → ℝ)) (eps : ℕ → ℝ) (gamma u : ℝ) (mb : ℕ → ℝ) (o : AdaptOpts ℝ) (i : ℕ)
    (s s' : AState ℝ) (dt : ℝ)
    (h : adaptiveStep m fixed tp U solve eps gamma u mb o i s = some (dt, s')) :
    ∃ out, dtUsed o (fun dt => (eulerPinnedFn m fixed tp U s.phys.psi (fun r => absSq (s.phys.psi r))
          s.phys.mu eps gamma u dt).isSome) s.ctl.tentative = some dt ∧
      eulerPinnedFn m fixed tp U s.phys.psi (fun r => absSq (s.phys.psi r)) s.phys.mu eps gamma u dt = some out ∧
      s'.phys.psi = fun r => (out r).1 := by
  unfold adaptiveStep at h
  simp only at h
  cases hu : dtUsed o (fun dt => (eulerPinnedFn m fixed tp U s.phys.psi (fun r => absSq (s.phys.psi r))
      s.phys.mu eps gamma u dt).isSome) s.ctl.tentative with
  | none => rw [hu] at h; simp at h
  | some dt1 =>
    rw [hu] at h
    simp only at h
    cases he : eulerPinnedFn m fixed tp U s.phys.psi (fun r => absSq (s.phys.psi r)) s.phys.mu eps gamma u dt1 with
    | none => rw [he] at h; simp at h
    | some out =>
      rw [he] at h
      simp only at h
      injection h with h
      injection h with e1 e2
      subst e1
      refine ⟨out, rfl, he, ?_⟩
      rw [← e2]

/-- **An answered whole update solves the site equation at every site, with the step it reports.** -/
theorem C02_adaptive_step_sound (m : FVMesh ℝ) (fixed : ℕ → Bool) (tp : Option (Cx ℝ)) (U : ℕ → Cx ℝ)
    (solve : (ℕ → ℝ) → (ℕ → ℝ)) (eps : ℕ → ℝ) (gamma u : ℝ) (mb : ℕ → ℝ) (o : AdaptOpts ℝ) (i : ℕ)
    (s s' : AState ℝ) (dt : ℝ)
    (h : adaptiveStep m fixed tp U solve eps gamma u mb o i s = some (dt, s')) :
    ∀ r, r < m.n → SiteOK m fixed tp U eps gamma u dt s.phys s'.phys r := by
  obtain ⟨out, _, he, hpsi⟩ := adaptiveStep_some m fixed tp U solve eps gamma u mb o i s s' dt h
  intro r hr
  obtain ⟨v, hv, hout⟩ := eulerPinned_some m fixed tp U _ _ _ eps gamma u dt out he r hr
  obtain ⟨p, x⟩ := v
  have hsound := C02_sound _ _ p x (by simpa [eulerSite, stepSite] using hv)
  refine ⟨p, hsound.1, ?_⟩
  rw [hpsi]
  simp only [hout, pinSite]
  cases tp with
  | none => rfl
  | some v =>
    by_cases hf : fixed r = true
    · simp [hf]
    · simp [hf]

/-- **Never refused when a solution exists at every site**: then the update is answered at the tentative step itself. -/
theorem C02_adaptive_step_not_refused (m : FVMesh ℝ) (fixed : ℕ → Bool) (tp : Option (Cx ℝ)) (U : ℕ → Cx ℝ)
    (solve : (ℕ → ℝ) → (ℕ → ℝ)) (eps : ℕ → ℝ) (gamma u : ℝ) (mb : ℕ → ℝ) (o : AdaptOpts ℝ) (i : ℕ) (s : AState ℝ)
    (hsol : ∀ r, r < m.n → ∃ p : Cx ℝ, Cx.add p (Cx.smul (Cx.normSq p) (zSite gamma s.ctl.tentative s.phys r))
        = wSite m fixed U eps gamma u s.ctl.tentative s.phys r) :
    ∃ s', adaptiveStep m fixed tp U solve eps gamma u mb o i s = some (s.ctl.tentative, s') := by
  have hok : (eulerPinnedFn m fixed tp U s.phys.psi (fun r => absSq (s.phys.psi r)) s.phys.mu eps gamma u
      s.ctl.tentative).isSome = true := by
    rw [eulerPinned_isSome_iff]
    intro r hr
    cases hsite : eulerSite m fixed U s.phys.psi (fun r => absSq (s.phys.psi r)) s.phys.mu eps gamma u s.ctl.tentative r with
    | some v => rfl
    | none =>
      exfalso
      have hnone : solveSite (zSite gamma s.ctl.tentative s.phys r) (wSite m fixed U eps gamma u s.ctl.tentative s.phys r) = none := by
        simpa [eulerSite, stepSite, zSite, wSite] using hsite
      exact (C02_refuse_iff _ _).mp hnone (hsol r hr)
  have hu : dtUsed o (fun dt => (eulerPinnedFn m fixed tp U s.phys.psi (fun r => absSq (s.phys.psi r))
      s.phys.mu eps gamma u dt).isSome) s.ctl.tentative = some s.ctl.tentative := by
    unfold dtUsed
    rw [eulerRetry]
    simp [hok]
  cases he : eulerPinnedFn m fixed tp U s.phys.psi (fun r => absSq (s.phys.psi r)) s.phys.mu eps gamma u s.ctl.tentative with
  | none => rw [he] at hok; exact absurd hok (by simp)
  | some out =>
    unfold adaptiveStep
    simp only [hu, he]
    exact ⟨_, rfl⟩

/-- **A raise means a site without solution**: if the whole update raises, then for the last step attempted
    (`tentative · mult^k`, `k ≤ max_retries + 1`, or the tentative step itself with adaptivity off) — indeed for every
    step attempted — some site equation has no solution. -/
theorem C02_adaptive_step_raise_means_unsolvable (m : FVMesh ℝ) (fixed : ℕ → Bool) (tp : Option (Cx ℝ)) (U : ℕ → Cx ℝ)
    (solve : (ℕ → ℝ) → (ℕ → ℝ)) (eps : ℕ → ℝ) (gamma u : ℝ) (mb : ℕ → ℝ) (o : AdaptOpts ℝ) (i : ℕ) (s : AState ℝ)
    (h : adaptiveStep m fixed tp U solve eps gamma u mb o i s = none) :
    ∃ r, r < m.n ∧ ¬ ∃ p : Cx ℝ, Cx.add p (Cx.smul (Cx.normSq p) (zSite gamma s.ctl.tentative s.phys r))
        = wSite m fixed U eps gamma u s.ctl.tentative s.phys r := by
  by_contra hcon
  have hsol : ∀ r, r < m.n → ∃ p : Cx ℝ, Cx.add p (Cx.smul (Cx.normSq p) (zSite gamma s.ctl.tentative s.phys r))
      = wSite m fixed U eps gamma u s.ctl.tentative s.phys r := by
    intro r hr
    by_contra hn
    exact hcon ⟨r, hr, hn⟩
  obtain ⟨s', hs'⟩ := C02_adaptive_step_not_refused m fixed tp U solve eps gamma u mb o i s hsol
  rw [h] at hs'
  exact absurd hs' (by simp)

/-- **Runs.**  In a run of `n` answered adaptive updates the `k`-th recorded time step is the step the `k`-th update's
    site equations were solved with: there are states `a` (given to update `i + k`) and `b` (returned by it) with
    `adaptiveStep (i+k) a = (dts[k], b)`, hence `SiteOK … dts[k] a b r` at every site. -/
theorem C02_adaptive_run_sound (m : FVMesh ℝ) (fixed : ℕ → Bool) (tp : Option (Cx ℝ)) (U : ℕ → Cx ℝ)
    (solve : (ℕ → ℝ) → (ℕ → ℝ)) (eps : ℕ → ℝ) (gamma u : ℝ) (mb : ℕ → ℝ) (o : AdaptOpts ℝ)
    (n i : ℕ) (s s' : AState ℝ) (dts : List ℝ)
    (h : adaptiveRun m fixed tp U solve eps gamma u mb o n i s = some (dts, s')) :
    dts.length = n ∧ ∀ k, (hk : k < dts.length) → ∃ a b : AState ℝ,
      adaptiveStep m fixed tp U solve eps gamma u mb o (i + k) a = some (dts[k], b) ∧
      ∀ r, r < m.n → SiteOK m fixed tp U eps gamma u dts[k] a.phys b.phys r := by
  induction n generalizing i s dts s' with
  | zero =>
    rw [adaptiveRun] at h
    injection h with h
    injection h with h1 h2
    subst h1
    exact ⟨rfl, fun k hk => absurd hk (by simp)⟩
  | succ n ih =>
    rw [adaptiveRun] at h
    cases hstep : adaptiveStep m fixed tp U solve eps gamma u mb o i s with
    | none => rw [hstep] at h; simp at h
    | some q =>
      obtain ⟨dt, s1⟩ := q
      rw [hstep] at h
      simp only at h
      cases hr : adaptiveRun m fixed tp U solve eps gamma u mb o n (i + 1) s1 with
      | none => rw [hr] at h; simp at h
      | some q2 =>
        obtain ⟨dts0, s2⟩ := q2
        rw [hr] at h
        simp only at h
        injection h with h
        injection h with h1 h2
        subst h1
        obtain ⟨hlen, hall⟩ := ih (i + 1) s1 s2 dts0 hr
        refine ⟨by simp [hlen], ?_⟩
        intro k hk
        cases k with
        | zero =>
          exact ⟨s, s1, by simpa using hstep, by
            simpa using C02_adaptive_step_sound m fixed tp U solve eps gamma u mb o i s s1 dt hstep⟩
        | succ k =>
          have hk' : k < dts0.length := by simpa using hk
          obtain ⟨a, b, hab, hsite⟩ := hall k hk'
          refine ⟨a, b, ?_, ?_⟩
          · have : i + 1 + k = i + (k + 1) := by omega
            rw [this] at hab
            simpa using hab
          · simpa using hsite

end Tdgl.C02
