/-
  C12 / C17 (what feeds the windowed mean) — on the terminal sites the update re-imposes BOTH the terminal value and its
  squared modulus, so a state that already holds the terminal value contributes exactly zero to
  `max |change of |ψ|²|`: the adaptive rule sees only the free sites.  (If only ψ were re-imposed, the discarded Euler
  drift of the pinned sites would be taken for a real change and the step would stall: two seeded changes did that.)
-/
import Mathlib.Analysis.SpecialFunctions.Trigonometric.Basic
import Mathlib.Tactic.Ring
import Mathlib.Tactic.Linarith
import Tdgl.Lemmas.RealInst
import Tdgl.Operators
import Tdgl.Update
import Tdgl.Adaptive
import Tdgl.AdaptiveRun

open Tdgl

namespace Tdgl.C12

/-- a pinned site that holds the terminal value before the update holds it, with the same |ψ|², after it -/
theorem C12_pinned_sites_do_not_feed_delta (m : FVMesh ℝ) (fixed : ℕ → Bool) (v : Cx ℝ) (U : ℕ → Cx ℝ)
    (psi : ℕ → Cx ℝ) (mu eps : ℕ → ℝ) (gamma u dt : ℝ) (out : ℕ → Cx ℝ × ℝ)
    (h : eulerPinnedFn m fixed (some v) U psi (fun r => absSq (psi r)) mu eps gamma u dt = some out)
    (r : ℕ) (hf : fixed r = true) (hp : psi r = v) :
    (out r).1 = v ∧ (out r).2 - absSq (psi r) = 0 := by
  unfold eulerPinnedFn at h
  split_ifs at h
  injection h with h
  subst h
  simp only [pinSite, hf, if_true, hp, sub_self, and_self]

/-- hence the quantity recorded for the windowed mean is the maximum over the free sites only: replacing the
    new squared modulus on pinned sites by the old one changes nothing -/
theorem C12_delta_is_over_free_sites (m : FVMesh ℝ) (fixed : ℕ → Bool) (v : Cx ℝ) (U : ℕ → Cx ℝ)
    (psi : ℕ → Cx ℝ) (mu eps : ℕ → ℝ) (gamma u dt : ℝ) (out : ℕ → Cx ℝ × ℝ)
    (h : eulerPinnedFn m fixed (some v) U psi (fun r => absSq (psi r)) mu eps gamma u dt = some out)
    (hp : ∀ r, fixed r = true → psi r = v) :
    maxChange m.n (fun r => (out r).2) (fun r => absSq (psi r))
      = maxChange m.n (fun r => if fixed r then absSq (psi r) else (out r).2) (fun r => absSq (psi r)) := by
  have hfun : (fun r => (out r).2) = (fun r => if fixed r then absSq (psi r) else (out r).2) := by
    funext r
    by_cases hf : fixed r = true
    · have := (C12_pinned_sites_do_not_feed_delta m fixed v U psi mu eps gamma u dt out h r hf (hp r hf)).2
      simp only [hf, if_true]
      linarith
    · simp [hf]
  rw [← hfun]

/-- the counter-statement: if only ψ is re-imposed and the squared modulus keeps the value of the Euler step, a pinned
    site whose Euler step moved |ψ|² from 1 to 1.03 feeds 0.03 into the mean although the state did not change -/
example : absVal ((1.03 : ℝ) - 1) ≠ 0 ∧ absVal ((1 : ℝ) - 1) = 0 := by
  constructor
  · unfold absVal; norm_num
  · unfold absVal; norm_num

end Tdgl.C12
