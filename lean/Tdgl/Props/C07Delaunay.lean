/-
  C07 — "wherever the triangulation is locally Delaunay with unencroached boundary edges … each dual edge
  length equals the length of the clipped Voronoi face".          Model: Tdgl/Geometry.lean (dual edges).

  `get_dual_edge_lengths` takes the *unsigned* distance between the two circumcentres on an inner edge and the
  unsigned distance circumcentre – edge centre on a boundary edge.  The theorems below say exactly when that
  unsigned number is the signed Voronoi face:

    * every circumcentre sits on the perpendicular bisector at the signed offset `ccOffset` (= cot γ / 2);
    * the vector between the two circumcentres of an inner edge is `(s₁ + s₂) · perp(B − A)`, so the coded
      length is `|s₁ + s₂| · |AB|`;
    * `(s₁ + s₂) · 2 T₁ T₂ = − inCircle(A, B, C, D)`: for positively oriented triangles the signed face
      `s₁ + s₂` is non-negative **iff** the edge is locally Delaunay (the opposite vertex is not strictly
      inside the circumcircle) — this is why the property carries that hypothesis, and a non-Delaunay pair
      (`C07_nondelaunay_counterexample`) has a negative signed face whose absolute value the code reports;
    * on a boundary edge the signed half face `s₁` is non-negative iff the opposite vertex does not encroach
      the edge (lies outside its diametral circle);
    * the kite of a vertex is `¼ Σ |edge|² · offset`: the cell area is the sum over the edges at the site of a
      quarter of edge length times signed dual half-length (the finite-volume area identity).
-/
import Mathlib.Algebra.Order.Field.Basic
import Mathlib.Tactic.Ring
import Mathlib.Tactic.Linarith
import Mathlib.Tactic.FieldSimp
import Mathlib.Tactic.LinearCombination
import Mathlib.Tactic.Positivity
import Mathlib.Tactic.NormNum
import Mathlib.Algebra.Order.Field.Rat
import Tdgl.Geometry
import Tdgl.Props.C07

open Tdgl

namespace Tdgl.C07

section field
variable {K : Type} [Field K]

private theorem denom_ne' (A B C : Pt K) (h : triArea2 A B C ≠ 0) (h2 : (2 : K) ≠ 0) :
    2 * (B.1 - A.1) * (C.2 - A.2) - 2 * (B.2 - A.2) * (C.1 - A.1) ≠ 0 := by
  have e : 2 * (B.1 - A.1) * (C.2 - A.2) - 2 * (B.2 - A.2) * (C.1 - A.1) = 2 * triArea2 A B C := by
    simp only [triArea2]; ring
  rw [e]
  exact mul_ne_zero h2 h

/-- The coded circumcentre is the edge midpoint moved by `ccOffset · perp(B − A)`. -/
theorem C07_circumcentre_offset (A B C : Pt K) (h : triArea2 A B C ≠ 0) (h2 : (2 : K) ≠ 0) :
    (circumcentre A B C).1 = (mid A B).1 - ccOffset A B C * (B.2 - A.2) ∧
    (circumcentre A B C).2 = (mid A B).2 + ccOffset A B C * (B.1 - A.1) := by
  obtain ⟨a1, a2⟩ := A
  obtain ⟨b1, b2⟩ := B
  obtain ⟨c1, c2⟩ := C
  simp only [triArea2] at h
  simp only [circumcentre, mid, ccOffset, triArea2]
  have eD : 2 * (b1 - a1) * (c2 - a2) - 2 * (b2 - a2) * (c1 - a1)
      = 2 * ((b1 - a1) * (c2 - a2) - (c1 - a1) * (b2 - a2)) := by ring
  rw [eD]
  obtain ⟨T, hT⟩ : ∃ T, T = (b1 - a1) * (c2 - a2) - (c1 - a1) * (b2 - a2) := ⟨_, rfl⟩
  rw [← hT] at h ⊢
  constructor
  · field_simp
    subst hT
    ring
  · field_simp
    subst hT
    ring

/-- `triArea2 B A D = -(triArea2 A B D)` -/
private theorem triArea2_swap (A B D : Pt K) : triArea2 B A D = -(triArea2 A B D) := by
  simp only [triArea2]; ring

/-- The dual edge of an inner edge is `(s₁ + s₂) · perp(B − A)`: the vector between the two circumcentres. -/
theorem C07_dual_vector (A B C D : Pt K) (h1 : triArea2 A B C ≠ 0) (h2' : triArea2 B A D ≠ 0)
    (h2 : (2 : K) ≠ 0) :
    (circumcentre A B C).1 - (circumcentre B A D).1 = -((ccOffset A B C + ccOffset B A D) * (B.2 - A.2)) ∧
    (circumcentre A B C).2 - (circumcentre B A D).2 = (ccOffset A B C + ccOffset B A D) * (B.1 - A.1) := by
  obtain ⟨e1, e2⟩ := C07_circumcentre_offset A B C h1 h2
  obtain ⟨f1, f2⟩ := C07_circumcentre_offset B A D h2' h2
  rw [e1, e2, f1, f2]
  simp only [mid]
  constructor <;> ring

/-- The coded (squared) dual length of an inner edge is `(s₁ + s₂)² |AB|²`. -/
theorem C07_dual_inner_sq (A B C D : Pt K) (h1 : triArea2 A B C ≠ 0) (h2' : triArea2 B A D ≠ 0)
    (h2 : (2 : K) ≠ 0) :
    dualInner2 A B C D = (ccOffset A B C + ccOffset B A D) ^ 2 * dist2 A B := by
  obtain ⟨e1, e2⟩ := C07_dual_vector A B C D h1 h2' h2
  simp only [dualInner2, dist2]
  rw [e1, e2]
  ring

/-- The coded (squared) dual length of a boundary edge is `s₁² |AB|²`. -/
theorem C07_dual_boundary_sq (A B C : Pt K) (h1 : triArea2 A B C ≠ 0) (h2 : (2 : K) ≠ 0) :
    dualBoundary2 A B C = (ccOffset A B C) ^ 2 * dist2 A B := by
  obtain ⟨e1, e2⟩ := C07_circumcentre_offset A B C h1 h2
  simp only [dualBoundary2, dist2]
  rw [e1, e2]
  ring

/-- The signed face of an inner edge against the in-circle determinant. -/
theorem C07_offset_sum_incircle (A B C D : Pt K) (h1 : triArea2 A B C ≠ 0) (h2' : triArea2 B A D ≠ 0)
    (h2 : (2 : K) ≠ 0) :
    (ccOffset A B C + ccOffset B A D) * (2 * triArea2 A B C * triArea2 B A D) = -(inCircle A B C D) := by
  obtain ⟨a1, a2⟩ := A
  obtain ⟨b1, b2⟩ := B
  obtain ⟨c1, c2⟩ := C
  obtain ⟨d1, d2⟩ := D
  simp only [triArea2] at h1 h2'
  simp only [ccOffset, inCircle, triArea2]
  field_simp
  ring

/-- One half of the kite of `A` in `(A, B, C)`: a quarter of `|AB|²` times the signed offset (doubled area). -/
theorem C07_kite_piece (A B C : Pt K) (h1 : triArea2 A B C ≠ 0) (h2 : (2 : K) ≠ 0) :
    triArea2 A (mid A B) (circumcentre A B C) = ccOffset A B C * dist2 A B / 2 := by
  obtain ⟨e1, e2⟩ := C07_circumcentre_offset A B C h1 h2
  generalize circumcentre A B C = O at e1 e2 ⊢
  generalize ccOffset A B C = s at e1 e2 ⊢
  obtain ⟨O1, O2⟩ := O
  simp only at e1 e2
  subst e1 e2
  simp only [triArea2, dist2, mid]
  field_simp
  ring

/-- The other half of the kite of `A`, on the edge `CA` (offset of the same circumcentre seen from `(C, A, B)`). -/
theorem C07_kite_piece' (A B C : Pt K) (h1 : triArea2 A B C ≠ 0) (h2 : (2 : K) ≠ 0) :
    triArea2 A (circumcentre A B C) (mid A C) = ccOffset C A B * dist2 C A / 2 := by
  have hc : triArea2 C A B ≠ 0 := by
    have : triArea2 C A B = triArea2 A B C := by simp only [triArea2]; ring
    rwa [this]
  have hb : triArea2 B C A ≠ 0 := by
    have : triArea2 B C A = triArea2 A B C := by simp only [triArea2]; ring
    rwa [this]
  have cyc : circumcentre A B C = circumcentre C A B := by
    rw [C07_circumcentre_cyclic A B C h1 h2, C07_circumcentre_cyclic B C A hb h2]
  obtain ⟨e1, e2⟩ := C07_circumcentre_offset C A B hc h2
  rw [cyc]
  generalize circumcentre C A B = O at e1 e2 ⊢
  generalize ccOffset C A B = s at e1 e2 ⊢
  obtain ⟨O1, O2⟩ := O
  simp only at e1 e2
  subst e1 e2
  simp only [triArea2, dist2, mid]
  field_simp
  ring

/-- **Finite-volume area identity.**  The (doubled) kite of `A` in `(A, B, C)` is half of `Σ |edge|² · offset` over the
    two edges at `A`: summed over the triangles at a site, the cell area is `¼ Σ_edges |e| · (signed dual length)`. -/
theorem C07_kite_from_offsets (A B C : Pt K) (h1 : triArea2 A B C ≠ 0) (h2 : (2 : K) ≠ 0) :
    kite2 A B C = (ccOffset A B C * dist2 A B + ccOffset C A B * dist2 C A) / 2 := by
  simp only [kite2]
  rw [C07_kite_piece A B C h1 h2, C07_kite_piece' A B C h1 h2]
  field_simp

end field

section ordered
variable {K : Type} [Field K] [LinearOrder K] [IsStrictOrderedRing K]

/-- **Locally Delaunay ⇔ non-negative signed face.**  For two positively oriented triangles `(A, B, C)` and
    `(B, A, D)` on the edge `AB`, the signed dual length `s₁ + s₂` is non-negative exactly when `D` is not
    strictly inside the circumcircle of `(A, B, C)`. -/
theorem C07_delaunay_iff (A B C D : Pt K) (h1 : 0 < triArea2 A B C) (h2' : 0 < triArea2 B A D) :
    0 ≤ ccOffset A B C + ccOffset B A D ↔ inCircle A B C D ≤ 0 := by
  have two : (2 : K) ≠ 0 := two_ne_zero
  have e := C07_offset_sum_incircle A B C D h1.ne' h2'.ne' two
  have hp : 0 < 2 * triArea2 A B C * triArea2 B A D := by positivity
  constructor
  · intro hs
    have : 0 ≤ (ccOffset A B C + ccOffset B A D) * (2 * triArea2 A B C * triArea2 B A D) :=
      mul_nonneg hs hp.le
    linarith
  · intro hi
    by_contra hneg
    have hneg := not_le.mp hneg
    have : (ccOffset A B C + ccOffset B A D) * (2 * triArea2 A B C * triArea2 B A D) < 0 :=
      mul_neg_of_neg_of_pos hneg hp
    linarith

/-- Under the locally Delaunay hypothesis the coded unsigned length is the signed face:
    `dualInner2 = ℓ²` with `ℓ = (s₁ + s₂)·|AB| ≥ 0` (stated on squares: `ℓ ≥ 0` and `ℓ² = coded²` determine `ℓ`). -/
theorem C07_dual_inner_is_signed_face (A B C D : Pt K) (h1 : 0 < triArea2 A B C) (h2' : 0 < triArea2 B A D)
    (hd : inCircle A B C D ≤ 0) :
    0 ≤ ccOffset A B C + ccOffset B A D ∧
    dualInner2 A B C D = (ccOffset A B C + ccOffset B A D) ^ 2 * dist2 A B :=
  ⟨(C07_delaunay_iff A B C D h1 h2').2 hd, C07_dual_inner_sq A B C D h1.ne' h2'.ne' two_ne_zero⟩

/-- **Unencroached boundary edge ⇔ non-negative signed half face.**  For a positively oriented triangle the
    circumcentre lies on the inner side of the boundary edge `AB` (or on it) exactly when `C` is not strictly
    inside the diametral circle of `AB`. -/
theorem C07_unencroached_iff (A B C : Pt K) (h1 : 0 < triArea2 A B C) :
    0 ≤ ccOffset A B C ↔ dist2 A (mid A B) ≤ dist2 C (mid A B) := by
  have hp : 0 < 2 * triArea2 A B C := by positivity
  have key : dist2 C (mid A B) - dist2 A (mid A B)
      = (A.1 - C.1) * (B.1 - C.1) + (A.2 - C.2) * (B.2 - C.2) := by
    simp only [dist2, mid]
    field_simp
    ring
  unfold ccOffset
  rw [div_nonneg_iff_of_pos' hp]
  constructor
  · intro h; linarith
  · intro h; linarith
where
  div_nonneg_iff_of_pos' {a b : K} (hb : 0 < b) : 0 ≤ a / b ↔ 0 ≤ a := by
    constructor
    · intro h
      by_contra hn
      have hn := not_le.mp hn
      have : a / b < 0 := div_neg_of_neg_of_pos hn hb
      linarith
    · intro h; exact div_nonneg h hb.le

end ordered

/-- A non-Delaunay pair over `ℚ`: `D` is strictly inside the circumcircle of `(A, B, C)`, both triangles are
    positively oriented, the signed face is negative, and the coded squared length is the square of that
    negative number — the unsigned length the code stores is *not* the signed Voronoi face there.  This is the
    configuration the hypothesis "locally Delaunay" of the property excludes. -/
theorem C07_nondelaunay_counterexample :
    let A : Pt ℚ := (0, 0); let B : Pt ℚ := (4, 0); let C : Pt ℚ := (2, 1); let D : Pt ℚ := (2, -1)
    0 < triArea2 A B C ∧ 0 < triArea2 B A D ∧ 0 < inCircle A B C D ∧
    ccOffset A B C + ccOffset B A D = -3/4 ∧ dualInner2 A B C D = 9 := by
  simp only [triArea2, inCircle, ccOffset, dualInner2, dist2, circumcentre]
  norm_num

/-- non-vacuity: a Delaunay pair (a unit square split along a diagonal is the degenerate case `inCircle = 0`;
    here a strictly Delaunay kite) -/
example :
    let A : Pt ℚ := (0, 0); let B : Pt ℚ := (2, 0); let C : Pt ℚ := (1, 2); let D : Pt ℚ := (1, -2)
    0 < triArea2 A B C ∧ 0 < triArea2 B A D ∧ inCircle A B C D ≤ 0 ∧
    0 ≤ ccOffset A B C + ccOffset B A D := by
  simp only [triArea2, inCircle, ccOffset]
  norm_num

end Tdgl.C07
