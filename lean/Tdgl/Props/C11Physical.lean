/-
  C11 — "continuing from a saved final state with the same drive and a fixed time step reproduces, bit for bit, the frames of
  the uninterrupted run", for the PHYSICAL update (models: Tdgl/AdaptiveRun.lean, Tdgl/Runner.lean via `C05.physUpd`).

  `C11_resume` (C11.lean) is stated for an abstract update that may depend on nothing but the state it is given.  The physical
  update also sees the loop index (the warm-up test of the controller) and carries the controller (`tentative_dt`, the history of
  the windowed mean) — which a saved solution does NOT contain.  With a fixed time step (`adaptive = False`) neither matters:

    * `C11_fixed_step_index_free` — the whole update does not depend on the step index;
    * `C11_fixed_step_controller_constant` — it leaves the controller alone and uses the tentative step itself;
    * `C11_physical_resume` — the states of the run continued at index 0 from the state after `n` updates are the states
      `n, n+1, …` of the uninterrupted run (`physUpd` ignores the clock, so only the labels restart).
  With adaptivity on the statement is false in general (the history is not saved) — which is why the property says "fixed".
-/
import Mathlib.Algebra.Order.Field.Basic
import Mathlib.Analysis.SpecialFunctions.Trigonometric.Basic
import Mathlib.Tactic.Common
import Tdgl.Lemmas.RealInst
import Tdgl.Props.C05Physical

open Tdgl

namespace Tdgl.C11

private theorem adaptAfter_off (o : AdaptOpts ℝ) (ha : o.adaptive = false) (st : AdaptState ℝ) (i : ℕ) (dt d : ℝ) :
    adaptAfter o st i dt d = st := by
  unfold adaptAfter
  simp [ha]

/-- With a fixed time step the whole update does not depend on the step index. -/
theorem C11_fixed_step_index_free (m : FVMesh ℝ) (fixed : ℕ → Bool) (tp : Option (Cx ℝ)) (U : ℕ → Cx ℝ)
    (solve : (ℕ → ℝ) → (ℕ → ℝ)) (eps : ℕ → ℝ) (gamma u : ℝ) (mb : ℕ → ℝ) (o : AdaptOpts ℝ)
    (ha : o.adaptive = false) (i j : ℕ) (s : AState ℝ) :
    adaptiveStep m fixed tp U solve eps gamma u mb o i s = adaptiveStep m fixed tp U solve eps gamma u mb o j s := by
  unfold adaptiveStep
  simp only [adaptAfter_off o ha]

/-- With a fixed time step the update leaves the controller alone and uses the tentative step itself. -/
theorem C11_fixed_step_controller_constant (m : FVMesh ℝ) (fixed : ℕ → Bool) (tp : Option (Cx ℝ)) (U : ℕ → Cx ℝ)
    (solve : (ℕ → ℝ) → (ℕ → ℝ)) (eps : ℕ → ℝ) (gamma u : ℝ) (mb : ℕ → ℝ) (o : AdaptOpts ℝ)
    (ha : o.adaptive = false) (i : ℕ) (s s' : AState ℝ) (dt : ℝ)
    (h : adaptiveStep m fixed tp U solve eps gamma u mb o i s = some (dt, s')) :
    s'.ctl = s.ctl ∧ dt = s.ctl.tentative := by
  unfold adaptiveStep at h
  simp only [adaptAfter_off o ha] at h
  cases hu : dtUsed o (fun dt => (eulerPinnedFn m fixed tp U s.phys.psi (fun r => absSq (s.phys.psi r))
      s.phys.mu eps gamma u dt).isSome) s.ctl.tentative with
  | none => rw [hu] at h; simp at h
  | some dt1 =>
    rw [hu] at h
    simp only at h
    have hdt1 : dt1 = s.ctl.tentative := by
      unfold dtUsed at hu
      rw [eulerRetry] at hu
      split at hu
      · injection hu with hu; exact hu.symm
      · simp at hu
    cases he : eulerPinnedFn m fixed tp U s.phys.psi (fun r => absSq (s.phys.psi r)) s.phys.mu eps gamma u dt1 with
    | none => rw [he] at h; simp at h
    | some out =>
      rw [he] at h
      simp only at h
      injection h with h
      injection h with e1 e2
      subst e2
      exact ⟨rfl, by rw [← e1, hdt1]⟩

/-- the runner's view of the update does not depend on the index or the clock either -/
private theorem physUpd_index_free (m : FVMesh ℝ) (fixed : ℕ → Bool) (tp : Option (Cx ℝ)) (U : ℕ → Cx ℝ)
    (solve : (ℕ → ℝ) → (ℕ → ℝ)) (eps : ℕ → ℝ) (gamma u : ℝ) (mb : ℕ → ℝ) (o : AdaptOpts ℝ)
    (ha : o.adaptive = false) (i j : ℕ) (t t' : ℝ) (s : AState ℝ) :
    C05.physUpd m fixed tp U solve eps gamma u mb o s i t = C05.physUpd m fixed tp U solve eps gamma u mb o s j t' := by
  unfold C05.physUpd
  simp only [C11_fixed_step_index_free m fixed tp U solve eps gamma u mb o ha i j s]

/-- **Resumption.**  With a fixed time step, the run continued (labels restarting at 0) from the state after `n` updates
    visits the states `n, n+1, …` of the uninterrupted run: state `k` of the continuation is state `n + k` of the original.
    The state includes ψ, μ, the currents and the (constant) controller. -/
theorem C11_physical_resume (m : FVMesh ℝ) (fixed : ℕ → Bool) (tp : Option (Cx ℝ)) (U : ℕ → Cx ℝ)
    (solve : (ℕ → ℝ) → (ℕ → ℝ)) (eps : ℕ → ℝ) (gamma u : ℝ) (mb : ℕ → ℝ) (o : AdaptOpts ℝ)
    (ha : o.adaptive = false) (s0 : AState ℝ) (n k : ℕ) :
    (traj (C05.physUpd m fixed tp U solve eps gamma u mb o)
        (traj (C05.physUpd m fixed tp U solve eps gamma u mb o) s0 n).2 k).2
      = (traj (C05.physUpd m fixed tp U solve eps gamma u mb o) s0 (n + k)).2 := by
  induction k with
  | zero => rfl
  | succ k ih =>
    have e : n + (k + 1) = (n + k) + 1 := by omega
    rw [e]
    simp only [traj]
    rw [ih]
    exact congrArg (fun r => r.2.1) (physUpd_index_free m fixed tp U solve eps gamma u mb o ha k (n + k) _ _ _)

end Tdgl.C11
