/-
  C08 — results do not depend on the unit system used to state the problem.   Model: Tdgl/Units.lean.
  Two descriptions of the same physical device: numbers `n` in units `u` and numbers `n'` in units `u'`
  with equal SI values (`n.xi * u.lu = n'.xi * u'.lu`, …).  Everything the solver consumes is a function of
  the SI values only.
-/
import Mathlib.Algebra.Field.Basic
import Mathlib.Tactic.Ring
import Mathlib.Tactic.FieldSimp
import Mathlib.Tactic.LinearCombination
import Tdgl.Units

open Tdgl

namespace Tdgl.C08

variable {K : Type} [Field K]

/-- the two descriptions denote the same physical problem -/
structure SamePhysics (u u' : UnitSys K) (n n' : Numbers K) : Prop where
  xi : n.xi * u.lu = n'.xi * u'.lu
  lam : n.lam * u.lu = n'.lam * u'.lu
  d : n.d * u.lu = n'.d * u'.lu
  B : n.B * u.fu = n'.B * u'.fu
  I : n.I * u.cu = n'.I * u'.cu
  Lt : n.Lt * u.lu = n'.Lt * u'.lu

/-- all units and lengths are non-zero -/
structure NonDeg (c : Consts K) (u : UnitSys K) (n : Numbers K) : Prop where
  lu : u.lu ≠ 0
  fu : u.fu ≠ 0
  cu : u.cu ≠ 0
  xi : n.xi ≠ 0
  lam : n.lam ≠ 0
  d : n.d ≠ 0
  Lt : n.Lt ≠ 0
  pi : c.pi ≠ 0
  mu0 : c.mu0 ≠ 0
  Phi0 : c.Phi0 ≠ 0

/-- `Bc2`, `A0`, `K0` (SI) are the same in both descriptions. -/
theorem C08_scales_invariant (c : Consts K) (u u' : UnitSys K) (n n' : Numbers K)
    (h : SamePhysics u u' n n') :
    bc2 c u n = bc2 c u' n' ∧ a0 c u n = a0 c u' n' ∧ k0 c u n = k0 c u' n' := by
  obtain ⟨hxi, hlam, hd, -, -, -⟩ := h
  simp only [bc2, a0, k0, hxi, hlam, hd, and_self]

/-- The dimensionless link exponent of every edge is the same: with numeric coordinates related by the
    change of length unit (`x * u.lu = x' * u'.lu` for every coordinate, including the re-centring point). -/
theorem C08_link_exponent_invariant (c : Consts K) (u u' : UnitSys K) (n n' : Numbers K)
    (h : SamePhysics u u' n n') (hn : NonDeg c u n) (hn' : NonDeg c u' n')
    (x0 y0 x1 y1 xc yc x0' y0' x1' y1' xc' yc' : K)
    (e1 : x0 * u.lu = x0' * u'.lu) (e2 : y0 * u.lu = y0' * u'.lu) (e3 : x1 * u.lu = x1' * u'.lu)
    (e4 : y1 * u.lu = y1' * u'.lu) (e5 : xc * u.lu = xc' * u'.lu) (e6 : yc * u.lu = yc' * u'.lu) :
    linkTheta c u n x0 y0 x1 y1 xc yc = linkTheta c u' n' x0' y0' x1' y1' xc' yc' := by
  obtain ⟨lu, fu, cu⟩ := u
  obtain ⟨lu', fu', cu'⟩ := u'
  obtain ⟨xi, lam, d, B, I, Lt⟩ := n
  obtain ⟨xi', lam', d', B', I', Lt'⟩ := n'
  obtain ⟨pi, mu0, Phi0⟩ := c
  obtain ⟨hxi, hlam, hd, hB, hI, hLt⟩ := h
  obtain ⟨nlu, nfu, ncu, nxi, nlam, nd, nLt, npi, nmu0, nPhi0⟩ := hn
  obtain ⟨nlu', nfu', ncu', nxi', nlam', nd', nLt', -, -, -⟩ := hn'
  simp only at hxi hlam hd hB hI hLt nlu nfu ncu nxi nlam nd nLt npi nmu0 nPhi0 nlu' nfu' ncu' nxi' nlam' nd' nLt'
  simp only [linkTheta, uniformA, aScale, bc2]
  by_cases h2 : (2 : K) = 0
  · simp [h2]
  obtain rfl : xi = xi' * lu' / lu := eq_div_of_mul_eq nlu hxi
  obtain rfl : B = B' * fu' / fu := eq_div_of_mul_eq nfu hB
  obtain rfl : x0 = x0' * lu' / lu := eq_div_of_mul_eq nlu e1
  obtain rfl : y0 = y0' * lu' / lu := eq_div_of_mul_eq nlu e2
  obtain rfl : x1 = x1' * lu' / lu := eq_div_of_mul_eq nlu e3
  obtain rfl : y1 = y1' * lu' / lu := eq_div_of_mul_eq nlu e4
  obtain rfl : xc = xc' * lu' / lu := eq_div_of_mul_eq nlu e5
  obtain rfl : yc = yc' * lu' / lu := eq_div_of_mul_eq nlu e6
  field_simp

/-- The dimensionless boundary current density of a terminal is the same. -/
theorem C08_terminal_density_invariant (c : Consts K) (u u' : UnitSys K) (n n' : Numbers K)
    (h : SamePhysics u u' n n') (hn : NonDeg c u n) (hn' : NonDeg c u' n') :
    terminalMb c u n = terminalMb c u' n' := by
  obtain ⟨lu, fu, cu⟩ := u
  obtain ⟨lu', fu', cu'⟩ := u'
  obtain ⟨xi, lam, d, B, I, Lt⟩ := n
  obtain ⟨xi', lam', d', B', I', Lt'⟩ := n'
  obtain ⟨pi, mu0, Phi0⟩ := c
  obtain ⟨hxi, hlam, hd, hB, hI, hLt⟩ := h
  obtain ⟨nlu, nfu, ncu, nxi, nlam, nd, nLt, npi, nmu0, nPhi0⟩ := hn
  obtain ⟨nlu', nfu', ncu', nxi', nlam', nd', nLt', -, -, -⟩ := hn'
  simp only at hxi hlam hd hB hI hLt nlu nfu ncu nxi nlam nd nLt npi nmu0 nPhi0 nlu' nfu' ncu' nxi' nlam' nd' nLt'
  simp only [terminalMb, jScale, k0, bc2]
  by_cases h2 : (2 : K) = 0
  · have h4 : (4 : K) = 0 := by
      have : (4 : K) = 2 * 2 := by norm_num
      rw [this, h2, mul_zero]
    simp [h2, h4]
  have h4 : (4 : K) ≠ 0 := by
    have : (4 : K) = 2 * 2 := by norm_num
    rw [this]; exact mul_ne_zero h2 h2
  obtain rfl : xi = xi' * lu' / lu := eq_div_of_mul_eq nlu hxi
  obtain rfl : lam = lam' * lu' / lu := eq_div_of_mul_eq nlu hlam
  obtain rfl : d = d' * lu' / lu := eq_div_of_mul_eq nlu hd
  obtain rfl : I = I' * cu' / cu := eq_div_of_mul_eq ncu hI
  obtain rfl : Lt = Lt' * lu' / lu := eq_div_of_mul_eq nlu hLt
  field_simp

/-- The screening weight of a cell, `screenScale · a · ξ² / (ξ ρ)` with dimensionless area `a` and
    dimensionless distance `ρ`, is the same. -/
theorem C08_screening_weight_invariant (c : Consts K) (u u' : UnitSys K) (n n' : Numbers K)
    (h : SamePhysics u u' n n') (hn : NonDeg c u n) (hn' : NonDeg c u' n') (a rho : K) (hr : rho ≠ 0) :
    screenScale c u n * a * (n.xi * n.xi) / (n.xi * rho) = screenScale c u' n' * a * (n'.xi * n'.xi) / (n'.xi * rho) := by
  obtain ⟨lu, fu, cu⟩ := u
  obtain ⟨lu', fu', cu'⟩ := u'
  obtain ⟨xi, lam, d, B, I, Lt⟩ := n
  obtain ⟨xi', lam', d', B', I', Lt'⟩ := n'
  obtain ⟨pi, mu0, Phi0⟩ := c
  obtain ⟨hxi, hlam, hd, hB, hI, hLt⟩ := h
  obtain ⟨nlu, nfu, ncu, nxi, nlam, nd, nLt, npi, nmu0, nPhi0⟩ := hn
  obtain ⟨nlu', nfu', ncu', nxi', nlam', nd', nLt', -, -, -⟩ := hn'
  simp only at hxi hlam hd hB hI hLt nlu nfu ncu nxi nlam nd nLt npi nmu0 nPhi0 nlu' nfu' ncu' nxi' nlam' nd' nLt'
  simp only [screenScale, k0, a0, bc2]
  by_cases h2 : (2 : K) = 0
  · have h4 : (4 : K) = 0 := by
      have : (4 : K) = 2 * 2 := by norm_num
      rw [this, h2, mul_zero]
    simp [h2, h4]
  have h4 : (4 : K) ≠ 0 := by
    have : (4 : K) = 2 * 2 := by norm_num
    rw [this]; exact mul_ne_zero h2 h2
  obtain rfl : xi = xi' * lu' / lu := eq_div_of_mul_eq nlu hxi
  obtain rfl : lam = lam' * lu' / lu := eq_div_of_mul_eq nlu hlam
  obtain rfl : d = d' * lu' / lu := eq_div_of_mul_eq nlu hd
  field_simp

/-- Physical outputs: the sheet-current scale converted to fixed (SI) units agrees, so
    `K0 · (dimensionless current)` does. -/
theorem C08_physical_current_invariant (c : Consts K) (u u' : UnitSys K) (n n' : Numbers K)
    (h : SamePhysics u u' n n') (j : K) : k0 c u n * j = k0 c u' n' * j := by
  obtain ⟨hxi, hlam, hd, -, -, -⟩ := h
  simp only [k0, bc2, hxi, hlam, hd]

/-- Flux quantisation of the link phases: the phase accumulated around a triangle in a uniform field is
    `2π · B · area / Φ0`, whatever point the vector potential is re-centred on. -/
theorem C08_flux_per_triangle (c : Consts K) (u : UnitSys K) (n : Numbers K) (hn : NonDeg c u n)
    (h2 : (2 : K) ≠ 0) (x1 y1 x2 y2 x3 y3 xc yc : K) :
    linkTheta c u n x1 y1 x2 y2 xc yc + linkTheta c u n x2 y2 x3 y3 xc yc + linkTheta c u n x3 y3 x1 y1 xc yc
      = 2 * c.pi * (n.B * u.fu) *
          (((x2 - x1) * (y3 - y1) - (x3 - x1) * (y2 - y1)) / 2 * (u.lu * u.lu)) / c.Phi0 := by
  obtain ⟨nlu, nfu, ncu, nxi, nlam, nd, nLt, npi, nmu0, nPhi0⟩ := hn
  simp only [linkTheta, uniformA, aScale, bc2]
  field_simp
  ring

end Tdgl.C08
