/-
  C20 — the edge → site reconstruction that every field computed from a solution starts with
  (`Mesh.get_quantity_on_site`, model `onSite` in Tdgl/Fields.lean): it is linear in the edge quantity, maps
  the zero current to zero, and the value at a site depends only on the edges that end there.
-/
import Mathlib.Algebra.BigOperators.Field
import Mathlib.Algebra.Field.Basic
import Mathlib.Tactic.Ring
import Mathlib.Tactic.FieldSimp
import Tdgl.Fields
import Tdgl.Lemmas.Sums

open Tdgl

namespace Tdgl.C20

variable {K : Type} [Field K]

theorem C20_onsite_linear (E : ℕ) (e0 e1 : ℕ → ℕ) (dir q q' : ℕ → K) (a b : K) (i : ℕ) :
    onSite E e0 e1 dir (fun e => a * q e + b * q' e) i
      = a * onSite E e0 e1 dir q i + b * onSite E e0 e1 dir q' i := by
  unfold onSite
  simp only [sumTo_eq]
  have h0 : ∀ (g : ℕ → ℕ), (Finset.sum (Finset.range E) fun e => if g e = i then (a * q e + b * q' e) * dir e else 0)
      = a * (Finset.sum (Finset.range E) fun e => if g e = i then q e * dir e else 0)
        + b * (Finset.sum (Finset.range E) fun e => if g e = i then q' e * dir e else 0) := by
    intro g
    rw [Finset.mul_sum, Finset.mul_sum, ← Finset.sum_add_distrib]
    refine Finset.sum_congr rfl fun e _ => ?_
    split_ifs <;> ring
  rw [h0 e0, h0 e1]
  ring

theorem C20_onsite_zero (E : ℕ) (e0 e1 : ℕ → ℕ) (dir : ℕ → K) (i : ℕ) :
    onSite E e0 e1 dir (fun _ => 0) i = 0 := by
  have := C20_onsite_linear E e0 e1 dir (fun _ => 0) (fun _ => 0) 0 0 i
  simpa using this

/-- the value at site `i` only depends on the edge quantity on the edges incident to `i` -/
theorem C20_onsite_local (E : ℕ) (e0 e1 : ℕ → ℕ) (dir q q' : ℕ → K) (i : ℕ)
    (h : ∀ e, e < E → (e0 e = i ∨ e1 e = i) → q e = q' e) :
    onSite E e0 e1 dir q i = onSite E e0 e1 dir q' i := by
  unfold onSite
  simp only [sumTo_eq]
  have h0 : (Finset.sum (Finset.range E) fun e => if e0 e = i then q e * dir e else 0)
      = (Finset.sum (Finset.range E) fun e => if e0 e = i then q' e * dir e else 0) := by
    refine Finset.sum_congr rfl fun e he => ?_
    split_ifs with hh
    · rw [h e (Finset.mem_range.mp he) (Or.inl hh)]
    · rfl
  have h1 : (Finset.sum (Finset.range E) fun e => if e1 e = i then q e * dir e else 0)
      = (Finset.sum (Finset.range E) fun e => if e1 e = i then q' e * dir e else 0) := by
    refine Finset.sum_congr rfl fun e he => ?_
    split_ifs with hh
    · rw [h e (Finset.mem_range.mp he) (Or.inr hh)]
    · rfl
  rw [h0, h1]

end Tdgl.C20
